package main

func init() {
	mut("C05", "revert-loop-conn", "proxy.go", "p.handle(ctx, s.currentConn(), brw)", "p.handle(ctx, conn, brw)", "C05.R2", "follows the session")
	mut("C05", "revert-setconn", "proxy.go", "\t\t\tsession.setConn(nconn, brw)\n", "", "C05.R3", "setConn")
	mut("C05", "setconn-with-raw-conn", "proxy.go", "\t\t\tsession.setConn(nconn, brw)\n", "\t\t\tsession.setConn(conn, brw)\n", "C05.R3", "setConn")
	mut("C05", "scheme-forced-after-modifier", "proxy.go",
		"\treq.URL.Scheme = \"http\"\n\tif session.IsSecure() {\n\t\tlog.Infof(\"martian: forcing HTTPS inside secure session\")\n\t\treq.URL.Scheme = \"https\"\n\t}\n",
		"\treq.URL.Scheme = \"http\"\n\tif session.IsSecure() && req.Method != \"CONNECT\" {\n\t\tlog.Infof(\"martian: forcing HTTPS inside secure session\")\n\t\treq.URL.Scheme = \"https\"\n\t}\n", "C05.R1", "secure edge")
	mut("C05", "scheme-downgrade-later", "proxy.go", "\treq.RemoteAddr = conn.RemoteAddr().String()\n", "\treq.RemoteAddr = conn.RemoteAddr().String()\n\tif req.URL.Port() == \"80\" {\n\t\treq.URL.Scheme = \"http\"\n\t}\n", "C05.R1", "last scheme store")
	mut("C05", "marksecure-unconditional", "proxy.go", "\tif tconn, ok := conn.(*tls.Conn); ok {\n\t\tsession.MarkSecure()\n", "\tif tconn, ok := conn.(*tls.Conn); ok || p.mitm != nil {\n\t\tsession.MarkSecure()\n\t\tif !ok {\n\t\t\treturn nil\n\t\t}\n", "C05.R1", "MarkSecure")
	mut("C05", "drop-shaped-tls-form", "proxy.go", "\t\tif sconn, ok := wrconn.(*tls.Conn); ok {\n\t\t\tsession.MarkSecure()\n\n\t\t\tcs := sconn.ConnectionState()\n\t\t\treq.TLS = &cs\n\t\t}\n", "\t\tif _, ok := wrconn.(*tls.Conn); ok {\n\t\t\tsession.MarkSecure()\n\t\t}\n", "C05.R2", "bare and traffic-shaped")
	mut("C05", "core-marks-insecure", "proxy.go", "\t\treturn p.handle(ctx, conn, brw)\n\t}\n\n\tlog.Debugf(\"martian: attempting to establish CONNECT tunnel", "\t\tsession.MarkInsecure()\n\t\treturn p.handle(ctx, conn, brw)\n\t}\n\n\tlog.Debugf(\"martian: attempting to establish CONNECT tunnel", "C05.R1", "MarkInsecure")
	mut("C05", "tunnel-new-session", "proxy.go", "\t\t\treturn p.handle(ctx, nconn, brw)\n", "\t\t\tns, _ := newSession(nconn, brw)\n\t\t\tnctx, _ := withSession(ns)\n\t\t\treturn p.handle(nctx, nconn, brw)\n", "C05.R4", "handle#1")
	mut("C05", "handler-marks-secure", "proxy.go", "\t\tif b[0] == 22 {\n", "\t\tsession.MarkSecure()\n\t\tif b[0] == 22 {\n", "C05.R5", "never marks")
	mut("C05", "tls-for-wrong-host", "proxy.go", "p.mitm.TLSForHost(req.Host))", "p.mitm.TLSForHost(req.URL.Hostname()))", "C05.R6", "CONNECT authority")
	mut("C05", "handoff-before-handshake-check", "proxy.go", "\t\t\tif err := tlsconn.Handshake(); err != nil {\n\t\t\t\tp.mitm.HandshakeErrorCallback(req, err)\n\t\t\t\treturn err\n\t\t\t}\n", "\t\t\tif err := tlsconn.Handshake(); err != nil {\n\t\t\t\tp.mitm.HandshakeErrorCallback(req, err)\n\t\t\t}\n", "C05.R3", "successful handshake")
	twin("C05", "tls-assert-switch", "proxy.go", "\tif tconn, ok := conn.(*tls.Conn); ok {\n\t\tsession.MarkSecure()\n\n\t\tcs := tconn.ConnectionState()\n\t\treq.TLS = &cs\n\t}\n", "\ttconn, isTLS := conn.(*tls.Conn)\n\tif isTLS {\n\t\tstate := tconn.ConnectionState()\n\t\tsession.MarkSecure()\n\t\treq.TLS = &state\n\t}\n")
	mut("C05", "shaped-tls-not-marked-secure", "proxy.go", "\t\tif sconn, ok := wrconn.(*tls.Conn); ok {\n\t\t\tsession.MarkSecure()\n", "\t\tif sconn, ok := wrconn.(*tls.Conn); ok {\n", "C05.R2", "marks its session secure (shaped")
	mut("C05", "mark-secure-vetoed", "context.go", "func (s *Session) MarkSecure() {\n\ts.mu.Lock()\n\tdefer s.mu.Unlock()\n\n\ts.secure = true", "func (s *Session) MarkSecure() {\n\ts.mu.Lock()\n\tdefer s.mu.Unlock()\n\n\tif s.hijacked {\n\t\treturn\n\t}\n\ts.secure = true", "C05.R1", "sets secure on every call")
	mut("C05", "connect-host-follows-url", "proxy.go", "\tif p.mitm != nil {\n\t\tlog.Debugf(\"martian: attempting MITM for connection: %s / %s\", req.Host, req.URL.String())", "\tif req.URL.Host != \"\" {\n\t\treq.Host = req.URL.Host\n\t}\n\tif p.mitm != nil {\n\t\tlog.Debugf(\"martian: attempting MITM for connection: %s / %s\", req.Host, req.URL.String())", "C05.R6", "leave the request's authority")
}
