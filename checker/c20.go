package main

import (
	"fmt"
	"go/token"
	"go/types"
	"strings"

	"golang.org/x/tools/go/ssa"
)

func init() {
	props["C20"] = c20
	floors["C20"] = map[string]int{"C20.R1": 6, "C20.R2": 6, "C20.R3": 3, "C20.R4": 8, "C20.R5": 6}
}

// sizeOfContent: v derives from the size of the content being served:
// len(m.body) or info.Size().
func sizeOfContent(w *World, v ssa.Value) bool {
	return anyIn(w.backSlice(v, flowOpt{BinOps: true}), func(x ssa.Value) bool {
		if c, ok := x.(*ssa.Call); ok {
			if b, isB := c.Call.Value.(*ssa.Builtin); isB && b.Name() == "len" {
				return anyIn(w.backSlice(c.Call.Args[0], flowOpt{}), func(y ssa.Value) bool { fa, z := y.(*ssa.FieldAddr); return z && fieldObj(fa).Name() == "body" })
			}
			return c.Call.IsInvoke() && c.Call.Method.Name() == "Size"
		}
		return false
	})
}

func fromAtoi(w *World, v ssa.Value) bool {
	return anyIn(w.backSlice(v, flowOpt{BinOps: true}), func(x ssa.Value) bool {
		e, ok := x.(*ssa.Extract)
		return ok && (isCallValue(e.Tuple, "strconv.Atoi") || isCallValue(e.Tuple, "strconv.ParseInt"))
	})
}

func c20(r *Report) {
	w := r.W
	r.Decline("multipart assembly correctness, MIME details, the Range grammar (suffix ranges, whitespace)")
	r.Decline("symlinks below the root, file-system races")
	mods := []struct {
		name string
		f    *ssa.Function
	}{{"body", r.Use("body", "Modifier.ModifyResponse")}, {"static", r.Use("static", "Modifier.ModifyResponse")}}
	for _, m := range mods {
		if m.f == nil {
			return
		}
	}

	r.Guard("C20.R1", "positions taken from the Range header are checked against the content before they are used", func() {
		for _, m := range mods {
			f := m.f
			// the pair recorded for later use: []int{start, end}
			var pair *ssa.Alloc
			for _, in := range instrs(f) {
				if a, ok := in.(*ssa.Alloc); ok && a.Type().String() == "*[2]int" {
					pair = a
				}
			}
			key := fmt.Sprintf("(*M/%s.Modifier).ModifyResponse: range bounds are clamped to the content", m.name)
			if pair == nil {
				r.Fail("flow", key, "no [start, end] pair recorded from the Range header", nil, f.Pos())
				continue
			}
			var startV, endV ssa.Value
			for _, u := range *pair.Referrers() {
				ia, ok := u.(*ssa.IndexAddr)
				if !ok {
					continue
				}
				idx, _ := constInt(ia.Index)
				for _, uu := range *ia.Referrers() {
					if st, ok := uu.(*ssa.Store); ok {
						if idx == 0 {
							startV = st.Val
						} else {
							endV = st.Val
						}
					}
				}
			}
			if startV == nil || endV == nil || !fromAtoi(w, startV) || !fromAtoi(w, endV) {
				r.Fail("flow", key, "the recorded pair does not come from the parsed Range header", nil, pair.Pos())
				continue
			}
			// (which pairs are accepted and what is recorded for them is decided by evaluation in
			// rangeArithmeticRules below; the shape-based versions of those two rules were retired
			// because they rejected equivalent formulations such as !(start <= end && start < size)
			// or a clamp through a min helper)
			// every slice of the content / buffer size uses the recorded pairs only
			okUse := true
			for _, in := range instrs(f) {
				switch x := in.(type) {
				case *ssa.Slice:
					if !anyIn(w.backSlice(x.X, flowOpt{}), func(v ssa.Value) bool { fa, y := v.(*ssa.FieldAddr); return y && fieldObj(fa).Name() == "body" }) {
						continue
					}
					for _, bnd := range []ssa.Value{x.Low, x.High} {
						if bnd != nil && directlyFromAtoi(bnd) {
							okUse = false // a freshly parsed value used directly, bypassing the checked pair
						}
					}
				case *ssa.MakeSlice:
					if directlyFromAtoi(x.Len) {
						okUse = false
					}
				}
			}
			r.Sites++
			r.Decide("flow", fmt.Sprintf("(*M/%s.Modifier).ModifyResponse: slices and buffers are sized from the checked pairs only", m.name), okUse, "no parsed value reaches a slice bound or make size directly", "a value parsed from the header is used as a bound without going through the checked pair", f.Pos())
		}
	})

	r.Guard("C20.R1", "the arithmetic of byte ranges, evaluated on a grid of positions around every boundary", func() {
		for _, m := range mods {
			rangeArithmeticRules(r, m.name, m.f)
		}
	})

	r.Guard("C20.R2", "Content-Length always describes the body that is attached", func() {
		for _, m := range mods {
			f := m.f
			g := G(f)
			n := 0
			for _, in := range instrs(f) {
				st, ok := in.(*ssa.Store)
				if !ok || msgFieldAddr(st.Addr, "Body") == nil {
					continue
				}
				n++
				key := fmt.Sprintf("(*M/%s.Modifier).ModifyResponse: body #%d and Content-Length agree", m.name, n)
				// the bytes attached
				var content ssa.Value
				for v := range w.backSlice(st.Val, flowOpt{Through: map[string]bool{"io/ioutil.NopCloser": true, "io.NopCloser": true, "bytes.NewReader": true}}) {
					if c, ok := v.(*ssa.Call); ok && calleeName(c) == "bytes.NewReader" {
						content = c.Call.Args[0]
					}
				}
				// the closest dominating ContentLength store
				var cl *ssa.Store
				for _, in2 := range instrs(f) {
					s2, ok := in2.(*ssa.Store)
					if !ok || msgFieldAddr(s2.Addr, "ContentLength") == nil {
						continue
					}
					if g.Before(s2, st) || (s2.Block() == st.Block()) {
						if cl == nil || g.Before(cl, s2) {
							cl = s2
						}
					}
				}
				if cl == nil {
					// a store that does not dominate the body but lies on every feasible way to it (the
					// length is set in the success arm of a helper whose failure arm is left by the
					// error test that follows): searched from the nearest block dominating both
					for _, in2 := range instrs(f) {
						s2, ok := in2.(*ssa.Store)
						if !ok || msgFieldAddr(s2.Addr, "ContentLength") == nil || !reachesAvoiding(s2.Block(), st.Block(), nil) {
							continue
						}
						d := st.Block()
						for d != nil && !(d.Dominates(s2.Block()) && d != st.Block()) {
							d = d.Idom()
						}
						if d == nil {
							continue
						}
						paths, okP := blockPathsUntil(d, st.Block(), 200)
						all := okP && len(paths) > 0
						for _, p := range paths {
							through := false
							for _, b := range p {
								if b == s2.Block() {
									through = true
								}
							}
							if !through {
								all = false
							}
						}
						if all {
							cl = s2
						}
					}
				}
				r.Sites++
				if content == nil {
					// the file itself: length is info.Size()
					ok2 := cl != nil && sizeOfContent(w, cl.Val) && strings.Contains(st.Val.Type().String(), "ReadCloser")
					r.Decide("flow", key, ok2, "whole file with its size", "the whole-file body is not paired with the file's size", st.Pos())
					continue
				}
				if cl == nil {
					r.Fail("flow", key, "no Content-Length is set for this body", nil, st.Pos())
					continue
				}
				ok2 := false
				// len(X) of the same bytes
				for v := range w.backSlice(cl.Val, flowOpt{}) {
					c, isC := v.(*ssa.Call)
					if !isC {
						continue
					}
					if b, isB := c.Call.Value.(*ssa.Builtin); isB && b.Name() == "len" {
						if c.Call.Args[0] == content || sameCall(c.Call.Args[0], content) || (isFieldLoad(content) && pathOf(c.Call.Args[0]) == pathOf(content)) {
							ok2 = true
						}
					}
				}
				// (*bytes.Buffer).Len() of the buffer whose Bytes() are attached
				for v := range w.backSlice(cl.Val, flowOpt{}) {
					if c, isC := v.(*ssa.Call); isC && calleeName(c) == "(*bytes.Buffer).Len" {
						for x := range w.backSlice(content, flowOpt{}) {
							if bc, isB := x.(*ssa.Call); isB && calleeName(bc) == "(*bytes.Buffer).Bytes" && bc.Call.Args[0] == c.Call.Args[0] {
								ok2 = true
							}
						}
					}
				}
				// or n with the body sliced to [:n]
				for v := range w.backSlice(content, flowOpt{}) {
					if sl, isS := v.(*ssa.Slice); isS && sl.High != nil && w.backSlice(cl.Val, flowOpt{})[sl.High] {
						ok2 = true
					}
				}
				r.Decide("flow", key, ok2, "Content-Length is len of the attached bytes (or the count the bytes are cut to)", "the attached body and the announced length are computed from different values: the client reads padding or a truncated body", st.Pos())
			}
		}
	})

	r.Guard("C20.R3", "the static modifier resolves every request path beneath its root", func() {
		// the root itself is normalised where it is configured ("" becomes ".", so that
		// Join(root, "/abs/path") stays relative to the working directory instead of
		// becoming the absolute path)
		if T := w.Named("static", "Modifier"); T != nil {
			if fo := structField(T, "rootPath"); fo != nil {
				n := 0
				for _, st := range w.fieldStores(fo) {
					n++
					cleaned := true
					for _, l := range resolveAll(st.Val) {
						if !isCallValue(l, "path.Clean", "path/filepath.Clean", "path/filepath.Abs") && !isExtractOfCall(l, "path/filepath.Abs") {
							cleaned = false
						}
					}
					r.Decide("flow", fmt.Sprintf("%s: the configured root is cleaned", fnName(st.Parent())), cleaned, "rootPath: path.Clean(rootPath)", "the root is stored as configured: an empty root stays empty and Join(\"\", \"/etc/passwd\") is the absolute path, so every file of the machine is served", st.Pos())
				}
				if n == 0 {
					r.Undecided("M/static.Modifier.rootPath", "UNRESOLVED: no store")
				}
			}
		}
		f := mods[1].f
		opens := plainCalls(f, "os.Open")
		if len(opens) != 1 {
			r.Fail("flow", "(*M/static.Modifier).ModifyResponse: os.Open", fmt.Sprintf("found %d os.Open calls", len(opens)), nil, f.Pos())
			return
		}
		sl := w.backSlice(opens[0].Call.Args[0], flowOpt{Through: map[string]bool{"path/filepath.Join": true, "path/filepath.Clean": true, "path.Join": true, "path.Clean": true}, BinOps: true})
		// every Join that feeds Open starts from the root
		okRoot := true
		nj := 0
		for v := range sl {
			c, ok := v.(*ssa.Call)
			if !ok || (calleeName(c) != "path/filepath.Join" && calleeName(c) != "path.Join") {
				continue
			}
			nj++
			if !sliceLitContains(w, c.Call.Args[0], func(x ssa.Value) bool {
				return anyIn(w.backSlice(x, flowOpt{}), func(y ssa.Value) bool { fa, z := y.(*ssa.FieldAddr); return z && fieldObj(fa).Name() == "rootPath" })
			}) {
				okRoot = false
			}
		}
		// and every value the opened path can take is such a Join
		for _, leaf := range resolveAll(opens[0].Call.Args[0]) {
			c, isC := leaf.(*ssa.Call)
			if !isC || (calleeName(c) != "path/filepath.Join" && calleeName(c) != "path.Join") {
				okRoot = false
			}
		}
		r.Decide("flow", "(*M/static.Modifier).ModifyResponse: the opened path is Join(rootPath, ...)", okRoot && nj >= 1, "every path handed to os.Open is joined to the root", "a file is opened from a path that is not joined to the root", opens[0].Pos())
		// the request path is made absolute before Clean
		okAbs := false
		for v := range sl {
			c, ok := v.(*ssa.Call)
			if !ok || (calleeName(c) != "path/filepath.Clean" && calleeName(c) != "path.Clean") {
				continue
			}
			if !anyIn(w.backSlice(c.Call.Args[0], flowOpt{BinOps: true}), func(x ssa.Value) bool { fa, z := x.(*ssa.FieldAddr); return z && fieldObj(fa).Name() == "Path" }) {
				continue
			}
			if b, isB := c.Call.Args[0].(*ssa.BinOp); isB && b.Op == token.ADD {
				if s, isC := constString(b.X); isC && strings.HasPrefix(s, "/") {
					okAbs = true
				}
			}
		}
		r.Decide("flow", "(*M/static.Modifier).ModifyResponse: the request path is rooted before it is cleaned and joined", okAbs, "Clean(\"/\" + URL.Path)", "Clean is applied to a possibly relative path: leading \"..\" elements survive and the joined path leaves the root", opens[0].Pos())
		// nothing rewrites the path between Clean and Join: whatever part of a
		// joined path depends on the request is the result of Clean itself
		// (unescaping or trimming afterwards can bring ".." back)
		badLeaf := ""
		for v := range sl {
			c, ok := v.(*ssa.Call)
			if !ok || (calleeName(c) != "path/filepath.Join" && calleeName(c) != "path.Join") {
				continue
			}
			sliceLitContains(w, c.Call.Args[0], func(e ssa.Value) bool {
				for _, leaf := range resolveAll(e) {
					fromReq := anyIn(w.backSlice(leaf, flowOpt{BinOps: true, Through: map[string]bool{"net/url.PathUnescape": true, "net/url.QueryUnescape": true, "strings.TrimPrefix": true, "strings.TrimSuffix": true, "strings.TrimLeft": true, "strings.Trim": true, "strings.Replace": true, "strings.ReplaceAll": true, "strings.ToLower": true, "path/filepath.FromSlash": true, "path/filepath.ToSlash": true, "path/filepath.Clean": true, "path.Clean": true}, CallArg: true}), func(x ssa.Value) bool {
						fa, z := x.(*ssa.FieldAddr)
						return z && (fieldObj(fa).Name() == "Path" || fieldObj(fa).Name() == "RawPath" || fieldObj(fa).Name() == "RequestURI")
					})
					if !fromReq {
						continue
					}
					if lc, isC := leaf.(*ssa.Call); isC && (calleeName(lc) == "path/filepath.Clean" || calleeName(lc) == "path.Clean") {
						continue
					}
					badLeaf = describeVal(leaf)
				}
				return false
			})
		}
		r.Decide("flow", "(*M/static.Modifier).ModifyResponse: the request-derived part of the joined path is the cleaned path itself", badLeaf == "", "every request-dependent element handed to Join is the direct result of Clean", "the path is transformed after it was cleaned ("+badLeaf+"): dot segments can reappear (e.g. from %252e%252e) and Join then resolves outside the root", opens[0].Pos())
		// explicit mappings are joined to the root as well (checked by okRoot) and keyed by the cleaned path
		okNF := false
		for _, in := range instrs(f) {
			st, ok := in.(*ssa.Store)
			if !ok {
				continue
			}
			if fa, ok := st.Addr.(*ssa.FieldAddr); ok && fieldObj(fa).Name() == "StatusCode" {
				if n, isC := constInt(st.Val); isC && n == 404 {
					okNF = true
				}
			}
		}
		r.Decide("path", "(*M/static.Modifier).ModifyResponse: a missing file is answered 404", okNF, "StatusCode = 404", "a path that does not exist is not answered 404", f.Pos())
	})

	r.Guard("C20.R4", "status discipline: 416 before any body is attached, 206 with Content-Range, one part per range, the multipart writer closed before its buffer is served", func() {
		// every element of the Range list either becomes a range or rejects the request:
		// nothing is skipped, so the range list cannot come out empty (which would fall
		// through to a multipart answer without parts)
		for _, m := range mods {
			g := G(m.f)
			for _, in := range instrs(m.f) {
				// the element of a range-over-slice loop: &list[i] with list from strings.Split
				ia, ok := in.(*ssa.IndexAddr)
				if !ok || !inLoop(ia.Block()) || !anyIn(w.backSlice(ia.X, flowOpt{}), func(v ssa.Value) bool { return isCallValue(v, "strings.Split") }) {
					continue
				}
				idx, ok := ia.Index.(*ssa.BinOp)
				if !ok || idx.Op != token.ADD {
					continue // not the loop's own element access
				}
				nx := ssa.Instruction(idx) // the increment in the loop header: reaching it again starts the next iteration
				isAppend := func(i ssa.Instruction) bool {
					c, ok := i.(*ssa.Call)
					if !ok {
						return false
					}
					b, ok := c.Call.Value.(*ssa.Builtin)
					return ok && b.Name() == "append"
				}
				p := g.PathTo([]ssa.Instruction{ia}, false, isAppend, func(i ssa.Instruction) bool { return i == nx })
				r.Paths++
				r.Decide("path", fmt.Sprintf("(*M/%s.Modifier).ModifyResponse: no element of the Range list is skipped", m.name), p == nil, "every iteration of the parse loop appends a range or leaves the function", "an element of the Range list can be skipped without yielding a range or an error: a header naming no range at all is answered 206 with an empty multipart body instead of 416", ia.Pos())
			}
		}

		errorsReturnedRule(r, r.W.Fn("body", "Modifier.ModifyResponse"), false)
		errorsReturnedRule(r, r.W.Fn("static", "Modifier.ModifyResponse"), false)

		for _, m := range mods {
			f := m.f
			g := G(f)
			isBodyStore := func(i ssa.Instruction) bool {
				st, ok := i.(*ssa.Store)
				return ok && msgFieldAddr(st.Addr, "Body") != nil
			}
			ok416 := true
			n416 := 0
			for _, in := range instrs(f) {
				st, ok := in.(*ssa.Store)
				if !ok {
					continue
				}
				if fa, ok := st.Addr.(*ssa.FieldAddr); ok && fieldObj(fa).Name() == "StatusCode" {
					if n, isC := constInt(st.Val); isC && n == 416 {
						n416++
						if g.PathTo([]ssa.Instruction{st}, false, nil, isBodyStore) != nil {
							ok416 = false
						}
					}
				}
			}
			r.Sites++
			r.Decide("path", fmt.Sprintf("(*M/%s.Modifier).ModifyResponse: an unsatisfiable range returns 416 without attaching a body", m.name), ok416 && n416 >= 1, fmt.Sprintf("%d rejecting arms, each returns", n416), "after setting 416 a body is still attached, or a rejecting arm is missing", f.Pos())
			// single range: Content-Range set
			okCR := false
			for _, h := range headerCalls(f) {
				if h.Method == "Set" && h.Key == "Content-Range" {
					okCR = true
				}
			}
			r.Decide("table", fmt.Sprintf("(*M/%s.Modifier).ModifyResponse: a single range carries Content-Range", m.name), okCR, "Header.Set(\"Content-Range\", ...)", "a 206 with a single range lacks Content-Range", f.Pos())
			// multipart: one CreatePart and one part Write per iteration, Close before the buffer is served
			cps := plainCalls(f, "(*mime/multipart.Writer).CreatePart")
			okMP := len(cps) == 1 && inLoop(cps[0].Block())
			if okMP {
				nw := 0
				for _, c := range calls(f) {
					if cc, y := c.(*ssa.Call); y && cc.Call.IsInvoke() && cc.Call.Method.Name() == "Write" && inLoop(cc.Block()) {
						if cc.Call.Value == resultOf(cps[0], 0) {
							nw++
						}
					}
				}
				okMP = nw == 1
			}
			r.Decide("path", fmt.Sprintf("(*M/%s.Modifier).ModifyResponse: one multipart part per range", m.name), okMP, "one CreatePart and one Write per loop iteration", "ranges and multipart parts are not one to one", f.Pos())
			okClose := false
			for _, c := range plainCalls(f, "(*mime/multipart.Writer).Close") {
				okClose = true
				// every later Body store lies after the Close
				for _, in := range instrs(f) {
					if isBodyStore(in) && anyIn(w.backSlice(in.(*ssa.Store).Val, flowOpt{Through: map[string]bool{"io/ioutil.NopCloser": true, "io.NopCloser": true, "bytes.NewReader": true}}), func(v ssa.Value) bool { return isCallValue(v, "(*bytes.Buffer).Bytes") }) {
						if !g.Before(c, in) {
							okClose = false
						}
					}
				}
			}
			// the assembled multipart body is what the answer carries: from the writer's Close
			// every path attaches its buffer as the body and announces multipart/byteranges
			// with the writer's boundary; every part is introduced by its own Content-Type and
			// Content-Range
			for _, c := range plainCalls(f, "(*mime/multipart.Writer).Close") {
				isMPBody := func(i ssa.Instruction) bool {
					return isBodyStore(i) && anyIn(w.backSlice(i.(*ssa.Store).Val, flowOpt{Through: map[string]bool{"io/ioutil.NopCloser": true, "io.NopCloser": true, "bytes.NewReader": true}}), func(v ssa.Value) bool { return isCallValue(v, "(*bytes.Buffer).Bytes") })
				}
				isMPType := func(i ssa.Instruction) bool {
					hc, y := isCall(i, "(net/http.Header).Set")
					if !y {
						return false
					}
					if k, isK := constString(hc.Common().Args[1]); !isK || k != "Content-Type" {
						return false
					}
					return anyIn(w.backSlice(hc.Common().Args[2], flowOpt{BinOps: true, Through: map[string]bool{"fmt.Sprintf": true}, CallArg: true}), func(v ssa.Value) bool {
						sfmt, isK := constString(v)
						return isK && strings.HasPrefix(sfmt, "multipart/byteranges; boundary=")
					})
				}
				// (a return that hands on the error of Close itself is not an answer)
				isAnswer := func(i ssa.Instruction) bool {
					ret, isRet := i.(*ssa.Return)
					if !isRet || len(ret.Results) == 0 {
						return isRet
					}
					for _, l := range resolveAll(ret.Results[len(ret.Results)-1]) {
						if isNilConst(l) {
							return true
						}
					}
					return false
				}
				pb := g.PathTo([]ssa.Instruction{c}, false, isMPBody, isAnswer)
				pt := g.PathTo([]ssa.Instruction{c}, false, isMPType, isAnswer)
				// the length announced is the length of the finished body: the buffer is measured after
				// Close has written the closing delimiter, not before
				{
					nLen, okLen := 0, true
					var at token.Pos = c.Pos()
					for _, in := range instrs(f) {
						st, isSt := in.(*ssa.Store)
						if !isSt || msgFieldAddr(st.Addr, "ContentLength") == nil {
							continue
						}
						for v := range w.backSlice(st.Val, flowOpt{}) {
							lc, isC := v.(*ssa.Call)
							if !isC {
								continue
							}
							measures := calleeName(lc) == "(*bytes.Buffer).Len"
							if b, isB := lc.Call.Value.(*ssa.Builtin); isB && b.Name() == "len" && isCallValue(lc.Call.Args[0], "(*bytes.Buffer).Bytes") {
								measures = true
							}
							if !measures || !g.Before(c, st) {
								continue
							}
							nLen++
							if !g.Before(c, lc) {
								okLen = false
								at = lc.Pos()
							}
						}
					}
					r.Decide("path", fmt.Sprintf("(*M/%s.Modifier).ModifyResponse: the multipart body is measured after its writer is closed", m.name), nLen >= 1 && okLen, "the Len() / len(Bytes()) that feeds Content-Length follows Close", "Content-Length is taken from the buffer before Close appends the closing delimiter: a multi-range answer announces fewer octets than it carries and the client cuts the last boundary off (or the connection desynchronises)", at)
				}
				r.Decide("path", fmt.Sprintf("(*M/%s.Modifier).ModifyResponse: the multipart buffer becomes the body of a multi-range answer", m.name), pb == nil, "a Body store fed by the buffer's Bytes() lies on every path from Close to the return", "a multi-range request is answered 206 with the original body (or none): the assembled parts are dropped", c.Pos())
				r.Decide("path", fmt.Sprintf("(*M/%s.Modifier).ModifyResponse: a multi-range answer is announced as multipart/byteranges", m.name), pt == nil, "Content-Type: multipart/byteranges; boundary=... is set on every path from Close to the return", "the multipart body goes out under the file's own Content-Type: the client cannot take the parts apart", c.Pos())
			}
			// the boundary the body modifier generates by default is one multipart.Writer accepts
			// (1 to 70 characters): SetBoundary refuses a longer one silently here, and the
			// Content-Type then announces a boundary the body does not use
			if m.name == "body" {
				// every modifier draws its own default boundary (one boundary per process is known to
				// whoever has seen a single multi-range answer, and content can then be made to contain it)
				if nm := w.Fn("body", "NewModifier"); nm != nil && nm.Blocks != nil {
					r.Touch(nm)
					own := false
					nb := 0
					for _, a := range allocsOf(nm, M+"/body.Modifier") {
						for _, st := range litFieldStores(a)["boundary"] {
							nb++
							own = true
							for _, l := range resolveAll(st.Val) {
								if c, isC := l.(*ssa.Call); !isC || calleeName(c) != "M/body.randomBoundary" || c.Parent() != nm {
									own = false
								}
							}
						}
					}
					r.Decide("flow", "M/body.NewModifier: the default boundary is drawn for this modifier", nb >= 1 && own, "boundary: randomBoundary(), called in NewModifier", "the default boundary is not a fresh random value of this modifier (a package-level one drawn once): every multi-range answer of the process uses the same boundary, and a body that contains it is cut into more parts than ranges were asked for", nm.Pos())
				}
				if rb := w.Fn("body", "randomBoundary"); rb != nil && rb.Blocks != nil {
					r.Touch(rb)
					maxLen, known := 0, false
					for _, c := range plainCalls(rb, "fmt.Sprintf") {
						format, isK := constString(c.Call.Args[0])
						if !isK {
							continue
						}
						known = true
						ops := concatOperands(c)
						k := 0
						for i := 0; i < len(format); i++ {
							if format[i] != '%' || i+1 >= len(format) {
								maxLen++
								continue
							}
							verb := format[i+1]
							i++
							if verb == '%' {
								maxLen++
								continue
							}
							if k >= len(ops) {
								known = false
								break
							}
							op := ops[k]
							k++
							switch {
							case verb == 'x':
								n := int64(-1)
								for v := range w.backSlice(op, flowOpt{}) {
									if a, isA := v.(*ssa.Alloc); isA {
										if arr, isArr := a.Type().(*types.Pointer).Elem().Underlying().(*types.Array); isArr {
											n = arr.Len()
										}
									}
								}
								if n < 0 {
									known = false
								}
								maxLen += int(2 * n)
							case verb == 's':
								if s, isS := constString(op); isS {
									maxLen += len(s)
								} else {
									known = false
								}
							default:
								known = false
							}
						}
					}
					arrLen := func(op ssa.Value) int64 {
						n := int64(-1)
						for v := range w.backSlice(op, flowOpt{}) {
							if a, isA := v.(*ssa.Alloc); isA {
								if arr, isArr := a.Type().(*types.Pointer).Elem().Underlying().(*types.Array); isArr {
									n = arr.Len()
								}
							}
						}
						return n
					}
					for _, c := range plainCalls(rb, "encoding/hex.EncodeToString") {
						// the whole boundary is the hex form of a fixed-size array
						returned := false
						for _, ret := range returns(rb) {
							for _, l := range resolveAll(ret.Results[0]) {
								if l == ssa.Value(c) {
									returned = true
								}
							}
						}
						if n := arrLen(c.Call.Args[0]); returned && n >= 0 && maxLen == 0 {
							known = true
							maxLen = int(2 * n)
						}
					}
					r.Decide("table", "M/body.randomBoundary: the default boundary is at most 70 characters long", known && maxLen >= 1 && maxLen <= 70, fmt.Sprintf("%d characters", maxLen), fmt.Sprintf("the generated boundary has %d characters (or an undeterminable length): multipart.Writer.SetBoundary refuses boundaries over 70, the parts are written with another boundary than the Content-Type announces, and no part of a multi-range answer can be decoded", maxLen), rb.Pos())
				}
			}
			for _, cp := range plainCalls(f, "(*mime/multipart.Writer).CreatePart") {
				have := map[string]bool{}
				for _, hc := range plainCalls(f, "(net/textproto.MIMEHeader).Set") {
					if k, isK := constString(hc.Call.Args[1]); isK && g.Before(hc, cp) && inLoop(hc.Block()) {
						have[k] = true
					}
				}
				r.Decide("path", fmt.Sprintf("(*M/%s.Modifier).ModifyResponse: every part is introduced by Content-Type and Content-Range", m.name), have["Content-Type"] && have["Content-Range"], "both header lines are set in the loop before CreatePart", "a part of a multi-range answer lacks its Content-Range (or Content-Type): the client cannot tell which octets it holds", cp.Pos())
			}
			r.Decide("path", fmt.Sprintf("(*M/%s.Modifier).ModifyResponse: the multipart writer is closed before its buffer becomes the body", m.name), okClose, "mpw.Close() precedes the body assignment", "the closing boundary is missing from the multipart body", f.Pos())
		}
	})

	r.Guard("C20.R5", "a synthesised body never aliases storage of the shared modifier that an answer writes to", func() {
		// A modifier value serves every matching response, concurrently and one after the other; a
		// body that points into scratch storage kept on the modifier is overwritten by the next
		// answer before the first one was read.
		for _, m := range mods {
			f := m.f
			all := map[string]bool{}
			for _, c := range calls(f) {
				all[calleeName(c)] = true
			}
			n := 0
			for _, in := range instrs(f) {
				st, ok := in.(*ssa.Store)
				if !ok || msgFieldAddr(st.Addr, "Body") == nil {
					continue
				}
				n++
				var bad *ssa.FieldAddr
				for v := range w.backSlice(st.Val, flowOpt{Through: all, BinOps: true}) {
					fa, isFa := v.(*ssa.FieldAddr)
					if !isFa || fa.X != ssa.Value(f.Params[0]) || fa.Referrers() == nil {
						continue
					}
					// only a pointer that is used for more than reading the field can be written through
					for _, u := range *fa.Referrers() {
						if ld, isLd := u.(*ssa.UnOp); isLd && ld.Op == token.MUL {
							continue
						}
						if _, isDbg := u.(*ssa.DebugRef); isDbg {
							continue
						}
						bad = fa
					}
				}
				// a buffer whose bytes become the body belongs to this answer alone: it is a
				// variable of this call, not taken from a pool or another holder that gets it
				// back while the body is still unread
				for v := range w.backSlice(st.Val, flowOpt{Through: map[string]bool{"io/ioutil.NopCloser": true, "io.NopCloser": true, "bytes.NewReader": true}}) {
					bc, isC := v.(*ssa.Call)
					if !isC || calleeName(bc) != "(*bytes.Buffer).Bytes" {
						continue
					}
					own := true
					for _, l := range resolveAll(bc.Call.Args[0]) {
						a, isA := l.(*ssa.Alloc)
						if !isA || a.Parent() != f {
							own = false
						}
					}
					r.Decide("flow", fmt.Sprintf("(*M/%s.Modifier).ModifyResponse: the buffer behind body assignment #%d is a variable of this call", m.name, n), own, "var buf bytes.Buffer / new(bytes.Buffer) in this function", "the buffer whose bytes are attached as the body comes from a pool (or another shared holder) and goes back there when the function returns: the next multi-range answer overwrites a body that is still being sent", st.Pos())
				}
				key := fmt.Sprintf("(*M/%s.Modifier).ModifyResponse: body assignment #%d does not alias modifier-owned scratch storage", m.name, n)
				if bad != nil {
					r.Fail("flow", key, fmt.Sprintf("the body is backed by the modifier's field %s, whose address is handed out for writing in this function: the next answer overwrites a body that was not read yet", fieldObj(bad).Name()), nil, st.Pos())
				} else {
					r.Hold("flow", key, "the body is backed by the configured content (read only) or by storage allocated for this answer", st.Pos())
				}
			}
		}
	})
}

// directlyFromAtoi: v is computed from a parse result through registers only
// (arithmetic, conversions, phis), without passing through memory.
func directlyFromAtoi(v ssa.Value) bool {
	seen := map[ssa.Value]bool{}
	var walk func(v ssa.Value) bool
	walk = func(v ssa.Value) bool {
		if v == nil || seen[v] {
			return false
		}
		seen[v] = true
		switch x := v.(type) {
		case *ssa.Extract:
			return isCallValue(x.Tuple, "strconv.Atoi") || isCallValue(x.Tuple, "strconv.ParseInt")
		case *ssa.BinOp:
			return walk(x.X) || walk(x.Y)
		case *ssa.Convert:
			return walk(x.X)
		case *ssa.ChangeType:
			return walk(x.X)
		case *ssa.Phi:
			for _, e := range x.Edges {
				if walk(e) {
					return true
				}
			}
		}
		return false
	}
	return walk(v)
}

func isFieldLoad(v ssa.Value) bool {
	ld, ok := v.(*ssa.UnOp)
	if !ok || ld.Op != token.MUL {
		return false
	}
	_, ok = ld.X.(*ssa.FieldAddr)
	return ok
}

// hasMinusOne: v is <something> - 1 (possibly converted).
func hasMinusOne(v ssa.Value) bool {
	b, ok := unwrapConv(v).(*ssa.BinOp)
	if !ok || b.Op != token.SUB {
		return false
	}
	n, isC := constInt(b.Y)
	return isC && n == 1
}

// condLeaves returns the comparison(s) an If condition consists of (the
// condition itself; short-circuit operators are separate Ifs in SSA).
func condLeaves(v ssa.Value) []*ssa.BinOp {
	if b, ok := v.(*ssa.BinOp); ok {
		return []*ssa.BinOp{b}
	}
	return nil
}

// sameCall: two calls of the same method on the same receiver (mpbody.Bytes()).
func sameCall(a, b ssa.Value) bool {
	ca, ok1 := a.(*ssa.Call)
	cb, ok2 := b.(*ssa.Call)
	if !ok1 || !ok2 || calleeName(ca) != calleeName(cb) || len(ca.Call.Args) != len(cb.Call.Args) {
		return false
	}
	for i := range ca.Call.Args {
		if ca.Call.Args[i] != cb.Call.Args[i] {
			return false
		}
	}
	return calleeName(ca) != ""
}
