package main

func init() {
	mut("C18", "revert-recursive-rlock", "trafficshape/conn.go", "\t\treturn nextActionFromIndex(actions, int64(ind))\n", "\t\treturn c.GetNextActionFromIndex(int64(ind))\n", "C18.R4", "GetNextActionFromByte")
	mut("C18", "revert-bucket-close", "trafficshape/conn.go", "\tfor _, b := range c.LocalBuckets {\n\t\tb.ReadBucket.Close()\n\t\tb.WriteBucket.Close()\n\t}\n", "", "C18.R7", "Conn).Close")
	mut("C18", "swap-before-parse", "trafficshape/handler.go", "\t// Parse and verify the received shapes.\n\tif err := parseShapes(", "\th.l.ReadBucket.SetCapacity(defaults.Bandwidth.Down)\n\t// Parse and verify the received shapes.\n\tif err := parseShapes(", "C18.R1", "")
	mut("C18", "negative-latency-accepted", "trafficshape/handler.go", "if defaults.Bandwidth.Up < 0 || defaults.Bandwidth.Down < 0 || defaults.Latency < 0 {", "if defaults.Bandwidth.Up < 0 || defaults.Bandwidth.Down < 0 {", "C18.R2", "Default.Latency")
	mut("C18", "halt-duration-unchecked", "trafficshape/utils.go", "\t\t\tif value.Duration < 0 || value.Byte < 0 {", "\t\t\tif value.Byte < 0 {", "C18.R2", "Halt.Duration")
	mut("C18", "regex-error-ignored", "trafficshape/utils.go", "\t\t\treturn fmt.Errorf(\"url_regex for shape at index doesn't compile: %d\", shapeIndex)\n", "\t\t\t_ = shapeIndex\n", "C18.R2", "regexp.Compile")
	mut("C18", "unlock-missing-in-halt-arm", "trafficshape/conn.go", "\t\t\t\t\tc.Shapes.M[c.Context.URLRegex].Unlock()\n\t\t\t\t\tc.Shapes.RUnlock()\n\t\t\t\t\ttime.Sleep(time.Duration(d) * time.Millisecond)", "\t\t\t\t\tc.Shapes.M[c.Context.URLRegex].Unlock()\n\t\t\t\t\ttime.Sleep(time.Duration(d) * time.Millisecond)", "C18.R3", "time.Sleep")
	mut("C18", "context-not-reset", "proxy.go", "\t\tptsconn.Context = &trafficshape.Context{}\n", "", "C18.R5", "")
	mut("C18", "close-action-keeps-writing", "trafficshape/conn.go", "\t\t\t\t\treturn int(total), &ErrForceClose{message: \"Forcing close connection\"}\n", "\t\t\t\t\tc.conn.Write(b)\n\t\t\t\t\treturn int(total), &ErrForceClose{message: \"Forcing close connection\"}\n", "C18.R6", "")
	mut("C18", "swap-outside-lock", "trafficshape/handler.go", "\th.l.Shapes.Lock()\n\n\th.l.Shapes.LastModifiedTime = time.Now()\n", "\th.l.Shapes.LastModifiedTime = time.Now()\n\th.l.Shapes.Lock()\n\n", "C18.R1", "")
	mut("C18", "inner-max-shadowed", "trafficshape/conn.go", "\t\t\t\tmax = min(rem, max)\n", "\t\t\t\tmax := min(rem, max)\n", "C18.R8", "advanced")
	twin("C18", "advance-by-reported-count", "trafficshape/conn.go", "\t\ttotal += n\n\n\t\tb = b[max:]\n", "\t\ttotal += n\n\n\t\tb = b[n:]\n")
	mut("C18", "close-early-return", "trafficshape/conn.go", "\t// The per-URL buckets are created for this connection alone; each owns a\n\t// ticker and a goroutine.\n\tfor _, b := range c.LocalBuckets {", "\tif err := c.conn.SetDeadline(time.Now()); err != nil {\n\t\treturn err\n\t}\n\tfor _, b := range c.LocalBuckets {", "C18.R7", "every exit")
	mut("C18", "shaping-for-invalid-range", "proxy.go", "rangeStart := proxyutil.GetRangeStart(res); rangeStart > -1 {", "rangeStart := proxyutil.GetRangeStart(res); rangeStart >= -1 {", "C18.R5", "valid single range")
	mut("C18", "throttle-at-start-not-applied", "proxy.go", "\t\t\t\t\tif ptsconn.Context.ThrottleContext.ThrottleNow {\n", "\t\t\t\t\tif ptsconn.Context.ThrottleContext.ThrottleNow && rangeStart == 0 {\n\t\t\t\t\t\tlog.Debugf(\"trafficshape: throttled from the start\")\n\t\t\t\t\t}\n\t\t\t\t\tif false {\n", "C18.R5", "throttled from its first byte")
	mut("C18", "throttle-looked-up-at-zero", "proxy.go", "ptsconn.GetCurrentThrottle(rangeStart)", "ptsconn.GetCurrentThrottle(0)", "C18.R5", "ThrottleContext is looked up")
	twin("C18", "range-test-as-not-negative", "proxy.go", "rangeStart := proxyutil.GetRangeStart(res); rangeStart > -1 {", "rangeStart := proxyutil.GetRangeStart(res); rangeStart >= 0 {")
}
