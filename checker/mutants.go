package main

// Self-validation (DESIGN.md section 6). A mutant is a small source edit that
// breaks one instance of one rule and still type-checks; a twin is a
// behaviour-preserving rewrite on which every rule must stay silent. Both are
// applied as go/packages overlays on the *current* /repo files (nothing is
// written under /repo); one that no longer applies is skipped and reported.
// The self-test never changes the exit status of a check: it is evidence about
// the checker, not about /repo.

import (
	"bytes"
	"encoding/json"
	"fmt"
	"os"
	"os/exec"
	"path/filepath"
	"sort"
	"strings"
	"sync"
)

type mutant struct {
	Prop   string
	Name   string
	File   string // repo-relative
	Old    string // must occur exactly once in File
	New    string
	Rule   string // rule expected to report (empty for a twin)
	Substr string // expected substring of the construct key ("" = any)
	Twin   bool
}

var mutants []mutant

func mut(prop, name, file, old, new, rule, substr string) {
	mutants = append(mutants, mutant{Prop: prop, Name: name, File: file, Old: old, New: new, Rule: rule, Substr: substr})
}
func twin(prop, name, file, old, new string) {
	mutants = append(mutants, mutant{Prop: prop, Name: name, File: file, Old: old, New: new, Twin: true})
}

type mutantResult struct {
	Name     string   `json:"name"`
	Kind     string   `json:"kind"`
	Expected string   `json:"expected,omitempty"`
	Outcome  string   `json:"outcome"` // detected | missed | silent | noisy | skipped | error
	Reports  []string `json:"reports,omitempty"`
}

// runSelfTest runs every mutant/twin of prop in a subprocess of this binary.
// baseline is the set of non-holding obligation keys on the unmodified tree.
func runSelfTest(prop, repo string, baseline map[string]bool, only string) []mutantResult {
	var sel []mutant
	for _, m := range mutants {
		if m.Prop == prop && (only == "" || strings.Contains(m.Name, only)) {
			sel = append(sel, m)
		}
	}
	res := make([]mutantResult, len(sel))
	tmp, err := os.MkdirTemp("", "martian-verif-selftest-")
	if err != nil {
		return []mutantResult{{Name: "setup", Outcome: "error", Reports: []string{err.Error()}}}
	}
	defer os.RemoveAll(tmp)
	sem := make(chan bool, 5)
	var wg sync.WaitGroup
	for i, m := range sel {
		i, m := i, m
		kind := "mutant"
		if m.Twin {
			kind = "twin"
		}
		res[i] = mutantResult{Name: m.Name, Kind: kind, Expected: strings.TrimSpace(m.Rule + " " + m.Substr)}
		src, err := os.ReadFile(filepath.Join(repo, m.File))
		// several edits in one file: Old and New are "\x00"-separated lists of equal length
		olds, news := strings.Split(m.Old, "\x00"), strings.Split(m.New, "\x00")
		applies := err == nil && len(olds) == len(news)
		out := src
		for k := range olds {
			if !applies || bytes.Count(out, []byte(olds[k])) != 1 {
				applies = false
				break
			}
			out = bytes.Replace(out, []byte(olds[k]), []byte(news[k]), 1)
		}
		if !applies {
			res[i].Outcome = "skipped"
			res[i].Reports = []string{"edit no longer applies to the current source (anchor text not found exactly once)"}
			continue
		}
		tf := filepath.Join(tmp, fmt.Sprintf("m%d.go", i))
		os.WriteFile(tf, out, 0o644)
		wg.Add(1)
		go func() {
			defer wg.Done()
			sem <- true
			defer func() { <-sem }()
			cmd := exec.Command(os.Args[0], "-prop", prop, "-raw", "-repo", repo, "-overlay", m.File+"="+tf)
			var stdout, stderr bytes.Buffer
			cmd.Stdout = &stdout
			cmd.Stderr = &stderr
			err := cmd.Run()
			if err != nil {
				res[i].Outcome = "error"
				res[i].Reports = []string{err.Error(), firstLines(stdout.String()+stderr.String(), 6)}
				return
			}
			var fresh []string
			hit := false
			for _, line := range strings.Split(stdout.String(), "\n") {
				line = strings.TrimSpace(line)
				if !strings.HasPrefix(line, "{") {
					if strings.HasPrefix(line, "TOOLING-ERROR") {
						res[i].Outcome = "error"
						res[i].Reports = []string{line}
						return
					}
					continue
				}
				var o Ob
				if json.Unmarshal([]byte(line), &o) != nil {
					continue
				}
				k := o.Rule + "|" + o.Construct
				if baseline[k] {
					continue
				}
				fresh = append(fresh, fmt.Sprintf("%s [%s] %s: %s", o.Rule, o.Verdict, o.Construct, o.Reason))
				if o.Rule == m.Rule && strings.Contains(o.Construct, m.Substr) {
					hit = true
				}
			}
			sort.Strings(fresh)
			if len(fresh) > 6 {
				fresh = append(fresh[:6], fmt.Sprintf("... %d more", len(fresh)-6))
			}
			res[i].Reports = fresh
			switch {
			case m.Twin && len(fresh) == 0:
				res[i].Outcome = "silent"
			case m.Twin:
				res[i].Outcome = "noisy"
			case hit:
				res[i].Outcome = "detected"
			default:
				res[i].Outcome = "missed"
			}
		}()
	}
	wg.Wait()
	return res
}

func firstLines(s string, n int) string {
	l := strings.Split(s, "\n")
	if len(l) > n {
		l = l[:n]
	}
	return strings.Join(l, "\n")
}
