package main

func init() {
	mut("C04", "copy-from-raw-conn", "proxy.go", "\tgo copySync(cconn, brw, donec)\n", "\tgo copySync(cconn, conn, donec)\n", "C04.R1", "client-to-target")
	mut("C04", "revert-unbuffered-copy", "proxy.go", "\tgo copySync(cconn, brw, donec)\n", "\tgo copySync(bufio.NewWriter(cconn), brw, donec)\n", "C04.R6", "copier #1")
	mut("C04", "client-side-buffered", "proxy.go", "\tgo copySync(conn, cbr, donec)\n", "\tgo copySync(brw, cbr, donec)\n", "C04.R6", "copier #2")
	mut("C04", "join-only-one", "proxy.go", "\t<-donec\n\t<-donec\n", "\t<-donec\n", "C04.R2", "receives before tunnel exit")
	mut("C04", "unbuffered-done-chan", "proxy.go", "donec := make(chan bool, 2)", "donec := make(chan bool, 1)", "C04.R2", "capacity")
	mut("C04", "drop-cconn-close", "proxy.go", "\tdefer cconn.Close()\n", "", "C04.R3", "defer cconn.Close()")
	mut("C04", "revert-connect-leak-fix", "proxy.go", "\t\tif err != nil {\n\t\t\tconn.Close()\n\t\t\treturn nil, nil, err\n\t\t}\n", "\t\tif err != nil {\n\t\t\treturn nil, nil, err\n\t\t}\n", "C04.R3", "dialled connection #1")
	mut("C04", "connect-failure-no-502", "proxy.go", "\t\tres = proxyutil.NewResponse(502, nil, req)\n\t\tproxyutil.Warning(res.Header, cerr)\n", "\t\tres = proxyutil.NewResponse(200, nil, req)\n\t\tproxyutil.Warning(res.Header, cerr)\n", "C04.R4", "synthesises a 502")
	mut("C04", "connect-failure-early-return", "proxy.go", "\t\tlog.Errorf(\"martian: failed to CONNECT: %v\", cerr)\n", "\t\tlog.Errorf(\"martian: failed to CONNECT: %v\", cerr)\n\t\tif p.Closing() {\n\t\t\treturn cerr\n\t\t}\n", "C04.R4", "")
	mut("C04", "revert-half-close", "proxy.go", "\t\tif cw, ok := w.(interface{ CloseWrite() error }); ok {\n\t\t\tcw.CloseWrite()\n\t\t} else if c, ok := w.(io.Closer); ok {\n\t\t\tc.Close()\n\t\t}\n", "", "C04.R5", "")
	mut("C04", "flush-after-tunnel-start", "proxy.go", "\tif err := brw.Flush(); err != nil {\n\t\tlog.Errorf(\"martian: got error while flushing response back to client: %v\", err)\n\t}\n\n\tcbr := bufio.NewReader(cconn)\n", "\tcbr := bufio.NewReader(cconn)\n", "C04.R1", "flushed before")
	mut("C04", "copier-skips-signal-on-error", "proxy.go", "\t\t\tlog.Errorf(\"martian: failed to copy CONNECT tunnel: %v\", err)\n\t\t}\n", "\t\t\tlog.Errorf(\"martian: failed to copy CONNECT tunnel: %v\", err)\n\t\t\treturn\n\t\t}\n", "C04.R2", "signals completion")
	mut("C04", "half-close-skipped-on-error", "proxy.go", "\t\t\tlog.Errorf(\"martian: failed to copy CONNECT tunnel: %v\", err)\n\t\t}\n", "\t\t\tlog.Errorf(\"martian: failed to copy CONNECT tunnel: %v\", err)\n\t\t\tdonec <- true\n\t\t\treturn\n\t\t}\n", "C04.R5", "")
	twin("C04", "signal-deferred", "proxy.go", "\tcopySync := func(w io.Writer, r io.Reader, donec chan<- bool) {\n\t\tif _, err := io.Copy(w, r); err != nil && err != io.EOF {\n\t\t\tlog.Errorf(\"martian: failed to copy CONNECT tunnel: %v\", err)\n\t\t}\n", "\tcopySync := func(w io.Writer, r io.Reader, done chan<- bool) {\n\t\tdonec := make(chan bool, 1)\n\t\tdefer func() { done <- true }()\n\t\tif _, err := io.Copy(w, r); err != nil && err != io.EOF {\n\t\t\tlog.Errorf(\"martian: failed to copy CONNECT tunnel: %v\", err)\n\t\t}\n")
	mut("C04", "full-close-although-half-close-possible", "proxy.go", "\t\tif cw, ok := w.(interface{ CloseWrite() error }); ok {\n", "\t\tif cw, ok := w.(interface{ CloseWrite() error }); !ok {\n", "C04.R5", "half-closed")
	mut("C04", "setdial-ignores-argument", "proxy.go", "\t\tc, e := dial(a, b)\n", "\t\tc, e := net.Dial(a, b)\n", "C04.R3", "SetDial stores its argument")
}
