package main

func init() {
	mut("C07", "revert-add-before-go", "proxy.go", "\t\tp.connsMu.Lock()\n\t\tp.conns.Add(1)\n\t\tp.connsMu.Unlock()\n\t\tlog.Debugf(\"martian: accepted connection from %s\", conn.RemoteAddr())\n", "\t\tlog.Debugf(\"martian: accepted connection from %s\", conn.RemoteAddr())\n", "C07.R2", "Add(1) between Accept and go")
	mut("C07", "add-in-handler", "proxy.go", "func (p *Proxy) handleLoop(conn net.Conn) {\n\tdefer p.conns.Done()\n", "func (p *Proxy) handleLoop(conn net.Conn) {\n\tp.connsMu.Lock()\n\tp.conns.Add(1)\n\tp.connsMu.Unlock()\n\tdefer p.conns.Done()\n\tdefer p.conns.Done()\n", "C07.R2", "no Add inside")
	mut("C07", "add-without-lock", "proxy.go", "\t\tp.connsMu.Lock()\n\t\tp.conns.Add(1)\n\t\tp.connsMu.Unlock()\n", "\t\tp.conns.Add(1)\n", "C07.R1", "conns.Add under connsMu")
	mut("C07", "wait-before-signal", "proxy.go", "\tclose(p.closing)\n\n\tlog.Infof(\"martian: waiting for connections to close\")\n\tp.connsMu.Lock()\n\tp.conns.Wait()\n\tp.connsMu.Unlock()\n", "\tlog.Infof(\"martian: waiting for connections to close\")\n\tp.connsMu.Lock()\n\tp.conns.Wait()\n\tp.connsMu.Unlock()\n\tclose(p.closing)\n", "C07.R1", "precedes conns.Wait")
	mut("C07", "reader-ignores-closing", "proxy.go", "\tcase <-p.closing:\n\t\treturn nil, errClose\n\t}", "\t}", "C07.R3", "readRequest")
	mut("C07", "reader-closing-arm-keeps-going", "proxy.go", "\tcase <-p.closing:\n\t\treturn nil, errClose\n\t}", "\tcase <-p.closing:\n\t\treturn nil, io.ErrUnexpectedEOF\n\t}", "C07.R3", "readRequest")
	mut("C07", "accept-without-closing-test", "proxy.go", "\t\tif p.Closing() {\n\t\t\treturn nil\n\t\t}\n\n\t\tconn, err := l.Accept()", "\t\tconn, err := l.Accept()", "C07.R3", "Serve")
	mut("C07", "handler-serves-during-shutdown", "proxy.go", "\tdefer conn.Close()\n\tif p.Closing() {\n\t\treturn\n\t}\n", "\tdefer conn.Close()\n", "C07.R3", "accepted after shutdown")
	mut("C07", "shutdown-cuts-inflight", "proxy.go", "\t// perform the HTTP roundtrip\n", "\tif p.Closing() {\n\t\treturn errClose\n\t}\n\t// perform the HTTP roundtrip\n", "C07.R5", "never skips the response")
	mut("C07", "select-on-closing-in-roundtrip", "proxy.go", "\treturn p.roundTripper.RoundTrip(req)\n}", "\tselect {\n\tcase <-p.closing:\n\t\treturn nil, errClose\n\tdefault:\n\t}\n\treturn p.roundTripper.RoundTrip(req)\n}", "C07.R5", "roundTrip")
	mut("C07", "drop-deferred-done", "proxy.go", "func (p *Proxy) handleLoop(conn net.Conn) {\n\tdefer p.conns.Done()\n", "func (p *Proxy) handleLoop(conn net.Conn) {\n\tif p.Closing() {\n\t\tconn.Close()\n\t\treturn\n\t}\n\tdefer p.conns.Done()\n", "C07.R1", "defer conns.Done()")
	mut("C07", "inflight-not-marked-close", "proxy.go", "if req.Close || res.Close || p.Closing() {", "if req.Close || res.Close {", "C07.R4", "p.Closing()")
	twin("C07", "closing-test-as-switch", "proxy.go", "\t\tif p.Closing() {\n\t\t\treturn nil\n\t\t}\n\n\t\tconn, err := l.Accept()", "\t\tswitch closing := p.Closing(); {\n\t\tcase closing:\n\t\t\treturn nil\n\t\t}\n\n\t\tconn, err := l.Accept()")
	twin("C07", "deferred-unlock-in-close", "proxy.go", "\tp.connsMu.Lock()\n\tp.conns.Wait()\n\tp.connsMu.Unlock()\n\tlog.Infof(\"martian: all connections closed\")", "\tfunc() {\n\t\tp.connsMu.Lock()\n\t\tdefer p.connsMu.Unlock()\n\t\tp.conns.Wait()\n\t}()\n\tlog.Infof(\"martian: all connections closed\")")
	mut("C07", "read-on-the-selecting-goroutine", "proxy.go", "\terrc := make(chan error, 1)\n\tgo func() {", "\terrc := make(chan error, 1)\n\tfunc() {", "C07.R3", "own goroutine")
	mut("C07", "closing-poll-always-false", "proxy.go", "\tcase <-p.closing:\n\t\treturn true\n", "\tcase <-p.closing:\n\t\treturn false\n", "C07.R3", "Closing: true exactly")
	mut("C07", "unbuffered-result-channel", "proxy.go", "\terrc := make(chan error, 1)\n", "\terrc := make(chan error)\n", "C07.R6", "cannot park forever")
}
