package main

func init() {
	mut("C14", "revert-via-all-lines", "header/via_modifier.go", "if v := strings.Join(req.Header[\"Via\"], \", \"); v != \"\" {", "if v := req.Header.Get(\"Via\"); v != \"\" {", "C14.R4", "Via")
	mut("C14", "revert-xff-all-lines", "header/forwarded_modifier.go", "if v := strings.Join(req.Header[\"X-Forwarded-For\"], \", \"); v != \"\" {", "if v := strings.TrimSpace(req.Header.Get(\"X-Forwarded-For\")); v != \"\" {", "C14.R4", "X-Forwarded-For")
	mut("C14", "connection-token-untrimmed", "header/hopbyhop_modifier.go", "k := http.CanonicalHeaderKey(strings.TrimSpace(v))", "k := http.CanonicalHeaderKey(v)", "C14.R3", "TrimSpace")
	mut("C14", "connection-first-line-only", "header/hopbyhop_modifier.go", "\tfor _, vs := range header[\"Connection\"] {\n", "\tfor _, vs := range []string{header.Get(\"Connection\")} {\n", "C14.R3", "every Connection line")
	mut("C14", "table-misses-upgrade", "header/hopbyhop_modifier.go", "\t\"Upgrade\",\n", "", "C14.R2", "Upgrade")
	mut("C14", "table-noncanonical-te", "header/hopbyhop_modifier.go", "\t\"Te\",\n", "\t\"TE\",\n", "C14.R2", "Te")
	mut("C14", "response-side-not-stripped", "httpspec/httpspec.go", "\touter.AddResponseModifier(hbhm)\n", "", "C14.R1", "hop-by-hop modifier also handles responses")
	mut("C14", "via-after-inner", "httpspec/httpspec.go", "\tvm := header.NewViaModifier(via)\n\touter.AddRequestModifier(vm)\n\n\tinner = fifo.NewGroup()\n\touter.AddRequestModifier(inner)\n", "\tvm := header.NewViaModifier(via)\n\n\tinner = fifo.NewGroup()\n\touter.AddRequestModifier(inner)\n\touter.AddRequestModifier(vm)\n", "C14.R1", "via check precedes")
	mut("C14", "second-via-instance-on-response", "httpspec/httpspec.go", "\touter.AddResponseModifier(vm)\n", "\touter.AddResponseModifier(header.NewViaModifier(via))\n", "C14.R1", "same via modifier instance")
	mut("C14", "loop-still-sent-upstream", "header/via_modifier.go", "\t\t\tctx.SkipRoundTrip()\n", "", "C14.R5", "skips the round trip")
	mut("C14", "loop-not-400", "header/via_modifier.go", "\t\tres.StatusCode = 400\n", "\t\tres.StatusCode = 502\n", "C14.R5", "answered 400")
	mut("C14", "via-prepended", "header/via_modifier.go", "via = fmt.Sprintf(\"%s, %s\", v, via)", "via = fmt.Sprintf(\"%s,%s\", via, v)", "C14.R6", "appended after")
	mut("C14", "forwarded-host-overwritten", "header/forwarded_modifier.go", "\t\t\tif v := req.Header.Get(\"X-Forwarded-Host\"); v == \"\" {\n\t\t\t\treq.Header.Set(\"X-Forwarded-Host\", req.Host)\n\t\t\t}\n", "\t\t\treq.Header.Set(\"X-Forwarded-Host\", req.Host)\n", "C14.R6", "X-Forwarded-Host")
	mut("C14", "connection-deleted-first", "header/hopbyhop_modifier.go", "func removeHopByHopHeaders(header http.Header) {\n", "func removeHopByHopHeaders(header http.Header) {\n\tfor _, k := range hopByHopHeaders {\n\t\theader.Del(k)\n\t}\n", "C14.R2", "")
	mut("C14", "framing-te-check-dropped", "header/framing_modifier.go", "if strings.TrimSpace(last[len(last)-1]) != \"chunked\" {", "if len(last) == 0 {", "C14.R7", "chunked")
	twin("C14", "via-values-method", "header/via_modifier.go", "if v := strings.Join(req.Header[\"Via\"], \", \"); v != \"\" {", "if v := strings.Join(req.Header.Values(\"Via\"), \", \"); v != \"\" {")
	mut("C14", "hopbyhop-added-last", "httpspec/httpspec.go", "\touter.AddRequestModifier(hbhm)\n\touter.AddRequestModifier(header.NewForwardedModifier())\n\touter.AddRequestModifier(header.NewBadFramingModifier())\n", "\touter.AddRequestModifier(header.NewForwardedModifier())\n\touter.AddRequestModifier(header.NewBadFramingModifier())\n\touter.AddRequestModifier(hbhm)\n", "C14.R1", "precedes the modifiers")
	mut("C14", "single-content-length-skipped", "header/framing_modifier.go", "\t\t\tif len(cls) > 0 {", "\t\t\tif len(cls) > 1 {", "C14.R7", "single line")
	twin("C14", "content-length-guard-not-zero", "header/framing_modifier.go", "\t\t\tif len(cls) > 0 {", "\t\t\tif len(cls) != 0 {")
}
