package main

import (
	"fmt"
	"go/ast"
	"go/token"
	"go/types"
	"sort"
	"strconv"
	"strings"

	"golang.org/x/tools/go/ssa"
)

func init() {
	props["C14"] = c14
	floors["C14"] = map[string]int{"C14.R1": 8, "C14.R2": 12, "C14.R3": 3, "C14.R4": 2, "C14.R5": 5, "C14.R6": 5, "C14.R7": 4}
}

// stringSliceVar extracts the string literals of a package-level []string
// variable from the syntax tree.
func (w *World) stringSliceVar(rel, name string) ([]string, token.Pos) {
	p := w.Pkgs[P(rel)]
	if p == nil {
		return nil, token.NoPos
	}
	for _, f := range p.Syntax {
		for _, d := range f.Decls {
			gd, ok := d.(*ast.GenDecl)
			if !ok {
				continue
			}
			for _, sp := range gd.Specs {
				vs, ok := sp.(*ast.ValueSpec)
				if !ok {
					continue
				}
				for i, n := range vs.Names {
					if n.Name != name || i >= len(vs.Values) {
						continue
					}
					cl, ok := vs.Values[i].(*ast.CompositeLit)
					if !ok {
						continue
					}
					var out []string
					for _, e := range cl.Elts {
						if bl, ok := e.(*ast.BasicLit); ok && bl.Kind == token.STRING {
							s, _ := strconv.Unquote(bl.Value)
							out = append(out, s)
						}
					}
					return out, n.Pos()
				}
			}
		}
	}
	return nil, token.NoPos
}

// headerCalls lists calls of http.Header methods in f with their constant key.
type hdrCall struct {
	Call   ssa.CallInstruction
	Method string
	Key    string
	IsKey  bool
}

func headerCalls(f *ssa.Function) []hdrCall {
	var out []hdrCall
	for _, c := range calls(f) {
		n := calleeName(c)
		if !strings.HasPrefix(n, "(net/http.Header).") {
			continue
		}
		h := hdrCall{Call: c, Method: strings.TrimPrefix(n, "(net/http.Header).")}
		if len(c.Common().Args) > 1 {
			h.Key, h.IsKey = constString(c.Common().Args[1])
		}
		out = append(out, h)
	}
	return out
}

func c14(r *Report) {
	w := r.W
	r.Decline("string-level parsing of Via / Connection values, the comparisons inside the framing modifier, the resulting header strings")
	r.Decline("\"every other header is untouched\" beyond the who-may-edit check of the four modifiers")
	ns := r.Use("httpspec", "NewStack")
	rm := r.Use("header", "removeHopByHopHeaders")
	vreq := r.Use("header", "ViaModifier.ModifyRequest")
	vres := r.Use("header", "ViaModifier.ModifyResponse")
	if ns == nil || rm == nil || vreq == nil || vres == nil {
		return
	}

	r.Guard("C14.R1", "the stack contains the hop-by-hop, forwarded, framing and via modifiers, the same via / hop-by-hop instances on the response side, and the via check runs before user modifiers", func() {
		// every stack gets a Via modifier of its own (with its own random instance token): NewStack
		// keeps nothing between calls
		statelessRule(r, r.W.Fn("httpspec", "NewStack"), map[string]bool{}, "two proxy instances of one process (or one name) share a Via identity: each takes the other's Via entry for its own, skips the round trip and answers 400")
		reqAdds := plainCalls(ns, "(*M/fifo.Group).AddRequestModifier")
		resAdds := plainCalls(ns, "(*M/fifo.Group).AddResponseModifier")
		origin := func(v ssa.Value) string {
			for x := range w.backSlice(v, flowOpt{}) {
				if c, ok := x.(*ssa.Call); ok {
					n := calleeName(c)
					if strings.HasPrefix(n, "M/header.New") || n == "M/fifo.NewGroup" {
						return n + "@" + fmt.Sprint(ordinalAny(ns, c))
					}
				}
			}
			return "?"
		}
		var reqSeq, resSeq []string
		outer := ""
		for _, c := range reqAdds {
			reqSeq = append(reqSeq, origin(c.Call.Args[1]))
			outer = origin(c.Call.Args[0])
		}
		for _, c := range resAdds {
			resSeq = append(resSeq, origin(c.Call.Args[1]))
		}
		count := func(seq []string, prefix string) int {
			n := 0
			for _, s := range seq {
				if strings.HasPrefix(s, prefix) {
					n++
				}
			}
			return n
		}
		for _, m := range []string{"M/header.NewHopByHopModifier", "M/header.NewForwardedModifier", "M/header.NewBadFramingModifier", "M/header.NewViaModifier"} {
			r.Sites++
			r.Decide("flow", "M/httpspec.NewStack: "+strings.TrimPrefix(m, "M/header.New")+" on the request side exactly once", count(reqSeq, m) == 1, "added once", fmt.Sprintf("request side has %d of it: %v", count(reqSeq, m), reqSeq), ns.Pos())
		}
		same := func(prefix string) bool {
			var a, b string
			for _, s := range reqSeq {
				if strings.HasPrefix(s, prefix) {
					a = s
				}
			}
			for _, s := range resSeq {
				if strings.HasPrefix(s, prefix) {
					b = s
				}
			}
			return a != "" && a == b
		}
		r.Decide("flow", "M/httpspec.NewStack: the same via modifier instance handles responses", same("M/header.NewViaModifier") && count(resSeq, "M/header.NewViaModifier") == 1, "one instance on both sides (the loop flag set on the request is read on the response)", "the response side lacks the via modifier or uses a different instance", ns.Pos())
		r.Decide("flow", "M/httpspec.NewStack: the hop-by-hop modifier also handles responses", same("M/header.NewHopByHopModifier") && count(resSeq, "M/header.NewHopByHopModifier") == 1, "on both sides", "responses are not stripped of hop-by-hop headers", ns.Pos())
		// inner group on both sides, and on the request side after via
		innerReq, viaReq := -1, -1
		for i, s := range reqSeq {
			if strings.HasPrefix(s, "M/fifo.NewGroup") && s != outer {
				innerReq = i
			}
			if strings.HasPrefix(s, "M/header.NewViaModifier") {
				viaReq = i
			}
		}
		innerRes := false
		for _, s := range resSeq {
			if innerReq >= 0 && s == reqSeq[innerReq] {
				innerRes = true
			}
		}
		r.Decide("flow", "M/httpspec.NewStack: the inner group is on both sides", innerReq >= 0 && innerRes, "user modifiers see requests and responses", "the inner group is missing on one side", ns.Pos())
		r.Decide("path", "M/httpspec.NewStack: the via check precedes the inner group on the request side", viaReq >= 0 && innerReq > viaReq, fmt.Sprintf("order %v", reqSeq), "a looped request reaches user modifiers before the loop is detected", ns.Pos())
		// the request is stripped of the client's hop-by-hop headers before the
		// proxy adds its own: a client naming Via or X-Forwarded-For in its
		// Connection header must not be able to have the proxy's entries removed
		idx := func(prefix string) int {
			for i, s := range reqSeq {
				if strings.HasPrefix(s, prefix) {
					return i
				}
			}
			return -1
		}
		hbh := idx("M/header.NewHopByHopModifier")
		r.Decide("path", "M/httpspec.NewStack: hop-by-hop stripping precedes the modifiers that add Via and X-Forwarded-*", hbh >= 0 && hbh < idx("M/header.NewViaModifier") && hbh < idx("M/header.NewForwardedModifier"), fmt.Sprintf("order %v", reqSeq), fmt.Sprintf("the hop-by-hop modifier runs after a modifier that adds the proxy's own headers (order %v): a Connection header naming Via or X-Forwarded-For strips what the proxy just added", reqSeq), ns.Pos())
		// the outer group must not swallow the via error differently per side: it is a plain (non-aggregating) fifo
		r.Decide("flow", "M/httpspec.NewStack: via name comes from the caller", len(plainCalls(ns, "M/header.NewViaModifier")) == 1 && plainCalls(ns, "M/header.NewViaModifier")[0].Call.Args[0] == ssa.Value(ns.Params[0]), "NewViaModifier(via)", "the Via entry does not carry the configured proxy name", ns.Pos())
	})

	r.Guard("C14.R2", "the hop-by-hop table covers the RFC 7230 set and both sides delete every table entry and every Connection-listed token", func() {
		hopByHopMapOnlyRule(r)
		table, pos := w.stringSliceVar("header", "hopByHopHeaders")
		want := []string{"Connection", "Keep-Alive", "Proxy-Authenticate", "Proxy-Authorization", "Te", "Trailer", "Transfer-Encoding", "Upgrade"}
		for _, h := range want {
			r.Sites++
			r.Decide("table", "hop-by-hop table contains "+h, contains(table, h), "present (canonical form)", "the hop-by-hop table lacks "+h+" (or lists it in a non-canonical spelling that Header.Del cannot match)", pos)
		}
		for _, n := range []string{"hopByHopModifier.ModifyRequest", "hopByHopModifier.ModifyResponse"} {
			f := r.Use("header", n)
			if f == nil {
				continue
			}
			cs := plainCalls(f, "M/header.removeHopByHopHeaders")
			ok := len(cs) == 1 && len(f.Blocks) == 1
			if ok {
				ok = anyIn(w.backSlice(cs[0].Call.Args[0], flowOpt{}), func(v ssa.Value) bool {
					fa, y := v.(*ssa.FieldAddr)
					return y && isParamVal(fa.X, f.Params[1]) && fieldObj(fa).Name() == "Header"
				})
			}
			r.Decide("sibling", "(*M/header."+n+") strips this message's header unconditionally", ok, "removeHopByHopHeaders(msg.Header)", "one side does not strip hop-by-hop headers (or strips a different header set)", f.Pos())
		}
		// removal: Del for every table entry
		okTable := false
		for _, c := range effectiveCalls(rm, "(net/http.Header).Del") {
			if inLoop(c.Block()) && anyIn(w.backSlice(c.Args[1], flowOpt{}), func(v ssa.Value) bool { g, y := v.(*ssa.Global); return y && g.Name() == "hopByHopHeaders" }) {
				okTable = true
			}
		}
		r.Decide("path", "M/header.removeHopByHopHeaders deletes every table entry", okTable, "Del in a loop over the table", "the table entries are not all deleted", rm.Pos())
		// the Connection-listed deletions happen before Connection itself is deleted
		okOrder := false
		var tokDel ssa.Instruction
		var tabDels []ssa.Instruction
		for _, c := range effectiveCalls(rm, "(net/http.Header).Del") {
			if anyIn(w.backSlice(c.Args[1], flowOpt{Through: map[string]bool{"net/http.CanonicalHeaderKey": true, "strings.TrimSpace": true}}), func(v ssa.Value) bool { return isCallValue(v, "strings.Split") }) {
				tokDel = c.At
			} else {
				tabDels = append(tabDels, c.At)
			}
		}
		if tokDel != nil && len(tabDels) > 0 {
			okOrder = true
			for _, td := range tabDels {
				if G(rm).PathTo([]ssa.Instruction{td}, false, nil, func(i ssa.Instruction) bool { return i == tokDel }) != nil {
					okOrder = false
				}
			}
		}
		r.Decide("path", "M/header.removeHopByHopHeaders reads Connection before deleting it", okOrder, "token deletions precede the table deletions", "Connection is deleted before its tokens are read: headers it names survive", rm.Pos())
	})

	r.Guard("C14.R3", "Connection-listed header names are trimmed and canonicalised, and all Connection lines are read", func() {
		// stripping is a pure function of the message: no cache or other package-level
		// state (a memo keyed by part of the Connection header serves one message the
		// answer computed for another)
		statelessRule(r, w.Fn("header", "removeHopByHopHeaders"), map[string]bool{"hopByHopHeaders": true}, "what is stripped from one message depends on what earlier messages contained")

		var del *ssa.Call
		var delArg ssa.Value
		for _, c := range effectiveCalls(rm, "(net/http.Header).Del") {
			if anyIn(w.backSlice(c.Args[1], flowOpt{Through: map[string]bool{"net/http.CanonicalHeaderKey": true, "strings.TrimSpace": true}}), func(v ssa.Value) bool { return isCallValue(v, "strings.Split") }) {
				del = c.At
				delArg = c.Args[1]
			}
		}
		if del == nil {
			r.Fail("flow", "M/header.removeHopByHopHeaders: tokens of Connection are deleted", "no Header.Del fed from strings.Split of the Connection values", nil, rm.Pos())
			return
		}
		// sanitiser on the way
		direct := w.backSlice(delArg, flowOpt{Through: map[string]bool{"net/http.CanonicalHeaderKey": true}})
		trimmed := anyIn(direct, func(v ssa.Value) bool { return isCallValue(v, "strings.TrimSpace") }) && !anyIn(direct, func(v ssa.Value) bool { return isCallValue(v, "strings.Split") })
		r.Decide("flow", "M/header.removeHopByHopHeaders: each token passes strings.TrimSpace before Header.Del", trimmed, "Split -> TrimSpace -> (CanonicalHeaderKey) -> Del", "a token reaches Header.Del untrimmed: `Connection: a, b` leaves header b in place", del.Pos())
		// the list separator is the comma alone (optional whitespace is the sanitiser's job)
		okSep := false
		for v := range w.backSlice(delArg, flowOpt{Through: map[string]bool{"net/http.CanonicalHeaderKey": true, "strings.TrimSpace": true}}) {
			if c, y := v.(*ssa.Call); y && calleeName(c) == "strings.Split" {
				if sep, isC := constString(c.Call.Args[1]); isC && sep == "," {
					okSep = true
				}
			}
		}
		r.Decide("table", "M/header.removeHopByHopHeaders: Connection values are split at \",\"", okSep, "strings.Split(v, \",\")", "the Connection list is split on something other than a bare comma: `a,b` or `a ,b` is taken as one token and the headers it names survive", del.Pos())
		// all lines: the split input comes from ranging header["Connection"], not from Get
		full := w.backSlice(delArg, flowOpt{Through: map[string]bool{"net/http.CanonicalHeaderKey": true, "strings.TrimSpace": true, "strings.Split": true}})
		viaGet := anyIn(full, func(v ssa.Value) bool { return isCallValue(v, "(net/http.Header).Get") })
		viaMap := anyIn(full, func(v ssa.Value) bool {
			lk, y := v.(*ssa.Lookup)
			if !y {
				return false
			}
			k, isC := constString(lk.Index)
			return isC && k == "Connection"
		}) || anyIn(full, func(v ssa.Value) bool { return isCallValue(v, "(net/http.Header).Values") })
		r.Decide("flow", "M/header.removeHopByHopHeaders: every Connection line is read", viaMap && !viaGet, "ranges header[\"Connection\"]", "only the first Connection line is honoured", del.Pos())
	})

	r.Guard("C14.R4", "list-valued headers are rewritten from all their lines (no Get -> Set loss)", func() {
		fm := w.Fn("header", "NewForwardedModifier$1")
		r.Touch(fm)
		for _, tc := range []struct {
			f   *ssa.Function
			key string
		}{{vreq, "Via"}, {fm, "X-Forwarded-For"}} {
			if tc.f == nil {
				r.Undecided("writer of "+tc.key, "UNRESOLVED")
				continue
			}
			key := fmt.Sprintf("%s: %s is rewritten from all existing lines", fnName(tc.f), tc.key)
			var set *hdrCall
			for _, h := range headerCalls(tc.f) {
				h := h
				if h.Method == "Set" && h.IsKey && h.Key == tc.key {
					set = &h
				}
			}
			if set == nil {
				r.Fail("flow", key, "no Header.Set for this key", nil, tc.f.Pos())
				continue
			}
			sl := w.backSlice(set.Call.Common().Args[2], flowOpt{BinOps: true, Through: map[string]bool{"fmt.Sprintf": true, "strings.Join": true}})
			fromGet := anyIn(sl, func(v ssa.Value) bool {
				c, y := v.(*ssa.Call)
				if !y || calleeName(c) != "(net/http.Header).Get" {
					return false
				}
				k, isC := constString(c.Call.Args[1])
				return isC && k == tc.key
			})
			fromAll := anyIn(sl, func(v ssa.Value) bool {
				if lk, y := v.(*ssa.Lookup); y {
					k, isC := constString(lk.Index)
					return isC && k == tc.key
				}
				if c, y := v.(*ssa.Call); y && calleeName(c) == "(net/http.Header).Values" {
					k, isC := constString(c.Call.Args[1])
					return isC && k == tc.key
				}
				return false
			})
			r.Sites++
			r.Decide("flow", key, fromAll && !fromGet, "the Set value derives from the full value list", "the header is read with Get (first line only) and written back with Set: further lines are dropped (and a loop named there is missed)", set.Call.Pos())
		}
	})

	r.Guard("C14.R5", "a request whose Via names this proxy is not sent upstream and is answered 400", func() {
		skipDecisionRule(r)
		contextFlagRules(r, "SkipRoundTrip", "SkippingRoundTrip")
		g := G(vreq)
		loops := plainCalls(vreq, "(*M/header.ViaModifier).hasLoop")
		if len(loops) != 1 {
			r.Fail("path", "(*M/header.ViaModifier).ModifyRequest: loop test", fmt.Sprintf("found %d hasLoop calls", len(loops)), nil, vreq.Pos())
			return
		}
		es := branchesOn(loops[0])
		ok := len(es) == 1
		var setKey string
		if ok {
			skip := g.PathTo(blockStart(es[0].True), true, func(i ssa.Instruction) bool { _, y := isCall(i, "(*M.Context).SkipRoundTrip"); return y }, isExit)
			errs, _, _ := returnValuesFrom(es[0].True, 0)
			nonNil := len(errs) > 0
			for _, v := range errs {
				if isNilConst(v) {
					nonNil = false
				}
			}
			ok = skip == nil && nonNil
			// no Via header written on the loop edge
			if g.PathTo(blockStart(es[0].True), true, nil, func(i ssa.Instruction) bool { _, y := isCall(i, "(net/http.Header).Set"); return y }) != nil {
				ok = false
			}
			for _, c := range plainCalls(vreq, "(*M.Context).Set") {
				if edgeDominatesTrue(es[0], c.Block()) {
					setKey, _ = constString(c.Call.Args[1])
				}
			}
			// the context is this request's
			for _, c := range plainCalls(vreq, "(*M.Context).SkipRoundTrip") {
				if !anyIn(w.backSlice(c.Call.Args[0], flowOpt{}), func(v ssa.Value) bool {
					cc, y := v.(*ssa.Call)
					return y && calleeName(cc) == "M.NewContext" && isParamVal(cc.Call.Args[0], vreq.Params[1])
				}) {
					ok = false
				}
			}
		}
		r.Paths++
		r.Decide("path", "(*M/header.ViaModifier).ModifyRequest: a loop skips the round trip and returns an error", ok, "SkipRoundTrip on this request's context and a non-nil error on every path of the loop edge", "a looped request can still be sent upstream (or is not reported)", loops[0].Pos())
		// the loop test sees the header value that is then extended
		okArg := anyIn(w.backSlice(loops[0].Call.Args[1], flowOpt{Through: map[string]bool{"strings.Join": true}}), func(v ssa.Value) bool {
			if lk, y := v.(*ssa.Lookup); y {
				k, isC := constString(lk.Index)
				return isC && k == "Via"
			}
			c, y := v.(*ssa.Call)
			if !y {
				return false
			}
			k, isC := constString(c.Call.Args[len(c.Call.Args)-1])
			return strings.HasPrefix(calleeName(c), "(net/http.Header).") && isC && k == "Via"
		})
		// ... and runs for every non-empty Via value: nothing but the emptiness test decides
		// whether hasLoop is consulted (a cheaper pre-filter on the text misses entries that
		// differ in protocol version or spacing)
		{
			extra := ""
			for _, ce := range ctrlEdges(loops[0].Block()) {
				b, isB := ce.If.Cond.(*ssa.BinOp)
				okCond := false
				if isB && (b.Op == token.EQL || b.Op == token.NEQ) {
					if k, isK := constString(b.X); isK && k == "" {
						okCond = true
					}
					if k, isK := constString(b.Y); isK && k == "" {
						okCond = true
					}
				}
				if isB && !okCond {
					// len(x) compared with a constant
					for _, side := range []ssa.Value{b.X, b.Y} {
						if c, isC := side.(*ssa.Call); isC {
							if bi, isBi := c.Call.Value.(*ssa.Builtin); isBi && bi.Name() == "len" {
								okCond = true
							}
						}
					}
				}
				if !okCond {
					extra = r.W.Pos(ce.If.Pos())
				}
			}
			r.Decide("path", "(*M/header.ViaModifier).ModifyRequest: every non-empty Via value is tested for a loop", extra == "", "only the emptiness test guards hasLoop", "another condition ("+extra+") decides whether the loop test runs at all: a Via chain it filters out is forwarded although it names this proxy", loops[0].Pos())
		}
		// the default boundary is one token: hex digits without padding blanks (the received-by
		// field is cut at white space, so a blank inside the boundary never matches again)
		if rb := w.Fn("header", "randomBoundary"); rb != nil && rb.Blocks != nil {
			r.Touch(rb)
			okFmt := false
			for _, c := range plainCalls(rb, "fmt.Sprintf") {
				if f, isK := constString(c.Call.Args[0]); isK {
					okFmt = true
					for i := 0; i+1 < len(f); i++ {
						if f[i] == '%' {
							j := i + 1
							for j < len(f) && (f[j] == '0' || (f[j] >= '1' && f[j] <= '9')) {
								j++
							}
							// a width without the zero flag pads with blanks
							if j > i+1 && f[i+1] != '0' {
								okFmt = false
							}
							if j < len(f) && f[j] == ' ' {
								okFmt = false
							}
							i = j
						} else if f[i] == ' ' {
							okFmt = false
						}
					}
				}
			}
			for _, c := range calls(rb, "encoding/hex.EncodeToString") {
				_ = c
				okFmt = true
			}
			r.Decide("table", "M/header.randomBoundary yields a single token", okFmt, "hex digits, no width that pads with blanks", "the default boundary can contain blanks (a width without the zero flag): the proxy's own Via entry is then split in the wrong place and a loop is never recognised", rb.Pos())
		}
		scanLoopsExhaustiveRule(r, w.Fn("header", "ViaModifier.hasLoop"), "a `break` (or a jump past the loop) ends the scan of the Via chain at some entry: a loop hidden behind a malformed or foreign entry is not detected and the request goes round again")
		r.Decide("flow", "(*M/header.ViaModifier).ModifyRequest: the loop test examines the request's Via header", okArg, "hasLoop(<Via value>)", "the loop test looks at something else than the Via header", loops[0].Pos())
		// the loop test compares the whole received-by token, built from the same two parts the
		// stamp is written from (the proxy name may itself contain the separator)
		if hl := r.Use("header", "ViaModifier.hasLoop"); hl != nil {
			okTok := false
			for _, in := range instrs(hl) {
				b, isB := in.(*ssa.BinOp)
				if !isB || b.Op != token.EQL {
					continue
				}
				for _, side := range []ssa.Value{b.X, b.Y} {
					sl := w.backSlice(side, flowOpt{BinOps: true, Through: map[string]bool{"fmt.Sprintf": true}})
					hasName := anyIn(sl, func(v ssa.Value) bool { fa, y := v.(*ssa.FieldAddr); return y && fieldObj(fa).Name() == "requestedBy" })
					hasBound := anyIn(sl, func(v ssa.Value) bool { fa, y := v.(*ssa.FieldAddr); return y && fieldObj(fa).Name() == "boundary" })
					if hasName && hasBound {
						okTok = true
					}
				}
			}
			r.Decide("flow", "(*M/header.ViaModifier).hasLoop: compares the whole received-by token (name and boundary together)", okTok, "one comparison against the token built from requestedBy and boundary", "the received-by field is taken apart before comparing: a proxy whose name contains the separator never recognises its own Via entry", hl.Pos())
		}
		// a Via entry is taken apart at linear whitespace (RFC 7230 3.2.3: any run of spaces and
		// tabs separates received-protocol, received-by and the comment): the parts that are
		// indexed come from a regexp split whose pattern admits both characters and repeats, or
		// from strings.Fields - not from a split at one literal separator
		if hl := w.Fn("header", "ViaModifier.hasLoop"); hl != nil && hl.Blocks != nil {
			nParts, okWS := 0, true
			why := ""
			for _, in := range instrs(hl) {
				ia, isIa := in.(*ssa.IndexAddr)
				if !isIa || ia.X.Type().String() != "[]string" {
					continue
				}
				if k, isK := constInt(ia.Index); !isK || k != 1 {
					continue
				}
				for _, l := range resolveAll(ia.X) {
					c, isC := l.(*ssa.Call)
					if !isC {
						continue
					}
					nParts++
					switch calleeName(c) {
					case "strings.Fields":
					case "(*regexp.Regexp).Split":
						pat, found := "", false
						for v := range w.backSlice(c.Call.Args[0], flowOpt{}) {
							if mc, isMc := v.(*ssa.Call); isMc && (calleeName(mc) == "regexp.MustCompile" || calleeName(mc) == "regexp.Compile") {
								if k, isK := constString(mc.Call.Args[0]); isK {
									pat, found = k, true
								}
							}
						}
						if !found || !strings.Contains(pat, " ") || !(strings.Contains(pat, "\t") || strings.Contains(pat, `\t`) || strings.Contains(pat, `\s`)) || !(strings.Contains(pat, "+") || strings.Contains(pat, "*")) {
							okWS = false
							why = "pattern " + strconv.Quote(pat)
						}
					default:
						okWS = false
						why = calleeName(c)
					}
				}
			}
			r.Decide("table", "(*M/header.ViaModifier).hasLoop: a Via entry is taken apart at any run of spaces and tabs", nParts >= 1 && okWS, "regexp split on a class of space and tab, repeated (or strings.Fields)", "the fields of a Via entry are separated by one literal character ("+why+"): an entry written with a tab or two spaces between protocol and received-by is not recognised as this proxy's own and the loop goes undetected", hl.Pos())
		}
		// the entry the modifier stamps and the entry it recognises as its own are built
		// from the same state: the receiver fields flowing into the Via value written are
		// those flowing into the loop comparison (a name cached at construction while the
		// comparison reads the live boundary makes a later SetBoundary blind the detection)
		if hl := w.Fn("header", "ViaModifier.hasLoop"); hl != nil {
			recvFields := func(f *ssa.Function, v ssa.Value) map[string]bool {
				out := map[string]bool{}
				for x := range w.backSlice(v, flowOpt{BinOps: true, Through: map[string]bool{"fmt.Sprintf": true, "strings.Join": true}}) {
					if fa, y := x.(*ssa.FieldAddr); y && len(f.Params) > 0 && isParamVal(fa.X, f.Params[0]) {
						out[fieldObj(fa).Name()] = true
					}
				}
				return out
			}
			stamp := map[string]bool{}
			for _, hc := range headerCalls(vreq) {
				if (hc.Method == "Set" || hc.Method == "Add") && hc.IsKey && hc.Key == "Via" {
					for k := range recvFields(vreq, hc.Call.Common().Args[2]) {
						stamp[k] = true
					}
				}
			}
			cmp := map[string]bool{}
			for _, in := range instrs(hl) {
				if b, isB := in.(*ssa.BinOp); isB && (b.Op == token.EQL || b.Op == token.NEQ) {
					for _, side := range []ssa.Value{b.X, b.Y} {
						for k := range recvFields(hl, side) {
							cmp[k] = true
						}
					}
				}
			}
			same := len(stamp) > 0 && len(stamp) == len(cmp)
			for k := range stamp {
				if !cmp[k] {
					same = false
				}
			}
			r.Decide("sibling", "(*M/header.ViaModifier): the stamped entry and the loop test are built from the same fields", same, fmt.Sprintf("both from %v", keys(stamp)), fmt.Sprintf("the Via entry is written from %v but the loop test compares against %v: after one of them changes (SetBoundary) the proxy no longer recognises its own entry, forwards the looping request and stamps it again", keys(stamp), keys(cmp)), vreq.Pos())
		}
		// response side reads the same key and answers 400
		getKey := ""
		for _, c := range plainCalls(vres, "(*M.Context).Get") {
			getKey, _ = constString(c.Call.Args[1])
		}
		r.Decide("table", "ViaModifier: the loop flag is written and read under the same context key", setKey != "" && setKey == getKey, "key "+setKey, fmt.Sprintf("request side writes %q, response side reads %q", setKey, getKey), vres.Pos())
		ok400 := false
		for _, in := range instrs(vres) {
			st, y := in.(*ssa.Store)
			if !y {
				continue
			}
			if fa, y := st.Addr.(*ssa.FieldAddr); y && fieldObj(fa).Name() == "StatusCode" {
				if n, isC := constInt(st.Val); isC && n == 400 {
					ok400 = true
				}
			}
		}
		r.Decide("path", "(*M/header.ViaModifier).ModifyResponse: a flagged loop is answered 400", ok400, "StatusCode = 400", "a looped request is not answered 400", vres.Pos())
	})

	r.Guard("C14.R6", "Via is appended after existing entries; the forwarded headers reflect the client address and original URL", func() {
		// req.RemoteAddr, which http.ReadRequest leaves empty, is filled in by the exchange
		// function from the connection before the request modifier runs
		if handle := w.Fn("", "Proxy.handle"); handle != nil {
			r.Touch(handle)
			okRA := false
			for _, in := range instrs(handle) {
				st, isSt := in.(*ssa.Store)
				if !isSt {
					continue
				}
				fa, isFa := st.Addr.(*ssa.FieldAddr)
				if !isFa || fieldObj(fa).Name() != "RemoteAddr" || fa.X.Type().String() != "*net/http.Request" {
					continue
				}
				fromConn := false
				for _, sv := range resolveAll(st.Val) {
					sc, y := sv.(*ssa.Call)
					if !y || !sc.Call.IsInvoke() || sc.Call.Method.Name() != "String" {
						continue
					}
					for _, av := range resolveAll(sc.Call.Value) {
						c, y := av.(*ssa.Call)
						if y && c.Call.IsInvoke() && c.Call.Method.Name() == "RemoteAddr" && isParamVal(c.Call.Value, handle.Params[2]) {
							fromConn = true
						}
					}
				}
				before := false
				for _, c := range calls(handle) {
					if isReqMod(c) && G(handle).Before(st, c) {
						before = true
					}
				}
				okRA = fromConn && before
			}
			r.Decide("flow", "(*M.Proxy).handle: req.RemoteAddr is the client connection's address", okRA, "conn.RemoteAddr().String() stored before the request modifier", "req.RemoteAddr is not set from the client connection before the modifiers run: X-Forwarded-For carries an empty (or another connection's) address", handle.Pos())
		} else {
			r.Undecided("(*M.Proxy).handle", "UNRESOLVED")
		}
		// the client address is what net.SplitHostPort makes of RemoteAddr (the only
		// splitter that understands "[v6]:port"), falling back to RemoteAddr itself
		if fm0 := w.Fn("header", "NewForwardedModifier$1"); fm0 != nil {
			okAddr := false
			bad := ""
			for _, hc := range headerCalls(fm0) {
				if !(hc.Method == "Set" || hc.Method == "Add") || hc.Key != "X-Forwarded-For" {
					continue
				}
				for _, o := range concatOperands(hc.Call.Common().Args[2]) {
					for _, leaf := range resolveAll(o) {
						sl := w.backSlice(leaf, flowOpt{Through: map[string]bool{"strings.Join": true}, CallArg: true})
						fromRemote := anyIn(sl, func(x ssa.Value) bool { fa, y := x.(*ssa.FieldAddr); return y && fieldObj(fa).Name() == "RemoteAddr" })
						viaSplit := anyIn(sl, func(x ssa.Value) bool {
							return isCallValue(x, "net.SplitHostPort") || isExtractOfCall(x, "net.SplitHostPort")
						})
						if viaSplit {
							okAddr = true
						}
						if fromRemote && !viaSplit {
							if _, isLd := leaf.(*ssa.UnOp); !isLd {
								bad = describeVal(leaf)
							}
						}
					}
				}
			}
			r.Decide("flow", "M/header.NewForwardedModifier$1: the client address comes from net.SplitHostPort(RemoteAddr)", okAddr && bad == "", "host part of RemoteAddr by SplitHostPort, RemoteAddr itself when that fails", "the address put into X-Forwarded-For is cut out of RemoteAddr by other means ("+bad+"): an IPv6 client is forwarded with its brackets (or cut at the wrong colon)", fm0.Pos())
		}

		// Via: the new entry comes last in the Set value
		okVia := false
		for _, h := range headerCalls(vreq) {
			if h.Method != "Set" || h.Key != "Via" {
				continue
			}
			// the value is the own entry alone, or existing entries followed by the own
			// entry: in every concatenation (a + b, Sprintf) feeding the header, whatever
			// derives from the received Via lines comes before whatever derives from the
			// modifier's own fields
			isExisting := func(v ssa.Value) bool {
				return anyIn(w.backSlice(v, flowOpt{Through: map[string]bool{"strings.Join": true}, CallArg: true}), func(x ssa.Value) bool {
					if lk, isL := x.(*ssa.Lookup); isL {
						k, isK := constString(lk.Index)
						return isK && k == "Via"
					}
					if c, isC := x.(*ssa.Call); isC && (calleeName(c) == "(net/http.Header).Values" || calleeName(c) == "(net/http.Header).Get") && len(c.Call.Args) == 2 {
						k, isK := constString(c.Call.Args[1])
						return isK && k == "Via"
					}
					return false
				})
			}
			isOwn := func(v ssa.Value) bool {
				return anyIn(w.backSlice(v, flowOpt{BinOps: true, Through: map[string]bool{"fmt.Sprintf": true, "strconv.Itoa": true}}), func(x ssa.Value) bool {
					fa, y := x.(*ssa.FieldAddr)
					return y && len(vreq.Params) > 0 && isParamVal(fa.X, vreq.Params[0])
				})
			}
			for _, leaf := range resolveAll(h.Call.Common().Args[2]) {
				ops := concatOperands(leaf)
				ex, own := -1, -1
				for i, o := range ops {
					if isExisting(o) && ex < 0 {
						ex = i
					}
					if isOwn(o) && !isExisting(o) {
						own = i
					}
				}
				if ex >= 0 && own > ex {
					okVia = true
				}
				if ex >= 0 && own >= 0 && own < ex {
					okVia = false
					r.Fail("flow", "(*M/header.ViaModifier).ModifyRequest: the own entry is not put in front of received entries", "this proxy's entry is written before the entries it received: the Via chain no longer shows the order of the hops", nil, h.Call.Pos())
				}
			}
		}
		r.Decide("flow", "(*M/header.ViaModifier).ModifyRequest: this proxy's entry is appended after the existing ones", okVia, "Sprintf(\"%s, %s\", existing, own)", "the Via entry is not appended after the existing entries", vreq.Pos())
		fm := w.Fn("header", "NewForwardedModifier$1")
		if fm == nil {
			r.Undecided("M/header.NewForwardedModifier$1", "UNRESOLVED")
			return
		}
		type src struct {
			key  string
			pred func(ssa.Value) bool
			what string
		}
		reqP := ssa.Value(fm.Params[0])
		fieldOf := func(v ssa.Value, names ...string) bool {
			fa, y := v.(*ssa.FieldAddr)
			if !y {
				return false
			}
			for _, n := range names {
				if fieldObj(fa).Name() == n {
					return true
				}
			}
			return false
		}
		_ = reqP
		for _, s := range []src{
			{"X-Forwarded-Proto", func(v ssa.Value) bool { return fieldOf(v, "Scheme") }, "req.URL.Scheme"},
			{"X-Forwarded-Host", func(v ssa.Value) bool { return fieldOf(v, "Host") }, "req.Host"},
			{"X-Forwarded-Url", func(v ssa.Value) bool { return isCallValue(v, "(*net/url.URL).String") }, "req.URL.String()"},
			{"X-Forwarded-For", func(v ssa.Value) bool { return fieldOf(v, "RemoteAddr") }, "req.RemoteAddr"},
		} {
			ok := false
			preserve := s.key == "X-Forwarded-For"
			for _, h := range headerCalls(fm) {
				if h.Method != "Set" || h.Key != s.key {
					continue
				}
				if anyIn(w.backSlice(h.Call.Common().Args[2], flowOpt{BinOps: true, Through: map[string]bool{"net.SplitHostPort": true}}), s.pred) {
					ok = true
				}
				if s.key != "X-Forwarded-For" {
					// set only when absent
					for _, g := range headerCalls(fm) {
						if g.Method == "Get" && g.Key == s.key {
							if gc, y := g.Call.(*ssa.Call); y {
								for _, in := range instrs(fm) {
									b, isB := in.(*ssa.BinOp)
									if isB && b.Op == token.EQL && b.X == ssa.Value(gc) {
										for _, e := range branchesOn(b) {
											if edgeDominatesTrue(e, h.Call.Block()) {
												preserve = true
											}
										}
									}
								}
							}
						}
					}
				}
			}
			if s.key == "X-Forwarded-For" {
				// ... on every path: each value the header can be set to ends with the client
				// address (an entry that looks like the client's is still another hop's entry)
				for _, h := range headerCalls(fm) {
					if h.Method != "Set" || h.Key != s.key {
						continue
					}
					for _, l := range resolveAll(h.Call.Common().Args[2]) {
						ops := concatOperands(l)
						last := ops[len(ops)-1]
						if !anyIn(w.backSlice(last, flowOpt{BinOps: true, Through: map[string]bool{"net.SplitHostPort": true}}), s.pred) {
							ok = false
						}
					}
				}
			}
			r.Sites++
			r.Decide("flow", "forwarded modifier: "+s.key+" reflects "+s.what, ok && preserve, "value derives from "+s.what+map[bool]string{true: "; existing value preserved", false: ""}[s.key != "X-Forwarded-For"], "the header does not reflect "+s.what+" or overwrites an existing value", fm.Pos())
		}
	})

	r.Guard("C14.R7", "conflicting Content-Length values and a Transfer-Encoding not ending in chunked are flagged", func() {
		bf := w.Fn("header", "NewBadFramingModifier$1")
		if bf == nil {
			r.Undecided("M/header.NewBadFramingModifier$1", "UNRESOLVED")
			return
		}
		r.Touch(bf)
		scanLoopsExhaustiveRule(r, bf, "a `break` ends the comparison of the Content-Length values early: a conflicting value further along the list (or in a later header line) is accepted")
		// the canonical Content-Length is written back only when there was one
		for _, hc := range headerCalls(bf) {
			if hc.Method != "Set" || hc.Key != "Content-Length" {
				continue
			}
			isLenCL := func(v ssa.Value) bool {
				c, ok := unwrapConv(v).(*ssa.Call)
				if !ok {
					return false
				}
				b, ok := c.Call.Value.(*ssa.Builtin)
				return ok && b.Name() == "len"
			}
			guarded := false
			for _, ce := range ctrlEdges(hc.Call.Block()) {
				if rel, adm := constCmpAdmits(ce, isLenCL, 0); rel && !adm {
					guarded = true
				}
			}
			r.Decide("path", "M/header.NewBadFramingModifier$1: Content-Length is rewritten only when the request has one", guarded, "the Set is behind a test that excludes an empty list", "a request without Content-Length gets an empty Content-Length header written into it", hc.Call.Pos())
		}
		var keys []string
		for _, in := range instrs(bf) {
			if lk, y := in.(*ssa.Lookup); y {
				if k, isC := constString(lk.Index); isC {
					keys = append(keys, k)
				}
			}
		}
		sort.Strings(keys)
		r.Decide("table", "framing modifier examines all Content-Length and Transfer-Encoding lines", contains(keys, "Content-Length") && contains(keys, "Transfer-Encoding"), fmt.Sprint(keys), "the framing modifier does not read both headers as lists", bf.Pos())
		nerr := 0
		for _, ret := range returns(bf) {
			for _, v := range retVals(ret, 0) {
				for _, l := range resolveAll(v) {
					if isFreshErr(l) {
						nerr++
					}
				}
			}
		}
		// a single Content-Length line can carry conflicting values ("42, 32"):
		// the mismatch test must run whenever there is at least one line
		isLenOfCL := func(v ssa.Value) bool {
			c, isC := v.(*ssa.Call)
			if !isC {
				return false
			}
			bi, isB := c.Call.Value.(*ssa.Builtin)
			if !isB || bi.Name() != "len" {
				return false
			}
			return anyIn(w.backSlice(c.Call.Args[0], flowOpt{}), func(x ssa.Value) bool {
				lk, isL := x.(*ssa.Lookup)
				if !isL {
					return false
				}
				k, isK := constString(lk.Index)
				return isK && k == "Content-Length"
			})
		}
		for _, ret := range returns(bf) {
			fresh := false
			for _, v := range retVals(ret, 0) {
				for _, l := range resolveAll(v) {
					if isFreshErr(l) {
						fresh = true
					}
				}
			}
			if !fresh {
				continue
			}
			for _, ce := range ctrlEdges(ret.Block()) {
				if rel, adm := constCmpAdmits(ce, isLenOfCL, 1); rel {
					r.Decide("path", "framing modifier: Content-Length values are compared even when the header has a single line", adm, "the guard on the number of Content-Length lines admits one line", "the mismatch test is skipped for a single Content-Length line: conflicting values folded into one line (\"42, 32\") are not flagged", ce.If.Pos())
				}
			}
		}
		// an element of a framing header that cannot be read is a bad framing, not an element to
		// skip: the failure edge of every fallible step in the modifier ends in an error (it neither
		// goes on with the next element nor accepts the request)
		{
			g0 := G(bf)
			for _, c := range plainCalls(bf) {
				tup, isTup := c.Type().(*types.Tuple)
				if !isTup || tup.Len() == 0 || !isErrorType(tup.At(tup.Len()-1).Type()) {
					continue
				}
				tests := errTests(c)
				okE := len(tests) > 0
				for _, e := range tests {
					// continuing: the test is reached again from its failure edge
					if p := g0.PathTo(blockStart(e.NonNil), true, nil, func(i ssa.Instruction) bool { return i == ssa.Instruction(e.If) }); p != nil {
						okE = false
					}
					// accepting: a return of a nil error from the failure edge
					if p := g0.PathTo(blockStart(e.NonNil), true, nil, func(i ssa.Instruction) bool {
						ret, isR := i.(*ssa.Return)
						if !isR || len(ret.Results) == 0 {
							return false
						}
						for _, v := range retVals(ret, len(ret.Results)-1) {
							for _, l := range resolveAll(v) {
								if isNilConst(l) {
									return true
								}
							}
						}
						return false
					}); p != nil {
						okE = false
					}
				}
				r.Sites++
				r.Decide("path", "framing modifier: a failure of "+site(bf, c)+" is a framing error", okE, "the failure edge leads to an error return only", "an element that cannot be read ("+calleeName(c)+" fails) is skipped or accepted: a conflicting value that is not a plain number (overflowing, hexadecimal, garbage) is dropped from the comparison and the request passes with the surviving value", c.Pos())
			}
		}
		// both headers are examined before a request is accepted: no successful return is
		// reachable without having looked at Content-Length and at Transfer-Encoding
		gbf := G(bf)
		for _, hdr := range []string{"Content-Length", "Transfer-Encoding"} {
			isLook := func(i ssa.Instruction) bool {
				lk, y := i.(*ssa.Lookup)
				if !y {
					return false
				}
				k, isK := constString(lk.Index)
				return isK && k == hdr
			}
			var wit []ssa.Instruction
			for _, ret := range returns(bf) {
				okNil := false
				for _, v := range retVals(ret, 0) {
					for _, l := range resolveAll(v) {
						if isNilConst(l) {
							okNil = true
						}
					}
				}
				if !okNil {
					continue
				}
				if p := gbf.PathTo([]ssa.Instruction{gbf.Entry()}, true, isLook, func(i ssa.Instruction) bool { return i == ssa.Instruction(ret) }); p != nil {
					// confirmed on acyclic block paths: the path is feasible (an inlined helper that
					// returned nil is not followed by the caller's `err != nil` edge), avoids the
					// lookup, and returns nil along it
					confirmed := false
					if paths, okP := blockPaths(bf.Blocks[0], 20000); okP {
						for _, bp := range paths {
							if bp[len(bp)-1] != ret.Block() || !pathFeasible(bp) {
								continue
							}
							looks := false
							for _, b := range bp {
								for _, in := range b.Instrs {
									if isLook(in) {
										looks = true
									}
								}
							}
							if looks {
								continue
							}
							for _, v := range retVals(ret, 0) {
								for _, l := range resolveOnPath(v, bp) {
									if isNilConst(l) {
										confirmed = true
									}
								}
							}
						}
					} else {
						confirmed = true
					}
					if confirmed {
						wit = p
					}
				}
			}
			r.Paths++
			if wit != nil {
				r.Fail("path", "framing modifier: no request is accepted without its "+hdr+" lines having been examined", "a successful return is reachable without looking at "+hdr+" (an early return after the other check): a request with bad "+hdr+" framing passes when the other header is fine", witness(w, wit), bf.Pos())
			} else {
				r.Hold("path", "framing modifier: no request is accepted without its "+hdr+" lines having been examined", "every path to a nil return passes the lookup", bf.Pos())
			}
		}
		r.Decide("path", "framing modifier has an error exit for each of the two conditions", nerr >= 2, fmt.Sprintf("%d error returns", nerr), "a bad-framing condition is no longer reported as an error", bf.Pos())
		okCh := false
		for _, in := range instrs(bf) {
			b, y := in.(*ssa.BinOp)
			if !y || (b.Op != token.NEQ && b.Op != token.EQL) {
				continue
			}
			if s, isC := constString(b.Y); isC && s == "chunked" {
				okCh = true
			}
		}
		r.Decide("table", "framing modifier compares the final transfer coding with \"chunked\"", okCh, "comparison with \"chunked\"", "the Transfer-Encoding check no longer tests for chunked", bf.Pos())
	})
}
