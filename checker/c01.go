package main

import (
	"fmt"
	"go/token"
	"strings"

	"golang.org/x/tools/go/ssa"
)

const (
	nResWrite = "(*net/http.Response).Write"
	nFlush    = "(*bufio.Writer).Flush"
	nHCR      = "(*M.Proxy).handleConnectRequest"
	nHandle   = "(*M.Proxy).handle"
)

func init() {
	props["C01"] = c01
	floors["C01"] = map[string]int{"C01.R1": 5, "C01.R2": 1, "C01.R3": 6, "C01.R4": 15, "C01.R5": 3}
}

// exitKind classifies a return of an exchange function.
//
//	hijack    the return sits on the true edge of a Session.Hijacked() test
//	delegate  the returned value is the result of handing the exchange over
//	error     the returned value is the error of a failed library/module call
//	normal    everything else (nil / errClose / a local close flag)
func exitKind(f *ssa.Function, ret *ssa.Return) (kind string, classes []string) {
	// hijack: dominated by the true edge of a Hijacked() branch
	for _, h := range plainCalls(f, nHijcked) {
		for _, e := range branchesOn(h) {
			if edgeDominatesTrue(e, ret.Block()) {
				return "hijack", nil
			}
		}
	}
	if len(ret.Results) == 0 {
		return "normal", nil
	}
	cl := map[string]bool{}
	for _, v := range retVals(ret, len(ret.Results)-1) {
		// `if err := f(); err != nil { return err }` with f inlined: err is a
		// merge of f's results; under the `!= nil` edge the nil inputs do not
		// reach this return
		nonNil := false
		for _, ce := range ctrlEdges(ret.Block()) {
			if b, ok := ce.If.Cond.(*ssa.BinOp); ok && (b.Op == token.NEQ || b.Op == token.EQL) {
				if (b.X == v && isNilConst(b.Y)) || (b.Y == v && isNilConst(b.X)) {
					if (b.Op == token.NEQ) == ce.Taken {
						nonNil = true
					}
				}
			}
		}
		for _, leaf := range resolveAll(v) {
			if nonNil && isNilConst(leaf) {
				continue
			}
			cl[errClass(leaf)] = true
		}
	}
	ks := keys(cl)
	allCall := len(ks) > 0
	deleg := false
	for _, k := range ks {
		if !strings.HasPrefix(k, "call:") {
			allCall = false
		}
		if k == "call:"+nHCR || k == "call:"+nHandle || k == "call:(*M/h2.Config).Proxy" {
			deleg = true
		}
	}
	switch {
	case deleg && allCall:
		return "delegate", ks
	case allCall:
		return "error", ks
	}
	return "normal", ks
}

func edgeDominatesTrue(e condEdge, target *ssa.BasicBlock) bool {
	for k, s := range e.If.Block().Succs {
		if s == e.True {
			return edgeDominates(e.If.Block(), k, target)
		}
	}
	return false
}

func resolveAll(v ssa.Value) []ssa.Value {
	return resolveOnPath(v, nil)
}

// closeCondLeaves finds, in the exchange function, the three conditions that
// must force a connection close: req.Close, res.Close and p.Closing().
type closeLeaf struct {
	name string
	val  ssa.Value
}

func closeLeaves(f *ssa.Function, req ssa.Value) []closeLeaf {
	var out []closeLeaf
	for _, in := range instrs(f) {
		switch x := in.(type) {
		case *ssa.UnOp:
			if x.Op != token.MUL {
				continue
			}
			fa, ok := x.X.(*ssa.FieldAddr)
			if !ok || fieldObj(fa).Name() != "Close" {
				continue
			}
			switch fa.X.Type().String() {
			case "*net/http.Request":
				if sameAs(fa.X, req) {
					out = append(out, closeLeaf{"req.Close", x})
				}
			case "*net/http.Response":
				out = append(out, closeLeaf{"res.Close", x})
			}
		case *ssa.Call:
			if calleeName(x) == "(*M.Proxy).Closing" {
				out = append(out, closeLeaf{"p.Closing()", x})
			}
		}
	}
	return out
}

// closeDecision checks C01.R3 / C07.R4 for the exchange function.
func closeDecision(r *Report, f *ssa.Function, only string) {
	w := r.W
	req := requestValue(f)
	g := G(f)
	writes := plainCalls(f, nResWrite)
	isWrite := func(i ssa.Instruction) bool { _, ok := isCall(i, nResWrite); return ok }
	isCloseStore := func(i ssa.Instruction) bool {
		st, ok := i.(*ssa.Store)
		if !ok {
			return false
		}
		fa, ok := st.Addr.(*ssa.FieldAddr)
		if !ok || fieldObj(fa).Name() != "Close" || fa.X.Type().String() != "*net/http.Response" {
			return false
		}
		b, isB := constBool(st.Val)
		return isB && b
	}
	found := map[string]bool{}
	for _, leaf := range closeLeaves(f, req) {
		if only != "" && leaf.name != only {
			continue
		}
		es := branchesOn(leaf.val)
		if len(es) == 0 {
			continue // a load used for something else (e.g. logging)
		}
		found[leaf.name] = true
		for _, e := range es {
			r.Paths++
			key := fmt.Sprintf("%s: close requested by %s", fnName(f), leaf.name)
			// the response is marked close before it is written
			if p := g.PathTo(blockStart(e.True), true, isCloseStore, isWrite); p != nil || len(writes) == 0 {
				r.Fail("path", key, "a path from this condition reaches the response write without res.Close = true", witness(w, p), leaf.val.Pos())
				continue
			}
			// and the exchange reports errClose to the connection loop
			paths, ok := blockPathsE(e.If.Block(), e.rawTrue(), 4000)
			if !ok {
				r.Undecided(key, "too many paths to enumerate")
				continue
			}
			bad := ""
			for _, p := range paths {
				last := p[len(p)-1]
				ret, isRet := last.Instrs[len(last.Instrs)-1].(*ssa.Return)
				if !isRet {
					continue
				}
				if k, _ := exitKind(f, ret); k == "error" || k == "hijack" {
					continue
				}
				for _, v := range retVals(ret, 0) {
					for _, l := range resolveOnPath(v, p) {
						if c := errClass(l); c != "global:errClose" {
							bad = c
						}
					}
				}
			}
			r.Paths += len(paths)
			r.Decide("path", key, bad == "", fmt.Sprintf("res.Close = true precedes the write and all %d normal paths return errClose", len(paths)), "a normal path from this condition returns "+bad+" instead of errClose: the connection is kept open after a close request", leaf.val.Pos())
		}
	}
	for _, n := range []string{"req.Close", "res.Close", "p.Closing()"} {
		if only != "" && n != only {
			continue
		}
		if !found[n] {
			r.Fail("path", fmt.Sprintf("%s: close requested by %s", fnName(f), n), "the close decision no longer tests "+n, nil, f.Pos())
		}
	}
	if only != "" {
		return
	}
	// "the connection stays usable unless either side asked to close": the
	// response is marked close only under the three conditions, and errClose
	// is returned on a normal exit only from there or after a failed write.
	allowed := map[ssa.Value]bool{}
	for _, leaf := range closeLeaves(f, req) {
		allowed[leaf.val] = true
	}
	var storeBlocks []*ssa.BasicBlock
	for _, in := range instrs(f) {
		if !isCloseStore(in) {
			continue
		}
		storeBlocks = append(storeBlocks, in.Block())
		bad := ""
		seen := map[*ssa.BasicBlock]bool{}
		var walk func(b *ssa.BasicBlock)
		var checkEdge func(p, b *ssa.BasicBlock)
		seenEdge := map[[2]*ssa.BasicBlock]bool{}
		checkEdge = func(p, b *ssa.BasicBlock) {
			if bad != "" || seenEdge[[2]*ssa.BasicBlock{p, b}] {
				return
			}
			seenEdge[[2]*ssa.BasicBlock{p, b}] = true
			iff, isIf := p.Instrs[len(p.Instrs)-1].(*ssa.If)
			if !isIf || p.Succs[0] == p.Succs[1] {
				walk(p)
				return
			}
			cond, neg := iff.Cond, false
			for {
				u, isU := cond.(*ssa.UnOp)
				if !isU || u.Op != token.NOT {
					break
				}
				cond, neg = u.X, !neg
			}
			takenTrue := p.Succs[0] == b
			if phi, _ := boolMerge(p); phi != nil && ssa.Value(phi) == cond {
				// `x := a || b || c; if x`: each input of the merge is a trigger of its own
				want := takenTrue != neg
				for k, e := range phi.Edges {
					if c, isC := constBool(e); isC {
						if c == want {
							checkEdge(p.Preds[k], p)
						}
						continue
					}
					if !allowed[e] {
						bad = "on a condition other than req.Close, res.Close or p.Closing() (" + r.W.Pos(e.Pos()) + ")"
						return
					}
					if !want {
						bad = "when the close condition is false (" + r.W.Pos(e.Pos()) + ")"
						return
					}
				}
				return
			}
			if !allowed[cond] {
				bad = "on a condition other than req.Close, res.Close or p.Closing() (" + r.W.Pos(iff.Cond.Pos()) + ")"
				return
			}
			if takenTrue == neg {
				bad = "when the close condition is false (" + r.W.Pos(iff.Cond.Pos()) + ")"
			}
		}
		walk = func(b *ssa.BasicBlock) {
			if seen[b] || bad != "" {
				return
			}
			seen[b] = true
			if len(b.Preds) == 0 {
				bad = "unconditionally"
				return
			}
			for _, p := range b.Preds {
				checkEdge(p, b)
			}
		}
		walk(in.Block())
		r.Decide("path", fmt.Sprintf("%s: the response is marked close only when a side asked for it or the proxy is closing", fnName(f)), bad == "", "every edge into the block that sets res.Close = true is the true edge of req.Close, res.Close or p.Closing()", "the proxy marks the response close "+bad+": the connection is closed although nobody asked, and the client's next (or pipelined) request gets no response", in.Pos())
	}
	var failEdges []nilTest
	for _, name := range []string{nResWrite, nFlush} {
		for _, c := range plainCalls(f, name) {
			failEdges = append(failEdges, errTests(c)...)
		}
	}
	for k, ret := range returns(f) {
		if kind, _ := exitKind(f, ret); kind != "normal" {
			continue
		}
		for _, v := range retVals(ret, 0) {
			phi, isPhi := v.(*ssa.Phi)
			if !isPhi {
				continue
			}
			okAll := true
			var visit func(phi *ssa.Phi, depth int)
			visit = func(phi *ssa.Phi, depth int) {
				for i, e := range phi.Edges {
					if inner, isP := e.(*ssa.Phi); isP && depth < 6 {
						visit(inner, depth+1)
						continue
					}
					if errClass(e) != "global:errClose" {
						continue
					}
					pb := phi.Block().Preds[i]
					justified := false
					for _, sb := range storeBlocks {
						if sb == pb || sb.Dominates(pb) {
							justified = true
						}
					}
					for _, t := range failEdges {
						if t.NonNil == pb || edgeDominatesNonNil(t, pb) {
							justified = true
						}
					}
					if !justified {
						okAll = false
					}
				}
			}
			visit(phi, 0)
			r.Decide("path", fmt.Sprintf("%s: normal exit #%d ends the connection only after a close request or a failed write", fnName(f), k+1), okAll, "every errClose reaching this return comes from the close-request block or from the error edge of the response write / flush", "the exchange returns errClose on a path where nobody asked to close and the write succeeded: the connection is dropped and the client's next request is lost", ret.Pos())
		}
	}
}

// warningQuoted: proxyutil.Warning puts the error text into the header quoted
// (shared by C01.R4 and C02.R4).
func warningQuoted(r *Report, wf *ssa.Function) {
	w := r.W
	// the error text goes into the header quoted: a message with a line break or
	// another control character (a MultiError lists its parts on separate lines)
	// must not become an invalid header value that the transport refuses to send
	quoted := false
	var at token.Pos = wf.Pos()
	for _, c := range plainCalls(wf, "fmt.Sprintf") {
		format, isC := constString(c.Call.Args[0])
		if !isC {
			continue
		}
		var verbs []byte
		for i := 0; i+1 < len(format); i++ {
			if format[i] == '%' {
				if format[i+1] != '%' {
					verbs = append(verbs, format[i+1])
				}
				i++
			}
		}
		ops := concatOperands(c)
		for k, o := range ops {
			isErrText := anyIn(w.backSlice(o, flowOpt{}), func(x ssa.Value) bool {
				cc, y := x.(*ssa.Call)
				return y && cc.Call.IsInvoke() && cc.Call.Method.Name() == "Error"
			})
			if isErrText && len(ops) == len(verbs) {
				at = c.Pos()
				quoted = verbs[k] == 'q' || anyIn(w.backSlice(o, flowOpt{}), func(x ssa.Value) bool { return isCallValue(x, "strconv.Quote", "strconv.QuoteToASCII") })
			}
		}
	}
	if !quoted {
		for _, c := range plainCalls(wf, "strconv.Quote", "strconv.QuoteToASCII") {
			if anyIn(w.backSlice(c.Call.Args[0], flowOpt{}), func(x ssa.Value) bool {
				cc, y := x.(*ssa.Call)
				return y && cc.Call.IsInvoke() && cc.Call.Method.Name() == "Error"
			}) {
				quoted = true
			}
		}
	}
	// ... and is added whatever the error says: no path through Warning returns without
	// the header having been added (a cap on the text length, a filter on the error kind)
	{
		g := G(wf)
		isAdd := func(i ssa.Instruction) bool {
			c, ok := i.(*ssa.Call)
			if !ok {
				return false
			}
			n := calleeName(c)
			return (n == "(net/http.Header).Add" || n == "(net/http.Header).Set") && len(c.Call.Args) > 1 && func() bool { k, isK := constString(c.Call.Args[1]); return isK && k == "Warning" }()
		}
		p := g.PathTo([]ssa.Instruction{g.Entry()}, true, isAdd, isReturn)
		r.Decide("path", "M/proxyutil.Warning adds the header on every path", p == nil, "header.Add(\"Warning\", ...) lies on every path to the return", "some errors produce no Warning header (a return before header.Add): the 502 / the modified message goes out without the Warning the property promises", wf.Pos())
	}
	r.Decide("table", "M/proxyutil.Warning quotes the error text", quoted, "the error text is formatted with %q / strconv.Quote", "the error text is put into the Warning header as it is: an error message containing a line break makes the header invalid, the transport refuses the request, and a modifier error aborts the exchange instead of being surfaced", at)
}

func c01(r *Report) {
	w := r.W
	r.Decline("byte identity of bodies and header values (delegated to net/http ReadRequest / Transport / Response.Write)")
	r.Decline("pipelining depth, origin framing variety, keep-alive timing")
	r.Decline("error exits that propagate a failed library call (withSession, DumpResponse) are listed, not judged")
	handle := r.Use("", "Proxy.handle")
	hcr := r.Use("", "Proxy.handleConnectRequest")
	loop := r.Use("", "Proxy.handleLoop")
	if handle == nil || hcr == nil || loop == nil {
		return
	}
	g := G(handle)

	r.Guard("C01.R1", "through a shaped listener too: a shaped read or write never comes back empty-handed without an error", func() {
		shapedCallbacksDoIORule(r)
		reconfigClosesNoBucketRule(r)
	})

	r.Guard("C01.R1", "exactly one response is written and then flushed on every normal exit of the exchange function", func() {
		responseWrittenRule(r, handle)
	})

	r.Guard("C01.R2", "the request body is closed on every exit after a successful read", func() {
		req := requestValue(handle)
		var def ssa.Instruction
		for _, c := range calls(handle, "(io.Closer).Close") {
			d, ok := c.(*ssa.Defer)
			if !ok {
				continue
			}
			ld, ok := d.Call.Value.(*ssa.UnOp)
			if !ok {
				continue
			}
			if fa, ok := ld.X.(*ssa.FieldAddr); ok && sameAs(fa.X, req) && fieldObj(fa).Name() == "Body" {
				def = d
			}
		}
		key := "(*M.Proxy).handle: defer req.Body.Close()"
		if def == nil {
			r.Fail("path", key, "no deferred Close of the request body read by this exchange", nil, handle.Pos())
			return
		}
		rd := plainCalls(handle, "(*M.Proxy).readRequest")
		tests := errTests(rd[0])
		if len(tests) != 1 {
			r.Fail("path", key, "the request reader's error is not tested exactly once", nil, rd[0].Pos())
			return
		}
		p := g.PathTo(blockStart(tests[0].Nil), true, func(i ssa.Instruction) bool { return i == def }, func(i ssa.Instruction) bool {
			if isExit(i) {
				return true
			}
			c, ok := i.(*ssa.Call)
			return ok && (isReqMod(c) || calleeName(c) == nHCR)
		})
		r.Paths++
		r.Decide("path", key, p == nil, "the deferred close is registered before any exit or modifier call", "an exit or a modifier call is reachable before the body close is registered", def.Pos())
	})

	r.Guard("C01.R5", "the configured timeout is the one the deadline is armed with", func() {
		setterStoresRule(r, "", "Proxy", "SetTimeout", "timeout", "the connection deadline is armed with the default whatever the user configures")
		deadlineSitesRule(r, loop)
		// the default transport carries no limit that turns a legitimate origin response
		// into a 502
		deny := map[string]string{
			"MaxResponseHeaderBytes": "responses with a larger head", "ResponseHeaderTimeout": "responses from a slow origin",
			"MaxConnsPerHost": "concurrent requests beyond the cap (they queue)", "DisableKeepAlives": "upstream connection reuse",
		}
		nlim := 0
		for _, f := range w.Funcs("") {
			for _, in := range instrs(f) {
				st, ok := in.(*ssa.Store)
				if !ok {
					continue
				}
				fa, ok := st.Addr.(*ssa.FieldAddr)
				if !ok || fa.X.Type().String() != "*net/http.Transport" {
					continue
				}
				if what, bad := deny[fieldObj(fa).Name()]; bad {
					nlim++
					r.Fail("table", fnName(f)+": http.Transport."+fieldObj(fa).Name()+" is set", "the proxy's transport is given a limit that affects "+what+": the client receives a 502 (or waits) where the origin's response would have been relayed", nil, st.Pos())
				}
			}
		}
		r.Decide("table", "M: the proxy's http.Transport carries no response limit", nlim == 0, "none of MaxResponseHeaderBytes, ResponseHeaderTimeout, MaxConnsPerHost, DisableKeepAlives is set in the core", "see the individual constructs")
	})

	r.Guard("C01.R2", "the request body is closed by the deferred close only", func() {
		requestBodyClosedOnlyByDefer(r, handle)
	})

	r.Guard("C01.R2", "the response body is closed on every exit once there is a response", func() {
		// (the upstream connection goes back to the transport's pool only when the body has
		// been closed; without it every exchange strands one upstream connection)
		var def ssa.Instruction
		for _, c := range calls(handle, "(io.Closer).Close") {
			d, ok := c.(*ssa.Defer)
			if !ok {
				continue
			}
			ld, ok := d.Call.Value.(*ssa.UnOp)
			if !ok {
				continue
			}
			if fa, ok := ld.X.(*ssa.FieldAddr); ok && fieldObj(fa).Name() == "Body" && fa.X.Type().String() == "*net/http.Response" {
				def = d
			}
		}
		okD := false
		if def != nil {
			for _, wc := range calls(handle, nResWrite) {
				if g.Before(def, wc) {
					okD = true
				}
			}
		}
		r.Decide("path", "(*M.Proxy).handle: defer res.Body.Close()", okD, "registered before the response is written, so it runs on every later exit", "the response body is not closed on every exit: the upstream connection is never returned to the transport", handle.Pos())
	})

	r.Guard("C01.R3", "either side asking to close, or shutdown, marks the response close and ends the connection", func() {
		newResponseCopiesRule(r)
		// closing a client connection delivers what was written: the core never sets SO_LINGER (a
		// zero linger - which a sub-second timeout truncates to - turns close into a reset that
		// discards the queued tail of the response)
		nl := 0
		for _, f := range w.Funcs("") {
			for _, c := range calls(f, "(*net.TCPConn).SetLinger") {
				nl++
				r.Fail("callgraph", fnName(f)+": "+site(f, c)+" sets SO_LINGER on a connection", "with a linger of zero (a timeout below one second truncates to it) closing the connection sends a reset and discards queued bytes: a large response to a Connection: close request is cut off", nil, c.Pos())
			}
		}
		if nl == 0 {
			r.Hold("callgraph", "the proxy core never sets SO_LINGER", "no SetLinger call")
		}
		closeDecision(r, handle, "")
		// the loop leaves on errClose: isCloseable(errClose) and the loop test
		isc := r.Use("", "isCloseable")
		if isc == nil {
			return
		}
		ok := false
		for _, in := range instrs(isc) {
			b, isB := in.(*ssa.BinOp)
			if !isB || b.Op != token.EQL {
				continue
			}
			if !(errClass(b.X) == "global:errClose" || errClass(b.Y) == "global:errClose") {
				continue
			}
			for _, e := range branchesOn(b) {
				vals, _, _ := returnValuesFrom(e.True, 0)
				all := len(vals) > 0
				for _, v := range vals {
					if bv, isC := constBool(v); !isC || !bv {
						all = false
					}
				}
				if all {
					ok = true
				}
			}
			// `return ... || err == errClose`: the comparison itself is (an input of) the result
			for _, ret := range returns(isc) {
				for _, v := range retVals(ret, 0) {
					for _, l := range resolveAll(v) {
						if l == ssa.Value(b) {
							ok = true
						}
					}
				}
			}
		}
		r.Decide("table", "M.isCloseable: errClose is closeable", ok, "a comparison with errClose returns true", "isCloseable no longer returns true for errClose: a close request does not end the connection loop", isc.Pos())
		hc := plainCalls(loop, nHandle)
		ok2 := false
		var pos token.Pos = loop.Pos()
		if len(hc) == 1 {
			pos = hc[0].Pos()
			gl := G(loop)
			for _, ic := range plainCalls(loop, "M.isCloseable") {
				if ic.Call.Args[0] != ssa.Value(hc[0]) {
					continue
				}
				for _, e := range branchesOn(ic) {
					again := gl.PathTo(blockStart(e.True), true, nil, func(i ssa.Instruction) bool { return i == ssa.Instruction(hc[0]) })
					if again == nil {
						ok2 = true
					}
				}
			}
		}
		r.Decide("path", "(*M.Proxy).handleLoop: leaves the loop when handle's error is closeable", ok2, "isCloseable(handle(...)) true edge never serves another request", "the connection loop does not stop on a closeable error", pos)
		// the loop's deferred conn.Close
		okc := false
		for _, c := range calls(loop, "(net.Conn).Close") {
			if d, isD := c.(*ssa.Defer); isD && isParamVal(d.Call.Value, loop.Params[1]) && d.Block() == loop.Blocks[0] {
				okc = true
			}
		}
		r.Decide("path", "(*M.Proxy).handleLoop: defer conn.Close() in the entry block", okc, "the accepted connection is closed on every exit of the loop", "the connection loop no longer closes the accepted connection on every exit", loop.Pos())
	})

	r.Guard("C01.R4", "the proxy core does not edit message headers except to add a Warning on an error branch", func() {
		hdrEdit := map[string]bool{"(net/http.Header).Set": true, "(net/http.Header).Add": true, "(net/http.Header).Del": true}
		for _, f := range w.Funcs("") {
			r.Touch(f)
			for _, in := range instrs(f) {
				if mu, ok := in.(*ssa.MapUpdate); ok && mu.Map.Type().String() == "net/http.Header" {
					r.Fail("callgraph", "header map store in "+fnName(f), "the proxy core stores into a message header map", nil, mu.Pos())
				}
				c, ok := in.(ssa.CallInstruction)
				if !ok {
					continue
				}
				n := calleeName(c)
				if hdrEdit[n] {
					r.Fail("callgraph", "header edit in "+site(f, c), "the proxy core edits a message header (end-to-end headers must pass untouched)", nil, c.Pos())
				}
				if n == nWarning {
					r.Sites++
					// on an error branch: dominated by the non-nil edge of the error passed
					errv := c.Common().Args[1]
					ok := false
					for _, t := range nilTests(errv) {
						for k, s := range t.If.Block().Succs {
							if s == t.NonNil && edgeDominates(t.If.Block(), k, c.Block()) {
								ok = true
							}
						}
					}
					r.Decide("path", "Warning only on an error branch: "+site(f, c), ok, "dominated by err != nil", "proxyutil.Warning is called outside the branch where its error is non-nil", c.Pos())
				}
			}
		}
		// the core assigns only the message fields it is meant to derive (everything else is the
		// client's / origin's message and must reach the other side as read)
		allowedReq := map[string]bool{"TLS": true, "RemoteAddr": true}
		allowedRes := map[string]bool{"Request": true, "Close": true, "ContentLength": true}
		allowedURL := map[string]bool{"Scheme": true, "Host": true}
		for _, f := range w.Funcs("") {
			for _, in := range instrs(f) {
				st, ok := in.(*ssa.Store)
				if !ok {
					continue
				}
				fa, ok := st.Addr.(*ssa.FieldAddr)
				if !ok {
					continue
				}
				var allowed map[string]bool
				switch fa.X.Type().String() {
				case "*net/http.Request":
					allowed = allowedReq
				case "*net/http.Response":
					allowed = allowedRes
				case "*net/url.URL":
					allowed = allowedURL
				default:
					continue
				}
				name := fieldObj(fa).Name()
				r.Sites++
				r.Decide("callgraph", fmt.Sprintf("%s assigns %s.%s", fnName(f), strings.TrimPrefix(fa.X.Type().String(), "*"), name), allowed[name], "one of the fields the proxy derives itself", "the proxy core overwrites a part of the message that must be relayed as read (body, method, headers, lengths ...)", st.Pos())
			}
		}
		// Warning itself only adds a Warning header
		wf := r.Use("proxyutil", "Warning")
		if wf != nil {
			okw := true
			n := 0
			for _, c := range calls(wf) {
				switch calleeName(c) {
				case "(net/http.Header).Add":
					n++
					if s, isC := constString(c.Common().Args[1]); !isC || s != "Warning" {
						okw = false
					}
				case "(net/http.Header).Set", "(net/http.Header).Del":
					okw = false
				}
			}
			r.Decide("table", "M/proxyutil.Warning adds only the Warning header", okw && n == 1, "single Header.Add(\"Warning\", …)", "proxyutil.Warning edits something other than adding a Warning header", wf.Pos())
			warningQuoted(r, wf)
		}
	})

	r.Guard("C01.R5", "exchanges on one connection are served sequentially", func() {
		if rd := r.Use("", "Proxy.readRequest"); rd != nil {
			readFromConnReaderRule(r, rd)
		}
		// every exchange runs under a freshly armed deadline: no path from the top of the
		// connection loop to the exchange avoids conn.SetDeadline (requests already in the
		// read buffer still need the time to write their responses)
		{
			gl := G(loop)
			for _, hc := range plainCalls(loop, nHandle) {
				if !inLoop(hc.Block()) {
					continue
				}
				isSD := func(i ssa.Instruction) bool {
					c, ok := i.(ssa.CallInstruction)
					return ok && c.Common().IsInvoke() && c.Common().Method.Name() == "SetDeadline"
				}
				// from the call round the loop back to itself, and from the entry to it
				starts := []ssa.Instruction{gl.Entry()}
				for _, nx := range gl.Succs(hc) {
					starts = append(starts, nx)
				}
				p := gl.PathTo(starts, true, isSD, func(i ssa.Instruction) bool { return i == ssa.Instruction(hc) })
				r.Paths++
				r.Decide("path", "(*M.Proxy).handleLoop: the connection deadline is re-armed before every exchange", p == nil, "SetDeadline lies on every path to the exchange, in every iteration", "an exchange can start without the connection deadline having been re-armed (e.g. when the next request is already buffered): a pipelined burst outlasting the old deadline has its later responses cut off", hc.Pos())
			}
		}

		for _, c := range w.staticCallers(handle) {
			f := c.Parent()
			_, isGo := c.(*ssa.Go)
			ok := !isGo && (f == loop || f == hcr)
			r.Sites++
			r.Decide("callgraph", "caller of the exchange function: "+site(f, c), ok, "plain call from the connection loop or the CONNECT hand-off", "the exchange function is started concurrently or from an unexpected caller: responses can be reordered", c.Pos())
		}
		r.dynamicCallerRule(handle, "exchanges could then run concurrently on one connection")
		// and it is not used as a function value
		for _, f := range w.Funcs("") {
			for _, in := range instrs(f) {
				if _, isCall := in.(ssa.CallInstruction); isCall {
					continue
				}
				for _, op := range in.Operands(nil) {
					if *op == ssa.Value(handle) {
						r.Fail("callgraph", "exchange function used as a value in "+fnName(f), "handle escapes as a function value", nil, in.Pos())
					}
				}
			}
		}
	})
}

// responseWrittenRule: exactly one response is written and then flushed on
// every normal exit of the exchange function (C01.R1; also C07.R5: the
// complete response of an exchange in flight reaches the client before the
// connection is closed by shutdown).
func responseWrittenRule(r *Report, handle *ssa.Function) {
	w := r.W
	g := G(handle)
	isWrite := func(i ssa.Instruction) bool { _, ok := isCall(i, nResWrite); return ok }
	isFlush := func(i ssa.Instruction) bool { _, ok := isCall(i, nFlush); return ok }
	wn := countBefore(handle, isWrite)
	fn := countBefore(handle, isFlush)
	for k, ret := range returns(handle) {
		if ret.Block() == handle.Recover {
			continue
		}
		kind, classes := exitKind(handle, ret)
		key := fmt.Sprintf("(*M.Proxy).handle: %s exit #%d", kind, k+1)
		r.Paths++
		switch kind {
		case "error":
			r.Note("C01.R1 error exit not judged: %s returns %v (%s)", key, classes, w.Pos(ret.Pos()))
			continue
		case "hijack", "delegate":
			ok := wn[ret] == cnt{0, 0}
			r.Decide("path", key, ok, "no response written by the proxy on this exit", "the proxy writes a response on a hijack/delegation exit: write count "+wn[ret].String(), ret.Pos())
		default:
			ok := wn[ret] == cnt{1, 1} && fn[ret].Min >= 1
			why := fmt.Sprintf("write count %v, flush count %v", wn[ret], fn[ret])
			if ok {
				// a flush follows the write on every path to this return
				for _, wr := range plainCalls(handle, nResWrite) {
					if p := g.PathTo([]ssa.Instruction{wr}, false, isFlush, func(i ssa.Instruction) bool { return i == ssa.Instruction(ret) }); p != nil {
						ok = false
						why = "a path from the write to this return has no flush"
					}
				}
			}
			r.Decide("path", key, ok, "one write followed by a flush on every path", "normal exit without exactly one written and flushed response: "+why, ret.Pos())
		}
	}
	// the write and the flush go to the client's buffered writer
	for _, wr := range plainCalls(handle, nResWrite) {
		ok := anyIn(w.backSlice(wr.Call.Args[1], flowOpt{}), func(v ssa.Value) bool { return isParamVal(v, handle.Params[3]) })
		r.Decide("flow", "(*M.Proxy).handle: response written to the client's brw", ok, "destination is the brw parameter", "response written somewhere other than the client's buffered writer", wr.Pos())
	}
}

// requestBodyClosedOnlyByDefer: the exchange function closes the request body
// through its deferred close and nowhere else. An early Close drains (or cuts)
// what follows the request head: before the CONNECT hand-off that is tunnel
// data, before the round trip it is the upload.
func requestBodyClosedOnlyByDefer(r *Report, handle *ssa.Function) {
	req := requestValue(handle)
	n := 0
	for _, c := range calls(handle, "(io.Closer).Close") {
		if _, isDefer := c.(*ssa.Defer); isDefer {
			continue
		}
		ld, ok := c.Common().Value.(*ssa.UnOp)
		if !ok {
			continue
		}
		if fa, ok := ld.X.(*ssa.FieldAddr); ok && sameAs(fa.X, req) && fieldObj(fa).Name() == "Body" {
			n++
			r.Fail("path", "(*M.Proxy).handle: req.Body.Close() outside the deferred close", "the request body is closed in the middle of the exchange: closing drains what follows the head, which before the CONNECT hand-off is the first bytes of the tunnel (they never reach the target), and before the round trip is the upload", nil, c.Pos())
		}
	}
	r.Decide("path", "(*M.Proxy).handle: the request body is closed by the deferred close only", n == 0, "no plain Close of req.Body in the exchange function", "see the individual constructs")
}

// deadlineSitesRule: a deadline is armed on the client connection by the
// connection loop and nowhere else in the core (connect's own arm/disarm pair
// is C04.R3): a deadline left on a dialled connection outlives the exchange,
// because the transport pools it, and a deadline armed on a tunnel end cuts
// the direction that is still flowing. Shared by C01.R5 and C04.R5.
func deadlineSitesRule(r *Report, loop *ssa.Function) {
	w := r.W
	for _, f := range w.Funcs("") {
		for _, c := range calls(f) {
			cc := c.Common()
			name := ""
			if cc.IsInvoke() {
				name = cc.Method.Name()
			} else if sc := cc.StaticCallee(); sc != nil {
				name = sc.Name()
			}
			if name != "SetDeadline" && name != "SetReadDeadline" && name != "SetWriteDeadline" {
				continue
			}
			if fnName(f) == "(*M.Proxy).connect" {
				continue
			}
			// a wrapper type's own method of the same name that hands the call to the connection it
			// wraps arms nothing by itself
			if f.Signature.Recv() != nil && f.Name() == name && len(f.Params) == 2 {
				args := cc.Args
				if len(args) > 0 && isParamVal(args[len(args)-1], f.Params[1]) {
					continue
				}
			}
			recv := cc.Value
			if !cc.IsInvoke() && len(cc.Args) > 0 {
				recv = cc.Args[0]
			}
			okSite := f == loop && len(loop.Params) > 1 && (isParamVal(recv, loop.Params[1]) || isCallValue(recv, "(*M.Session).currentConn"))
			if okSite {
				// the deadline is worked out anew for every exchange: the time.Now() it derives from is
				// taken inside the loop that arms it
				args := cc.Args
				fresh := false
				inLoop := false
				for _, l := range natLoops(f) {
					if !l.Blocks[c.Block()] {
						continue
					}
					inLoop = true
					var walk func(v ssa.Value, depth int)
					walk = func(v ssa.Value, depth int) {
						if depth > 6 {
							return
						}
						for _, x := range resolveAll(v) {
							nc, isC := x.(*ssa.Call)
							if !isC {
								continue
							}
							switch calleeName(nc) {
							case "time.Now":
								if nc.Parent() == f && l.Blocks[nc.Block()] {
									fresh = true
								}
							case "(time.Time).Add", "(time.Time).Round", "(time.Time).Truncate", "(time.Time).UTC", "(time.Time).Local":
								walk(nc.Call.Args[0], depth+1)
							}
						}
					}
					walk(args[len(args)-1], 0)
				}
				r.Decide("flow", "deadline armed at "+site(f, c)+" is computed for each exchange", inLoop && fresh, "time.Now() is taken inside the connection loop", "the deadline is armed in the loop but worked out outside it (or not from the current time): it is never pushed forward, and a connection that has been open longer than the timeout is cut in the middle of a later exchange, its 502 or its tunnel with it", c.Pos())
			}
			r.Decide("callgraph", "deadline armed at "+site(f, c), okSite, "the connection loop, on the client connection", "a deadline is armed on a connection outside the connection loop ("+fnName(f)+"): on an upstream connection it stays armed while the transport reuses the connection, and a later exchange fails when it expires", c.Pos())
		}
	}
}
