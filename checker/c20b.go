package main

import (
	"fmt"
	"go/token"

	"golang.org/x/tools/go/ssa"
)

// rangeArithmeticRules decides the integer arithmetic of the Range handling of
// the body and static-file modifiers by evaluating the expressions of the code
// on a grid of values (content size 10; first and last positions 0, 3, 9, 10,
// 12). The expressions involved only add, subtract and compare the parsed
// positions, the content size and small constants, so agreement on the grid
// (which has a point on each side of, and on, every boundary) is agreement
// everywhere. What is decided: which pairs are accepted, what is recorded for
// an accepted pair, and how the recorded pair is turned into slice bounds,
// buffer sizes, read offsets and the Content-Range text.
func rangeArithmeticRules(r *Report, name string, f *ssa.Function) {
	w := r.W
	key := func(s string) string { return fmt.Sprintf("(*M/%s.Modifier).ModifyResponse: %s", name, s) }
	isSize := func(v ssa.Value) bool {
		c, ok := v.(*ssa.Call)
		if !ok {
			return false
		}
		if b, isB := c.Call.Value.(*ssa.Builtin); isB && b.Name() == "len" {
			ld, isLd := c.Call.Args[0].(*ssa.UnOp)
			if !isLd {
				return false
			}
			fa, isFa := ld.X.(*ssa.FieldAddr)
			return isFa && fieldObj(fa).Name() == "body"
		}
		return c.Call.IsInvoke() && c.Call.Method.Name() == "Size"
	}
	// the two parsed positions: Atoi of element 0 / element 1 of the split range text
	var parsed [2]ssa.Value
	for _, c := range plainCalls(f, "strconv.Atoi", "strconv.ParseInt") {
		for v := range w.backSlice(c.Call.Args[0], flowOpt{Through: map[string]bool{"strings.TrimSpace": true}, CallArg: true}) {
			if ia, ok := v.(*ssa.IndexAddr); ok {
				if k, isK := constInt(ia.Index); isK && (k == 0 || k == 1) && ia.X.Type().String() == "[]string" {
					parsed[k] = resultOf(c, 0)
				}
			}
		}
	}
	// positions up to the largest int are parsed (a narrower parse turns a large last position,
	// which only needs clamping, into an error)
	for _, g := range w.staticReach(f) {
		for _, c := range plainCalls(g, "strconv.ParseInt", "strconv.ParseUint") {
			if k, isK := constInt(c.Call.Args[2]); isK && k != 0 && k < 64 {
				r.Fail("table", key(fmt.Sprintf("positions are parsed in at least 64 bits (%s)", fnName(g))), "a byte position is parsed with a bit size below 64: a last position of 2^31 or more, which the specification clamps to the end of the content, is answered with an error", nil, c.Pos())
			}
		}
	}
	var pair *ssa.Alloc
	for _, in := range instrs(f) {
		if a, ok := in.(*ssa.Alloc); ok && a.Type().String() == "*[2]int" {
			pair = a
		}
	}
	if parsed[0] == nil || parsed[1] == nil || pair == nil {
		r.Undecided(key("range arithmetic"), "UNRESOLVED: parsed positions or the recorded pair not identified")
		return
	}
	var rec [2]ssa.Value
	for _, u := range *pair.Referrers() {
		if ia, ok := u.(*ssa.IndexAddr); ok {
			k, _ := constInt(ia.Index)
			for _, uu := range *ia.Referrers() {
				if st, isSt := uu.(*ssa.Store); isSt && k >= 0 && k < 2 {
					rec[k] = st.Val
				}
			}
		}
	}
	grid := []int64{0, 3, 9, 10, 12}
	const S = int64(10)
	okAccept, okRec, evaluable := true, true, 0
	bad := ""
	for _, a := range grid {
		for _, b := range grid {
			ev := &miniEval{leaf: func(v ssa.Value) (int64, bool) {
				switch {
				case v == parsed[0]:
					return a, true
				case v == parsed[1]:
					return b, true
				case isSize(v):
					return S, true
				}
				return 0, false
			}}
			accepted := true
			n := 0
			for _, ce := range ctrlEdges(pair.Block()) {
				c, ok := ev.Bool(ce.If.Cond)
				if !ok {
					continue
				}
				n++
				if c != ce.Taken {
					accepted = false
				}
			}
			evaluable = n
			want := !(a > b || a >= S)
			if accepted != want {
				okAccept = false
				bad = fmt.Sprintf("first=%d last=%d size=%d: accepted=%v, want %v", a, b, S, accepted, want)
			}
			if want && accepted && rec[0] != nil && rec[1] != nil {
				r0, ok0 := ev.Int(rec[0])
				r1, ok1 := ev.Int(rec[1])
				wantEnd := b
				if wantEnd > S-1 {
					wantEnd = S - 1
				}
				if !ok0 || !ok1 || r0 != a || r1 != wantEnd {
					okRec = false
					bad = fmt.Sprintf("first=%d last=%d size=%d: recorded (%d,%d) evaluable=%v/%v, want (%d,%d)", a, b, S, r0, r1, ok0, ok1, a, wantEnd)
				}
			}
		}
	}
	if !(okAccept && okRec && evaluable >= 2) {
		// second reading: run the code from the second parse to the recorded pair for each grid point
		// (the guards may sit behind merges of several arms, e.g. the results of a helper with early
		// returns; a condition that is not arithmetic -- a parse error, a comma-ok -- takes the one
		// branch from which the pair is still recorded in this round)
		if pi, isI := parsed[1].(ssa.Instruction); isI && pi.Block() != pair.Block() && reachesAvoiding(pi.Block(), pair.Block(), nil) {
			start := pi.Block()
			// the parses succeeded: their error results are nil
			parseErrNil := func(ev *miniEval) func(ssa.Value) (bool, bool) {
				var isNil func(v ssa.Value, d int) (bool, bool)
				isNil = func(v ssa.Value, d int) (bool, bool) {
					if d > 20 {
						return false, false
					}
					switch x := v.(type) {
					case *ssa.Const:
						return x.IsNil(), true
					case *ssa.Extract:
						if c, isC := x.Tuple.(*ssa.Call); isC && x.Index == 1 && (calleeName(c) == "strconv.Atoi" || calleeName(c) == "strconv.ParseInt") {
							return true, true
						}
					case *ssa.Phi:
						if k, picked := ev.pick[x]; picked {
							return isNil(x.Edges[k], d+1)
						}
					}
					return false, false
				}
				return func(v ssa.Value) (bool, bool) {
					bo, isB := v.(*ssa.BinOp)
					if !isB || (bo.Op != token.EQL && bo.Op != token.NEQ) || !isErrorType(bo.X.Type()) {
						return false, false
					}
					other := bo.X
					if k, isK := bo.X.(*ssa.Const); isK && k.IsNil() {
						other = bo.Y
					} else if k, isK := bo.Y.(*ssa.Const); !isK || !k.IsNil() {
						return false, false
					}
					n, ok := isNil(other, 0)
					return n == (bo.Op == token.EQL), ok
				}
			}
			wAccept, wRec, wBad := true, true, ""
			for _, a := range grid {
				for _, b := range grid {
					ev := &miniEval{leaf: func(v ssa.Value) (int64, bool) {
						switch {
						case v == parsed[0]:
							return a, true
						case v == parsed[1]:
							return b, true
						case isSize(v):
							return S, true
						}
						return 0, false
					}}
					ev.pick = map[*ssa.Phi]int{}
					ev.bleaf = parseErrNil(ev)
					reached, okW := ev.walk(start, pair.Block(), func(iff *ssa.If) int {
						t := reachesAvoiding(iff.Block().Succs[0], pair.Block(), start)
						e := reachesAvoiding(iff.Block().Succs[1], pair.Block(), start)
						switch {
						case t && !e:
							return 0
						case e && !t:
							return 1
						}
						return -1
					})
					want := !(a > b || a >= S)
					if !okW || reached != want {
						wAccept = false
						wBad = fmt.Sprintf("first=%d last=%d size=%d: accepted=%v decided=%v, want %v", a, b, S, reached, okW, want)
						continue
					}
					if want && rec[0] != nil && rec[1] != nil {
						r0, ok0 := ev.Int(rec[0])
						r1, ok1 := ev.Int(rec[1])
						wantEnd := b
						if wantEnd > S-1 {
							wantEnd = S - 1
						}
						if !ok0 || !ok1 || r0 != a || r1 != wantEnd {
							wRec = false
							wBad = fmt.Sprintf("first=%d last=%d size=%d: recorded (%d,%d) evaluable=%v/%v, want (%d,%d)", a, b, S, r0, r1, ok0, ok1, a, wantEnd)
						}
					}
				}
			}
			if wAccept && wRec && rec[0] != nil && rec[1] != nil {
				okAccept, okRec, evaluable = true, true, 2
			} else if wBad != "" {
				bad += "; run from the second parse: " + wBad
			}
		}
	}
	r.Decide("flow", key("a range is accepted exactly when first <= last and first < size"), okAccept && evaluable >= 2, "the guards in front of the recorded pair agree with (first > last || first >= size) on the whole grid", "the acceptance test of a byte range differs from the specification ("+bad+"): a one-byte range or a range at the last byte is refused with 416, or an unsatisfiable one is served", pair.Pos())
	r.Decide("flow", key("the recorded pair is (first, min(last, size-1))"), okRec && okAccept, "evaluated on the grid", "what is recorded for an accepted range is not (first, min(last, size-1)) ("+bad+"): the slice / read that follows goes past the content or misses its last byte", pair.Pos())

	// uses of the recorded pair
	recLeaf := func(r0, r1 int64) func(ssa.Value) (int64, bool) {
		return func(v ssa.Value) (int64, bool) {
			if isSize(v) {
				return S, true
			}
			ld, ok := v.(*ssa.UnOp)
			if !ok || ld.Op != token.MUL {
				return 0, false
			}
			ia, ok := ld.X.(*ssa.IndexAddr)
			if !ok || ia.X.Type().String() != "[]int" {
				return 0, false
			}
			k, isK := constInt(ia.Index)
			if !isK {
				return 0, false
			}
			if k == 0 {
				return r0, true
			}
			if k == 1 {
				return r1, true
			}
			return 0, false
		}
	}
	type use struct {
		what string
		v    ssa.Value
		want func(r0, r1 int64) int64
		pos  token.Pos
	}
	var uses []use
	for _, in := range instrs(f) {
		switch x := in.(type) {
		case *ssa.Slice:
			if ld, ok := x.X.(*ssa.UnOp); ok {
				if fa, isFa := ld.X.(*ssa.FieldAddr); isFa && fieldObj(fa).Name() == "body" && x.Low != nil && x.High != nil {
					uses = append(uses, use{"the segment starts at the first position", x.Low, func(a, b int64) int64 { return a }, x.Pos()})
					uses = append(uses, use{"the segment ends after the last position", x.High, func(a, b int64) int64 { return b + 1 }, x.Pos()})
				}
			}
		case *ssa.MakeSlice:
			if x.Type().String() == "[]byte" && anyIn(w.backSlice(x.Len, flowOpt{BinOps: true}), func(v ssa.Value) bool {
				ia, y := v.(*ssa.IndexAddr)
				return y && ia.X.Type().String() == "[]int"
			}) {
				uses = append(uses, use{"the read buffer holds last-first+1 octets", x.Len, func(a, b int64) int64 { return b - a + 1 }, x.Pos()})
			}
		case *ssa.Call:
			if cn := calleeName(x); cn == "(*os.File).ReadAt" || cn == "(io.ReaderAt).ReadAt" {
				// (the file may be held as an io.ReaderAt: an invoke has no receiver among its arguments)
				raArgs := x.Call.Args
				if !x.Call.IsInvoke() {
					raArgs = raArgs[1:]
				}
				uses = append(uses, use{"the file is read at the first position", raArgs[1], func(a, b int64) int64 { return a }, x.Pos()})
				// ReadAt fills the whole slice it is given: that slice has exactly the part's length,
				// whatever was read before (a scratch buffer kept from a longer part reads too much)
				exact := true
				for _, l := range resolveAll(raArgs[0]) {
					switch y := l.(type) {
					case *ssa.MakeSlice:
						uses = append(uses, use{"the slice handed to ReadAt holds last-first+1 octets", y.Len, func(a, b int64) int64 { return b - a + 1 }, x.Pos()})
					case *ssa.Slice:
						if y.High == nil {
							exact = false
						} else {
							uses = append(uses, use{"the slice handed to ReadAt is cut to last-first+1 octets", y.High, func(a, b int64) int64 { return b - a + 1 }, x.Pos()})
						}
					default:
						exact = false
					}
				}
				r.Decide("flow", key("the slice handed to ReadAt is made for this part"), exact, "every value of the buffer is a make or a re-slice of the part's length", "the buffer ReadAt fills can be one kept from an earlier part (or of unknown length): ReadAt fills all of it, so a part that follows a longer one carries octets beyond its range", x.Pos())
			}
			if calleeName(x) == "fmt.Sprintf" {
				if format, isK := constString(x.Call.Args[0]); isK && format == "bytes %d-%d/%d" {
					ops := concatOperands(x)
					if len(ops) == 3 {
						uses = append(uses, use{"Content-Range names the first position first", ops[0], func(a, b int64) int64 { return a }, x.Pos()})
						uses = append(uses, use{"Content-Range names the last position second", ops[1], func(a, b int64) int64 { return b }, x.Pos()})
						uses = append(uses, use{"Content-Range names the content size third", ops[2], func(a, b int64) int64 { return S }, x.Pos()})
					}
				}
			}
		}
	}
	for k, u := range uses {
		okU := true
		for _, pr := range [][2]int64{{0, 0}, {2, 5}, {3, 9}, {9, 9}} {
			ev := &miniEval{leaf: recLeaf(pr[0], pr[1])}
			got, ok := ev.Int(unwrapIfaceInt(u.v))
			if !ok || got != u.want(pr[0], pr[1]) {
				okU = false
			}
		}
		r.Decide("flow", key(fmt.Sprintf("%s (#%d)", u.what, k+1)), okU, "evaluated for the recorded pairs (0,0), (2,5), (3,9), (9,9)", "this use of the recorded range computes another value than the specification: the answer carries the wrong octets, one octet too many or too few, or a Content-Range that does not describe it", u.pos)
	}
	wantUses := 5
	if name == "static" {
		wantUses = 10
	}
	if len(uses) < wantUses {
		r.Undecided(key("uses of the recorded range"), fmt.Sprintf("UNRESOLVED: %d found, want at least %d", len(uses), wantUses))
	}

	// an open-ended range "N-" is completed with the last position of the content
	okOpen := false
	for _, sc := range plainCalls(f, "strings.Split") {
		for _, cand := range resolveAll(sc.Call.Args[0]) {
			ops := concatOperands(cand)
			if len(ops) < 2 {
				continue
			}
			last := unwrapIfaceInt(ops[len(ops)-1])
			// the number may be formatted first: strconv.Itoa / FormatInt
			if c, isC := last.(*ssa.Call); isC && (calleeName(c) == "strconv.Itoa" || calleeName(c) == "strconv.FormatInt") {
				last = c.Call.Args[0]
			}
			ev := &miniEval{leaf: func(v ssa.Value) (int64, bool) {
				if isSize(v) {
					return S, true
				}
				return 0, false
			}}
			got, ok := ev.Int(last)
			guarded := false
			if ci, isI := cand.(ssa.Instruction); isI {
				for _, ce := range ctrlEdges(ci.Block()) {
					if isCallValue(ce.If.Cond, "strings.HasSuffix") && ce.Taken {
						guarded = true
					}
				}
			}
			if ok && got == S-1 && guarded {
				okOpen = true
			}
		}
	}
	r.Decide("flow", key("an open-ended range is completed with size-1"), okOpen, "on the HasSuffix(\"-\") edge the text becomes first-(size-1) and that text is parsed", "a range of the form \"N-\" is not completed with the last position of the content: it is refused as malformed or served short", f.Pos())
	// positions are decimal: no parse of a position (here or in a helper it calls) lets the text
	// choose its base (base 0 reads a zero-padded position as octal and accepts 0x.. and 1_0)
	okBase := true
	for _, g := range w.staticReach(f) {
		for _, c := range plainCalls(g, "strconv.ParseInt", "strconv.ParseUint") {
			if k, isK := constInt(c.Call.Args[1]); !isK || k != 10 {
				okBase = false
			}
		}
	}
	r.Decide("flow", key("byte positions are parsed as decimal numbers"), okBase, "every ParseInt on the way has base 10 (Atoi is decimal)", "a position is parsed with base 0: bytes=0010-0020 is read as octal 8-16, the answer is self-consistent but is not the requested range", f.Pos())
	// every element of the comma-separated list is examined, the empty ones included: the parse loop
	// runs over the strings.Split result itself (a list from which empty elements were dropped can be
	// empty, and an answer is then assembled from no range at all instead of the 416)
	nList, okList := 0, true
	for _, in := range instrs(f) {
		ia, isIa := in.(*ssa.IndexAddr)
		if !isIa || ia.X.Type().String() != "[]string" {
			continue
		}
		byComma := false
		allSplit := true
		for _, l := range resolveAll(ia.X) {
			c, isC := l.(*ssa.Call)
			if !isC || calleeName(c) != "strings.Split" {
				allSplit = false
				continue
			}
			if sep, isK := constString(c.Call.Args[1]); isK && sep == "," {
				byComma = true
			}
		}
		if byComma {
			nList++
			if !allSplit {
				okList = false
			}
		}
	}
	r.Decide("flow", key("every element of the Range list is parsed"), nList >= 1 && okList, "the parse loop indexes the result of strings.Split(header, \",\")", "the range specs that are parsed are not the elements of the comma-separated header (a filtered list, a helper's result): a header that names no valid spec yields an empty list, and the answer is a 206 without parts instead of a 416", f.Pos())
	// the header is matched case-insensitively
	okLower := false
	for _, sc := range plainCalls(f, "strings.Split") {
		if anyIn(w.backSlice(sc.Call.Args[0], flowOpt{Through: map[string]bool{"strings.TrimLeft": true, "strings.TrimPrefix": true}, CallArg: true}), func(v ssa.Value) bool { return isCallValue(v, "strings.ToLower") }) {
			okLower = true
		}
	}
	r.Decide("flow", key("the Range header is lower-cased before its unit is stripped"), okLower, "strings.ToLower feeds the split", "the unit \"bytes=\" is only recognised in lower case", f.Pos())
}

// unwrapIfaceInt strips the boxing of an integer handed to a variadic ...any
// parameter.
func unwrapIfaceInt(v ssa.Value) ssa.Value {
	for {
		switch x := v.(type) {
		case *ssa.MakeInterface:
			v = x.X
		case *ssa.ChangeInterface:
			v = x.X
		default:
			return v
		}
	}
}
