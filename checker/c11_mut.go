package main

func init() {
	mut("C11", "revert-snappy-framed", "h2/grpc/grpc.go", "\t\t\t// The framed format, which is what the adapter decodes with snappy.NewReader.\n\t\t\tvar buf bytes.Buffer\n\t\t\tw := snappy.NewBufferedWriter(&buf)\n\t\t\tif _, err := w.Write(data); err != nil {\n\t\t\t\treturn fmt.Errorf(\"snappy compressing message data: %w\", err)\n\t\t\t}\n\t\t\tif err := w.Close(); err != nil {\n\t\t\t\treturn fmt.Errorf(\"snappy compressing message data: %w\", err)\n\t\t\t}\n\t\t\tdata = buf.Bytes()\n", "\t\t\tdata = snappy.Encode(nil, data)\n", "C11.R1", "Snappy")
	mut("C11", "deflate-reencoded-as-gzip", "h2/grpc/grpc.go", "\t\t\tw, _ := flate.NewWriter(&buf, -1)\n", "\t\t\tw := gzip.NewWriter(&buf)\n", "C11.R1", "Deflate")
	mut("C11", "prefix-little-endian-writer", "h2/grpc/grpc.go", "binary.Write(&buf, binary.BigEndian, uint32(len(data)))", "binary.Write(&buf, binary.LittleEndian, uint32(len(data)))", "C11.R2", "byte order")
	mut("C11", "flag-always-uncompressed", "h2/grpc/grpc.go", "\tif e.adapter.compressed {\n\t\tbuf.WriteByte(1)\n\t} else {\n\t\tbuf.WriteByte(0)\n\t}\n", "\tbuf.WriteByte(0)\n", "C11.R2", "flag written")
	mut("C11", "revert-bare-end-stream", "h2/grpc/grpc.go", "\tif data == nil && streamEnded {\n\t\t// The adapter reports an end of stream that carried no message as a nil message. Forward\n\t\t// only the end of stream; a length prefix here would put an extra, empty message on the wire.\n\t\treturn e.sink.Data(nil, true)\n\t}\n", "", "C11.R4", "emitter")
	mut("C11", "revert-zero-length-delivery", "h2/grpc/grpc.go", "\t\tif a.buffer.Len() == 0 && !(a.state == readingMessageData && a.length == 0) {", "\t\tif a.buffer.Len() == 0 {", "C11.R5", "")
	mut("C11", "priority-swallowed", "h2/grpc/grpc.go", "func (a *adapter) Priority(priority http2.PriorityParam) error {\n\treturn a.sink.Priority(priority)", "func (a *adapter) Priority(priority http2.PriorityParam) error {\n\tif a.isEnabled() {\n\t\treturn nil\n\t}\n\treturn a.sink.Priority(priority)", "C11.R3", "Priority")
	mut("C11", "nongrpc-data-marked-ended", "h2/grpc/grpc.go", "\tif !a.isEnabled() {\n\t\treturn a.sink.Data(data, streamEnded)\n\t}", "\tif !a.isEnabled() {\n\t\treturn a.sink.Data(data, streamEnded || len(data) == 0)\n\t}", "C11.R3", "adapter).Data")
	mut("C11", "no-gzip-header-value", "h2/grpc/grpc.go", "\t\t\tcase \"gzip\":\n\t\t\t\ta.encoding = Gzip\n", "", "C11.R1", "header can select Gzip")
	twin("C11", "flag-via-variable", "h2/grpc/grpc.go", "\tif e.adapter.compressed {\n\t\tbuf.WriteByte(1)\n\t} else {\n\t\tbuf.WriteByte(0)\n\t}\n", "\tflag := byte(0)\n\tif e.adapter.compressed {\n\t\tflag = 1\n\t}\n\tbuf.WriteByte(flag)\n")
}
