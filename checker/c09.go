package main

import (
	"fmt"
	"go/token"
	"go/types"
	"strings"

	"golang.org/x/tools/go/ssa"
)

func init() {
	props["C09"] = func(r *Report) {
		c09(r)
		r.Guard("C09.R6", "every lock taken is released on every exit: flowMu and the relay's other mutexes", func() { lockPairRule(r, "h2") })
	}
	floors["C09"] = map[string]int{"C09.R1": 3, "C09.R2": 13, "C09.R3": 10, "C09.R4": 8, "C09.R5": 8, "C09.R6": 1}
}

// anyFlowMu reports whether some lock whose path ends in ".flowMu" is held.
func anyFlowMu(ls lockset) bool {
	for k := range ls {
		if strings.HasPrefix(k, "W:") && strings.HasSuffix(k, ".flowMu") {
			return true
		}
	}
	return false
}

func c09(r *Report) {
	w := r.W
	r.Decline("the window arithmetic itself (no numeric domain): that windows never go negative, that splitting is exact, SETTINGS / WINDOW_UPDATE interleavings")
	r.Decline("frames larger than the receiver's maximum when the limit shrinks after a frame was queued")
	swu := r.Use("h2", "relay.sendWindowUpdates")
	emit := r.Use("h2", "outputBuffer.emitEligibleFrames")
	pf := r.Use("h2", "relay.processFrame")
	if swu == nil || emit == nil || pf == nil {
		return
	}

	r.Guard("C09.R1", "the credit returned for a DATA frame is its flow-controlled length (payload plus padding)", func() {
		// ... for every DATA frame whatever its stream's state: no successful return of
		// sendWindowUpdates is reachable without both updates having been written
		creditOnAllPathsRule(r, swu)

		// credit is returned for every DATA frame accepted: the call that returns it is
		// reached from the DATA case whatever the frame contains (a padded frame without
		// payload still used up window)
		fc := frameCases(pf)
		if df := fc["DataFrame"]; df != nil {
			swuCalls := plainCalls(pf, "(*M/h2.relay).sendWindowUpdates")
			if len(swuCalls) != 1 {
				r.Fail("path", "(*M/h2.relay).processFrame: credit returned for every DATA frame", fmt.Sprintf("found %d sendWindowUpdates calls in the dispatcher, want 1", len(swuCalls)), nil, pf.Pos())
			} else {
				bad := ""
				for _, ce := range ctrlEdges(swuCalls[0].Block()) {
					// the only admissible controlling condition is the type switch itself
					if ta, isE := ce.If.Cond.(*ssa.Extract); isE {
						if _, isTA := ta.Tuple.(*ssa.TypeAssert); isTA {
							continue
						}
					}
					bad = w.Pos(ce.If.Cond.Pos())
				}
				r.Decide("path", "(*M/h2.relay).processFrame: credit returned for every DATA frame", bad == "", "sendWindowUpdates depends on nothing but the frame being a DATA frame", "returning credit is skipped under the condition at "+bad+" (e.g. an empty payload): the flow-controlled length of such frames (padding) is never given back and the sender's window leaks away", swuCalls[0].Pos())
			}
		} else {
			r.Undecided("(*M/h2.relay).processFrame: DATA case", "UNRESOLVED")
		}

		wus := plainCalls(swu, "(*"+pHTTP2+".Framer).WriteWindowUpdate")
		if len(wus) != 2 {
			r.Fail("flow", "(*M/h2.relay).sendWindowUpdates: connection and stream credit", fmt.Sprintf("found %d WriteWindowUpdate calls, want 2 (connection and stream)", len(wus)), nil, swu.Pos())
		}
		for k, c := range wus {
			sl := w.backSlice(c.Call.Args[2], flowOpt{})
			fromLen := anyIn(sl, func(v ssa.Value) bool {
				switch x := v.(type) {
				case *ssa.Field:
					return fieldObjV(x).Name() == "Length"
				case *ssa.FieldAddr:
					return fieldObj(x).Name() == "Length"
				}
				return false
			})
			fromData := anyIn(sl, func(v ssa.Value) bool {
				c, ok := v.(*ssa.Call)
				return ok && c.Call.StaticCallee() != nil && c.Call.StaticCallee().Name() == "Data"
			})
			r.Sites++
			r.Decide("flow", fmt.Sprintf("(*M/h2.relay).sendWindowUpdates: WriteWindowUpdate#%d credits the flow-controlled length", k+1), fromLen && !fromData, "increment derives from FrameHeader.Length", "the increment derives from len(Data()) (padding is never credited back) or from something else than the frame's length", c.Pos())
		}
		// stream and connection
		if len(wus) == 2 {
			z, isZ := constInt(wus[0].Call.Args[1])
			streamOK := anyIn(w.backSlice(wus[1].Call.Args[1], flowOpt{}), func(v ssa.Value) bool {
				fa, ok := v.(*ssa.FieldAddr)
				return ok && fieldObj(fa).Name() == "StreamID"
			})
			r.Decide("flow", "(*M/h2.relay).sendWindowUpdates: one update for the connection (stream 0) and one for the frame's stream", isZ && z == 0 && streamOK, "stream ids 0 and f.StreamID", "credit is not returned on both the connection and the stream", swu.Pos())
		}
	})

	r.Guard("C09.R2", "a frame is emitted only when it fits both windows, and both windows are then reduced by its flow-controlled size", func() {
		initialWindowRules(r)
		sps, okFit := windowFitRules(r, emit)
		if !okFit {
			return
		}
		send := sps[0].Instr
		g := G(emit)
		isFCS := func(v ssa.Value) bool {
			c, ok := v.(*ssa.Call)
			return ok && c.Call.IsInvoke() && c.Call.Method.Name() == "flowControlSize"
		}
		// after the send both windows are reduced by flowControlSize()
		for _, dec := range []struct {
			name string
			addr func(ssa.Value) bool
		}{
			{"connection window", func(a ssa.Value) bool { return isParamVal(a, emit.Params[2]) }},
			{"stream window", func(a ssa.Value) bool {
				fa, ok := a.(*ssa.FieldAddr)
				return ok && isParamVal(fa.X, emit.Params[0]) && fieldObj(fa).Name() == "windowSize"
			}},
		} {
			isDec := func(i ssa.Instruction) bool {
				st, ok := i.(*ssa.Store)
				if !ok || !dec.addr(st.Addr) {
					return false
				}
				b, ok := st.Val.(*ssa.BinOp)
				return ok && b.Op == token.SUB && isFCS(b.Y)
			}
			p := g.PathTo(sps[0].After, sps[0].Incl, isDec, func(i ssa.Instruction) bool { return isExit(i) || i == send })
			r.Paths++
			r.Decide("path", "(*M/h2.outputBuffer).emitEligibleFrames: "+dec.name+" reduced after every emission", p == nil, "every path from the send to the next iteration/exit subtracts flowControlSize()", "an emitted frame is not accounted against the "+dec.name, send.Pos())
		}
		// window accounting is purely additive: outside initialisation a window is only ever changed by
		// adding or subtracting a protocol quantity (RFC 7540 6.9.2: a window that became negative stays
		// negative until credit arrives)
		for _, f := range w.Funcs("h2") {
			if f.Name() == "newRelay" {
				continue
			}
			for _, in := range instrs(f) {
				st, ok := in.(*ssa.Store)
				if !ok {
					continue
				}
				name := ""
				switch a := st.Addr.(type) {
				case *ssa.FieldAddr:
					if n := fieldObj(a).Name(); (n == "windowSize" || n == "connectionWindowSize") && !freshBase(a) {
						name = n
					}
				case *ssa.Parameter:
					if f == emit && a == emit.Params[2] {
						name = "*connectionWindowSize"
					}
				}
				if name == "" {
					continue
				}
				additive := false
				if b, isB := st.Val.(*ssa.BinOp); isB && (b.Op == token.ADD || b.Op == token.SUB) {
					if ld, isLd := b.X.(*ssa.UnOp); isLd && ld.Op == token.MUL && pathOf(ld.X) == pathOf(st.Addr) {
						additive = true
					}
					// addition commutes: w = quantity + w
					if ld, isLd := b.Y.(*ssa.UnOp); isLd && b.Op == token.ADD && ld.Op == token.MUL && pathOf(ld.X) == pathOf(st.Addr) {
						additive = true
					}
				}
				r.Sites++
				r.Decide("flow", fmt.Sprintf("%s: store to %s #%d is an increment/decrement of the window", fnName(f), name, ordinalStore(st)), additive, "w = w +/- quantity", "a flow-control window is overwritten (clamped or reset) instead of adjusted: credit the receiver never granted appears, or granted credit is lost", st.Pos())
			}
		}
		// flowControlSize agrees with what send writes
		for _, tn := range []string{"queuedDataFrame", "queuedHeaderFrame", "queuedPushPromiseFrame", "queuedPriorityFrame", "queuedRSTStreamFrame"} {
			T := w.Named("h2", tn)
			fcs := w.method(T, "flowControlSize")
			send := w.method(T, "send")
			if fcs == nil || send == nil {
				r.Undecided("M/h2."+tn, "UNRESOLVED: methods not found")
				continue
			}
			r.Touch(fcs)
			writesData := len(calls(send, "(*"+pHTTP2+".Framer).WriteData", "(*"+pHTTP2+".Framer).WriteDataPadded")) > 0
			vals, _, _ := returnValuesFrom(fcs.Blocks[0], 0)
			if writesData {
				ok := len(vals) == 1
				if ok {
					// len(f.<field>) of the field passed to WriteData
					ok = false
					if c, isC := vals[0].(*ssa.Call); isC {
						if b, isB := c.Call.Value.(*ssa.Builtin); isB && b.Name() == "len" {
							if ld, isLd := c.Call.Args[0].(*ssa.UnOp); isLd {
								if fa, isFa := ld.X.(*ssa.FieldAddr); isFa {
									for _, wd := range calls(send, "(*"+pHTTP2+".Framer).WriteData") {
										if anyIn(w.backSlice(wd.Common().Args[3], flowOpt{}), func(v ssa.Value) bool {
											fb, y := v.(*ssa.FieldAddr)
											return y && fieldObj(fb) == fieldObj(fa)
										}) {
											ok = true
										}
									}
									if len(calls(send, "(*"+pHTTP2+".Framer).WriteDataPadded")) > 0 {
										ok = false
									}
								}
							}
						}
					}
				}
				r.Decide("sibling", "M/h2."+tn+": flowControlSize is the length of the payload that send writes (unpadded)", ok, "len of the same field, WriteData without padding", "the size accounted against the windows is not the size written", fcs.Pos())
			} else {
				ok := len(vals) == 1
				if ok {
					n, isC := constInt(vals[0])
					ok = isC && n == 0
				}
				r.Decide("sibling", "M/h2."+tn+": not flow-controlled (size 0, writes no DATA)", ok, "constant 0", "a non-DATA frame is accounted against the windows", fcs.Pos())
			}
		}
	})

	r.Guard("C09.R3", "window state is touched only under flowMu; helpers that require the lock are called with it held", func() {
		rel := w.Named("h2", "relay")
		ob := w.Named("h2", "outputBuffer")
		helpers := map[string]bool{"(*M/h2.relay).outputBuffer": true, "(*M/h2.outputBuffer).enqueue": true, "(*M/h2.outputBuffer).emitEligibleFrames": true}
		st := map[*ssa.Function]map[ssa.Instruction]lockset{}
		state := func(f *ssa.Function) map[ssa.Instruction]lockset {
			if st[f] == nil {
				st[f] = lockStates(f, nil)
			}
			return st[f]
		}
		seen := map[string]bool{}
		for _, gf := range []struct {
			T     string
			field string
		}{{"relay", "connectionWindowSize"}, {"relay", "initialWindowSize"}, {"relay", "outputBuffers"}, {"outputBuffer", "windowSize"}, {"outputBuffer", "queue"}} {
			named := rel
			if gf.T == "outputBuffer" {
				named = ob
			}
			fo := structField(named, gf.field)
			if fo == nil {
				r.Undecided("M/h2."+gf.T+"."+gf.field, "UNRESOLVED")
				continue
			}
			for _, a := range w.fieldAccesses(fo) {
				if freshBase(a.Addr) || a.Fn.Name() == "newRelay" || helpers[fnName(a.Fn)] {
					continue
				}
				ls := state(a.Fn)[a.Instr]
				ok := anyFlowMu(ls)
				key := fmt.Sprintf("%s.%s accessed in %s under flowMu", gf.T, gf.field, fnName(a.Fn))
				if seen[key] && ok {
					continue
				}
				seen[key] = true
				r.Sites++
				r.Decide("lockset", key, ok, "lockset "+ls.String(), "flow-control state accessed without flowMu; lockset "+ls.String(), a.Instr.Pos())
			}
		}
		for _, f := range w.Funcs("h2") {
			if helpers[fnName(f)] {
				continue
			}
			for _, c := range calls(f) {
				if !helpers[calleeName(c)] {
					continue
				}
				if _, isCall := c.(*ssa.Call); !isCall {
					continue
				}
				ls := state(f)[c]
				ok := anyFlowMu(ls)
				r.Sites++
				r.Decide("lockset", fmt.Sprintf("%s called with flowMu held: %s", calleeName(c), site(f, c)), ok, "lockset "+ls.String(), "a helper documented as requiring flowMu is called without it; lockset "+ls.String(), c.Pos())
			}
		}
	})

	r.Guard("C09.R4", "new credit wakes queued data: every window increase is followed by an emission attempt over the affected buffers", func() {
		// a frame that fits the windows is handed to the writer now: the emission waits
		// for room in the output queue (or for the end of the relay) rather than giving up
		// when the queue happens to be full, because nothing would try again later
		for _, sp := range sendPoints(emit) {
			if sel, ok := sp.Instr.(*ssa.Select); ok {
				r.Decide("path", "(*M/h2.outputBuffer).emitEligibleFrames: the hand-over to the writer waits for room", sel.Blocking, "the select around the send has no default arm", "the send on the output queue is abandoned when the queue is full (default arm): the frame stays queued with nothing scheduled to emit it, although the receiver's windows are open", sel.Pos())
			}
		}
		flowWakeRules(r)
	})

	r.Guard("C09.R5", "the receiver's maximum frame size bounds every payload the relay builds", func() { frameSizeRules(r) })

}

// flowWakeRules: every window increase is applied and followed by an emission
// attempt (shared by C09.R4 and C08.R8).
func flowWakeRules(r *Report) {
	w := r.W
	// every WINDOW_UPDATE is applied: updateWindow adds the increment to a window on every path
	// (an update for a stream the relay holds no buffer for yet is credit the receiver granted all
	// the same; dropped, the data that arrives later waits for ever)
	if uw := w.Fn("h2", "relay.updateWindow"); uw != nil && uw.Blocks != nil {
		r.Touch(uw)
		g := G(uw)
		isAdd := func(i ssa.Instruction) bool {
			st, ok := i.(*ssa.Store)
			if !ok {
				return false
			}
			fa, isFa := st.Addr.(*ssa.FieldAddr)
			return isFa && (fieldObj(fa).Name() == "windowSize" || fieldObj(fa).Name() == "connectionWindowSize")
		}
		p := g.PathTo([]ssa.Instruction{g.Entry()}, true, isAdd, isReturn)
		r.Decide("path", "(*M/h2.relay).updateWindow applies the increment on every path", p == nil, "a store to a window lies on every path to the return", "updateWindow can return without adding the increment to a window (an update for a stream without a buffer yet, an overflow check): credit the receiver granted is lost, and the data queued later for that stream is never sent", uw.Pos())
	}
	// the relay accepts whatever frame size the endpoints negotiated between themselves: it forwards
	// their SETTINGS verbatim, so it must not cap what its own framers read
	for _, f := range w.Funcs("h2") {
		for _, c := range calls(f, "(*"+pHTTP2+".Framer).SetMaxReadFrameSize") {
			r.Fail("callgraph", fnName(f)+": "+site(f, c)+" caps the frames the relay reads", "once an endpoint raises SETTINGS_MAX_FRAME_SIZE (which the relay forwards) its peer may send larger frames; a capped framer answers them with a connection error and the session is dropped", nil, c.Pos())
		}
	}
	// a frame put on a stream's queue is followed by an emission attempt: without it a
	// HEADERS or RST_STREAM frame waits until some window update happens to arrive
	{
		n := 0
		for _, f := range w.Funcs("h2") {
			if fnName(f) == "(*M/h2.outputBuffer).enqueue" {
				continue
			}
			for _, c := range plainCalls(f, "(*M/h2.outputBuffer).enqueue", "(*container/list.List).PushBack") {
				buf := c.Call.Args[0]
				if calleeName(c) == "(*container/list.List).PushBack" {
					// the helper written out: w.queue.PushBack(f)
					fa, isFa := buf.(*ssa.FieldAddr)
					if !isFa || fieldObj(fa).Name() != "queue" || namedOf(fa.X.Type()) != "outputBuffer" {
						continue
					}
					buf = fa.X
				}
				n++
				g := G(f)
				isEmit := func(i ssa.Instruction) bool {
					e, ok := isCall(i, "(*M/h2.outputBuffer).emitEligibleFrames")
					return ok && e.Common().Args[0] == buf
				}
				p := g.PathTo([]ssa.Instruction{c}, false, isEmit, func(i ssa.Instruction) bool { return isReturn(i) })
				r.Decide("path", fnName(f)+": a queued frame is followed by an emission attempt on its buffer", p == nil, "emitEligibleFrames on the same buffer lies on every path from enqueue to the return", "a frame is queued without an emission attempt: although both windows are open it is not sent until an unrelated window update or SETTINGS frame arrives (for ever, on a quiet connection)", c.Pos())
			}
		}
		if n < 2 {
			r.Undecided("M/h2: enqueue sites", fmt.Sprintf("UNRESOLVED: %d found, want 2 (data, enqueueFrame)", n))
		}
	}
	pf := r.Use("h2", "relay.processFrame")
	if pf == nil {
		return
	}
	uw := r.Use("h2", "relay.updateWindow")
	ui := r.Use("h2", "relay.updateInitialWindowSize")
	sq := r.Use("h2", "relay.sendQueuedFramesUnderWindowSize")
	if uw == nil || ui == nil || sq == nil {
		return
	}
	incr := func(f *ssa.Function, field string) []ssa.Instruction {
		var out []ssa.Instruction
		for _, in := range instrs(f) {
			st, ok := in.(*ssa.Store)
			if !ok {
				continue
			}
			if fa, ok := st.Addr.(*ssa.FieldAddr); ok && fieldObj(fa).Name() == field {
				out = append(out, st)
			}
		}
		return out
	}
	check := func(f *ssa.Function, field, callee, key string) {
		stores := incr(f, field)
		if len(stores) == 0 {
			r.Fail("path", key, "the window is no longer updated here", nil, f.Pos())
			return
		}
		g := G(f)
		for _, s := range stores {
			p := g.PathTo([]ssa.Instruction{s}, false, func(i ssa.Instruction) bool { _, ok := isCall(i, callee); return ok }, isExit)
			r.Paths++
			r.Decide("path", key, p == nil, "every path from the update to the return calls "+callee, "the window grows but nothing tries to emit the frames queued behind it: data the receiver has credit for stays stranded", s.Pos())
		}
	}
	check(ui, "initialWindowSize", "(*M/h2.relay).sendQueuedFramesUnderWindowSize", "(*M/h2.relay).updateInitialWindowSize: all buffers re-examined after the change")
	check(uw, "connectionWindowSize", "(*M/h2.relay).sendQueuedFramesUnderWindowSize", "(*M/h2.relay).updateWindow: all buffers re-examined after a connection-window increase")
	check(uw, "windowSize", "(*M/h2.outputBuffer).emitEligibleFrames", "(*M/h2.relay).updateWindow: the stream's buffer re-examined after a stream-window increase")
	// every WINDOW_UPDATE increment is applied to a window (a stream that has no buffer yet gets one)
	{
		g := G(uw)
		isApply := func(i ssa.Instruction) bool {
			st, ok := i.(*ssa.Store)
			if !ok {
				return false
			}
			fa, ok := st.Addr.(*ssa.FieldAddr)
			if !ok || (fieldObj(fa).Name() != "windowSize" && fieldObj(fa).Name() != "connectionWindowSize") {
				return false
			}
			return anyIn(w.backSlice(st.Val, flowOpt{BinOps: true}), func(v ssa.Value) bool {
				f, y := v.(*ssa.FieldAddr)
				return y && fieldObj(f).Name() == "Increment"
			})
		}
		p := g.PathTo([]ssa.Instruction{g.Entry()}, true, isApply, isExit)
		r.Paths++
		if p != nil {
			r.Fail("path", "(*M/h2.relay).updateWindow: every increment is applied to a window", "a WINDOW_UPDATE can be dropped (for example for a stream the relay has not queued anything on yet): the stream later runs with less window than the receiver granted and its data is stranded", witness(w, p), uw.Pos())
		} else {
			r.Hold("path", "(*M/h2.relay).updateWindow: every increment is applied to a window", "every path adds f.Increment to the stream or the connection window", uw.Pos())
		}
		// the stream's buffer is obtained through the creating accessor
		okAcc := false
		for _, c := range plainCalls(uw, "(*M/h2.relay).outputBuffer") {
			if anyIn(w.backSlice(c.Call.Args[1], flowOpt{}), func(v ssa.Value) bool { f, y := v.(*ssa.FieldAddr); return y && fieldObj(f).Name() == "StreamID" }) {
				okAcc = true
			}
		}
		r.Decide("flow", "(*M/h2.relay).updateWindow: the stream's buffer comes from outputBuffer(f.StreamID)", okAcc, "created on demand", "the update bypasses the accessor that creates a stream's buffer on demand", uw.Pos())
	}
	// a stream's output buffer (and the frames queued in it) is never discarded
	{
		ndel, nassign := 0, 0
		for _, f := range w.Funcs("h2") {
			if f.Name() == "newRelay" {
				continue
			}
			for _, in := range instrs(f) {
				if d, isD := isBuiltinCall(in, "delete"); isD {
					if anyIn(w.backSlice(d.Call.Args[0], flowOpt{}), func(v ssa.Value) bool {
						fa, y := v.(*ssa.FieldAddr)
						return y && fieldObj(fa).Name() == "outputBuffers"
					}) {
						ndel++
						r.Fail("callgraph", "relay.outputBuffers entry deleted in "+fnName(f), "a stream's output buffer is discarded: DATA and the frames queued behind it (for example an RST_STREAM waiting for window) are never delivered", nil, d.Pos())
					}
				}
				if st, isSt := in.(*ssa.Store); isSt {
					if fa, y := st.Addr.(*ssa.FieldAddr); y && fieldObj(fa).Name() == "outputBuffers" {
						nassign++
						r.Fail("callgraph", "relay.outputBuffers replaced in "+fnName(f), "the map of output buffers is replaced while frames may be queued", nil, st.Pos())
					}
				}
			}
		}
		if ndel+nassign == 0 {
			r.Hold("callgraph", "relay.outputBuffers entries are never deleted or replaced", "no delete / reassignment outside newRelay", uw.Pos())
		}
	}
	// sendQueuedFramesUnderWindowSize visits every buffer
	ok := false
	for _, c := range plainCalls(sq, "(*M/h2.outputBuffer).emitEligibleFrames") {
		if inLoop(c.Block()) && anyIn(w.backSlice(c.Call.Args[0], flowOpt{}), func(v ssa.Value) bool {
			n, isN := v.(*ssa.Next)
			if !isN {
				return false
			}
			rg, isR := n.Iter.(*ssa.Range)
			return isR && anyIn(w.backSlice(rg.X, flowOpt{}), func(x ssa.Value) bool {
				fa, y := x.(*ssa.FieldAddr)
				return y && fieldObj(fa).Name() == "outputBuffers"
			})
		}) {
			ok = true
		}
	}
	r.Decide("path", "(*M/h2.relay).sendQueuedFramesUnderWindowSize: ranges over every output buffer", ok, "emitEligibleFrames for each element of outputBuffers", "not every stream's queue is examined", sq.Pos())
	// the dispatcher routes WINDOW_UPDATE and the window-related settings to the peer relay
	okS := 0
	for _, f := range append([]*ssa.Function{pf}, pf.AnonFuncs...) {
		for _, n := range []string{"(*M/h2.relay).updateInitialWindowSize", "(*M/h2.relay).updateMaxFrameSize", "(*M/h2.relay).updateWindow", "(*M/h2.relay).updateTableSize"} {
			for _, c := range plainCalls(f, n) {
				if anyIn(w.backSlice(c.Call.Args[0], flowOpt{}), func(v ssa.Value) bool { fa, y := v.(*ssa.FieldAddr); return y && fieldObj(fa).Name() == "peer" }) {
					okS++
				}
			}
		}
	}
	// each setting is applied where the frame is walked, from the setting being visited: a frame may
	// repeat an identifier and the last occurrence wins (RFC 7540 6.5.3: processed in order)
	for _, f := range append([]*ssa.Function{pf}, pf.AnonFuncs...) {
		for _, n := range []string{"(*M/h2.relay).updateInitialWindowSize", "(*M/h2.relay).updateMaxFrameSize", "(*M/h2.relay).updateTableSize"} {
			for _, c := range plainCalls(f, n) {
				inOrder := false
				for _, leaf := range resolveAll(c.Call.Args[1]) {
					var base ssa.Value
					switch x := leaf.(type) {
					case *ssa.Field:
						if fieldObjV(x).Name() == "Val" {
							base = x.X
						}
					case *ssa.UnOp:
						if fa, isFa := x.X.(*ssa.FieldAddr); isFa && x.Op == token.MUL && fieldObj(fa).Name() == "Val" {
							base = fa.X
						}
					}
					if base == nil {
						continue
					}
					// the Setting visited: parameter of the ForeachSetting callback, or f.Setting(i)
					for _, b := range resolveAll(base) {
						if a, isA := b.(*ssa.Alloc); isA {
							for _, st := range storesTo(a) {
								b = st.Val
							}
						}
						if ld, isLd := b.(*ssa.UnOp); isLd && ld.Op == token.MUL {
							if a, isA := ld.X.(*ssa.Alloc); isA {
								for _, st := range storesTo(a) {
									b = st.Val
								}
							}
						}
						if par, isPar := b.(*ssa.Parameter); isPar && par.Parent().Parent() == pf {
							for _, fc := range plainCalls(pf, "(*"+pHTTP2+".SettingsFrame).ForeachSetting") {
								if mc, isMC := fc.Call.Args[1].(*ssa.MakeClosure); isMC && mc.Fn == ssa.Value(par.Parent()) {
									inOrder = true
								}
								if fn, isFn := fc.Call.Args[1].(*ssa.Function); isFn && fn == par.Parent() {
									inOrder = true
								}
							}
						}
						if isCallValue(b, "(*"+pHTTP2+".SettingsFrame).Setting") && inLoop(c.Block()) {
							inOrder = true
						}
					}
				}
				r.Decide("flow", "(*M/h2.relay).processFrame: "+site(f, c)+" takes the value of the setting being visited", inOrder, "the argument is the Val of the Setting handed to the ForeachSetting callback (settings applied in frame order, last occurrence wins)", "the value does not come from walking the frame's settings in order (e.g. SettingsFrame.Value returns the first occurrence): a frame that repeats an identifier leaves the relay with the earlier value, and it then sends more than the receiver allows", c.Pos())
			}
		}
	}
	r.Decide("flow", "(*M/h2.relay).processFrame: WINDOW_UPDATE and window/frame-size/table-size settings are applied to the peer relay", okS == 4, "four updates routed to r.peer", fmt.Sprintf("%d of 4 updates reach the peer relay", okS), pf.Pos())
}

// windowFitRules: the two comparisons that gate an emission (shared by C09.R2
// and C08.R8): the send is reached only when the frame fits the connection and
// the stream window, and a frame that exactly fills a window does fit.
func windowFitRules(r *Report, emit *ssa.Function) ([]sendPoint, bool) {
	sps := sendPoints(emit)
	if len(sps) != 1 {
		r.Undecided("(*M/h2.outputBuffer).emitEligibleFrames: send", fmt.Sprintf("UNRESOLVED: %d channel sends, want 1", len(sps)))
		return nil, false
	}
	send := sps[0].Instr
	_ = G
	// the two window comparisons
	isFCS := func(v ssa.Value) bool {
		c, ok := v.(*ssa.Call)
		return ok && c.Call.IsInvoke() && c.Call.Method.Name() == "flowControlSize"
	}
	isConnWin := func(v ssa.Value) bool {
		ld, ok := v.(*ssa.UnOp)
		return ok && ld.Op == token.MUL && isParamVal(ld.X, emit.Params[2])
	}
	isStreamWin := func(v ssa.Value) bool {
		ld, ok := v.(*ssa.UnOp)
		if !ok || ld.Op != token.MUL {
			return false
		}
		fa, ok := ld.X.(*ssa.FieldAddr)
		return ok && isParamVal(fa.X, emit.Params[0]) && fieldObj(fa).Name() == "windowSize"
	}
	// evaluated: from the first use of flowControlSize() in the loop body, the walk through the
	// window comparisons reaches the send exactly when the size fits both windows
	var first *ssa.Call
	for _, in := range instrs(emit) {
		if c, isC := in.(*ssa.Call); isC && isFCS(c) && first == nil {
			first = c
		}
	}
	if first == nil {
		r.Undecided("(*M/h2.outputBuffer).emitEligibleFrames: window comparisons", "UNRESOLVED: no flowControlSize() call")
		return sps, true
	}
	// the walk starts where the frame is taken from the queue, so that a test put in front of the
	// window comparisons (an exemption for some frames) is part of the decision
	startBlock := first.Block()
	if recv, isI := first.Call.Value.(ssa.Instruction); isI && recv.Parent() == emit && recv.Block().Dominates(startBlock) && inLoop(recv.Block()) {
		startBlock = recv.Block()
	}
	usesConn, usesStream := false, false
	okNoOver, okExact, okEval := true, true, true
	detail := ""
	for _, size := range []int64{3, 5, 7} {
		for _, cw := range []int64{5, 9} {
			for _, sw := range []int64{5, 9} {
				val := func(v ssa.Value) (int64, bool) {
					switch {
					case isFCS(v):
						return size, true
					case isConnWin(v):
						usesConn = true
						return cw, true
					case isStreamWin(v):
						usesStream = true
						return sw, true
					}
					return 0, false
				}
				// an optional hook (`if w.trace != nil { w.trace(...) }`) changes nothing either way: the
				// walk is made with hooks absent - the call of a present hook is an effect, at which
				// the walk would stop before reaching the send
				out, okD := decideWith(startBlock, func(v ssa.Value) (bool, bool) {
					if b, isB := v.(*ssa.BinOp); isB && (b.Op == token.EQL || b.Op == token.NEQ) {
						other := b.X
						if isNilConst(b.X) {
							other = b.Y
						}
						if isNilConst(b.X) || isNilConst(b.Y) {
							if _, isSig := other.Type().Underlying().(*types.Signature); isSig {
								return b.Op == token.EQL, true
							}
						}
					}
					ev := &miniEval{leaf: val}
					return ev.Bool(v)
				}, func(i ssa.Instruction) bool { v, isV := i.(ssa.Value); return isV && isFCS(v) })
				if !okD || out == nil {
					okEval = false
					continue
				}
				sent := out == send.Block() || (len(out.Succs) == 1 && out.Succs[0] == send.Block())
				fits := size <= cw && size <= sw
				if sent && !fits {
					okNoOver = false
					detail = fmt.Sprintf("size %d is sent with connection window %d and stream window %d", size, cw, sw)
				}
				if !sent && fits {
					okExact = false
					detail = fmt.Sprintf("size %d is held back with connection window %d and stream window %d", size, cw, sw)
				}
			}
		}
	}
	r.Paths += 12
	if !okEval {
		r.Undecided("(*M/h2.outputBuffer).emitEligibleFrames: window comparisons", "the decision between taking a frame from the queue and the send depends on something else than its flow-control size and the two windows (an exemption for some frames?): every queued frame must fit both windows before it is sent")
		return sps, true
	}
	r.Decide("table", "(*M/h2.outputBuffer).emitEligibleFrames: emission guarded by both windows", okNoOver && usesConn && usesStream, "size {3,5,7} x connection window {5,9} x stream window {5,9}: sent only when it fits both", "a frame can be emitted without fitting the connection or the stream window ("+detail+"): the receiver is sent more than it granted", send.Pos())
	r.Decide("table", "(*M/h2.outputBuffer).emitEligibleFrames: a frame that fits both windows is emitted", okExact, "same grid: sent whenever size <= both windows, size == window included", "a frame that fits is withheld ("+detail+"): a DATA frame that uses up the remaining credit (and everything queued behind it) stays queued although the receiver granted enough", send.Pos())
	return sps, true
}

// frameSizeRules: payloads are bounded by the receiver's maximum frame size
// (shared by C09.R5 and C08.R8).
func frameSizeRules(r *Report) {
	w := r.W
	chunkingRules(r)
	for _, name := range []string{"relay.data", "relay.header", "relay.pushPromise"} {
		f := r.Use("h2", name)
		if f == nil {
			continue
		}
		loads := plainCalls(f, "sync/atomic.LoadUint32", "sync/atomic.LoadInt32", "sync/atomic.LoadUint64", "sync/atomic.LoadInt64", "(*sync/atomic.Uint32).Load", "(*sync/atomic.Int32).Load", "(*sync/atomic.Uint64).Load", "(*sync/atomic.Int64).Load")
		var max ssa.Value
		for _, l := range loads {
			if fa, ok := l.Call.Args[0].(*ssa.FieldAddr); ok && fieldObj(fa).Name() == "maxFrameSize" && len(f.Params) > 0 && isParamVal(fa.X, f.Params[0]) {
				max = l
			}
		}
		r.Decide("flow", fmt.Sprintf("(*M/h2.%s): loads maxFrameSize atomically", name), max != nil, "atomic.LoadUint32(&r.maxFrameSize)", "the builder does not consult the maximum frame size of the receiver it builds frames for (its own relay's field, which the peer relay updates from that receiver's SETTINGS): frames are cut to another endpoint's limit, or to none", f.Pos())
		if max == nil {
			continue
		}
		if name == "relay.data" {
			// the payload slice is sized by min(len(data), max)
			ok := false
			for _, in := range instrs(f) {
				mk, isMk := in.(*ssa.MakeSlice)
				if !isMk {
					continue
				}
				sl := w.backSlice(mk.Len, flowOpt{})
				if !anyIn(sl, func(v ssa.Value) bool { return v == max }) {
					continue
				}
				// a comparison n > max whose true edge selects max
				for v := range sl {
					phi, isPhi := v.(*ssa.Phi)
					if !isPhi {
						continue
					}
					for _, e := range phi.Edges {
						if e == max || unwrapConv(e) == max {
							for _, in2 := range instrs(f) {
								b, isB := in2.(*ssa.BinOp)
								if isB && (b.Op == token.GTR && unwrapConv(b.Y) == max || b.Op == token.LSS && unwrapConv(b.X) == max) {
									ok = true
								}
							}
						}
					}
				}
			}
			// the same decided on the shape min(len(data), max) in any spelling
			if !ok {
				for _, in := range instrs(f) {
					if mk, isMk := in.(*ssa.MakeSlice); isMk {
						if _, lim, isClamp := clampOfAny(mk.Len); isClamp && (lim == max || unwrapConv(lim) == max) {
							ok = true
						}
					}
				}
			}
			r.Decide("flow", "(*M/h2.relay.data): payload length clamped to the maximum frame size", ok, "make size is min(len(data), max)", "DATA payloads are not clamped to the receiver's maximum frame size", f.Pos())
		} else {
			if name == "relay.header" {
				// the 5 priority octets are deducted exactly when the framer writes them:
				// x/net's Framer.WriteHeaders emits them iff !Priority.IsZero()
				okP := false
				for _, in := range instrs(f) {
					b, isB := in.(*ssa.BinOp)
					if !isB || b.Op != token.SUB {
						continue
					}
					if n, isC := constInt(b.Y); !isC || n != 5 {
						continue
					}
					var conds []string
					for _, c := range ctrlConds(b.Block()) {
						if !strings.Contains(c, "nil:error") { // early error returns are not part of the decision
							conds = append(conds, c)
						}
					}
					if len(conds) == 1 && strings.Contains(conds[0], "PriorityParam).IsZero(") && strings.HasSuffix(conds[0], "=false") {
						okP = true
					}
				}
				r.Decide("path", "(*M/h2.relay.header): the priority octets are deducted exactly when !priority.IsZero()", okP, "same condition as x/net's Framer.WriteHeaders", "the first fragment's size limit ignores (or wrongly assumes) the 5 priority octets the framer adds whenever the priority is non-zero: HEADERS frames can exceed the receiver's maximum frame size", f.Pos())
			}
			ok := false
			for _, c := range plainCalls(f, "M/h2.splitIntoChunks") {
				a0 := anyIn(w.backSlice(c.Call.Args[0], flowOpt{BinOps: true}), func(v ssa.Value) bool { return v == max })
				a1 := anyIn(w.backSlice(c.Call.Args[1], flowOpt{BinOps: true}), func(v ssa.Value) bool { return v == max })
				ok = a0 && a1
				// the first-chunk limit is the one reduced by the frame's own metadata (priority octets /
				// promised stream id); the continuation limit is the plain maximum
				isDeducted := func(v ssa.Value) bool {
					return anyIn(w.backSlice(v, flowOpt{BinOps: true}), func(x ssa.Value) bool {
						b, y := x.(*ssa.BinOp)
						if !y || b.Op != token.SUB {
							return false
						}
						_, isC := constInt(b.Y)
						return isC
					})
				}
				if !isDeducted(c.Call.Args[0]) || isDeducted(c.Call.Args[1]) {
					ok = false
				}
			}
			r.Decide("flow", fmt.Sprintf("(*M/h2.%s): header block split by the maximum frame size", name), ok, "both chunk limits derive from maxFrameSize", "header chunks are not bounded by the receiver's maximum frame size", f.Pos())
		}
	}
	um := r.Use("h2", "relay.updateMaxFrameSize")
	if um != nil {
		// every legal value is applied: a test that guards the store admits the whole range the
		// protocol allows (2^14 .. 2^24-1), its two ends included
		for _, c := range plainCalls(um, "sync/atomic.StoreUint32", "(*sync/atomic.Uint32).Store") {
			isArg := func(v ssa.Value) bool { return len(um.Params) > 1 && isParamVal(unwrapConv(v), um.Params[1]) }
			okAll := true
			for _, ce := range ctrlEdges(c.Block()) {
				for _, legal := range []int64{16384, 16385, 1<<24 - 1} {
					if rel, adm := constCmpAdmits(ce, isArg, legal); rel && !adm {
						okAll = false
					}
				}
			}
			r.Decide("path", "(*M/h2.relay).updateMaxFrameSize applies every legal SETTINGS_MAX_FRAME_SIZE", okAll, "no guard before the store excludes 16384, 16385 or 16777215", "a legal maximum frame size (an end of the range 2^14..2^24-1) is ignored: after the receiver lowers the limit back, the relay keeps cutting DATA by the stale larger size and sends frames the receiver must reject", c.Pos())
		}
		r.Decide("lookup", "(*M/h2.relay).updateMaxFrameSize stores atomically", len(plainCalls(um, "sync/atomic.StoreUint32", "sync/atomic.StoreInt32", "sync/atomic.StoreUint64", "sync/atomic.StoreInt64", "(*sync/atomic.Uint32).Store", "(*sync/atomic.Int32).Store", "(*sync/atomic.Uint64).Store", "(*sync/atomic.Int64).Store")) == 1, "atomic store", "the limit is written non-atomically while builders read it", um.Pos())
	}
}

func unwrapConv(v ssa.Value) ssa.Value {
	for {
		switch x := v.(type) {
		case *ssa.Convert:
			v = x.X
		case *ssa.ChangeType:
			v = x.X
		default:
			return v
		}
	}
}

// creditOnAllPathsRule: no successful return of sendWindowUpdates is reachable
// without both WINDOW_UPDATE frames having been written, except for a frame of
// flow-controlled length zero (shared by C09.R1 and C08.R8: a sender that obeys
// flow control stalls for ever on credit that is never returned).
func creditOnAllPathsRule(r *Report, swu *ssa.Function) {
	w := r.W
	gs := G(swu)
	wus := plainCalls(swu, "(*"+pHTTP2+".Framer).WriteWindowUpdate")
	for k, wc := range wus {
		target := ssa.Instruction(wc)
		var wit []ssa.Instruction
		for _, ret := range returns(swu) {
			okNil := false
			for _, v := range retVals(ret, 0) {
				for _, l := range resolveAll(v) {
					if isNilConst(l) {
						okNil = true
					}
				}
			}
			if !okNil {
				continue
			}
			if p := gs.PathTo([]ssa.Instruction{gs.Entry()}, true, func(i ssa.Instruction) bool { return i == target }, func(i ssa.Instruction) bool { return i == ssa.Instruction(ret) }); p != nil {
				// a path that returns the (non-nil) error of an earlier write is not a success
				wit = p
			}
		}
		// only paths that really return nil count: a return of `err` merged from calls is judged by its nil leaves
		r.Paths++
		_ = wit
		skipped := false
		for _, ret := range returns(swu) {
			paths, okp := blockPathsUntil(swu.Blocks[0], ret.Block(), 4000)
			if !okp {
				continue
			}
			for _, p := range paths {
				nilRet := false
				for _, v := range retVals(ret, 0) {
					for _, l := range resolveOnPath(v, p) {
						if isNilConst(l) {
							nilRet = true
						}
					}
				}
				if !nilRet {
					continue
				}
				passes := false
				for _, b := range p {
					if b == wc.Block() {
						passes = true
					}
				}
				if !passes {
					// a frame of flow-controlled length zero has no credit to return
					zeroLen := false
					for _, ce := range ctrlEdges(ret.Block()) {
						isLenV := func(v ssa.Value) bool {
							return anyIn(w.backSlice(v, flowOpt{}), func(x ssa.Value) bool {
								switch y := x.(type) {
								case *ssa.Field:
									return fieldObjV(y).Name() == "Length"
								case *ssa.FieldAddr:
									return fieldObj(y).Name() == "Length"
								}
								return false
							})
						}
						if rel, adm0 := constCmpAdmits(ce, isLenV, 0); rel && adm0 {
							if _, adm1 := constCmpAdmits(ce, isLenV, 1); !adm1 {
								zeroLen = true
							}
						}
					}
					if !zeroLen {
						skipped = true
					}
				}
			}
		}
		r.Decide("path", fmt.Sprintf("(*M/h2.relay).sendWindowUpdates: WriteWindowUpdate#%d precedes every successful return", k+1), !skipped, "every path that returns nil wrote this update", "sendWindowUpdates can return success without having written this WINDOW_UPDATE (an early return for some streams): the credit for DATA the relay accepted is never given back", wc.Pos())
	}
}

// clampOf recognises v as min(len(x), p) for an int parameter p of f: a phi of
// the two whose choice is made by a comparison of the two, the parameter being
// chosen on the edge where the length exceeds (or reaches) it. Returns the
// length value and the parameter.
func clampOf(f *ssa.Function, v ssa.Value) (ssa.Value, *ssa.Parameter, bool) {
	L, lim, ok := clampOfAny(v)
	if !ok {
		return nil, nil, false
	}
	p, isP := lim.(*ssa.Parameter)
	if !isP {
		return nil, nil, false
	}
	return L, p, true
}

// clampOfAny recognises v as min(len(x), limit): a two-way phi of a length and
// one other value, decided by a comparison of the two, the limit being chosen
// exactly on the edge where the length exceeds (or reaches) it. Any equivalent
// spelling passes (reversed operands, <= for <, the arms swapped).
func clampOfAny(v ssa.Value) (length, limit ssa.Value, ok bool) {
	ph, isPhi := unwrapConv(v).(*ssa.Phi)
	if !isPhi || len(ph.Edges) != 2 {
		return nil, nil, false
	}
	isLenCall := func(e ssa.Value) bool {
		c, isC := unwrapConv(e).(*ssa.Call)
		if !isC {
			return false
		}
		b, isB := c.Call.Value.(*ssa.Builtin)
		return isB && b.Name() == "len"
	}
	var L, P ssa.Value
	for _, e := range ph.Edges {
		if isLenCall(e) {
			L = unwrapConv(e)
		} else {
			P = unwrapConv(e)
		}
	}
	if L == nil || P == nil {
		return nil, nil, false
	}
	for k, e := range ph.Edges {
		pred := ph.Block().Preds[k]
		var iff *ssa.If
		taken := false
		if i, isIf := pred.Instrs[len(pred.Instrs)-1].(*ssa.If); isIf {
			iff, taken = i, pred.Succs[0] == ph.Block()
		} else if len(pred.Preds) == 1 {
			pp := pred.Preds[0]
			if i, isIf := pp.Instrs[len(pp.Instrs)-1].(*ssa.If); isIf {
				iff, taken = i, pp.Succs[0] == pred
			}
		}
		if iff == nil {
			return nil, nil, false
		}
		b, isB := iff.Cond.(*ssa.BinOp)
		if !isB {
			return nil, nil, false
		}
		x, y := unwrapConv(b.X), unwrapConv(b.Y)
		// go/ssa does not share common subexpressions: len(x) in the condition and len(x) in
		// the assignment are two calls of the same thing
		sameLen := func(a, c ssa.Value) bool {
			if a == c {
				return true
			}
			ca, oka := a.(*ssa.Call)
			cc, okc := c.(*ssa.Call)
			return oka && okc && isLenCall(a) && isLenCall(c) && ca.Call.Args[0] == cc.Call.Args[0]
		}
		if sameLen(x, L) {
			x = L
		}
		if sameLen(y, L) {
			y = L
		}
		op := b.Op
		if x == P && y == L {
			x, y = y, x
			switch op {
			case token.LSS:
				op = token.GTR
			case token.LEQ:
				op = token.GEQ
			case token.GTR:
				op = token.LSS
			case token.GEQ:
				op = token.LEQ
			}
		}
		if x != L || y != P {
			return nil, nil, false
		}
		exceeds := false
		switch op {
		case token.GTR, token.GEQ:
			exceeds = taken
		case token.LSS, token.LEQ:
			exceeds = !taken
		default:
			return nil, nil, false
		}
		if (unwrapConv(e) == P) != exceeds {
			return nil, nil, false
		}
	}
	return L, P, true
}

// chunkingRules: splitIntoChunks cuts a header block into a first chunk of at
// most firstChunkMax and further chunks of at most continuationMax octets,
// every octet once: each chunk's length is min(len(rest), limit), the chunk is
// a copy of the front of the rest, it is appended to the result, and the rest
// is advanced by exactly that length - in the loop, on every iteration.
func chunkingRules(r *Report) {
	f := r.Use("h2", "splitIntoChunks")
	if f == nil {
		return
	}
	// a header block, however short, is at least one frame: a chunk is appended on every path
	{
		g := G(f)
		isApp := func(i ssa.Instruction) bool { _, y := isBuiltinCall(i, "append"); return y }
		p := g.PathTo([]ssa.Instruction{g.Entry()}, true, isApp, isReturn)
		r.Decide("path", "M/h2.splitIntoChunks returns at least one chunk", p == nil, "an append lies on every path to the return", "an empty header block (a block that only updates the HPACK table size) yields no chunk: no HEADERS frame is written for it and its END_STREAM is never delivered", f.Pos())
	}
	var mks []*ssa.MakeSlice
	for _, in := range instrs(f) {
		if mk, ok := in.(*ssa.MakeSlice); ok && mk.Type().String() == "[]byte" {
			mks = append(mks, mk)
		}
	}
	if len(mks) == 0 || len(mks) > 2 {
		r.Undecided("M/h2.splitIntoChunks: chunk allocations", fmt.Sprintf("UNRESOLVED: %d found, want 1 (one loop) or 2 (first chunk, continuation chunks)", len(mks)))
		return
	}
	limits := map[string]bool{}
	for k, mk := range mks {
		name := fmt.Sprintf("M/h2.splitIntoChunks: chunk #%d", k+1)
		L, lim, ok := clampOfAny(mk.Len)
		// the limit is one of the function's two limit parameters (or, in the one-loop form, a
		// variable that holds the first limit on entry and the continuation limit afterwards)
		if ok {
			for _, l := range resolveAll(lim) {
				p, isP := unwrapConv(l).(*ssa.Parameter)
				if !isP || p.Parent() != f || p.Type().String() != "int" {
					ok = false
					continue
				}
				limits[p.Name()] = true
			}
			if ph, isPhi := lim.(*ssa.Phi); isPhi && len(mks) == 1 {
				// entered with the first-chunk limit
				for i, e := range ph.Edges {
					if !ph.Block().Dominates(ph.Block().Preds[i]) {
						if p, isP := unwrapConv(e).(*ssa.Parameter); !isP || p != f.Params[0] {
							ok = false
						}
					}
				}
			}
		}
		r.Decide("flow", name+" is as long as what is left, at most its limit", ok, "length = min(len(rest), limit): the limit is chosen exactly when the rest exceeds it", "the chunk length is not the minimum of the remaining octets and the frame-size limit: a header block longer than one frame is cut into a frame the receiver must reject, or octets are lost", mk.Pos())
		if !ok {
			continue
		}
		rest := L.(*ssa.Call).Call.Args[0]
		copied, appended, advanced := false, false, false
		for _, in := range instrs(f) {
			switch x := in.(type) {
			case *ssa.Call:
				b, isB := x.Call.Value.(*ssa.Builtin)
				if !isB {
					continue
				}
				if b.Name() == "copy" && sameSlice(x.Call.Args[0], mk) {
					if sl, isSl := x.Call.Args[1].(*ssa.Slice); isSl && sl.X == rest && sl.Low == nil && sl.High != nil && unwrapConv(sl.High) == unwrapConv(mk.Len) && blockDominates(mk.Block(), x.Block()) {
						copied = true
					}
				}
				if b.Name() == "append" && len(x.Call.Args) == 2 && blockDominates(mk.Block(), x.Block()) {
					for _, l := range resolveAll(x.Call.Args[1]) {
						if sl, isSl := l.(*ssa.Slice); isSl {
							if a, isA := sl.X.(*ssa.Alloc); isA {
								for _, st := range allStoresInto(a) {
									if sameSlice(st.Val, mk) {
										appended = true
									}
								}
							}
						}
					}
				}
			case *ssa.Slice:
				if x.X == rest && x.High == nil && x.Low != nil && unwrapConv(x.Low) == unwrapConv(mk.Len) && blockDominates(mk.Block(), x.Block()) {
					advanced = true
				}
			}
		}
		r.Decide("flow", name+" is a copy of the front of what is left", copied, "copy(chunk, rest[:n])", "the chunk is not filled from the front of the remaining octets", mk.Pos())
		r.Decide("flow", name+" is appended to the result", appended, "chunks = append(chunks, chunk)", "the chunk is built but not returned: its octets are missing from the header block the peer receives", mk.Pos())
		r.Decide("flow", name+": what is left is advanced by the chunk's length", advanced, "rest = rest[n:]", "the remainder is not advanced by exactly the chunk's length: octets are repeated, skipped, or the loop never ends on a block longer than one frame", mk.Pos())
	}
	r.Decide("table", "M/h2.splitIntoChunks: the first chunk and the continuation chunks use their own limits", len(limits) == 2, "two distinct limit parameters", "both chunk kinds are cut by the same limit: the first chunk (which shares its frame with other fields) can exceed the frame size", f.Pos())
}

func sameSlice(v ssa.Value, mk *ssa.MakeSlice) bool {
	for _, l := range resolveAll(v) {
		if l == ssa.Value(mk) {
			return true
		}
	}
	return false
}

// allStoresInto lists the stores whose address is an element of the array a
// (the backing array go/ssa builds for a variadic argument list).
func allStoresInto(a *ssa.Alloc) []*ssa.Store {
	var out []*ssa.Store
	if a.Referrers() == nil {
		return nil
	}
	for _, u := range *a.Referrers() {
		ia, ok := u.(*ssa.IndexAddr)
		if !ok || ia.Referrers() == nil {
			continue
		}
		for _, uu := range *ia.Referrers() {
			if st, ok := uu.(*ssa.Store); ok && st.Addr == ssa.Value(ia) {
				out = append(out, st)
			}
		}
	}
	return out
}

// initialWindowRules: SETTINGS_INITIAL_WINDOW_SIZE moves every open stream's
// window by (new - old) and by nothing else. Shared by C09.R2 and C08.R8.
func initialWindowRules(r *Report) {
	w := r.W
	_ = w
	// a stream seen for the first time starts with exactly the receiver's current initial
	// window size, whatever it is (zero included: SETTINGS_INITIAL_WINDOW_SIZE=0 means
	// "send nothing until I say so")
	if obf := r.Use("h2", "relay.outputBuffer"); obf != nil {
		n := 0
		for _, a := range allocsOf(obf, M+"/h2.outputBuffer") {
			for _, st := range litFieldStores(a)["windowSize"] {
				n++
				exact := true
				for _, l := range resolveAll(st.Val) {
					l = unwrapConv(l)
					okLeaf := false
					if ld, isLd := l.(*ssa.UnOp); isLd && ld.Op == token.MUL {
						if fa, isFa := ld.X.(*ssa.FieldAddr); isFa && fieldObj(fa).Name() == "initialWindowSize" {
							okLeaf = true
						}
					}
					if c, isC := l.(*ssa.Call); isC && strings.HasPrefix(calleeName(c), "sync/atomic.Load") {
						if fa, isFa := c.Call.Args[0].(*ssa.FieldAddr); isFa && fieldObj(fa).Name() == "initialWindowSize" {
							okLeaf = true
						}
					}
					if !okLeaf {
						exact = false
					}
				}
				r.Decide("flow", "(*M/h2.relay).outputBuffer: a new stream's window is the current initial window size", exact, "windowSize = int(r.initialWindowSize), nothing else", "a new stream's window can be something other than the receiver's current SETTINGS_INITIAL_WINDOW_SIZE (a default substituted for zero, a constant): the relay sends DATA the receiver has not granted", st.Pos())
			}
		}
		if n == 0 {
			r.Undecided("(*M/h2.relay).outputBuffer: initial stream window", "UNRESOLVED: no outputBuffer literal with windowSize")
		}
	}
	// both windows of a new relay start at the protocol's 65535 (the connection window is not
	// affected by SETTINGS, only by WINDOW_UPDATE on stream 0)
	if nr := r.W.Fn("h2", "newRelay"); nr != nil && nr.Blocks != nil {
		r.Touch(nr)
		for _, a := range allocsOf(nr, M+"/h2.relay") {
			fs := litFieldStores(a)
			for _, fld := range []string{"connectionWindowSize", "initialWindowSize"} {
				ok := len(fs[fld]) == 1
				if ok {
					k, isK := constInt(unwrapConv(fs[fld][0].Val))
					ok = isK && k == 65535
				}
				r.Decide("table", "M/h2.newRelay: "+fld+" starts at 65535", ok, "the RFC 7540 default", "a new relay starts with another "+fld+" than the 65535 octets every HTTP/2 receiver grants initially: the relay sends more on a fresh connection (or stream) than the receiver allowed, or stalls short of it", a.Pos())
			}
		}
	}
	// SETTINGS_INITIAL_WINDOW_SIZE moves every open stream's window by (new - old), and an
	// update adds its increment: the operators and their operand order
	if ui := r.Use("h2", "relay.updateInitialWindowSize"); ui != nil {
		isOld := func(v ssa.Value) bool {
			return anyIn(w.backSlice(v, flowOpt{}), func(x ssa.Value) bool {
				fa, y := x.(*ssa.FieldAddr)
				return y && fieldObj(fa).Name() == "initialWindowSize"
			})
		}
		isNew := func(v ssa.Value) bool {
			return anyIn(w.backSlice(v, flowOpt{}), func(x ssa.Value) bool { return len(ui.Params) > 1 && isParamVal(x, ui.Params[1]) })
		}
		var delta ssa.Value
		nsub := 0
		for _, in := range instrs(ui) {
			b, ok := in.(*ssa.BinOp)
			if !ok || (b.Op != token.SUB && b.Op != token.ADD) {
				continue
			}
			if (isNew(b.X) && isOld(b.Y)) || (isOld(b.X) && isNew(b.Y)) {
				nsub++
				if b.Op == token.SUB && isNew(b.X) && isOld(b.Y) && !isOld(b.X) {
					delta = b
				}
			}
		}
		r.Decide("flow", "(*M/h2.relay).updateInitialWindowSize: the adjustment is new minus old", delta != nil && nsub == 1, "delta = int(v) - int(r.initialWindowSize)", "the stream windows are moved by something other than (new initial size - old initial size): after a SETTINGS change the relay believes in more (or less) credit than the receiver granted", ui.Pos())
		// ... and "old" is the size before this call: the load that feeds the difference is not
		// reachable from the store of the new size (computed after it, the difference is always 0)
		if db, isB := delta.(*ssa.BinOp); isB {
			g := G(ui)
			stale := false
			var oldLoads []ssa.Instruction
			for x := range w.backSlice(db.Y, flowOpt{}) {
				if ld, isLd := x.(*ssa.UnOp); isLd && ld.Op == token.MUL {
					if fa, isFa := ld.X.(*ssa.FieldAddr); isFa && fieldObj(fa).Name() == "initialWindowSize" {
						oldLoads = append(oldLoads, ld)
					}
				}
			}
			for _, in := range instrs(ui) {
				st, isSt := in.(*ssa.Store)
				if !isSt {
					continue
				}
				fa, isFa := st.Addr.(*ssa.FieldAddr)
				if !isFa || fieldObj(fa).Name() != "initialWindowSize" {
					continue
				}
				for _, ld := range oldLoads {
					if g.PathTo([]ssa.Instruction{st}, false, func(ssa.Instruction) bool { return false }, func(i ssa.Instruction) bool { return i == ld }) != nil {
						stale = true
					}
				}
			}
			r.Decide("path", "(*M/h2.relay).updateInitialWindowSize: the old size is read before the new one is stored", len(oldLoads) > 0 && !stale, "no path from the store of initialWindowSize to the load the difference uses", "the difference is computed after the new size was stored: it is always 0, open streams keep the windows of the previous setting and overrun (or starve under) the receiver's new limit", db.Pos())
		}
		okAdd := false
		nStores := 0
		for _, in := range instrs(ui) {
			st, ok := in.(*ssa.Store)
			if !ok {
				continue
			}
			fa, ok := st.Addr.(*ssa.FieldAddr)
			if !ok || fieldObj(fa).Name() != "windowSize" {
				continue
			}
			nStores++
			if b, isB := st.Val.(*ssa.BinOp); isB && b.Op == token.ADD && delta != nil && (b.X == delta || b.Y == delta) {
				other := b.X
				if b.X == delta {
					other = b.Y
				}
				if ld, isLd := other.(*ssa.UnOp); isLd && ld.X == ssa.Value(fa) || func() bool {
					ld, isLd := other.(*ssa.UnOp)
					if !isLd {
						return false
					}
					fa2, isFa := ld.X.(*ssa.FieldAddr)
					return isFa && fieldObj(fa2) == fieldObj(fa) && fa2.X == fa.X
				}() {
					okAdd = true
				}
			}
		}
		r.Decide("flow", "(*M/h2.relay).updateInitialWindowSize: every stream window is moved by the adjustment", okAdd, "w.windowSize += delta", "the stream windows are not increased by the adjustment", ui.Pos())
		r.Decide("flow", "(*M/h2.relay).updateInitialWindowSize: the adjustment is all that happens to a stream window", nStores == 1, "one store to windowSize", fmt.Sprintf("%d stores to windowSize: the window is corrected after the adjustment (clamped at zero, say): a window the receiver made negative by lowering its initial size is a debt, and forgetting it lets the relay send DATA the receiver has not allowed", nStores), ui.Pos())
	}
}
