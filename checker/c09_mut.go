package main

func init() {
	mut("C09", "revert-padding-credit", "h2/relay.go", "\tn := f.Header().Length\n", "\tn := uint32(len(f.Data()))\n", "C09.R1", "WriteWindowUpdate#1")
	mut("C09", "stream-credit-dropped", "h2/relay.go", "\treturn r.dest.WriteWindowUpdate(f.StreamID, n)", "\treturn nil", "C09.R1", "connection and stream")
	mut("C09", "emit-ignores-stream-window", "h2/relay.go", "if f.flowControlSize() > *connectionWindowSize || f.flowControlSize() > w.windowSize {", "if f.flowControlSize() > *connectionWindowSize {", "C09.R2", "guarded by both windows")
	mut("C09", "conn-window-not-reduced", "h2/relay.go", "\t\t*connectionWindowSize -= f.flowControlSize()\n", "", "C09.R2", "connection window reduced")
	mut("C09", "window-update-no-wake", "h2/relay.go", "\t\tr.connectionWindowSize += int(f.Increment)\n\t\tr.flowMu.Unlock()\n\t\tr.sendQueuedFramesUnderWindowSize()\n", "\t\tr.connectionWindowSize += int(f.Increment)\n\t\tr.flowMu.Unlock()\n", "C09.R4", "connection-window increase")
	mut("C09", "initial-window-no-wake", "h2/relay.go", "\tr.flowMu.Unlock()\n\t// Since all the stream windows may be impacted, all the queues need to be checked for newly\n\t// eligible frames.\n\tr.sendQueuedFramesUnderWindowSize()\n", "\tr.flowMu.Unlock()\n", "C09.R4", "updateInitialWindowSize")
	mut("C09", "stream-window-no-emit", "h2/relay.go", "\tw.windowSize += int(f.Increment)\n\tw.emitEligibleFrames(r.output, &r.connectionWindowSize)\n", "\tw.windowSize += int(f.Increment)\n", "C09.R4", "stream-window increase")
	mut("C09", "enqueue-without-lock", "h2/relay.go", "\tr.flowMu.Lock()\n\tw := r.outputBuffer(f.StreamID())\n\tw.enqueue(f)\n\tw.emitEligibleFrames(r.output, &r.connectionWindowSize)\n\tr.flowMu.Unlock()\n", "\tr.flowMu.Lock()\n\tw := r.outputBuffer(f.StreamID())\n\tr.flowMu.Unlock()\n\tw.enqueue(f)\n\tr.flowMu.Lock()\n\tw.emitEligibleFrames(r.output, &r.connectionWindowSize)\n\tr.flowMu.Unlock()\n", "C09.R3", "enqueue")
	mut("C09", "data-not-clamped", "h2/relay.go", "\t\tif nextPayloadLength > maxPayloadLength {\n\t\t\tnextPayloadLength = maxPayloadLength\n\t\t}\n", "\t\t_ = maxPayloadLength\n", "C09.R5", "clamped")
	mut("C09", "padded-write-unaccounted", "h2/queued_frames.go", "\treturn dest.WriteData(f.streamID, f.endStream, f.data)", "\treturn dest.WriteDataPadded(f.streamID, f.endStream, f.data, make([]byte, 8))", "C09.R2", "queuedDataFrame")
	mut("C09", "frame-size-setting-ignored", "h2/relay.go", "\t\t\t\tcase http2.SettingMaxFrameSize:\n\t\t\t\t\tr.peer.updateMaxFrameSize(s.Val)\n", "", "C09.R4", "applied to the peer")
	twin("C09", "guard-inverted-form", "h2/relay.go", "\t\tif f.flowControlSize() > *connectionWindowSize || f.flowControlSize() > w.windowSize {\n\t\t\tbreak\n\t\t}\n", "\t\tif !(f.flowControlSize() <= *connectionWindowSize && w.windowSize >= f.flowControlSize()) {\n\t\t\tbreak\n\t\t}\n")
	mut("C09", "rst-deletes-output-buffer", "h2/relay.go", "func (r *relay) rstStream(id uint32, errCode http2.ErrCode) {\n", "func (r *relay) rstStream(id uint32, errCode http2.ErrCode) {\n\tr.flowMu.Lock()\n\tdelete(r.outputBuffers, id)\n\tr.flowMu.Unlock()\n", "C09.R4", "outputBuffers")
	mut("C09", "window-comparison-excludes-equality", "h2/relay.go", "f.flowControlSize() > *connectionWindowSize ||", "f.flowControlSize() >= *connectionWindowSize ||", "C09.R2", "fits both windows is emitted")
	mut("C09", "initial-window-delta-sign", "h2/relay.go", "delta := int(v) - int(r.initialWindowSize)", "delta := int(v) + int(r.initialWindowSize)", "C09.R2", "new minus old")
	mut("C09", "continuation-rest-not-advanced", "h2/relay.go", "\t\tchunks = append(chunks, buf)\n\t\tremaining = remaining[nextChunkLength:]\n", "\t\tchunks = append(chunks, buf)\n\t\tremaining = remaining[len(buf)-1:]\n", "C09.R5", "advanced by the chunk")
	mut("C09", "first-chunk-not-clamped", "h2/relay.go", "\tif firstChunkLength > firstChunkMax {\n\t\tfirstChunkLength = firstChunkMax\n\t}\n", "\tif firstChunkLength < firstChunkMax {\n\t\tfirstChunkLength = firstChunkMax\n\t}\n", "C09.R5", "at most its limit")
	twin("C09", "clamp-written-with-min-form", "h2/relay.go", "\tif firstChunkLength > firstChunkMax {\n\t\tfirstChunkLength = firstChunkMax\n\t}\n", "\tif firstChunkMax <= firstChunkLength {\n\t\tfirstChunkLength = firstChunkMax\n\t}\n")
	twin("C09", "window-increment-commuted", "h2/relay.go", "r.connectionWindowSize += int(f.Increment)", "r.connectionWindowSize = int(f.Increment) + r.connectionWindowSize")
	mut("C09", "window-increment-commuted-sub", "h2/relay.go", "r.connectionWindowSize += int(f.Increment)", "r.connectionWindowSize = int(f.Increment) - r.connectionWindowSize", "C09.R2", "increment/decrement of the window")
}
