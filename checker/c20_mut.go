package main

func init() {
	mut("C20", "revert-body-clamp", "body/body_modifier.go", "\t\tif start > end || start >= len(m.body) {\n", "\t\tif start > end {\n", "C20.R1", "body.Modifier).ModifyResponse: a first position")
	mut("C20", "revert-body-end-clamp", "body/body_modifier.go", "\t\tif end >= len(m.body) {\n\t\t\tend = len(m.body) - 1\n\t\t}\n", "", "C20.R1", "body.Modifier).ModifyResponse: range bounds are clamped")
	mut("C20", "revert-static-clamp", "static/static_file_modifier.go", "\t\tif int64(end) >= info.Size() {\n\t\t\tend = int(info.Size()) - 1\n\t\t}\n", "", "C20.R1", "static.Modifier")
	mut("C20", "revert-static-body-cut", "static/static_file_modifier.go", "\t\t\tres.ContentLength = int64(n)\n\t\t\tseg = seg[:n]\n\t\tdefault:\n\t\t\treturn err\n\t\t}\n\n\t\tres.Body", "\t\t\tres.ContentLength = int64(n)\n\t\tdefault:\n\t\t\treturn err\n\t\t}\n\n\t\tres.Body", "C20.R2", "static.Modifier).ModifyResponse: body #2")
	mut("C20", "revert-path-rooting", "static/static_file_modifier.go", "reqpth := filepath.Clean(\"/\" + res.Request.URL.Path)", "reqpth := filepath.Clean(res.Request.URL.Path)", "C20.R3", "rooted")
	mut("C20", "explicit-path-not-joined", "static/static_file_modifier.go", "\t\tfpth = filepath.Join(s.rootPath, s.explicitPaths[reqpth])\n", "\t\tfpth = s.explicitPaths[reqpth]\n", "C20.R3", "Join(rootPath")
	mut("C20", "416-but-body-attached", "body/body_modifier.go", "\t\tif start > end || start >= len(m.body) {\n\t\t\tres.StatusCode = http.StatusRequestedRangeNotSatisfiable\n\t\t\treturn nil\n\t\t}\n", "\t\tif start > end || start >= len(m.body) {\n\t\t\tres.StatusCode = http.StatusRequestedRangeNotSatisfiable\n\t\t\tbreak\n\t\t}\n", "C20.R4", "416")
	mut("C20", "multipart-not-closed", "body/body_modifier.go", "\tmpw.Close()\n", "", "C20.R4", "closed before")
	mut("C20", "length-of-whole-body-on-range", "body/body_modifier.go", "\t\tres.ContentLength = int64(len(seg))\n", "\t\tres.ContentLength = int64(len(m.body))\n", "C20.R2", "body #2")
	mut("C20", "direct-parsed-bound", "body/body_modifier.go", "\t\tranges = append(ranges, []int{start, end})\n", "\t\tranges = append(ranges, []int{start, end})\n\t\tif len(sranges) == 1 && end+1 <= cap(m.body) {\n\t\t\t_ = m.body[start : end+1]\n\t\t}\n", "C20.R1", "checked pairs only")
	mut("C20", "multipart-scratch-on-modifier", "body/body_modifier.go", "\tboundary    string\n}\n\x00\tvar mpbody bytes.Buffer\n\tmpw := multipart.NewWriter(&mpbody)\n", "\tboundary    string\n\tmpbuf       bytes.Buffer\n}\n\x00\tmpbody := &m.mpbuf\n\tmpbody.Reset()\n\tmpw := multipart.NewWriter(mpbody)\n", "C20.R5", "body assignment #3")
	twin("C20", "multipart-buffer-on-heap", "body/body_modifier.go", "\tvar mpbody bytes.Buffer\n\tmpw := multipart.NewWriter(&mpbody)\n", "\tmpbody := new(bytes.Buffer)\n\tmpw := multipart.NewWriter(mpbody)\n")
	mut("C20", "path-trimmed-after-clean", "static/static_file_modifier.go", "\tfpth := filepath.Join(s.rootPath, reqpth)", "\tfpth := filepath.Join(s.rootPath, strings.Replace(reqpth, \"%2e\", \".\", -1))", "C20.R3", "cleaned path itself")
}
