package main

import (
	"fmt"
	"go/token"
	"go/types"

	"golang.org/x/tools/go/ssa"
)

func init() {
	props["C10"] = func(r *Report) {
		c10(r)
		r.Guard("C10.R5", "every lock taken is released on every exit: the relay's mutexes (a lock left held blocks the peer direction for ever)", func() {
			lockPairRule(r, "h2")
			goCaptureRule(r, "h2")
			goBlockRule(r, "h2")
			noReentrantLockRule(r, "h2")
			fieldWritersRule(r, "", "Proxy", "closing", map[string]bool{"M.NewProxy": true}, "the shutdown channel is replaced after construction: an HTTP/2 session started before keeps watching the old one, Proxy.Close never stops it and waits for ever")
			// the session stays under the connection's deadline: nothing in the core disarms it before
			// the tunnel is handed to the relay (a client that stops reading would otherwise pin the
			// session, its upstream connection and Proxy.Close for ever)
			if lp := r.W.Fn("", "Proxy.handleLoop"); lp != nil {
				deadlineSitesRule(r, lp)
			}
		})
	}
	floors["C10"] = map[string]int{"C10.R1": 1, "C10.R2": 2, "C10.R3": 1, "C10.R4": 5, "C10.R5": 1}
}

// resolveFree follows free variables to the value bound in the enclosing
// function(s).
func resolveFree(v ssa.Value) ssa.Value {
	for depth := 0; depth < 5; depth++ {
		switch x := v.(type) {
		case *ssa.FreeVar:
			fn := x.Parent()
			idx := -1
			for i, fv := range fn.FreeVars {
				if fv == x {
					idx = i
				}
			}
			p := fn.Parent()
			if p == nil || idx < 0 {
				return v
			}
			found := false
			for _, in := range instrs(p) {
				if mc, ok := in.(*ssa.MakeClosure); ok && mc.Fn == fn {
					v = mc.Bindings[idx]
					found = true
					break
				}
			}
			if !found {
				return v
			}
		case *ssa.UnOp:
			// load of a captured variable cell: the value stored in the cell
			if x.Op != token.MUL {
				return v
			}
			cell := resolveFree(x.X)
			if a, ok := cell.(*ssa.Alloc); ok {
				if sts := storesTo(a); len(sts) == 1 {
					v = sts[0].Val
					continue
				}
			}
			return v
		case *ssa.ChangeType:
			v = x.X
		case *ssa.Parameter:
			// parameter of a function literal that is called where it is
			// written (`go func(c chan T) {...}(ch)`): the argument
			a := literalArg(x)
			if a == nil {
				return v
			}
			v = a
		default:
			return v
		}
	}
	return v
}

// literalArg returns the argument bound to parameter p when p belongs to an
// anonymous function whose only use is to be called (call / go / defer) in its
// parent; nil otherwise.
func literalArg(p *ssa.Parameter) ssa.Value {
	fn := p.Parent()
	par := fn.Parent()
	if par == nil {
		return nil
	}
	idx := -1
	for i, q := range fn.Params {
		if q == p {
			idx = i
		}
	}
	if idx < 0 {
		return nil
	}
	var site ssa.CallInstruction
	n := 0
	for _, in := range instrs(par) {
		c, ok := in.(ssa.CallInstruction)
		if !ok {
			continue
		}
		val := c.Common().Value
		if mc, isMC := val.(*ssa.MakeClosure); isMC {
			val = mc.Fn
		}
		if f, isF := val.(*ssa.Function); isF && f == fn {
			site = c
			n++
		}
	}
	if n != 1 || idx >= len(site.Common().Args) {
		return nil
	}
	return site.Common().Args[idx]
}

// closesChan reports whether executing fn (or a closure it calls / hands to a
// callee such as sync.Once.Do) closes the channel created by mk.
func closesChan(fn *ssa.Function, mk ssa.Value, depth int) bool {
	if fn == nil || fn.Blocks == nil || depth > 4 {
		return false
	}
	for _, in := range instrs(fn) {
		c, ok := in.(ssa.CallInstruction)
		if !ok {
			continue
		}
		cc := c.Common()
		if b, ok := cc.Value.(*ssa.Builtin); ok && b.Name() == "close" {
			if resolveFree(cc.Args[0]) == mk {
				return true
			}
		}
		if callee := cc.StaticCallee(); callee != nil && callee.Pkg == fn.Pkg {
			if closesChan(callee, mk, depth+1) {
				return true
			}
		}
		// a function value loaded from a captured variable (finish := func(){...})
		if !cc.IsInvoke() && cc.StaticCallee() == nil {
			if mc, ok := resolveFree(cc.Value).(*ssa.MakeClosure); ok {
				if closesChan(mc.Fn.(*ssa.Function), mk, depth+1) {
					return true
				}
			}
		}
		for _, a := range cc.Args {
			if mc, ok := a.(*ssa.MakeClosure); ok {
				if closesChan(mc.Fn.(*ssa.Function), mk, depth+1) {
					return true
				}
			}
		}
	}
	return false
}

func c10(r *Report) {
	w := r.W
	r.Decline("\"bounded time\" as a number; goroutines parked inside Framer.ReadFrame on the client connection after the relay returned (they end when the caller closes that connection)")
	r.Decline("what proxy.go does with the client connection after Config.Proxy returns")
	px := r.Use("h2", "Config.Proxy")
	rf := r.Use("h2", "relay.relayFrames")
	emit := r.Use("h2", "outputBuffer.emitEligibleFrames")
	if px == nil || rf == nil || emit == nil {
		return
	}

	r.Guard("C10.R1", "the upstream connection opened by the relay is closed on every exit", func() {
		dials := plainCalls(px, "crypto/tls.Dial")
		if len(dials) != 1 {
			r.Undecided("(*M/h2.Config).Proxy: tls.Dial", "UNRESOLVED")
			return
		}
		sc := resultOf(dials[0], 0)
		tests := errTests(dials[0])
		if len(tests) != 1 {
			r.Fail("path", "(*M/h2.Config).Proxy: upstream connection closed on every exit", "dial error not tested", nil, dials[0].Pos())
			return
		}
		g := G(px)
		isClose := func(i ssa.Instruction) bool {
			c, ok := i.(ssa.CallInstruction)
			if !ok {
				return false
			}
			n := calleeName(c)
			return (n == "(*crypto/tls.Conn).Close" || n == "(net.Conn).Close" || n == "(io.Closer).Close") && (c.Common().Args != nil && len(c.Common().Args) > 0 && c.Common().Args[0] == sc || c.Common().Value == sc)
		}
		p := g.PathTo(blockStart(tests[0].Nil), true, isClose, isExit)
		r.Paths++
		if p != nil {
			r.Fail("path", "(*M/h2.Config).Proxy: upstream connection closed on every exit", "an exit after a successful dial is reachable without sc.Close() (deferred or explicit): the connection leaks", witness(w, p), dials[0].Pos())
		} else {
			r.Hold("path", "(*M/h2.Config).Proxy: upstream connection closed on every exit", "Close (deferred or explicit) is on every path from the successful dial to an exit", dials[0].Pos())
		}
	})

	r.Guard("C10.R2", "whichever direction ends first ends the other one", func() {
		// the goroutines that run relayFrames
		type dir struct {
			fn   *ssa.Function
			call *ssa.Call
			stop ssa.Value
		}
		var dirs []dir
		for _, f := range px.AnonFuncs {
			for _, c := range plainCalls(f, "(*M/h2.relay).relayFrames") {
				dirs = append(dirs, dir{f, c, resolveFree(c.Call.Args[1])})
			}
		}
		if len(dirs) != 2 {
			r.Fail("callgraph", "(*M/h2.Config).Proxy: the end of a direction stops the other one", fmt.Sprintf("found %d goroutines running relayFrames, want 2", len(dirs)), nil, px.Pos())
			return
		}
		ok := true
		why := ""
		for i, d := range dirs {
			other := dirs[1-i]
			mk, isMk := other.stop.(*ssa.MakeChan)
			if !isMk {
				ok = false
				why = "the other direction does not watch a channel created for this relay session (it only watches proxy shutdown)"
				continue
			}
			// after relayFrames returns (including deferred calls), this goroutine closes the channel the other watches,
			// or closes a connection the other reads
			woke := false
			var wakers []ssa.Instruction
			deferredWake := false
			for _, in := range instrs(d.fn) {
				c, isC := in.(ssa.CallInstruction)
				if !isC || c == ssa.CallInstruction(d.call) {
					continue
				}
				_, isDefer := c.(*ssa.Defer)
				after := G(d.fn).Reach([]ssa.Instruction{d.call}, false, nil)[in]
				if !isDefer && !after {
					continue
				}
				cc := c.Common()
				isWaker := false
				if callee := cc.StaticCallee(); callee != nil && closesChan(callee, mk, 0) {
					isWaker = true
				}
				if cc.StaticCallee() == nil && !cc.IsInvoke() {
					if mc, isMC := resolveFree(cc.Value).(*ssa.MakeClosure); isMC && closesChan(mc.Fn.(*ssa.Function), mk, 0) {
						isWaker = true
					}
				}
				if b, isB := cc.Value.(*ssa.Builtin); isB && b.Name() == "close" && resolveFree(cc.Args[0]) == ssa.Value(mk) {
					isWaker = true
				}
				if isWaker {
					woke = true
					wakers = append(wakers, in)
					if isDefer && in.Block() == d.fn.Blocks[0] {
						deferredWake = true
					}
				}
			}
			// whatever way relayFrames returned (error or clean EOF), the wake-up happens
			if woke && !deferredWake {
				gd := G(d.fn)
				if p := gd.PathTo([]ssa.Instruction{d.call}, false, func(i ssa.Instruction) bool {
					for _, wk := range wakers {
						if wk == i {
							return true
						}
					}
					return false
				}, isExit); p != nil {
					woke = false
				}
			}
			if !woke {
				ok = false
				why = "after its relayFrames returns, a direction goroutine does nothing that the other direction's select can observe"
			}
		}
		r.Decide("callgraph", "(*M/h2.Config).Proxy: the end of a direction stops the other one", ok, "each direction closes the session stop channel the other selects on", why, px.Pos())
		// proxy shutdown still reaches both: the stop channel is also closed when `closing` fires
		okShut := false
		if mk, isMk := dirs[0].stop.(*ssa.MakeChan); isMk {
			for _, f := range px.AnonFuncs {
				for _, in := range instrs(f) {
					sel, isSel := in.(*ssa.Select)
					if !isSel {
						continue
					}
					for _, s := range sel.States {
						if isParamVal(resolveFree(s.Chan), px.Params[1]) && closesChan(f, mk, 0) {
							okShut = true
						}
					}
				}
			}
		} else if isParamVal(dirs[0].stop, px.Params[1]) {
			okShut = true
		}
		r.Decide("callgraph", "(*M/h2.Config).Proxy: proxy shutdown stops both directions", okShut, "the closing parameter is watched and closes the session stop channel", "proxy shutdown no longer reaches the relay directions", px.Pos())
		// and Proxy waits for both
		waits := plainCalls(px, "(*sync.WaitGroup).Wait")
		adds := plainCalls(px, "(*sync.WaitGroup).Add")
		okW := len(waits) == 1 && len(adds) == 1
		if okW {
			n, _ := constInt(adds[0].Call.Args[1])
			okW = n == 2
			for _, d := range dirs {
				hasDone := false
				for _, c := range calls(d.fn, "(*sync.WaitGroup).Done") {
					if _, isD := c.(*ssa.Defer); isD {
						hasDone = true
					}
				}
				if !hasDone {
					okW = false
				}
			}
		}
		r.Decide("path", "(*M/h2.Config).Proxy: waits for both directions before returning", okW, "Add(2), deferred Done in both goroutines, one Wait", "Proxy can return (closing the upstream connection) while a direction is still running, or waits forever", px.Pos())
	})

	r.Guard("C10.R3", "no unconditional blocking send while a lock is held", func() {
		for _, in := range instrs(emit) {
			s, ok := in.(*ssa.Send)
			if !ok {
				continue
			}
			// emitEligibleFrames runs with flowMu held (C09.R3); a bare send blocks with the lock once the
			// 15-slot channel is full and the writer goroutine of that relay has exited
			r.Sites++
			r.Fail("lockset", "(*M/h2.outputBuffer).emitEligibleFrames: send on output while flowMu is held", "a plain channel send (no select with an escape case) executes under flowMu; it is reachable from the peer's reader goroutine (updateWindow -> emitEligibleFrames) after this relay's writer goroutine has returned, and then blocks forever with the lock held once the channel is full", nil, s.Pos())
		}
		for _, in := range instrs(emit) {
			sel, ok := in.(*ssa.Select)
			if !ok {
				continue
			}
			for _, st := range sel.States {
				if st.Dir != types.SendOnly {
					continue
				}
				// the escape: a receive on a channel that is closed when the relay's relayFrames returns
				escape := false
				escapes := true
				for ak, alt := range sel.States {
					if alt.Dir != types.RecvOnly {
						continue
					}
					// taking the escape ends the emission: the arm does not lead back to the select
					// (a `break` that only leaves the select lets the loop spin on the same frame)
					if arm := selectArm(sel, ak); arm != nil {
						if p := G(emit).PathTo(blockStart(arm), true, nil, func(i ssa.Instruction) bool { return i == ssa.Instruction(sel) }); p != nil {
							escapes = false
						}
					}
					// the channel is a field (of the buffer or the relay) that relayFrames closes on exit
					var fname string
					for v := range w.backSlice(alt.Chan, flowOpt{}) {
						if fa, y := v.(*ssa.FieldAddr); y {
							fname = fieldObj(fa).Name()
						}
					}
					for _, c := range calls(rf) {
						d, isD := c.(*ssa.Defer)
						if !isD {
							continue
						}
						if b, isB := d.Call.Value.(*ssa.Builtin); isB && b.Name() == "close" {
							for v := range w.backSlice(d.Call.Args[0], flowOpt{}) {
								if fa, y := v.(*ssa.FieldAddr); y && fname != "" && fieldObj(fa).Name() == fname {
									escape = true
								}
							}
						}
					}
				}
				r.Sites++
				r.Decide("path", "(*M/h2.outputBuffer).emitEligibleFrames: the arm taken when the relay has ended leaves the emission loop", escapes, "the select is not reachable again from the escape arm", "after the relay has ended the loop comes back to the same select with the same frame (the escape arm only leaves the select): the peer's reader spins for ever with flowMu held and the session never ends", sel.Pos())
				r.Decide("lockset", "(*M/h2.outputBuffer).emitEligibleFrames: send on output while flowMu is held", escape, "the send sits in a select whose other arm is a channel relayFrames closes (deferred) when the relay ends", "the select around the send has no arm that fires when the relay has ended: the peer's reader still blocks with the lock held", sel.Pos())
			}
		}
	})

	r.Guard("C10.R4", "reader/writer handshake inside one direction: the writer outlives the reader, errors and shutdown reach the reader", func() {
		// a failed write toward either side ends the session: the dispatcher hands every
		// error of the calls it makes (window updates toward the peer, the processors,
		// the framer) to relayFrames, which returns on it
		errorsReturnedRule(r, r.Use("h2", "relay.processFrame"), false)
		for _, n := range []string{"relay.relayFrames", "relay.sendWindowUpdates", "relay.header", "relay.pushPromise", "Config.Proxy", "forwardPreface", "relay.decodeFull", "relay.encodeFull"} {
			errorsReturnedRule(r, r.W.Fn("h2", n), false)
		}

		// ... starting with the send methods of the queued frames
		for _, tn := range []string{"queuedDataFrame", "queuedHeaderFrame", "queuedPushPromiseFrame", "queuedPriorityFrame", "queuedRSTStreamFrame"} {
			if T := r.W.Named("h2", tn); T != nil {
				if send := r.W.method(T, "send"); send != nil && send.Blocks != nil {
					r.Touch(send)
					sendErrorRule(r, send)
				}
			}
		}
		g := G(rf)
		var readerDone, writerErr, frameReady *ssa.MakeChan
		for _, in := range instrs(rf) {
			mk, ok := in.(*ssa.MakeChan)
			if !ok {
				continue
			}
			switch mk.Type().Underlying().(*types.Chan).Elem().String() {
			case "error":
				writerErr = mk
			case "struct{}":
				if n, _ := constInt(mk.Size); n == 0 {
					readerDone = mk
				} else {
					frameReady = mk
				}
			}
		}
		if readerDone == nil || writerErr == nil || frameReady == nil {
			r.Undecided("(*M/h2.relay).relayFrames: channels", "UNRESOLVED: readerDone / writerErr / frameReady not identified")
			return
		}
		// readerDone is signalled by a deferred function registered before any return
		var def *ssa.Defer
		for _, c := range calls(rf) {
			d, ok := c.(*ssa.Defer)
			if !ok {
				continue
			}
			if mc, ok := d.Call.Value.(*ssa.MakeClosure); ok {
				for _, in := range instrs(mc.Fn.(*ssa.Function)) {
					if s, ok := in.(*ssa.Send); ok && resolveFree(s.Chan) == ssa.Value(readerDone) {
						def = d
					}
				}
			}
		}
		okD := def != nil && g.PathTo([]ssa.Instruction{g.Entry()}, true, func(i ssa.Instruction) bool { return i == ssa.Instruction(def) }, isExit) == nil
		r.Decide("path", "(*M/h2.relay).relayFrames: readerDone is signalled on every exit", okD, "deferred send registered before any return", "the reader can return without telling the writer goroutine: the writer leaks, or the reader's peer blocks", rf.Pos())
		// the writer returns only on readerDone
		var writer *ssa.Function
		for _, c := range calls(rf) {
			if gg, ok := c.(*ssa.Go); ok {
				if fn := gg.Call.StaticCallee(); fn != nil {
					for _, in := range instrs(fn) {
						if sel, ok := in.(*ssa.Select); ok {
							for _, s := range sel.States {
								if resolveFree(s.Chan) == ssa.Value(readerDone) {
									writer = fn
								}
							}
						}
					}
				}
			}
		}
		okW := false
		if writer != nil {
			r.Touch(writer)
			okW = true
			gw := G(writer)
			for _, ret := range returns(writer) {
				// every path to a return passes the select (it is a loop around it)
				if gw.PathTo([]ssa.Instruction{gw.Entry()}, true, func(i ssa.Instruction) bool { _, y := i.(*ssa.Select); return y }, func(i ssa.Instruction) bool { return i == ssa.Instruction(ret) }) != nil {
					okW = false
				}
			}
			// a write error does not end the writer: the error edge leads back to the select
			for _, in := range instrs(writer) {
				if s, ok := in.(*ssa.Send); ok && resolveFree(s.Chan) == ssa.Value(writerErr) {
					if gw.PathTo([]ssa.Instruction{s}, false, func(i ssa.Instruction) bool { _, y := i.(*ssa.Select); return y }, isReturn) != nil {
						okW = false
					}
				}
			}
		}
		r.Decide("path", "(*M/h2.relay).relayFrames: the writer goroutine ends only on readerDone", okW, "every return of the writer is reached through its select; a write error keeps draining", "the writer can end before the reader: the reader (or the peer under flowMu) then blocks on the output channel", rf.Pos())
		// capacities
		ne, _ := constInt(writerErr.Size)
		nf, _ := constInt(frameReady.Size)
		r.Decide("lookup", "(*M/h2.relay).relayFrames: writerErr is buffered", ne >= 1, fmt.Sprintf("capacity %d", ne), "the writer blocks forever reporting an error nobody reads", writerErr.Pos())
		r.Decide("lookup", "(*M/h2.relay).relayFrames: frameReady is buffered", nf >= 1, fmt.Sprintf("capacity %d", nf), "an abandoned ReadFrame goroutine can never finish", frameReady.Pos())
		// the reader's select watches writerErr and closing and both arms return
		okS := false
		for _, in := range instrs(rf) {
			sel, ok := in.(*ssa.Select)
			if !ok || !sel.Blocking {
				continue
			}
			seen := map[string]bool{}
			for _, s := range sel.States {
				switch resolveFree(s.Chan) {
				case ssa.Value(writerErr):
					seen["writerErr"] = true
				case ssa.Value(rf.Params[1]):
					seen["closing"] = true
				case ssa.Value(frameReady):
					seen["frameReady"] = true
				}
			}
			if seen["writerErr"] && seen["closing"] && seen["frameReady"] {
				okS = true
				// the closing and writerErr arms return: from the select, the only way back to the loop head is the frameReady arm
				idx := map[string]int{}
				for i, s := range sel.States {
					switch resolveFree(s.Chan) {
					case ssa.Value(writerErr):
						idx["writerErr"] = i
					case ssa.Value(rf.Params[1]):
						idx["closing"] = i
					}
				}
				for name, k := range idx {
					arm := selectArm(sel, k)
					if arm == nil {
						continue // last arm falls through without a comparison; checked by reachability below
					}
					if g.PathTo(blockStart(arm), true, nil, func(i ssa.Instruction) bool { return i == ssa.Instruction(sel) }) != nil {
						okS = false
						r.Note("C10.R4: the %s arm can loop back to the select", name)
					}
				}
			}
		}
		// a failed read ends the reader: from the non-nil edge of the ReadFrame error no path
		// leads back to the select (a deadline that has expired stays expired: retrying spins
		// for ever and never sees the close)
		{
			var errCells []ssa.Value
			for _, in := range instrs(rf) {
				gs, ok := in.(*ssa.Go)
				if !ok {
					continue
				}
				t := goTarget(gs)
				if t == nil {
					continue
				}
				for _, c := range calls(t) {
					cc, isC := c.(*ssa.Call)
					if !isC || !cc.Call.IsInvoke() && calleeName(cc) != "(*golang.org/x/net/http2.Framer).ReadFrame" {
						continue
					}
					if calleeName(cc) != "(*golang.org/x/net/http2.Framer).ReadFrame" {
						continue
					}
					for _, e := range errOf(cc) {
						if e.Referrers() == nil {
							continue
						}
						for _, u := range *e.Referrers() {
							if st, isSt := u.(*ssa.Store); isSt {
								errCells = append(errCells, resolveFree(st.Addr))
							}
						}
					}
				}
			}
			nTests, okRet := 0, true
			for _, in := range instrs(rf) {
				iff, ok := in.(*ssa.If)
				if !ok {
					continue
				}
				b, ok := iff.Cond.(*ssa.BinOp)
				if !ok || (b.Op != token.NEQ && b.Op != token.EQL) || !(isNilConst(b.X) || isNilConst(b.Y)) {
					continue
				}
				other := b.X
				if isNilConst(b.X) {
					other = b.Y
				}
				ld, ok := other.(*ssa.UnOp)
				if !ok || ld.Op != token.MUL {
					continue
				}
				isCell := false
				for _, c := range errCells {
					if ld.X == c {
						isCell = true
					}
				}
				if !isCell {
					continue
				}
				nTests++
				k := 0
				if b.Op == token.EQL {
					k = 1
				}
				if p := g.PathTo(blockStart(iff.Block().Succs[k]), true, isReturn, func(i ssa.Instruction) bool { _, y := i.(*ssa.Select); return y }); p != nil {
					okRet = false
				}
			}
			if nTests == 0 {
				r.Undecided("(*M/h2.relay).relayFrames: test of the ReadFrame error", "UNRESOLVED")
			} else {
				r.Decide("path", "(*M/h2.relay).relayFrames: a failed read ends the reader", okRet, "every path from the error edge returns", "after a failed ReadFrame the reader can go round the loop again (a retry on timeout): an expired deadline stays expired, so the reader spins, never sees the peer close, and the relay call does not return", rf.Pos())
			}
		}
		// the escape of a blocked hand-over is this relay's own done channel (closed when this
		// relay's writer stops consuming r.output), not the peer's
		if obf := r.Use("h2", "relay.outputBuffer"); obf != nil {
			n := 0
			for _, a := range allocsOf(obf, M+"/h2.outputBuffer") {
				for _, st := range litFieldStores(a)["done"] {
					n++
					own := true
					for _, l := range resolveAll(st.Val) {
						l = unwrapConv(l)
						ld, isLd := l.(*ssa.UnOp)
						if !isLd {
							own = false
							continue
						}
						if fa, isFa := ld.X.(*ssa.FieldAddr); !isFa || fieldObj(fa).Name() != "done" || fa.X != ssa.Value(obf.Params[0]) {
							own = false
						}
					}
					r.Decide("flow", "(*M/h2.relay).outputBuffer: a stream buffer's escape is its own relay's done channel", own, "done: r.done", "the buffer's done channel is not the one closed when this relay's writer stops (e.g. the peer's): a sender blocked on this relay's full output channel is never released when this relay ends first", st.Pos())
				}
			}
			if n == 0 {
				r.Undecided("(*M/h2.relay).outputBuffer: done", "UNRESOLVED")
			}
		}
		r.Decide("path", "(*M/h2.relay).relayFrames: the reader's select watches frameReady, writerErr and closing, and the latter two end the reader", okS, "three arms; error and shutdown arms return", "a writer error or shutdown does not stop the reader", rf.Pos())
	})
}

// selectArm returns the block executed when select chose state k: the true
// successor of the comparison `index == k`.
func selectArm(sel *ssa.Select, k int) *ssa.BasicBlock {
	if sel.Referrers() == nil {
		return nil
	}
	for _, u := range *sel.Referrers() {
		e, ok := u.(*ssa.Extract)
		if !ok || e.Index != 0 || e.Referrers() == nil {
			continue
		}
		for _, uu := range *e.Referrers() {
			b, ok := uu.(*ssa.BinOp)
			if !ok || b.Op != token.EQL {
				continue
			}
			if n, isC := constInt(b.Y); isC && int(n) == k {
				for _, ce := range branchesOn(b) {
					return ce.True
				}
			}
		}
	}
	return nil
}
