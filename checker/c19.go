package main

import (
	"fmt"
	"go/token"
	"go/types"
	"strings"

	"golang.org/x/tools/go/ssa"
)

func init() {
	props["C19"] = func(r *Report) {
		c19(r)
		r.Guard("C19.R5", "every lock taken is released on every exit: the stream / handler locks", func() {
			lockPairRule(r, "marbl")
			goCaptureRule(r, "marbl")
			guardedFieldsRule(r, "marbl", "Handler", "mu", []string{"subs"}, "a frame is fanned out over the subscriber table while a subscriber is being added or removed (concurrent map access ends the process)")
		})
	}
	floors["C19"] = map[string]int{"C19.R1": 6, "C19.R2": 5, "C19.R3": 4, "C19.R4": 5, "C19.R5": 1}
}

// fixedWidth sums the byte widths a frame-building function appends before the
// variable payload: elements of varargs arrays handed to append, plus constant
// length prefixes of strings (id[:8]).
func fixedWidth(f *ssa.Function) int64 {
	var total int64
	for _, in := range instrs(f) {
		c, ok := in.(*ssa.Call)
		if !ok {
			continue
		}
		// the byte-order helpers append a fixed number of bytes
		switch calleeName(c) {
		case "(encoding/binary.bigEndian).AppendUint32", "(encoding/binary.littleEndian).AppendUint32":
			total += 4
			continue
		case "(encoding/binary.bigEndian).AppendUint16", "(encoding/binary.littleEndian).AppendUint16":
			total += 2
			continue
		case "(encoding/binary.bigEndian).AppendUint64", "(encoding/binary.littleEndian).AppendUint64":
			total += 8
			continue
		}
		b, ok := c.Call.Value.(*ssa.Builtin)
		if !ok || b.Name() != "append" || len(c.Call.Args) != 2 {
			continue
		}
		switch x := c.Call.Args[1].(type) {
		case *ssa.Slice:
			if a, ok := x.X.(*ssa.Alloc); ok {
				if arr, ok := a.Type().Underlying().(*types.Pointer).Elem().Underlying().(*types.Array); ok {
					total += arr.Len()
				}
				continue
			}
			// prefix of a string / slice with a constant upper bound
			if x.High != nil {
				if n, ok := constInt(x.High); ok {
					total += n
				}
			}
		}
	}
	return total
}

func c19(r *Report) {
	w := r.W
	r.Decline("that the concatenation of the data frames equals the body (follows from C19.R2 at the level of structure only)")
	r.Decline("behaviour after Stream.Close, very large allocations below the 2 GiB bound")
	ns := r.Use("marbl", "NewStream")
	loop := r.Use("marbl", "Stream.loop")
	sh := r.Use("marbl", "Stream.sendHeader")
	sd := r.Use("marbl", "Stream.sendData")
	// the frame builder: by name, or by role (the module function sendHeader calls to obtain the frame)
	nf := w.Fn("marbl", "newFrame")
	if nf == nil && sh != nil {
		for _, c := range plainCalls(sh) {
			if callee := c.Call.StaticCallee(); callee != nil && callee.Blocks != nil && callee.Pkg == sh.Pkg && callee.Signature.Results().Len() == 1 && callee.Signature.Results().At(0).Type().String() == "[]byte" {
				nf = callee
			}
		}
	}
	if nf == nil {
		r.Rule("C19.R4", "")
		r.Undecided("M/marbl frame builder", "UNRESOLVED: no function builds the frame header for sendHeader")
	}
	r.Touch(nf)
	rd := r.Use("marbl", "bodyLogger.Read")
	rf := r.Use("marbl", "Reader.ReadFrame")
	if ns == nil || loop == nil || sh == nil || sd == nil || nf == nil || rd == nil || rf == nil {
		return
	}
	_ = nf
	strm := w.Named("marbl", "Stream")

	r.Guard("C19.R1", "frames of different messages carry different IDs: a message's ID is its context's fresh random ID", func() {
		contextIDFreshRule(r)
		statelessRule(r, r.W.Fn("", "newID"), map[string]bool{}, "IDs repeat once the kept state wraps: frames of two messages carry one ID and parse back as one message")
	})

	r.Guard("C19.R1", "one goroutine writes the stream and every frame is handed to it whole", func() {
		fw := structField(strm, "w")
		users := map[string]bool{}
		for _, a := range w.fieldAccesses(fw) {
			if !freshBase(a.Addr) {
				users[fnName(a.Fn)] = true
			}
		}
		okU := len(users) == 1 && users["(*M/marbl.Stream).loop"]
		r.Decide("callgraph", "M/marbl.Stream.w is written only by the stream's loop", okU, fmt.Sprint(keys(users)), fmt.Sprintf("the underlying writer is used from %v: frames of concurrent messages can be torn", keys(users)), loop.Pos())
		ngo := 0
		for _, f := range w.Funcs("marbl") {
			for _, c := range calls(f) {
				if g, ok := c.(*ssa.Go); ok && g.Call.StaticCallee() == loop {
					ngo++
					if f != ns || inLoop(g.Block()) {
						ngo += 10
					}
				}
			}
		}
		r.Decide("callgraph", "M/marbl.NewStream starts exactly one writer loop", ngo == 1, "one go statement", fmt.Sprintf("writer loops started: %d", ngo), ns.Pos())
		for _, f := range []*ssa.Function{sh, sd} {
			isSend := func(i ssa.Instruction) bool { _, ok := i.(*ssa.Send); return ok }
			n := countBefore(f, isSend)
			ok := true
			var sent ssa.Value
			for _, in := range instrs(f) {
				if s, y := in.(*ssa.Send); y {
					sent = s.X
				}
			}
			for _, ret := range returns(f) {
				if n[ret] != (cnt{1, 1}) {
					ok = false
				}
			}
			// the value sent is the completely built frame: the result of the last append
			last := false
			if c, y := sent.(*ssa.Call); y {
				if b, y := c.Call.Value.(*ssa.Builtin); y && b.Name() == "append" {
					last = true
					for _, in := range instrs(f) {
						if c2, y := in.(*ssa.Call); y && c2 != c {
							if b2, y := c2.Call.Value.(*ssa.Builtin); y && b2.Name() == "append" && c2.Call.Args[0] == ssa.Value(c) {
								last = false
							}
						}
					}
				}
			}
			r.Paths++
			r.Decide("path", fnName(f)+": sends exactly one, completely built frame per call", ok && last, "one channel send of the final append result", "a frame is sent in pieces, twice, or before it is complete", f.Pos())
		}
		// every frame is a fresh allocation that the stream gives away: the writer may keep it
		// (marbl.Handler.Write queues the very slice for its websocket subscribers)
		okFresh := nf != nil
		if nf != nil {
			for _, ret := range returns(nf) {
				for _, v := range retVals(ret, 0) {
					sl := w.backSlice(v, flowOpt{})
					if !anyIn(sl, func(x ssa.Value) bool { _, y := x.(*ssa.MakeSlice); return y }) {
						okFresh = false
					}
					if anyIn(sl, func(x ssa.Value) bool {
						switch y := x.(type) {
						case *ssa.Select:
							return true
						case *ssa.UnOp:
							if y.Op == token.ARROW {
								return true
							}
							if y.Op == token.MUL {
								if fa, z := y.X.(*ssa.FieldAddr); z {
									_, isSl := fieldObj(fa).Type().Underlying().(*types.Slice)
									return isSl
								}
							}
						}
						return false
					}) {
						okFresh = false
					}
				}
			}
		}
		// and the loop does not keep a frame after writing it
		for _, in := range instrs(loop) {
			switch x := in.(type) {
			case *ssa.Send:
				okFresh = false
				_ = x
			case *ssa.Select:
				for _, st := range x.States {
					if st.Dir == types.SendOnly {
						okFresh = false
					}
				}
			}
		}
		r.Decide("flow", "M/marbl: every frame is a freshly allocated buffer that is not reused after it was written", okFresh, "frames come from make() and the loop only writes them", "frame buffers are recycled: a writer that keeps the slice it was given (marbl.Handler queues it for subscribers) sees later frames overwrite earlier ones", loop.Pos())
		// the loop writes each received frame with one Write call
		okW := false
		for _, c := range calls(loop) {
			if cc, y := c.(*ssa.Call); y && cc.Call.IsInvoke() && cc.Call.Method.Name() == "Write" {
				okW = anyIn(w.backSlice(cc.Call.Args[0], flowOpt{}), func(v ssa.Value) bool { _, isSel := v.(*ssa.Select); return isSel })
			}
		}
		r.Decide("flow", "(*M/marbl.Stream).loop writes each received frame with a single Write", okW, "w.Write(frame)", "the loop does not write the frame it received as one unit", loop.Pos())
	})

	r.Guard("C19.R2", "the body wrapper logs exactly what each Read returned: one data frame per Read, consecutive indices, terminal exactly at EOF", func() {
		// the body of a logged message is wrapped once, by LogRequest / LogResponse, in a wrapper
		// allocated for that call: nothing else in the package assigns a message body (putting the
		// bare body back loses the terminal frame of an empty body), and an existing wrapper is
		// never taken over (its running index belongs to another stream)
		for _, f := range w.Funcs("marbl") {
			for _, in := range instrs(f) {
				st, isSt := in.(*ssa.Store)
				if !isSt || msgFieldAddr(st.Addr, "Body") == nil {
					continue
				}
				owner := fnName(f) == "(*M/marbl.Stream).LogRequest" || fnName(f) == "(*M/marbl.Stream).LogResponse"
				fresh := true
				for _, l := range resolveAll(st.Val) {
					if mi, isMi := l.(*ssa.MakeInterface); isMi {
						l = mi.X
					}
					if a, isA := l.(*ssa.Alloc); !isA || !strings.HasSuffix(a.Type().String(), "bodyLogger") {
						fresh = false
					}
				}
				r.Touch(f)
				r.Decide("flow", fnName(f)+": a message body is replaced by a wrapper made for this call", owner && fresh, "Body = &bodyLogger{...} in LogRequest / LogResponse", "a message body is assigned outside LogRequest / LogResponse, or with a wrapper that already existed: an empty body produces no terminal data frame, or a second stream continues the first one's indices and the first loses its frames", st.Pos())
			}
		}
		// data frames are produced by reads of the body and by nothing else: a frame
		// sent from Close, a constructor or a helper matches no Read, so indices and
		// the terminal mark no longer describe what the consumer read
		for _, f := range w.Funcs("marbl") {
			for _, c := range calls(f, "(*M/marbl.Stream).sendData") {
				r.Decide("callgraph", "caller of sendData: "+site(f, c), fnName(f) == "(*M/marbl.bodyLogger).Read", "the body wrapper's Read", "a data frame is emitted outside bodyLogger.Read (in "+fnName(f)+"): it carries no bytes a consumer read, shifts the frame indices and can mark a body terminal that never reached end-of-file", c.Pos())
			}
		}

		sds := plainCalls(rd, "(*M/marbl.Stream).sendData")
		isSD := func(i ssa.Instruction) bool { _, ok := isCall(i, "(*M/marbl.Stream).sendData"); return ok }
		n := countBefore(rd, isSD)
		ok := len(sds) == 1
		for _, ret := range returns(rd) {
			if n[ret] != (cnt{1, 1}) {
				ok = false
			}
		}
		r.Decide("path", "(*M/marbl.bodyLogger).Read: exactly one data frame per Read", ok, "one sendData on every path", "a Read logs no frame or several: indices are no longer contiguous with the reads", rd.Pos())
		if len(sds) != 1 {
			return
		}
		a := sds[0].Call.Args // s, id, mt, i, terminal, b, bl
		var inner *ssa.Call
		for _, c := range calls(rd) {
			if cc, y := c.(*ssa.Call); y && cc.Call.IsInvoke() && cc.Call.Method.Name() == "Read" {
				inner = cc
			}
		}
		okData := inner != nil && isParamVal(a[5], rd.Params[1]) && a[6] == resultOf(inner, 0)
		r.Decide("flow", "(*M/marbl.bodyLogger).Read: the frame carries the caller's buffer and the count just read", okData, "sendData(..., b, n)", "the logged bytes are not the bytes this Read returned", sds[0].Pos())
		// index: atomic.AddUint32(&bl.index, 1) - 1
		okIdx := false
		if b, y := a[3].(*ssa.BinOp); y && b.Op == token.SUB {
			if one, isC := constInt(b.Y); isC && one == 1 {
				// (the function form on an integer field, or the Add method of a typed atomic field)
				if c, y := b.X.(*ssa.Call); y && (strings.HasPrefix(calleeName(c), "sync/atomic.Add") || (strings.HasPrefix(calleeName(c), "(*sync/atomic.") && strings.HasSuffix(calleeName(c), ").Add"))) && len(c.Call.Args) == 2 {
					if d, isC := constInt(c.Call.Args[1]); isC && d == 1 {
						if fa, y := c.Call.Args[0].(*ssa.FieldAddr); y && fieldObj(fa).Name() == "index" {
							okIdx = true
						}
					}
				}
			}
		}
		r.Decide("flow", "(*M/marbl.bodyLogger).Read: indices count up from zero atomically", okIdx, "atomic.AddUint32(&index, 1) - 1", "data frame indices are not a contiguous atomic counter starting at zero", sds[0].Pos())
		// terminal: true exactly on err == io.EOF
		okT := false
		if phi, y := a[4].(*ssa.Phi); y && inner != nil {
			errv := resultOf(inner, 1)
			for i, e := range phi.Edges {
				tv, isC := constBool(e)
				if !isC || !tv {
					continue
				}
				pb := phi.Block().Preds[i]
				for _, ce := range ctrlEdges(pb) {
					b, isB := ce.If.Cond.(*ssa.BinOp)
					if !isB || b.Op != token.EQL || !ce.Taken {
						continue
					}
					isEOF := func(v ssa.Value) bool { return errClass(v) == "global:EOF" }
					if (b.X == errv && isEOF(b.Y)) || (b.Y == errv && isEOF(b.X)) {
						okT = true
					}
				}
			}
			for _, e := range phi.Edges {
				if tv, isC := constBool(e); !isC || (tv && !okT) {
					if !isC {
						okT = false
					}
				}
			}
		}
		// the direct form: terminal := err == io.EOF
		if b, isB := a[4].(*ssa.BinOp); isB && b.Op == token.EQL && inner != nil {
			errv := resultOf(inner, 1)
			isEOF := func(v ssa.Value) bool { return errClass(v) == "global:EOF" }
			if (b.X == errv && isEOF(b.Y)) || (b.Y == errv && isEOF(b.X)) {
				okT = true
			}
		}
		r.Decide("path", "(*M/marbl.bodyLogger).Read: the frame is terminal exactly when the read returned io.EOF", okT, "terminal = (err == io.EOF)", "the terminal flag is set on other errors (a truncated body looks complete) or not at EOF", sds[0].Pos())
		// the wrapper is what replaces the message body, wrapping the original body
		okWrap := true
		for _, fn := range []string{"Stream.LogRequest", "Stream.LogResponse"} {
			f := r.Use("marbl", fn)
			if f == nil {
				continue
			}
			found := false
			for _, al := range allocsOf(f, P("marbl")+".bodyLogger") {
				st := litFieldStores(al)
				if len(st["body"]) == 1 && anyIn(w.backSlice(st["body"][0].Val, flowOpt{}), func(v ssa.Value) bool { return msgFieldAddr(v, "Body") != nil }) {
					found = true
				}
			}
			if !found {
				okWrap = false
			}
		}
		r.Decide("flow", "M/marbl.Stream.LogRequest/LogResponse: the wrapper wraps the message's own body", okWrap, "bodyLogger{body: msg.Body}", "the logged body is not the message's body", rd.Pos())
	})

	r.Guard("C19.R3", "lengths taken from the wire are bounded before they are added or used as sizes", func() {
		errorsReturnedRule(r, r.W.Fn("marbl", "Reader.ReadFrame"), false)

		isLen := func(v ssa.Value) bool { return isCallValue(v, "(encoding/binary.bigEndian).Uint32") }
		// (a) no uint32 addition of two wire lengths
		okAdd := true
		for _, in := range instrs(rf) {
			b, y := in.(*ssa.BinOp)
			if !y || b.Op != token.ADD {
				continue
			}
			bt, isBasic := b.Type().Underlying().(*types.Basic)
			if !isBasic || bt.Kind() != types.Uint32 {
				continue
			}
			if anyIn(w.backSlice(b.X, flowOpt{}), isLen) && anyIn(w.backSlice(b.Y, flowOpt{}), isLen) {
				okAdd = false
				r.Fail("flow", "(*M/marbl.Reader).ReadFrame: wire lengths are not added in 32 bits", "two lengths decoded from the frame are added as uint32: the sum wraps (0xFFFFFFFF + 2 = 1) and the following slice expression panics", nil, b.Pos())
			}
		}
		if okAdd {
			r.Hold("flow", "(*M/marbl.Reader).ReadFrame: wire lengths are not added in 32 bits", "additions of decoded lengths are done in a wider type", rf.Pos())
		}
		// (b) every allocation sized by wire lengths is dominated by a rejecting bound check on those lengths
		n := 0
		for _, in := range instrs(rf) {
			mk, y := in.(*ssa.MakeSlice)
			if !y {
				continue
			}
			sl := w.backSlice(mk.Len, flowOpt{BinOps: true})
			var lens []ssa.Value
			for v := range sl {
				if isLen(v) {
					lens = append(lens, v)
				}
			}
			if len(lens) == 0 {
				continue
			}
			n++
			guarded := false
			for _, ce := range ctrlEdges(mk.Block()) {
				b, isB := ce.If.Cond.(*ssa.BinOp)
				if !isB {
					continue
				}
				var ok bool
				switch b.Op {
				case token.GTR, token.GEQ:
					ok = !ce.Taken // size > bound rejected; we are on the not-greater edge
				case token.LSS, token.LEQ:
					ok = ce.Taken
				}
				if !ok {
					continue
				}
				cs := w.backSlice(b.X, flowOpt{BinOps: true})
				all := true
				for _, l := range lens {
					if !cs[l] {
						all = false
					}
				}
				if _, isC := b.Y.(*ssa.Const); all && isC {
					guarded = true
				}
			}
			// the bound rejects nothing a Stream can emit: a data frame carries one Read of the
			// logged body, which is as large as the consumer's buffer (io.ReadAll grows to
			// megabytes); 64 KiB, 1 MiB and 1<<31-1 must all pass every guard before the read
			if len(lens) == 1 {
				isThisLen := func(v ssa.Value) bool { return unwrapConv(v) == lens[0] }
				tooTight := false
				for _, ce := range ctrlEdges(mk.Block()) {
					for _, sz := range []int64{1 << 16, 1 << 20, 1<<31 - 1} {
						if rel, adm := constCmpAdmits(ce, isThisLen, sz); rel && !adm {
							tooTight = true
						}
					}
				}
				r.Decide("path", fmt.Sprintf("(*M/marbl.Reader).ReadFrame: the bound on allocation #%d admits every frame the writer can emit", n), !tooTight, "lengths up to 1<<31-1 pass the guard", "the reader refuses payload lengths (64 KiB, 1 MiB or 1<<31-1) that a Stream emits for a large Read of the logged body: such a stream no longer decodes", mk.Pos())
			}
			// the same, in whatever form the comparison is written: with the decoded length(s)
			// adding up to 1<<31 the edge towards the allocation is not taken
			if !guarded {
				isSubject := func(v ssa.Value) bool {
					cs := w.backSlice(v, flowOpt{BinOps: true})
					for _, l := range lens {
						if !cs[l] {
							return false
						}
					}
					return true
				}
				for _, ce := range ctrlEdges(mk.Block()) {
					if rel, adm := constCmpAdmits(ce, isSubject, 1<<31); rel && !adm {
						guarded = true
					}
				}
			}
			r.Sites++
			r.Decide("path", fmt.Sprintf("(*M/marbl.Reader).ReadFrame: allocation #%d sized from the wire is bounded", n), guarded, "dominated by a comparison of the decoded length(s) with a constant bound that rejects larger values", "a buffer is sized by an unchecked length from the wire: a negative size on 32-bit platforms (panic) or an arbitrary allocation", mk.Pos())
		}
		// (c) every slice expression bounded by a wire length operates on a buffer of at least that size
		okSl := true
		for _, in := range instrs(rf) {
			s, y := in.(*ssa.Slice)
			if !y {
				continue
			}
			for _, bnd := range []ssa.Value{s.Low, s.High} {
				if bnd == nil || !anyIn(w.backSlice(bnd, flowOpt{}), isLen) {
					continue
				}
				// the sliced buffer's size must derive from the same length
				base := anyIn(w.backSlice(s.X, flowOpt{}), func(v ssa.Value) bool {
					mk, isMk := v.(*ssa.MakeSlice)
					if !isMk {
						return false
					}
					msl := w.backSlice(mk.Len, flowOpt{BinOps: true})
					for l := range w.backSlice(bnd, flowOpt{}) {
						if isLen(l) && msl[l] {
							return true
						}
					}
					return false
				})
				if !base {
					okSl = false
				}
			}
		}
		r.Decide("flow", "(*M/marbl.Reader).ReadFrame: slices bounded by a wire length index a buffer sized from it", okSl, "nv[:nl] on a buffer of nl+vl bytes", "a slice bound decoded from the wire is applied to a buffer whose size does not include it", rf.Pos())
		// (d) unknown frame types are an error
		okU := false
		for _, in := range instrs(rf) {
			b, y := in.(*ssa.BinOp)
			if !y || b.Op != token.EQL {
				continue
			}
			if _, isC := constInt(b.Y); !isC {
				continue
			}
			for _, e := range branchesOn(b) {
				// the edge taken when this (last) tag comparison fails too
				isTagCmp := false
				for _, i2 := range e.False.Instrs {
					if b2, y := i2.(*ssa.BinOp); y && b2.Op == token.EQL && b2.X == b.X {
						isTagCmp = true
					}
				}
				if isTagCmp {
					continue
				}
				errs, _, _ := returnValuesFrom(e.False, 1)
				okU = len(errs) > 0
				for _, v := range errs {
					if isNilConst(v) {
						okU = false
					}
				}
			}
		}
		r.Decide("path", "(*M/marbl.Reader).ReadFrame: an unknown frame type is reported as an error", okU, "error return in the default case", "unknown frame types are not rejected", rf.Pos())
	})

	r.Guard("C19.R4", "writer and reader agree on the frame layout", func() {
		// the headers that are framed are the message's own
		headerMapKeysRule(r)
		// the ten-octet frame head: the reader takes the frame type from octet 0, the message
		// type from octet 1 and the ID from octet 2 on, which is where the builder puts them
		{
			idxOf := func(v ssa.Value) int64 {
				for x := range w.backSlice(v, flowOpt{}) {
					switch y := x.(type) {
					case *ssa.IndexAddr:
						if k, isK := constInt(y.Index); isK {
							return k
						}
					case *ssa.Slice:
						if y.Low != nil {
							if k, isK := constInt(y.Low); isK {
								return k
							}
						}
					}
				}
				return -1
			}
			okR, n := true, 0
			for _, typ := range []string{"Header", "Data"} {
				for _, a := range allocsOf(rf, P("marbl")+"."+typ) {
					fs := litFieldStores(a)
					for _, st := range fs["MessageType"] {
						n++
						if idxOf(st.Val) != 1 {
							okR = false
						}
					}
					for _, st := range fs["ID"] {
						n++
						if idxOf(st.Val) != 2 {
							okR = false
						}
					}
				}
			}
			r.Decide("table", "(*M/marbl.Reader).ReadFrame: message type from octet 1, ID from octet 2 of the frame head", okR && n >= 4, fmt.Sprintf("%d field sources checked", n), "the reader takes the message type or the ID from another octet of the frame head than the writer puts it in: every frame is filed under the wrong message", rf.Pos())
		}
		// every frame of a message carries the message's own type: whatever LogRequest
		// sends is typed Request, whatever LogResponse sends (pseudo-headers, :api, headers,
		// the body wrapper) is typed Response
		for _, side := range []struct {
			fn   string
			want int64
		}{{"Stream.LogRequest", 1}, {"Stream.LogResponse", 2}} {
			f := r.W.Fn("marbl", side.fn)
			if f == nil {
				r.Undecided("(*M/marbl.Stream)."+side.fn, "UNRESOLVED")
				continue
			}
			r.Touch(f)
			bad := ""
			n := 0
			for _, c := range plainCalls(f, "(*M/marbl.Stream).sendHeader", "(*M/marbl.Stream).sendData") {
				n++
				for _, l := range resolveAll(c.Call.Args[2]) {
					if k, isK := constInt(l); !isK || k != side.want {
						bad = site(f, c)
					}
				}
			}
			for _, a := range allocsOf(f, P("marbl")+".bodyLogger") {
				for _, st := range litFieldStores(a)["mt"] {
					n++
					if k, isK := constInt(st.Val); !isK || k != side.want {
						bad = "the body wrapper"
					}
				}
			}
			// the pseudo-headers that describe the message line, each from its own source
			type ph struct{ name, src string }
			want := []ph{{":method", "Method"}, {":scheme", "Scheme"}, {":authority", "Host"}, {":path", "EscapedPath"}, {":query", "RawQuery"}, {":proto", "Proto"}, {":remote", "RemoteAddr"}, {":timestamp", "FormatInt"}}
			if side.want == 2 {
				want = []ph{{":proto", "Proto"}, {":status", "StatusCode"}, {":reason", "Status"}, {":timestamp", "FormatInt"}}
			}
			got := map[string]ssa.Value{}
			var apiCall *ssa.Call
			record := func(site *ssa.Call, name, value ssa.Value) {
				if k, isK := constString(name); isK {
					got[k] = value
					if k == ":api" {
						apiCall = site
					}
				}
			}
			for _, c := range plainCalls(f, "(*M/marbl.Stream).sendHeader") {
				record(c, c.Call.Args[3], c.Call.Args[4])
			}
			// ... also through a local closure that forwards its parameters to sendHeader
			for _, in := range instrs(f) {
				c, isC := in.(*ssa.Call)
				if !isC {
					continue
				}
				g := c.Call.StaticCallee()
				if g == nil || g.Parent() != f {
					continue
				}
				for _, sc := range plainCalls(g, "(*M/marbl.Stream).sendHeader") {
					argOf := func(v ssa.Value) ssa.Value {
						for k, p := range g.Params {
							if v == ssa.Value(p) && k < len(c.Call.Args) {
								return c.Call.Args[k]
							}
						}
						return v
					}
					record(c, argOf(sc.Call.Args[3]), argOf(sc.Call.Args[4]))
				}
			}
			for _, p := range want {
				v, have := got[p.name]
				okSrc := false
				if have {
					okSrc = anyIn(w.backSlice(v, flowOpt{Through: map[string]bool{"strconv.Itoa": true, "strconv.FormatInt": true}, CallArg: true}), func(x ssa.Value) bool {
						switch y := x.(type) {
						case *ssa.FieldAddr:
							return fieldObj(y).Name() == p.src
						case *ssa.Call:
							if sc := y.Call.StaticCallee(); sc != nil {
								return sc.Name() == p.src
							}
						}
						return false
					})
				}
				r.Decide("table", fmt.Sprintf("(*M/marbl.Stream).%s logs %s from %s", strings.TrimPrefix(side.fn, "Stream."), p.name, p.src), have && okSrc, "sendHeader with this name and that source", "the pseudo-header "+p.name+" is not logged (or carries another part of the message): the stream does not parse back to the message's line", f.Pos())
			}
			okAPI := false
			if apiCall != nil {
				for _, ce := range ctrlEdges(apiCall.Block()) {
					if isCallValue(ce.If.Cond, "(*M.Context).IsAPIRequest") && ce.Taken {
						okAPI = true
					}
				}
			}
			if side.fn == "Stream.LogRequest" {
				// the mark that is logged is the mark of this exchange
				contextFlagRules(r, "APIRequest", "IsAPIRequest")
			}
			r.Decide("path", fmt.Sprintf("(*M/marbl.Stream).%s marks API traffic, and only API traffic, with :api", strings.TrimPrefix(side.fn, "Stream.")), okAPI, "sendHeader(\":api\") on the IsAPIRequest() edge", "the :api mark is missing, unconditional or inverted", f.Pos())
			r.Decide("table", fmt.Sprintf("(*M/marbl.Stream).%s: every frame it emits has the message's type", strings.TrimPrefix(side.fn, "Stream.")), bad == "" && n > 0, fmt.Sprintf("%d frame sources, all typed %d", n, side.want), "a frame of this message is emitted with the other message type ("+bad+"): the reader files it under the wrong message of the exchange", f.Pos())
		}

		var makes []int64
		for _, in := range instrs(rf) {
			if mk, y := in.(*ssa.MakeSlice); y {
				if n, isC := constInt(mk.Len); isC {
					makes = append(makes, n)
				}
			}
			// make([]byte, <const>) is an array allocation that is sliced
			if a, y := in.(*ssa.Alloc); y {
				if arr, isArr := a.Type().Underlying().(*types.Pointer).Elem().Underlying().(*types.Array); isArr {
					if b, isB := arr.Elem().Underlying().(*types.Basic); isB && b.Kind() == types.Uint8 {
						makes = append(makes, arr.Len())
					}
				}
			}
		}
		has := func(n int64) bool {
			for _, m := range makes {
				if m == n {
					return true
				}
			}
			return false
		}
		_ = has
		// the reader's fixed-size reads, keyed by the frame-type case they sit in (-1: before the dispatch)
		readAt := map[int64]int64{}
		for _, in := range instrs(rf) {
			a, y := in.(*ssa.Alloc)
			if !y {
				continue
			}
			arr, isArr := a.Type().Underlying().(*types.Pointer).Elem().Underlying().(*types.Array)
			if !isArr {
				continue
			}
			if b, isB := arr.Elem().Underlying().(*types.Basic); !isB || b.Kind() != types.Uint8 {
				continue
			}
			where := int64(-1)
			for _, ce := range ctrlEdges(a.Block()) {
				if b, isB := ce.If.Cond.(*ssa.BinOp); isB && b.Op == token.EQL && ce.Taken {
					if k, isC := constInt(b.Y); isC {
						where = k
					}
				}
			}
			readAt[where] = arr.Len()
		}
		tagOf := func(f *ssa.Function) int64 {
			for _, c := range plainCalls(f) {
				if c.Call.StaticCallee() != nf {
					continue
				}
				for _, a := range c.Call.Args {
					if strings.HasSuffix(a.Type().String(), "marbl.FrameType") {
						if n, isC := constInt(unwrapConv(a)); isC {
							return n
						}
					}
				}
			}
			return -1
		}
		for _, p := range []struct {
			f     *ssa.Function
			what  string
			where int64
		}{{nf, "frame header (type, message type, id)", -1}, {sh, "header-frame lengths", tagOf(sh)}, {sd, "data-frame descriptor", tagOf(sd)}} {
			wv := fixedWidth(p.f)
			r.Sites++
			r.Decide("table", fmt.Sprintf("%s: the fixed bytes of the %s are read as one block of the same size", fnName(p.f), p.what), wv > 0 && readAt[p.where] == wv, fmt.Sprintf("writer appends %d bytes, reader reads %d", wv, readAt[p.where]), fmt.Sprintf("the writer emits %d fixed bytes for this part but the reader reads %d there: frames are misparsed", wv, readAt[p.where]), p.f.Pos())
		}
		// frame type tags
		tags := map[string]bool{}
		for _, f := range []*ssa.Function{sh, sd} {
			for _, c := range plainCalls(f) {
				if c.Call.StaticCallee() != nf {
					continue
				}
				for _, a := range c.Call.Args {
					if strings.HasSuffix(a.Type().String(), "marbl.FrameType") {
						if n, isC := constInt(unwrapConv(a)); isC {
							tags[fmt.Sprint(n)] = true
						}
					}
				}
			}
		}
		cases := map[string]bool{}
		for _, in := range instrs(rf) {
			b, y := in.(*ssa.BinOp)
			if y && b.Op == token.EQL {
				if n, isC := constInt(b.Y); isC {
					cases[fmt.Sprint(n)] = true
				}
			}
		}
		r.Decide("table", "frame type tags written by the stream are the ones the reader dispatches on", len(tags) == 2 && strings.Join(keys(tags), ",") == strings.Join(keys(cases), ","), fmt.Sprint(keys(tags)), fmt.Sprintf("writer tags %v, reader cases %v", keys(tags), keys(cases)), rf.Pos())
		// the id is 8 bytes on both sides
		okID := false
		for _, in := range instrs(rf) {
			if s, y := in.(*ssa.Slice); y && s.High == nil && s.Low != nil {
				if n, isC := constInt(s.Low); isC && n == 2 {
					okID = true
				}
			}
		}
		r.Decide("table", "the message id occupies the frame header after the two tag bytes", okID && fixedWidth(nf) == 10, "fh[2:] on a 10-byte header, id[:8] in the writer", "writer and reader place the message id differently", rf.Pos())
	})
}
