package main

import (
	"go/token"
	"go/types"

	"golang.org/x/tools/go/ssa"
)

// miniEval evaluates integer and boolean SSA expressions for concrete values
// of a few designated leaves. It understands constants, + - *, conversions,
// comparisons, !, and phis of diamond-shaped control flow (if / if-else /
// && / ||), whose deciding condition it evaluates in turn. Anything else makes
// the evaluation fail (ok == false), in which case the rule using it reports
// "cannot decide" rather than guessing.
type miniEval struct {
	leaf  func(ssa.Value) (int64, bool)
	bleaf func(ssa.Value) (bool, bool) // optional: boolean leaves (a flag, a comma-ok, a predicate call)
	depth int
	pick  map[*ssa.Phi]int // set by walk: the incoming edge each phi was entered through
}

func (e *miniEval) Int(v ssa.Value) (int64, bool) {
	if e.depth > 40 {
		return 0, false
	}
	e.depth++
	defer func() { e.depth-- }()
	if n, ok := e.leaf(v); ok {
		return n, true
	}
	switch x := v.(type) {
	case *ssa.Const:
		return constInt(x)
	case *ssa.Convert:
		return e.Int(x.X)
	case *ssa.ChangeType:
		return e.Int(x.X)
	case *ssa.BinOp:
		a, oka := e.Int(x.X)
		b, okb := e.Int(x.Y)
		if !oka || !okb {
			return 0, false
		}
		switch x.Op {
		case token.ADD:
			return a + b, true
		case token.SUB:
			return a - b, true
		case token.MUL:
			return a * b, true
		case token.QUO:
			if b != 0 {
				return a / b, true
			}
		case token.AND:
			return a & b, true
		case token.OR:
			return a | b, true
		case token.XOR:
			return a ^ b, true
		case token.AND_NOT:
			return a &^ b, true
		case token.SHL:
			if b >= 0 && b < 62 {
				return a << uint(b), true
			}
		case token.SHR:
			if b >= 0 && b < 62 {
				return a >> uint(b), true
			}
		}
	case *ssa.Phi:
		if k, picked := e.pick[x]; picked {
			return e.Int(x.Edges[k])
		}
		k, ok := e.phiEdge(x)
		if !ok {
			return 0, false
		}
		return e.Int(x.Edges[k])
	}
	return 0, false
}

func (e *miniEval) Bool(v ssa.Value) (bool, bool) {
	if e.depth > 40 {
		return false, false
	}
	e.depth++
	defer func() { e.depth-- }()
	if k, ok := constBool(v); ok {
		return k, true
	}
	if e.bleaf != nil {
		if k, ok := e.bleaf(v); ok {
			return k, true
		}
	}
	switch x := v.(type) {
	case *ssa.UnOp:
		if x.Op == token.NOT {
			b, ok := e.Bool(x.X)
			return !b, ok
		}
	case *ssa.BinOp:
		switch x.Op {
		case token.EQL, token.NEQ, token.LSS, token.LEQ, token.GTR, token.GEQ:
			a, oka := e.Int(x.X)
			b, okb := e.Int(x.Y)
			if !oka || !okb {
				return false, false
			}
			return cmpHolds(x.Op, a, b), true
		}
	case *ssa.Phi:
		if k, picked := e.pick[x]; picked {
			return e.Bool(x.Edges[k])
		}
		k, ok := e.phiEdge(x)
		if !ok {
			return false, false
		}
		return e.Bool(x.Edges[k])
	}
	return false, false
}

// phiEdge picks the incoming edge of a two-way phi by evaluating the branch
// that decides it: the If that ends the phi block's immediate dominator.
func (e *miniEval) phiEdge(ph *ssa.Phi) (int, bool) {
	b := ph.Block()
	if len(ph.Edges) != 2 {
		return 0, false
	}
	d := b.Idom()
	if d == nil || len(d.Instrs) == 0 {
		return 0, false
	}
	iff, ok := d.Instrs[len(d.Instrs)-1].(*ssa.If)
	if !ok {
		return 0, false
	}
	c, okc := e.Bool(iff.Cond)
	if !okc {
		return 0, false
	}
	t := d.Succs[1]
	if c {
		t = d.Succs[0]
	}
	for k, p := range b.Preds {
		if (p == d && t == b) || (t != b && (t == p || t.Dominates(p))) {
			return k, true
		}
	}
	return 0, false
}

// walk runs the control flow from block `from` for the concrete leaves until it
// reaches `target` (reached), or leaves the function / comes round to `from`
// again (not reached). Every phi met on the way takes the value of the edge
// that was actually walked, so merges with any number of arms (the result
// variables of an inlined helper with several returns) are evaluated exactly.
// A condition that cannot be evaluated is resolved by unknown, which names the
// successor to take or -1 (then ok is false: no verdict).
func (e *miniEval) walk(from, target *ssa.BasicBlock, unknown func(*ssa.If) int) (reached, ok bool) {
	if e.pick == nil {
		e.pick = map[*ssa.Phi]int{}
	}
	b := from
	for steps := 0; steps < 256; steps++ {
		if b == target {
			return true, true
		}
		var next *ssa.BasicBlock
		switch x := b.Instrs[len(b.Instrs)-1].(type) {
		case *ssa.If:
			c, okc := e.Bool(x.Cond)
			k := 1
			if c {
				k = 0
			}
			if !okc {
				if k = unknown(x); k < 0 {
					return false, false
				}
			}
			next = b.Succs[k]
		case *ssa.Jump:
			next = b.Succs[0]
		default:
			return false, true
		}
		if next != target && (next == from || next.Dominates(from)) {
			return false, true
		}
		for i, p := range next.Preds {
			if p != b {
				continue
			}
			for _, in := range next.Instrs {
				ph, isPhi := in.(*ssa.Phi)
				if !isPhi {
					break
				}
				e.pick[ph] = i
			}
			break
		}
		b = next
	}
	return false, false
}

// reachesAvoiding: target can be reached from b without entering avoid.
func reachesAvoiding(b, target, avoid *ssa.BasicBlock) bool {
	seen := map[*ssa.BasicBlock]bool{}
	var dfs func(x *ssa.BasicBlock) bool
	dfs = func(x *ssa.BasicBlock) bool {
		if x == target {
			return true
		}
		if x == avoid || seen[x] {
			return false
		}
		seen[x] = true
		for _, s := range x.Succs {
			if dfs(s) {
				return true
			}
		}
		return false
	}
	return dfs(b)
}

// simulateLoop runs, for concrete leaves, the innermost natural loop that
// contains block at: the integer phis of its head start from their entry values
// and are advanced by their latch values; in every round that the head's
// condition admits, visit is called with an evaluator in which the phis have
// that round's values. It reports false when something cannot be evaluated, the
// loop has not ended after max rounds, or visit says so.
func simulateLoop(at *ssa.BasicBlock, leaf func(ssa.Value) (int64, bool), max int, visit func(ev *miniEval) bool) bool {
	var loop *natLoop
	ls := natLoops(at.Parent())
	for k := range ls {
		if ls[k].Blocks[at] && (loop == nil || len(ls[k].Blocks) < len(loop.Blocks)) {
			loop = &ls[k]
		}
	}
	if loop == nil {
		return false
	}
	head := loop.Head
	iff, ok := head.Instrs[len(head.Instrs)-1].(*ssa.If)
	if !ok || loop.Blocks[head.Succs[0]] == loop.Blocks[head.Succs[1]] {
		return false
	}
	bodyOnTrue := loop.Blocks[head.Succs[0]]
	body := head.Succs[1]
	if bodyOnTrue {
		body = head.Succs[0]
	}
	if body != at && !body.Dominates(at) {
		return false
	}
	type lv struct {
		phi        *ssa.Phi
		init, step ssa.Value
	}
	var vars []lv
	for _, in := range head.Instrs {
		ph, isPhi := in.(*ssa.Phi)
		if !isPhi {
			break
		}
		if b, isB := ph.Type().Underlying().(*types.Basic); !isB || b.Info()&types.IsInteger == 0 {
			continue
		}
		v := lv{phi: ph}
		for k, p := range head.Preds {
			e := ph.Edges[k]
			if loop.Blocks[p] {
				if v.step != nil && v.step != e {
					return false
				}
				v.step = e
			} else {
				if v.init != nil && v.init != e {
					return false
				}
				v.init = e
			}
		}
		if v.init == nil || v.step == nil {
			return false
		}
		vars = append(vars, v)
	}
	vals := map[ssa.Value]int64{}
	mk := func() *miniEval {
		return &miniEval{leaf: func(v ssa.Value) (int64, bool) {
			if n, has := vals[v]; has {
				return n, true
			}
			return leaf(v)
		}}
	}
	ev0 := mk()
	inits := map[ssa.Value]int64{}
	for _, v := range vars {
		n, okN := ev0.Int(v.init)
		if !okN {
			return false
		}
		inits[v.phi] = n
	}
	vals = inits
	for round := 0; round < max; round++ {
		ev := mk()
		c, okC := ev.Bool(iff.Cond)
		if !okC {
			return false
		}
		if c != bodyOnTrue {
			return true
		}
		if !visit(ev) {
			return false
		}
		next := map[ssa.Value]int64{}
		for _, v := range vars {
			n, okN := ev.Int(v.step)
			if !okN {
				return false
			}
			next[v.phi] = n
		}
		vals = next
	}
	return false
}
