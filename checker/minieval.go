package main

import (
	"go/token"

	"golang.org/x/tools/go/ssa"
)

// miniEval evaluates integer and boolean SSA expressions for concrete values
// of a few designated leaves. It understands constants, + - *, conversions,
// comparisons, !, and phis of diamond-shaped control flow (if / if-else /
// && / ||), whose deciding condition it evaluates in turn. Anything else makes
// the evaluation fail (ok == false), in which case the rule using it reports
// "cannot decide" rather than guessing.
type miniEval struct {
	leaf  func(ssa.Value) (int64, bool)
	bleaf func(ssa.Value) (bool, bool) // optional: boolean leaves (a flag, a comma-ok, a predicate call)
	depth int
}

func (e *miniEval) Int(v ssa.Value) (int64, bool) {
	if e.depth > 40 {
		return 0, false
	}
	e.depth++
	defer func() { e.depth-- }()
	if n, ok := e.leaf(v); ok {
		return n, true
	}
	switch x := v.(type) {
	case *ssa.Const:
		return constInt(x)
	case *ssa.Convert:
		return e.Int(x.X)
	case *ssa.ChangeType:
		return e.Int(x.X)
	case *ssa.BinOp:
		a, oka := e.Int(x.X)
		b, okb := e.Int(x.Y)
		if !oka || !okb {
			return 0, false
		}
		switch x.Op {
		case token.ADD:
			return a + b, true
		case token.SUB:
			return a - b, true
		case token.MUL:
			return a * b, true
		case token.QUO:
			if b != 0 {
				return a / b, true
			}
		case token.AND:
			return a & b, true
		case token.OR:
			return a | b, true
		case token.XOR:
			return a ^ b, true
		case token.AND_NOT:
			return a &^ b, true
		case token.SHL:
			if b >= 0 && b < 62 {
				return a << uint(b), true
			}
		case token.SHR:
			if b >= 0 && b < 62 {
				return a >> uint(b), true
			}
		}
	case *ssa.Phi:
		k, ok := e.phiEdge(x)
		if !ok {
			return 0, false
		}
		return e.Int(x.Edges[k])
	}
	return 0, false
}

func (e *miniEval) Bool(v ssa.Value) (bool, bool) {
	if e.depth > 40 {
		return false, false
	}
	e.depth++
	defer func() { e.depth-- }()
	if k, ok := constBool(v); ok {
		return k, true
	}
	if e.bleaf != nil {
		if k, ok := e.bleaf(v); ok {
			return k, true
		}
	}
	switch x := v.(type) {
	case *ssa.UnOp:
		if x.Op == token.NOT {
			b, ok := e.Bool(x.X)
			return !b, ok
		}
	case *ssa.BinOp:
		switch x.Op {
		case token.EQL, token.NEQ, token.LSS, token.LEQ, token.GTR, token.GEQ:
			a, oka := e.Int(x.X)
			b, okb := e.Int(x.Y)
			if !oka || !okb {
				return false, false
			}
			return cmpHolds(x.Op, a, b), true
		}
	case *ssa.Phi:
		k, ok := e.phiEdge(x)
		if !ok {
			return false, false
		}
		return e.Bool(x.Edges[k])
	}
	return false, false
}

// phiEdge picks the incoming edge of a two-way phi by evaluating the branch
// that decides it: the If that ends the phi block's immediate dominator.
func (e *miniEval) phiEdge(ph *ssa.Phi) (int, bool) {
	b := ph.Block()
	if len(ph.Edges) != 2 {
		return 0, false
	}
	d := b.Idom()
	if d == nil || len(d.Instrs) == 0 {
		return 0, false
	}
	iff, ok := d.Instrs[len(d.Instrs)-1].(*ssa.If)
	if !ok {
		return 0, false
	}
	c, okc := e.Bool(iff.Cond)
	if !okc {
		return 0, false
	}
	t := d.Succs[1]
	if c {
		t = d.Succs[0]
	}
	for k, p := range b.Preds {
		if (p == d && t == b) || (t != b && (t == p || t.Dominates(p))) {
			return k, true
		}
	}
	return 0, false
}
