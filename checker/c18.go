package main

import (
	"fmt"
	"go/token"
	"go/types"
	"sort"
	"strings"

	"golang.org/x/tools/go/ssa"
)

func init() {
	props["C18"] = func(r *Report) {
		c18(r)
		r.Guard("C18.R9", "every lock taken is released on every exit: the shaping locks", func() {
			lockPairRule(r, "trafficshape")
			shapesT := "urlShapes"
			if fo := structField(r.W.Named("trafficshape", "Listener"), "Shapes"); fo != nil {
				if n := namedOf(fo.Type()); n != "" {
					shapesT = n // whatever the table type is called
				}
			}
			guardedFieldsRule(r, "trafficshape", shapesT, "RWMutex", []string{"M", "LastModifiedTime"}, "a connection looks a shape up while a reconfiguration replaces the table")
			guardedFieldsRule(r, "trafficshape", "Listener", "mu", []string{"defaults", "latency"}, "a connection being accepted reads a half-updated default while a configuration is being installed")
		})
	}
	floors["C18"] = map[string]int{"C18.R1": 6, "C18.R2": 14, "C18.R3": 12, "C18.R4": 4, "C18.R5": 1, "C18.R6": 1, "C18.R7": 3, "C18.R8": 7, "C18.R9": 1}
}

// lockStatesMay computes, before every instruction, the set of locks that may
// be held on some path (union at joins), for pairing / leak rules.
func lockStatesMay(f *ssa.Function) map[ssa.Instruction]lockset {
	in := map[*ssa.BasicBlock]lockset{}
	transfer := func(l lockset, i ssa.Instruction) lockset {
		c, ok := i.(*ssa.Call)
		if !ok {
			return l
		}
		op, ok := lockOps[lockCalleeName(c)]
		if !ok {
			return l
		}
		p := pathOf(c.Call.Args[0])
		n := l.clone()
		key := op[1:] + ":" + p
		if op[0] == '+' {
			n[key] = true
		} else {
			delete(n, key)
		}
		return n
	}
	in[f.Blocks[0]] = lockset{}
	for changed := true; changed; {
		changed = false
		for _, b := range f.Blocks {
			l, ok := in[b]
			if !ok {
				continue
			}
			for _, i := range b.Instrs {
				l = transfer(l, i)
			}
			for _, s := range b.Succs {
				cur, ok := in[s]
				if !ok {
					in[s] = l.clone()
					changed = true
					continue
				}
				for k := range l {
					if !cur[k] {
						cur[k] = true
						changed = true
					}
				}
			}
		}
	}
	out := map[ssa.Instruction]lockset{}
	for _, b := range f.Blocks {
		l, ok := in[b]
		if !ok {
			continue
		}
		for _, i := range b.Instrs {
			out[i] = l
			l = transfer(l, i)
		}
	}
	return out
}

// lockCalleeName names the lock operation of a call, also for mutexes
// embedded in a struct (promoted methods are called on the embedded field).
func lockCalleeName(c *ssa.Call) string { return calleeName(c) }

// acquires lists the lock paths a function acquires, relative to its receiver
// / parameter names.
func acquires(f *ssa.Function) map[string]string {
	out := map[string]string{}
	if f == nil || f.Blocks == nil {
		return out
	}
	for _, in := range instrs(f) {
		c, ok := in.(*ssa.Call)
		if !ok {
			continue
		}
		if op, ok := lockOps[calleeName(c)]; ok && op[0] == '+' {
			out[pathOf(c.Call.Args[0])] = op[1:]
		}
	}
	return out
}

func c18(r *Report) {
	w := r.W
	r.Decline("byte/offset arithmetic of the write loop, delays, bandwidth numbers, overlap detection as arithmetic")
	r.Decline("that an accepted configuration applies only to connections accepted afterwards (runtime comparison of timestamps)")
	sh := r.Use("trafficshape", "Handler.ServeHTTP")
	ps := r.Use("trafficshape", "parseShapes")
	wr := r.Use("trafficshape", "Conn.Write")
	if sh == nil || ps == nil || wr == nil {
		return
	}

	r.Guard("C18.R1", "a configuration is validated completely before any listener state changes, and the change is made as a whole under the write lock", func() {
		reconfigClosesNoBucketRule(r)

		g := G(sh)
		var muts []ssa.Instruction
		for _, in := range instrs(sh) {
			switch x := in.(type) {
			case *ssa.Call:
				switch calleeName(x) {
				case "(*M/trafficshape.Bucket).SetCapacity", "(*M/trafficshape.Listener).SetLatency", "(*M/trafficshape.Listener).SetDefaults", "(*M/trafficshape.Listener).SetReadBitrate", "(*M/trafficshape.Listener).SetWriteBitrate":
					muts = append(muts, x)
				}
			case *ssa.Store:
				if fa, ok := x.Addr.(*ssa.FieldAddr); ok && (fieldObj(fa).Name() == "M" || fieldObj(fa).Name() == "LastModifiedTime") {
					muts = append(muts, x)
				}
			case *ssa.MapUpdate:
				// (filling a map made in this call, which the listener does not see until it
				// is installed, changes no listener state)
				if _, local := x.Map.(*ssa.MakeMap); !local && strings.Contains(x.Map.Type().String(), "urlShape") {
					muts = append(muts, x)
				}
			}
		}
		if len(muts) < 5 {
			r.Fail("path", "(*M/trafficshape.Handler).ServeHTTP: state updates", fmt.Sprintf("found %d listener state updates, expected at least 5", len(muts)), nil, sh.Pos())
			return
		}
		for _, name := range []string{"io/ioutil.ReadAll", "(*encoding/json.Decoder).Decode", "M/trafficshape.parseShapes"} {
			cs := plainCalls(sh, name)
			if name == "io/ioutil.ReadAll" {
				cs = plainCalls(sh, "io/ioutil.ReadAll", "io.ReadAll")
			}
			if len(cs) != 1 {
				r.Fail("path", "(*M/trafficshape.Handler).ServeHTTP: nothing changes unless "+name+" succeeded", fmt.Sprintf("found %d calls", len(cs)), nil, sh.Pos())
				continue
			}
			ok := true
			for _, t := range errTests(cs[0]) {
				for _, m := range muts {
					if !edgeDominatesNil(t, m.Block()) {
						ok = false
					}
				}
			}
			if len(errTests(cs[0])) == 0 {
				ok = false
			}
			r.Paths++
			r.Decide("path", "(*M/trafficshape.Handler).ServeHTTP: nothing changes unless "+name+" succeeded", ok, fmt.Sprintf("all %d state updates are dominated by the success edge", len(muts)), "listener state can change although "+name+" failed: a rejected configuration alters the active shaping", cs[0].Pos())
		}
		// the defaults are refused when any one of them is negative (truth table over the
		// three comparisons)
		{
			fieldOfCmp := func(b *ssa.BinOp) string {
				for v := range w.backSlice(b.X, flowOpt{}) {
					if fa, ok := v.(*ssa.FieldAddr); ok {
						switch fieldObj(fa).Name() {
						case "Up", "Down", "Latency":
							return fieldObj(fa).Name()
						}
					}
				}
				return ""
			}
			var first *ssa.BinOp
			for _, in := range instrs(sh) {
				b, ok := in.(*ssa.BinOp)
				if !ok || fieldOfCmp(b) == "" {
					continue
				}
				if k, isK := constInt(b.Y); !isK || k != 0 || (b.Op != token.LSS && b.Op != token.LEQ && b.Op != token.GEQ && b.Op != token.GTR) {
					continue
				}
				if _, isIf := b.Block().Instrs[len(b.Block().Instrs)-1].(*ssa.If); !isIf {
					continue
				}
				if first == nil || b.Block().Dominates(first.Block()) {
					first = b
				}
			}
			okNeg := first != nil
			if first != nil {
				for mask := 0; mask < 8; mask++ {
					val := map[string]int64{"Up": 5, "Down": 5, "Latency": 5}
					names := []string{"Up", "Down", "Latency"}
					for k, n := range names {
						if mask&(1<<k) != 0 {
							val[n] = -1
						}
					}
					out, okD := decide(first.Block(), func(v ssa.Value) (bool, bool) {
						b, isB := v.(*ssa.BinOp)
						if !isB {
							return false, false
						}
						f := fieldOfCmp(b)
						k, isK := constInt(b.Y)
						if f == "" || !isK {
							return false, false
						}
						return cmpHolds(b.Op, val[f], k), true
					})
					if !okD {
						okNeg = false
						continue
					}
					rejected := false
					for _, in := range out.Instrs {
						if _, y := isCall(in, "net/http.Error"); y {
							rejected = true
						}
					}
					if rejected != (mask != 0) {
						okNeg = false
					}
				}
			}
			r.Decide("path", "(*M/trafficshape.Handler).ServeHTTP: defaults are refused when any of bandwidth up, bandwidth down or latency is negative", okNeg, "truth table over the three sign tests: 400 unless all are non-negative", "a negative default passes when the others are fine (the three tests are combined with && instead of ||): the configuration is accepted and installs a negative capacity or latency", sh.Pos())
		}
		// an accepted configuration takes effect completely: each part of it reaches the
		// listener (a part that is not applied leaves the previous value in force)
		{
			fromField := func(v ssa.Value, names ...string) bool {
				return anyIn(w.backSlice(v, flowOpt{BinOps: true}), func(x ssa.Value) bool {
					fa, y := x.(*ssa.FieldAddr)
					if !y {
						return false
					}
					for _, n := range names {
						if fieldObj(fa).Name() == n {
							return true
						}
					}
					return false
				})
			}
			recvField := func(c ssa.CallInstruction) string {
				if ld, ok := c.Common().Args[0].(*ssa.UnOp); ok {
					if fa, isFa := ld.X.(*ssa.FieldAddr); isFa {
						return fieldObj(fa).Name()
					}
				}
				return ""
			}
			have := map[string]bool{}
			for _, c := range calls(sh) {
				switch calleeName(c) {
				case "(*M/trafficshape.Bucket).SetCapacity":
					if recvField(c) == "ReadBucket" && fromField(c.Common().Args[1], "Down") {
						have["read bandwidth"] = true
					}
					if recvField(c) == "WriteBucket" && fromField(c.Common().Args[1], "Up") {
						have["write bandwidth"] = true
					}
				case "(*M/trafficshape.Listener).SetLatency":
					if fromField(c.Common().Args[1], "Latency") {
						have["latency"] = true
					}
				case "(*M/trafficshape.Listener).SetDefaults":
					have["defaults"] = true
				}
			}
			for _, in := range instrs(sh) {
				switch x := in.(type) {
				case *ssa.Store:
					if fa, ok := x.Addr.(*ssa.FieldAddr); ok && fieldObj(fa).Name() == "M" {
						if _, isMk := x.Val.(*ssa.MakeMap); isMk {
							have["shape table emptied"] = true
						}
					}
				case *ssa.MapUpdate:
					if strings.Contains(x.Map.Type().String(), "urlShape") && fromField(x.Key, "URLRegex") {
						have["shapes installed"] = true
					}
				}
			}
			// the table's time stamp is renewed inside the locked region that replaces it (connections
			// accepted before the change compare their own time with it)
			for _, in := range instrs(sh) {
				st, isSt := in.(*ssa.Store)
				if !isSt {
					continue
				}
				fa, isFa := st.Addr.(*ssa.FieldAddr)
				if !isFa || fieldObj(fa).Name() != "M" {
					continue
				}
				isStamp := func(i ssa.Instruction) bool {
					s2, ok := i.(*ssa.Store)
					if !ok {
						return false
					}
					f2, ok2 := s2.Addr.(*ssa.FieldAddr)
					return ok2 && fieldObj(f2).Name() == "LastModifiedTime" && isCallValue(s2.Val, "time.Now")
				}
				isLock := func(i ssa.Instruction) bool { _, y := isCall(i, "(*sync.RWMutex).Lock"); return y }
				isUnlock := func(i ssa.Instruction) bool { _, y := isCall(i, "(*sync.RWMutex).Unlock"); return y }
				// some stamp lies between the Lock before the store and the Unlock after it on every path
				before := g.PathTo([]ssa.Instruction{g.Entry()}, true, func(i ssa.Instruction) bool { return isStamp(i) }, func(i ssa.Instruction) bool { return i == ssa.Instruction(st) }) == nil &&
					g.PathTo([]ssa.Instruction{g.Entry()}, true, isLock, isStamp) == nil
				after := g.PathTo([]ssa.Instruction{st}, false, isStamp, isUnlock) == nil
				have["time stamp"] = before || after
			}
			// ... and the stamp is the time of the swap: the clock is read inside the locked region (a
			// time taken when the request arrived predates connections accepted while its body was
			// being read, which then pass for "accepted under the new table")
			{
				isLock := func(i ssa.Instruction) bool { _, y := isCall(i, "(*sync.RWMutex).Lock"); return y }
				nStamp, okClock := 0, true
				var at token.Pos = sh.Pos()
				for _, in := range instrs(sh) {
					s2, isSt := in.(*ssa.Store)
					if !isSt {
						continue
					}
					f2, isFa := s2.Addr.(*ssa.FieldAddr)
					if !isFa || fieldObj(f2).Name() != "LastModifiedTime" {
						continue
					}
					nStamp++
					for _, l := range resolveAll(s2.Val) {
						c, isC := l.(*ssa.Call)
						if !isC || calleeName(c) != "time.Now" || g.PathTo([]ssa.Instruction{g.Entry()}, true, isLock, func(i ssa.Instruction) bool { return i == ssa.Instruction(c) }) != nil {
							okClock = false
							at = s2.Pos()
						}
					}
				}
				r.Decide("path", "(*M/trafficshape.Handler).ServeHTTP: the time stamp is read from the clock inside the locked region", nStamp >= 1 && okClock, "every value stored to LastModifiedTime is a time.Now() called after Shapes.Lock()", "the table is stamped with a time taken before the lock (on arrival of the request, at parse time): a connection accepted between that moment and the swap compares as newer than the table and is shaped by a configuration installed after it was accepted", at)
			}
			for _, part := range []string{"read bandwidth", "write bandwidth", "latency", "defaults", "shape table emptied", "shapes installed", "time stamp"} {
				r.Decide("table", "(*M/trafficshape.Handler).ServeHTTP: an accepted configuration applies its "+part, have[part], "the update is made from the received value", "an accepted configuration does not apply its "+part+": the previous value stays in force (the old shapes keep matching, the old bandwidth or latency keeps shaping) although the client was told 200", sh.Pos())
			}
		}
		// a rejection (http.Error) is never followed by a state update
		okRej := true
		nrej := 0
		for _, c := range plainCalls(sh, "net/http.Error") {
			nrej++
			if g.PathTo([]ssa.Instruction{c}, false, nil, func(i ssa.Instruction) bool {
				for _, m := range muts {
					if m == i {
						return true
					}
				}
				return false
			}) != nil {
				okRej = false
			}
		}
		r.Decide("path", "(*M/trafficshape.Handler).ServeHTTP: a rejected configuration changes nothing", okRej && nrej >= 5, fmt.Sprintf("%d rejections, none followed by a state update", nrej), "after answering 400 the handler still updates listener state (or a validation exit is missing)", sh.Pos())
		// under the write lock, as a whole
		st := lockStates(sh, nil)
		okLock := true
		for _, m := range muts {
			held := false
			for k := range st[m] {
				if strings.HasPrefix(k, "W:") && strings.Contains(k, ".Shapes") {
					held = true
				}
			}
			if !held {
				okLock = false
			}
		}
		r.Decide("lockset", "(*M/trafficshape.Handler).ServeHTTP: the swap happens under the Shapes write lock", okLock, "every update holds h.l.Shapes", "listener state is updated outside the Shapes write lock: a connection can observe a half-applied configuration", sh.Pos())
		okWhole := true
		for _, m := range muts {
			if inLoop(m.Block()) {
				continue // one update per configured shape: none when there are no shapes
			}
			if m != muts[0] && g.PathTo([]ssa.Instruction{muts[0]}, true, func(i ssa.Instruction) bool { return i == m }, isExit) != nil {
				okWhole = false
			}
		}
		r.Decide("path", "(*M/trafficshape.Handler).ServeHTTP: an accepted configuration is applied as a whole", okWhole, "no exit between the first and the last update", "the handler can return after applying only part of a configuration", sh.Pos())
	})

	r.Guard("C18.R2", "every numeric field and every parsed value of a configuration is validated by a rejecting test", func() {
		// each sign test rejects on its own: with the tested field negative and every other
		// field fine, the chain of tests it belongs to ends in an error return (tests joined
		// with && instead of || let one negative value through)
		if ps := w.Fn("trafficshape", "parseShapes"); ps != nil && ps.Blocks != nil {
			fieldOf := func(v ssa.Value) *types.Var {
				ld, ok := unwrapConv(v).(*ssa.UnOp)
				if !ok || ld.Op != token.MUL {
					return nil
				}
				fa, ok := ld.X.(*ssa.FieldAddr)
				if !ok {
					return nil
				}
				return fieldObj(fa)
			}
			n := 0
			for _, in := range instrs(ps) {
				b, ok := in.(*ssa.BinOp)
				if !ok || (b.Op != token.LSS && b.Op != token.LEQ) {
					continue
				}
				k, isK := constInt(b.Y)
				fo := fieldOf(b.X)
				if !isK || k != 0 || fo == nil {
					continue
				}
				if _, isIf := b.Block().Instrs[len(b.Block().Instrs)-1].(*ssa.If); !isIf {
					continue
				}
				endsInError := func(out *ssa.BasicBlock) bool {
					vals, _, okp := returnValuesFrom(out, ps.Signature.Results().Len()-1)
					if !okp || len(vals) == 0 {
						return false
					}
					for _, l := range vals {
						if !isFreshErr(l) {
							return false
						}
					}
					return true
				}
				// is this a validating test at all? with every field of the chain negative it must end in
				// an error (a test like `if MaxBandwidth <= 0 { use the default }` is not one)
				if out0, ok0 := decide(b.Block(), func(v ssa.Value) (bool, bool) {
					c, isB := v.(*ssa.BinOp)
					if !isB {
						return false, false
					}
					ck, isCK := constInt(c.Y)
					if fieldOf(c.X) == nil || !isCK {
						return false, false
					}
					return cmpHolds(c.Op, -1, ck), true
				}); !ok0 || out0 == nil || !endsInError(out0) {
					continue
				}
				n++
				out, okD := decide(b.Block(), func(v ssa.Value) (bool, bool) {
					c, isB := v.(*ssa.BinOp)
					if !isB {
						return false, false
					}
					cf := fieldOf(c.X)
					ck, isCK := constInt(c.Y)
					if cf == nil || !isCK {
						return false, false
					}
					val := int64(5)
					if cf == fo {
						val = -1
					}
					return cmpHolds(c.Op, val, ck), true
				})
				rejects := false
				if okD && out != nil {
					// every feasible way on from the outcome returns an error (directly, or through
					// the result variable of an inlined helper)
					vals, _, okp := returnValuesFrom(out, ps.Signature.Results().Len()-1)
					rejects = okp && len(vals) > 0
					for _, l := range vals {
						if !isFreshErr(l) {
							rejects = false
						}
					}
				}
				r.Decide("path", fmt.Sprintf("M/trafficshape.parseShapes: a negative %s.%s rejects the configuration on its own (#%d)", namedOf(b.X.(*ssa.UnOp).X.(*ssa.FieldAddr).X.Type()), fo.Name(), n), rejects, "with this field at -1 and the other fields of the chain at 5 the tests end in an error return", "a negative value in this field is accepted when the fields tested with it are fine (the sign tests are joined with && instead of ||)", b.Pos())
			}
			// zero is a legal byte offset and a legal duration (a close action at byte 0 cuts
			// the response right after its head); only a bandwidth must be positive
			zeroOK := map[string]bool{"Byte": true, "Duration": true, "Bandwidth": false}
			for _, in := range instrs(ps) {
				b, ok := in.(*ssa.BinOp)
				if !ok {
					continue
				}
				switch b.Op {
				case token.LSS, token.LEQ, token.GTR, token.GEQ:
				default:
					continue
				}
				k, isK := constInt(b.Y)
				fo := fieldOf(b.X)
				if !isK || fo == nil {
					continue
				}
				want, listed := zeroOK[fo.Name()]
				if !listed {
					continue
				}
				if _, isIf := b.Block().Instrs[len(b.Block().Instrs)-1].(*ssa.If); !isIf {
					continue
				}
				// the test is a rejecting one when it holds for -1
				if !cmpHolds(b.Op, -1, k) {
					continue
				}
				rejectsZero := cmpHolds(b.Op, 0, k)
				rejectsOne := cmpHolds(b.Op, 1, k)
				r.Decide("table", fmt.Sprintf("M/trafficshape.parseShapes: the sign test of %s.%s draws the line at zero on the right side", namedOf(b.X.(*ssa.UnOp).X.(*ssa.FieldAddr).X.Type()), fo.Name()), rejectsZero == !want && !rejectsOne, map[bool]string{true: "0 is accepted, negative values are not", false: "0 and negative values are refused, 1 is accepted"}[want], "the sign test refuses a legal value (zero where zero is allowed, or one) or lets zero through where it is not allowed: a valid configuration is answered 400, or a throttle of bandwidth 0 stalls the response for ever", b.Pos())
			}
			if n < 4 {
				r.Undecided("M/trafficshape.parseShapes: sign tests", fmt.Sprintf("UNRESOLVED: %d found, want at least 4", n))
			}
		}
		// the lists a shaped connection binary-searches are the lists the configuration
		// step sorted: for every Shape field that flows into a sort.Search, parseShapes
		// sorts that very field (not a copy of it)
		searched := map[string]token.Pos{}
		for _, f := range w.Funcs("trafficshape") {
			for _, c := range plainCalls(f, "sort.Search") {
				n := c.Call.Args[0]
				if lc, isC := n.(*ssa.Call); isC {
					if bi, isB := lc.Call.Value.(*ssa.Builtin); isB && bi.Name() == "len" {
						n = lc.Call.Args[0]
					}
				}
				for v := range w.backSlice(n, flowOpt{}) {
					if fa, ok := v.(*ssa.FieldAddr); ok && strings.HasSuffix(fa.X.Type().String(), "trafficshape.Shape") {
						if _, isSl := fieldObj(fa).Type().Underlying().(*types.Slice); isSl {
							searched[fieldObj(fa).Name()] = c.Pos()
						}
					}
				}
			}
		}
		if len(searched) < 2 {
			r.Undecided("binary-searched Shape fields", fmt.Sprintf("UNRESOLVED: %d found, Throttles and Actions confirmed on the pinned tree", len(searched)))
		}
		for _, name := range keys(func() map[string]bool {
			m := map[string]bool{}
			for k := range searched {
				m[k] = true
			}
			return m
		}()) {
			sortedInPlace := false
			for _, c := range plainCalls(ps, "sort.SliceStable", "sort.Slice", "sort.Sort", "sort.Stable") {
				arg := c.Call.Args[0]
				if mi, isMI := arg.(*ssa.MakeInterface); isMI {
					arg = mi.X
				}
				if ld, isLd := arg.(*ssa.UnOp); isLd && ld.Op == token.MUL {
					if fa, isFa := ld.X.(*ssa.FieldAddr); isFa && fieldObj(fa).Name() == name {
						sortedInPlace = true
					}
				}
			}
			r.Decide("flow", "M/trafficshape.parseShapes: Shape."+name+" is sorted where it is stored", sortedInPlace, "sort applied to the field itself", "Shape."+name+" is binary-searched by connections but parseShapes no longer sorts the field itself (a sorted copy is used for validation only): with a configuration listed out of byte order the search misses entries and a throttle / action is not applied", searched[name])
		}

		fns := []*ssa.Function{sh, ps}
		fns = append(fns, ps.AnonFuncs...)
		rejectsFrom := func(f *ssa.Function, b *ssa.BasicBlock) bool {
			g := G(f)
			return g.PathTo(blockStart(b), true, nil, func(i ssa.Instruction) bool {
				if c, ok := isCall(i, "net/http.Error", "fmt.Errorf", "errors.New"); ok {
					_ = c
					return true
				}
				return false
			}) != nil
		}
		for _, tf := range []struct{ typ, field string }{
			{"Throttle", "Bandwidth"}, {"Halt", "Byte"}, {"Halt", "Duration"}, {"Halt", "Count"},
			{"CloseConnection", "Byte"}, {"CloseConnection", "Count"}, {"Shape", "MaxBandwidth"},
			{"Bandwidth", "Up"}, {"Bandwidth", "Down"}, {"Default", "Latency"},
		} {
			fo := structField(w.Named("trafficshape", tf.typ), tf.field)
			key := fmt.Sprintf("M/trafficshape.%s.%s is checked by a rejecting comparison", tf.typ, tf.field)
			if fo == nil {
				r.Undecided(key, "UNRESOLVED: field not found")
				continue
			}
			ok := false
			for _, f := range fns {
				for _, in := range instrs(f) {
					b, isB := in.(*ssa.BinOp)
					if !isB {
						continue
					}
					switch b.Op {
					case token.LSS, token.LEQ, token.GTR, token.GEQ, token.EQL, token.NEQ:
					default:
						continue
					}
					isField := func(v ssa.Value) bool {
						ld, y := v.(*ssa.UnOp)
						if !y {
							return false
						}
						fa, y := ld.X.(*ssa.FieldAddr)
						return y && fieldObj(fa) == fo
					}
					if !isField(b.X) && !isField(b.Y) {
						continue
					}
					if b.Op == token.EQL || b.Op == token.NEQ {
						// equality tests only count when they reject (count == 0), not when they default (== 0 -> default)
					}
					for _, e := range branchesOn(b) {
						if rejectsFrom(f, e.True) && !rejectsFromBoth(f, e, rejectsFrom) {
							ok = true
						}
					}
				}
			}
			r.Sites++
			r.Decide("table", key, ok, "a comparison of the field leads to a rejection on one edge only", "this field is accepted without validation: negative or zero values reach the shaping code", fo.Pos())
		}
		// parsed values: every fallible call in the validator rejects on error
		for _, f := range []*ssa.Function{ps} {
			for _, in := range instrs(f) {
				c, ok := in.(*ssa.Call)
				if !ok {
					continue
				}
				res := c.Call.Signature().Results()
				if res.Len() == 0 || !isErrorType(res.At(res.Len()-1).Type()) {
					continue
				}
				switch calleeName(c) {
				case "fmt.Errorf", "errors.New":
					continue
				}
				tests := errTests(c)
				ok2 := len(tests) > 0
				for _, t := range tests {
					errs, _, _ := returnValuesFrom(t.NonNil, 0)
					if len(errs) == 0 {
						ok2 = false
					}
					for _, v := range errs {
						if isNilConst(v) {
							ok2 = false
						}
					}
				}
				r.Sites++
				r.Decide("path", fmt.Sprintf("M/trafficshape.parseShapes: error of %s#%d rejects the configuration", nameOrDyn(c), ordinalAny(f, c)), ok2, "error edge returns an error", "a value that failed to parse (pattern, byte range, overlapping throttles) is accepted", c.Pos())
			}
		}
	})

	r.Guard("C18.R2", "overlapping throttles are rejected: a throttle that ends after the next one starts, and an open-ended throttle that is not the last", func() {
		gat := r.Use("trafficshape", "getActionsFromThrottles")
		if gat == nil {
			return
		}
		fromField := func(v ssa.Value, name string) bool {
			return anyIn(w.backSlice(v, flowOpt{}), func(x ssa.Value) bool {
				fa, y := x.(*ssa.FieldAddr)
				return y && fieldObj(fa).Name() == name
			})
		}
		rejects := func(b *ssa.BinOp) bool {
			for _, ce := range branchesOn(b) {
				errs, _, okp := returnValuesFrom(ce.True, 1)
				if !okp || len(errs) == 0 {
					continue
				}
				all := true
				for _, e := range errs {
					if isNilConst(e) {
						all = false
					}
				}
				if all {
					return true
				}
			}
			return false
		}
		cmpNext, openEnded := false, false
		for _, in := range instrs(gat) {
			b, ok := in.(*ssa.BinOp)
			if !ok {
				continue
			}
			switch b.Op {
			case token.GTR, token.LSS, token.GEQ, token.LEQ:
				if (fromField(b.X, "ByteEnd") && fromField(b.Y, "ByteStart") || fromField(b.Y, "ByteEnd") && fromField(b.X, "ByteStart")) && rejects(b) {
					cmpNext = true
				}
			case token.EQL:
				k, isK := constInt(b.Y)
				if isK && k == -1 && fromField(b.X, "ByteEnd") && rejects(b) {
					openEnded = true
				}
			}
		}
		r.Decide("path", "M/trafficshape.getActionsFromThrottles: a throttle reaching into the next one is rejected", cmpNext, "a comparison of ByteEnd with the next ByteStart whose true edge returns an error", "no comparison of a throttle's end with its successor's start leads to the rejection: overlapping throttles are accepted", gat.Pos())
		r.Decide("path", "M/trafficshape.getActionsFromThrottles: an open-ended throttle before the last one is rejected", openEnded, "ByteEnd == -1 on a non-last throttle returns an error", "an open-ended throttle (end -1) that sorts before another throttle is accepted: it overlaps everything after it, and the configuration replaces the active shaping instead of being refused", gat.Pos())
	})

	r.Guard("C18.R1", "a connection is shaped by the configuration in force when it was accepted: the listener's settings are read when the connection is wrapped, not while it is used", func() {
		// Latency() and Defaults() are consulted by GetTrafficShapedConn (and the
		// configuration handler) only: nothing reachable from a connection's Read / Write /
		// ReadFrom / WriteTo asks the listener again
		ct := w.Named("trafficshape", "Conn")
		if ct == nil {
			r.Undecided("M/trafficshape.Conn", "UNRESOLVED")
			return
		}
		getters := map[string]bool{"(*M/trafficshape.Listener).Latency": true, "(*M/trafficshape.Listener).Defaults": true}
		n := 0
		for _, mn := range []string{"Read", "Write", "ReadFrom", "WriteTo"} {
			m := w.method(ct, mn)
			if m == nil {
				continue
			}
			n++
			bad := ""
			var pos token.Pos = m.Pos()
			for _, g := range w.staticReach(m) {
				r.Touch(g)
				for _, c := range calls(g) {
					if getters[calleeName(c)] {
						bad = calleeName(c) + " in " + fnName(g)
						pos = c.Pos()
					}
				}
			}
			r.Decide("callgraph", "(*M/trafficshape.Conn)."+mn+" does not consult the listener's current settings", bad == "", "no call of Listener.Latency / Listener.Defaults in its static call closure", "the I/O path of a connection reads the listener's current settings ("+short(bad)+"): a connection accepted before a reconfiguration is shaped by the new values", pos)
		}
		if n == 0 {
			r.Undecided("M/trafficshape.Conn I/O methods", "UNRESOLVED")
		}
	})

	r.Guard("C18.R3", "in the shaped write path every manually taken lock is released before returning, sleeping, or calling back into code that locks", func() {
		may := lockStatesMay(wr)
		n := 0
		for _, in := range instrs(wr) {
			danger := ""
			switch x := in.(type) {
			case *ssa.Return:
				danger = "return"
			case *ssa.Call:
				switch calleeName(x) {
				case "time.Sleep":
					danger = "time.Sleep"
				case "(*M/trafficshape.Conn).GetNextActionFromIndex", "(*M/trafficshape.Conn).WriteDefaultBuckets", "(*M/trafficshape.Bucket).SetCapacity":
					danger = calleeName(x)
				}
			}
			if danger == "" {
				continue
			}
			var held []string
			for k := range may[in] {
				held = append(held, k)
			}
			n++
			r.Sites++
			key := fmt.Sprintf("(*M/trafficshape.Conn).Write: no lock held at %s #%d", danger, n)
			r.Decide("lockset", key, len(held) == 0, "all locks released on every path", fmt.Sprintf("locks %v may still be held here: an unlock is missing on some branch (the next writer or reader of the shapes blocks forever)", held), in.Pos())
		}
		// and the action list is read under the shape's lock
		must := lockStates(wr, nil)
		okA := false
		for _, in := range instrs(wr) {
			c, ok := in.(*ssa.Call)
			if !ok || !c.Call.IsInvoke() || c.Call.Method.Name() != "decrementCount" {
				continue
			}
			for k := range must[in] {
				if strings.HasPrefix(k, "W:") && strings.Contains(k, ".Shapes.M[") {
					okA = true
				}
			}
		}
		r.Decide("lockset", "(*M/trafficshape.Conn).Write: an action's count is decremented under the shape's write lock", okA, "lock held", "action counts are updated without the shape's lock", wr.Pos())
		// every read of an action's count (through the Action interface) happens under the lock of its
		// shape: in the function itself, or - for a helper without locks of its own - in every caller
		shapeLocked := func(ls lockset) bool {
			for k := range ls {
				if strings.Contains(k, ".Shapes.M[") {
					return true
				}
			}
			return false
		}
		for _, f := range w.Funcs("trafficshape") {
			var sites []ssa.Instruction
			for _, in := range instrs(f) {
				if c, isC := in.(*ssa.Call); isC && c.Call.IsInvoke() && (c.Call.Method.Name() == "getCount" || c.Call.Method.Name() == "decrementCount") {
					sites = append(sites, in)
				}
			}
			if len(sites) == 0 || f.Parent() != nil {
				continue
			}
			st := lockStates(f, nil)
			for _, in := range sites {
				ok := shapeLocked(st[in])
				how := "under the shape's lock " + st[in].String()
				if !ok {
					callers := w.staticCallers(f)
					all := len(callers) > 0 && len(w.dynamicCallers(f)) == 0
					for _, c := range callers {
						if _, isGo := c.(*ssa.Go); isGo || !shapeLocked(lockStates(c.Parent(), nil)[c]) {
							all = false
						}
					}
					if all {
						ok, how = true, fmt.Sprintf("every caller holds the shape's lock (%d call sites)", len(callers))
					}
				}
				r.Sites++
				r.Decide("lockset", fmt.Sprintf("%s: %s under the shape's lock", fnName(f), site(f, in.(ssa.CallInstruction))), ok, how, "an action's remaining count is read without the lock of its shape while another connection sharing the shape decrements it: a data race, and a halt or close action can fire more or fewer times than configured", in.Pos())
			}
		}
	})

	r.Guard("C18.R4", "a read lock is never taken again by a callee while it is held", func() { noReentrantLockRule(r, "trafficshape") })

	r.Guard("C18.R5", "every response on a shaped connection starts from a fresh shaping context", func() {
		sessionConnIsServedConnRule(r)
		handle := r.Use("", "Proxy.handle")
		if handle == nil {
			return
		}
		g := G(handle)
		var ta *ssa.TypeAssert
		for _, in := range instrs(handle) {
			x, ok := in.(*ssa.TypeAssert)
			if !ok || !x.CommaOk || !strings.HasSuffix(x.AssertedType.String(), "trafficshape.Conn") {
				continue
			}
			// the one whose ok edge leads to a Context store
			for _, in2 := range instrs(handle) {
				if st, ok := in2.(*ssa.Store); ok {
					if fa, ok := st.Addr.(*ssa.FieldAddr); ok && fieldObj(fa).Name() == "Context" && fa.X == extractOf(x, 0) {
						ta = x
					}
				}
			}
		}
		if ta == nil {
			r.Fail("path", "(*M.Proxy).handle: shaping context reset per response", "no assignment of the connection's Context found", nil, handle.Pos())
			return
		}
		isFresh := func(i ssa.Instruction) bool {
			st, ok := i.(*ssa.Store)
			if !ok {
				return false
			}
			fa, ok := st.Addr.(*ssa.FieldAddr)
			if !ok || fieldObj(fa).Name() != "Context" || fa.X != extractOf(ta, 0) {
				return false
			}
			a, isAlloc := st.Val.(*ssa.Alloc)
			return isAlloc && len(litFieldStores(a)) == 0
		}
		ok := false
		if okv := extractOf(ta, 1); okv != nil {
			for _, e := range branchesOn(okv) {
				p := g.PathTo(blockStart(e.True), true, isFresh, func(i ssa.Instruction) bool {
					_, y := isCall(i, nResWrite, "regexp.MatchString")
					return y
				})
				ok = p == nil
			}
		}
		r.Paths++
		r.Decide("path", "(*M.Proxy).handle: shaping context reset per response", ok, "Context = &trafficshape.Context{} precedes the URL matching and the write on every path", "a response that matches no shape can be written with its predecessor's shaping context", ta.Pos())

		// GetRangeStart tells "not a range" (0) from "a range this proxy cannot position" (-1)
		if grs := r.Use("proxyutil", "GetRangeStart"); grs != nil {
			neg, zero, other := 0, 0, 0
			for _, ret := range returns(grs) {
				for _, l := range resolveAll(ret.Results[0]) {
					if k, isK := constInt(l); isK {
						switch k {
						case -1:
							neg++
						case 0:
							zero++
						default:
							other++
						}
					}
				}
			}
			// once the first position has been read, it is the answer: nothing that follows (a look at
			// the last position, a plausibility test) turns a valid single range into -1
			for _, c := range plainCalls(grs, "strconv.ParseInt", "strconv.Atoi", "strconv.ParseUint") {
				tests := errTests(c)
				if len(tests) == 0 {
					continue
				}
				val := resultOf(c, 0)
				okStart := true
				for _, e := range tests {
					if p := G(grs).PathTo(blockStart(e.Nil), true, nil, func(i ssa.Instruction) bool {
						ret, isR := i.(*ssa.Return)
						if !isR {
							return false
						}
						for _, l := range resolveAll(ret.Results[0]) {
							if unwrapConv(l) != val && l != val {
								return true
							}
						}
						return false
					}); p != nil {
						okStart = false
					}
				}
				r.Decide("path", "M/proxyutil.GetRangeStart: a first position that was read is returned", okStart, "every return after the successful parse returns the parsed number", "after the first position of the range was parsed the function can still answer something else (a comparison with the last position that rejects a one-byte range): the response is not shaped, and a close or halt configured at that byte does not fire", c.Pos())
				break
			}
			r.Decide("table", "M/proxyutil.GetRangeStart: -1 for multipart, unparseable and unmatched ranges, 0 only for a response that is not partial", neg >= 3 && zero == 1 && other == 0, fmt.Sprintf("%d returns of -1, %d of 0", neg, zero), "an arm that must report \"cannot position\" (-1) reports something else: the response is shaped as if it started at that byte", grs.Pos())
		}
		// the context of a matching response is what the shape says: taken for a valid single
		// range only, positioned at the range start, with the next action and the throttle
		// looked up at that byte, and the bucket set to the throttle's bandwidth when the
		// response starts inside a throttled range
		var lit *ssa.Alloc
		for _, a := range allocsOf(handle, M+"/trafficshape.Context") {
			if len(litFieldStores(a)["Shaping"]) > 0 {
				lit = a
			}
		}
		if lit == nil {
			r.Undecided("(*M.Proxy).handle: shaping context literal", "UNRESOLVED")
			return
		}
		fs := litFieldStores(lit)
		isRS := func(v ssa.Value) bool { return isCallValue(v, "M/proxyutil.GetRangeStart") }
		from := func(v ssa.Value, pred func(ssa.Value) bool) bool {
			return anyIn(w.backSlice(v, flowOpt{}), pred)
		}
		// guard
		rel, adm0, admNeg := false, false, false
		for _, ce := range ctrlEdges(lit.Block()) {
			if rl, a := constCmpAdmits(ce, isRS, -1); rl {
				rel = true
				admNeg = admNeg || a
			}
			if rl, a := constCmpAdmits(ce, isRS, 0); rl {
				adm0 = a
			}
		}
		r.Decide("path", "(*M.Proxy).handle: shaping applies to a valid single range only", rel && adm0 && !admNeg, "the context literal is dominated by a test of GetRangeStart that admits 0 and excludes -1", "the shaping context is also built when GetRangeStart reports -1 (an invalid or multi-part Range), or not for a range starting at byte 0: offsets are then counted from -1 and every action fires one byte off", lit.Pos())
		for _, f := range []string{"RangeStart", "ByteOffset"} {
			okF := len(fs[f]) == 1 && isRS(fs[f][0].Val)
			r.Decide("flow", "(*M.Proxy).handle: Context."+f+" is the response's range start", okF, "GetRangeStart(res)", "Context."+f+" is not the range start: close actions and throttles are positioned relative to the wrong byte", lit.Pos())
		}
		okHL := len(fs["HeaderLen"]) == 1 && from(fs["HeaderLen"][0].Val, func(v ssa.Value) bool { return isExtractOfCall(v, "net/http/httputil.DumpResponse") })
		if !okHL && len(fs["HeaderLen"]) == 1 {
			// int64(len(dump))
			if cv, isCv := fs["HeaderLen"][0].Val.(*ssa.Convert); isCv {
				if c, isC := cv.X.(*ssa.Call); isC {
					if b, isB := c.Call.Value.(*ssa.Builtin); isB && b.Name() == "len" {
						okHL = from(c.Call.Args[0], func(v ssa.Value) bool { return isExtractOfCall(v, "net/http/httputil.DumpResponse") })
					}
				}
			}
		}
		r.Decide("flow", "(*M.Proxy).handle: Context.HeaderLen is the length of the response head", okHL, "len(httputil.DumpResponse(res, false))", "the head length the byte counting skips is not the dumped head's: body offsets are counted from the wrong place", lit.Pos())
		for _, pr := range [][2]string{{"NextActionInfo", "(*M/trafficshape.Conn).GetNextActionFromByte"}, {"ThrottleContext", "(*M/trafficshape.Conn).GetCurrentThrottle"}} {
			okL := false
			for _, in := range instrs(handle) {
				st, isSt := in.(*ssa.Store)
				if !isSt {
					continue
				}
				fa, isFa := st.Addr.(*ssa.FieldAddr)
				if !isFa || fieldObj(fa).Name() != pr[0] || namedOf(fa.X.Type()) != "Context" {
					continue
				}
				if c, isC := st.Val.(*ssa.Call); isC && calleeName(c) == pr[1] && len(c.Call.Args) == 2 && isRS(c.Call.Args[1]) {
					okL = true
				}
			}
			r.Decide("flow", "(*M.Proxy).handle: Context."+pr[0]+" is looked up at the range start", okL, short(pr[1])+"(rangeStart)", "the "+pr[0]+" of a response is not looked up at its first byte: a response starting inside (or after) a throttle or action is shaped as if it started at byte 0", lit.Pos())
		}
		// the head whose length is measured is the head that is written: nothing that changes
		// the response head (Close, ContentLength, TransferEncoding, a header edit) happens between
		// the dump and the write
		for _, dc := range plainCalls(handle, "net/http/httputil.DumpResponse") {
			changesHead := func(i ssa.Instruction) bool {
				st, ok := i.(*ssa.Store)
				if !ok {
					return false
				}
				fa, ok := st.Addr.(*ssa.FieldAddr)
				if !ok || fa.X.Type().String() != "*net/http.Response" {
					return false
				}
				switch fieldObj(fa).Name() {
				case "Close", "ContentLength", "TransferEncoding", "Header", "StatusCode", "Status", "Proto", "ProtoMajor", "ProtoMinor":
					return true
				}
				return false
			}
			late := false
			for _, wc := range plainCalls(handle, nResWrite) {
				// a path from the dump to the write that passes a head change
				for _, in := range instrs(handle) {
					if changesHead(in) && g.PathTo([]ssa.Instruction{dc}, false, nil, func(i ssa.Instruction) bool { return i == in }) != nil && g.PathTo([]ssa.Instruction{in}, false, nil, func(i ssa.Instruction) bool { return i == ssa.Instruction(wc) }) != nil {
						late = true
					}
				}
			}
			r.Decide("path", "(*M.Proxy).handle: the response head is final when its length is measured", !late, "no store to the response's Close / ContentLength / TransferEncoding / Header between DumpResponse and Write", "the response head is changed after its length was measured for the shaping context (for instance Connection: close added at shutdown): the extra head octets are counted as body, and every action fires that many octets early", dc.Pos())
		}
		// SetCapacity(ThrottleContext.Bandwidth) on the ThrottleNow edge
		okTN := false
		for _, c := range calls(handle, "(*M/trafficshape.Bucket).SetCapacity") {
			bw := from(c.Common().Args[1], func(v ssa.Value) bool { fa, y := v.(*ssa.FieldAddr); return y && fieldObj(fa).Name() == "Bandwidth" })
			guarded := false
			for _, ce := range ctrlEdges(c.Block()) {
				if from(ce.If.Cond, func(v ssa.Value) bool { fa, y := v.(*ssa.FieldAddr); return y && fieldObj(fa).Name() == "ThrottleNow" }) && ce.Taken {
					guarded = true
				}
			}
			if bw && guarded {
				okTN = true
			}
		}
		r.Decide("path", "(*M.Proxy).handle: a response that starts inside a throttle is throttled from its first byte", okTN, "WriteBucket.SetCapacity(ThrottleContext.Bandwidth) on the ThrottleNow edge", "the bucket keeps its previous capacity when the response starts inside a throttled range: that throttle adds no delay", lit.Pos())
	})

	r.Guard("C18.R6", "a body that reaches the shaped connection through ReadFrom is shaped like one that is written", func() {
		// bufio.Writer hands everything after its first buffer to the underlying writer's ReadFrom:
		// while a shaping context is active, ReadFrom must go through Write (which counts bytes and
		// performs the actions), never straight to the connection
		rf := w.Fn("trafficshape", "Conn.ReadFrom")
		if rf == nil || rf.Blocks == nil {
			r.Undecided("M/trafficshape.Conn.ReadFrom", "UNRESOLVED")
			return
		}
		r.Touch(rf)
		g := G(rf)
		isRaw := func(i ssa.Instruction) bool {
			c, ok := i.(ssa.CallInstruction)
			if !ok {
				return false
			}
			switch calleeName(c) {
			case "(*M/trafficshape.Bucket).FillThrottle", "(*M/trafficshape.Bucket).FillThrottleLocked", "(*M/trafficshape.Bucket).Fill":
				return true
			}
			return false
		}
		okShaped, nTests := true, 0
		for _, in := range instrs(rf) {
			iff, isIf := in.(*ssa.If)
			if !isIf {
				continue
			}
			cond := iff.Cond
			ld, isLd := cond.(*ssa.UnOp)
			if !isLd || ld.Op != token.MUL {
				continue
			}
			fa, isFa := ld.X.(*ssa.FieldAddr)
			if !isFa || fieldObj(fa).Name() != "Shaping" {
				continue
			}
			nTests++
			if p := g.PathTo(blockStart(iff.Block().Succs[0]), true, nil, isRaw); p != nil {
				okShaped = false
			}
			// the shaped branch writes through Write: an io.Copy whose destination is not the bare
			// connection field
			viaWrite := false
			for _, c := range calls(rf, "io.Copy", "io.CopyBuffer") {
				if blockDominates(iff.Block().Succs[0], c.Block()) {
					viaWrite = true
					for v := range w.backSlice(c.Common().Args[0], flowOpt{}) {
						if f2, isF2 := v.(*ssa.FieldAddr); isF2 && fieldObj(f2).Name() == "conn" {
							viaWrite = false
						}
					}
				}
			}
			for _, c := range calls(rf, "(*M/trafficshape.Conn).Write") {
				if blockDominates(iff.Block().Succs[0], c.Block()) {
					viaWrite = true
				}
			}
			if !viaWrite {
				okShaped = false
			}
		}
		// every way to the raw copy passes the Shaping test
		isTest := func(i ssa.Instruction) bool {
			ld, isLd := i.(*ssa.UnOp)
			if !isLd || ld.Op != token.MUL {
				return false
			}
			fa, isFa := ld.X.(*ssa.FieldAddr)
			if !isFa {
				return false
			}
			// (a nil Context is "not shaping": the nil edge of `c.Context != nil` is passed without
			// the Shaping load, which the true edge cannot be)
			return fieldObj(fa).Name() == "Shaping" || fieldObj(fa).Name() == "Context"
		}
		untested := g.PathTo([]ssa.Instruction{g.Entry()}, true, isTest, isRaw)
		r.Decide("path", "(*M/trafficshape.Conn).ReadFrom sends a response that is being shaped through Write", nTests >= 1 && okShaped && untested == nil, "the copy past the buckets is reached only when Context.Shaping is false; otherwise the data goes through Write", "ReadFrom copies to the connection under the default read bucket whatever the shaping context says: everything after the first buffer of a response body (bufio.Writer delegates to ReadFrom) is neither throttled nor counted, and a close or halt configured beyond that offset never fires", rf.Pos())
	})

	r.Guard("C18.R6", "a close action stops the write: the error returned is ErrForceClose and nothing more is written", func() {
		g := G(wr)
		ok := false
		var pos token.Pos = wr.Pos()
		for _, in := range instrs(wr) {
			ta, isTA := in.(*ssa.TypeAssert)
			if !isTA || !strings.HasSuffix(ta.AssertedType.String(), "trafficshape.CloseConnection") {
				continue
			}
			pos = ta.Pos()
			okv := extractOf(ta, 1)
			if okv == nil {
				continue
			}
			for _, e := range branchesOn(okv) {
				vals, _, _ := returnValuesFrom(e.True, 1)
				all := len(vals) > 0
				for _, v := range vals {
					if !strings.Contains(errClass(v), "ErrForceClose") {
						all = false
					}
				}
				noWrite := g.PathTo(blockStart(e.True), true, nil, func(i ssa.Instruction) bool {
					c, y := i.(*ssa.Call)
					return y && c.Call.IsInvoke() && c.Call.Method.Name() == "Write"
				}) == nil
				ok = all && noWrite
			}
		}
		r.Paths++
		r.Decide("path", "(*M/trafficshape.Conn).Write: the close action returns ErrForceClose without writing further", ok, "CloseConnection arm returns *ErrForceClose", "after a close action more bytes are written or the error is not ErrForceClose (the proxy would keep the connection)", pos)
	})

	r.Guard("C18.R8", "the shaped write loop never writes a byte twice: the buffer is advanced past what was written before it is used again", func() {
		g := G(wr)
		var writes []*ssa.Call
		for _, c := range plainCalls(wr, "(*M/trafficshape.Bucket).FillThrottleLocked", "(*M/trafficshape.Bucket).FillThrottle") {
			if inLoop(c.Block()) {
				writes = append(writes, c)
			}
		}
		if len(writes) != 1 {
			r.Undecided("(*M/trafficshape.Conn).Write: throttled write in the loop", fmt.Sprintf("UNRESOLVED: found %d", len(writes)))
			return
		}
		// b lives in a cell (it is captured by the throttle callbacks)
		isAdvance := func(i ssa.Instruction) bool {
			st, ok := i.(*ssa.Store)
			if !ok {
				return false
			}
			sl, ok := st.Val.(*ssa.Slice)
			if !ok || sl.Low == nil {
				return false
			}
			// b = b[<amount>:] on the cell that holds the parameter b
			cell, isCell := st.Addr.(*ssa.Alloc)
			if !isCell {
				return false
			}
			ld, isLd := sl.X.(*ssa.UnOp)
			return isLd && ld.X == ssa.Value(cell) && cell.Comment == wr.Params[1].Name()
		}
		isReuse := func(i ssa.Instruction) bool {
			if i == ssa.Instruction(writes[0]) {
				return true
			}
			_, y := isCall(i, "(*M/trafficshape.Conn).WriteDefaultBuckets")
			return y
		}
		p := g.PathTo([]ssa.Instruction{writes[0]}, false, isAdvance, isReuse)
		r.Paths++
		if p != nil {
			r.Fail("path", "(*M/trafficshape.Conn).Write: b is advanced past the written bytes before it is written from again", "a path from the throttled write reaches another write of b (the fallback to the default buckets, or the next iteration) without b = b[n:]: the bytes just written are sent a second time", witness(w, p), writes[0].Pos())
		} else {
			r.Hold("path", "(*M/trafficshape.Conn).Write: b is advanced past the written bytes before it is written from again", "b = b[max:] lies on every path from the write to the next use of b", writes[0].Pos())
		}
	})

	r.Guard("C18.R8", "the amount the buffer is advanced by is the amount handed to the connection", func() {
		// amountKey names the quantity a slice bound stands for: the variable cell when the bound is a
		// load of a (possibly captured) local variable, else the SSA value itself.
		amountKey := func(v ssa.Value) ssa.Value {
			if v == nil {
				return nil
			}
			if ld, ok := v.(*ssa.UnOp); ok && ld.Op == token.MUL {
				if a, isA := resolveFree(ld.X).(*ssa.Alloc); isA {
					return a
				}
			}
			return v
		}
		var closure func(f *ssa.Function, acc *[]*ssa.Function)
		closure = func(f *ssa.Function, acc *[]*ssa.Function) {
			*acc = append(*acc, f)
			for _, a := range f.AnonFuncs {
				closure(a, acc)
			}
		}
		for _, name := range []string{"Conn.Write", "Conn.WriteDefaultBuckets"} {
			fn := r.Use("trafficshape", name)
			if fn == nil {
				continue
			}
			var fs []*ssa.Function
			closure(fn, &fs)
			bname := fn.Params[1].Name()
			isB := func(v ssa.Value) bool {
				// the parameter b, its cell, or a load of its cell (possibly captured)
				if ld, ok := v.(*ssa.UnOp); ok && ld.Op == token.MUL {
					if a, isA := resolveFree(ld.X).(*ssa.Alloc); isA {
						return a.Comment == bname
					}
				}
				return isParamVal(v, fn.Params[1])
			}
			type amt struct {
				key ssa.Value
				pos token.Pos
				d   string
			}
			var written, advanced []amt
			for _, f := range fs {
				for _, in := range instrs(f) {
					switch x := in.(type) {
					case *ssa.Call:
						cc := x.Common()
						if cc.IsInvoke() && cc.Method.Name() == "Write" && len(cc.Args) == 1 {
							if ld, ok := cc.Value.(*ssa.UnOp); ok {
								if fa, isFa := ld.X.(*ssa.FieldAddr); isFa && fieldObj(fa).Name() == "conn" {
									if sl, isSl := cc.Args[0].(*ssa.Slice); isSl && isB(sl.X) && sl.High != nil {
										written = append(written, amt{amountKey(sl.High), x.Pos(), fnName(f)})
									}
								}
							}
						}
					case *ssa.Store:
						if a, isA := resolveFree(x.Addr).(*ssa.Alloc); isA && a.Comment == bname {
							if sl, isSl := x.Val.(*ssa.Slice); isSl && isB(sl.X) && sl.Low != nil && sl.High == nil {
								advanced = append(advanced, amt{amountKey(sl.Low), x.Pos(), fnName(f)})
							}
						}
					}
				}
			}
			// the advance may reach b = b[n:] through the result of an (inlined) helper: a merge of
			// the amount written, 0 (nothing to write) and the count a failed write reported
			sameAmount := func(adv, wr ssa.Value) bool {
				if adv == wr {
					return true
				}
				var leaves []ssa.Value
				if a, isA := adv.(*ssa.Alloc); isA {
					for _, st := range storesTo(a) {
						leaves = append(leaves, resolveAll(st.Val)...)
					}
				} else {
					leaves = resolveAll(adv)
				}
				if len(leaves) == 0 {
					return false
				}
				matched := false
				for _, l := range leaves {
					switch {
					case l == wr || amountKey(l) == wr:
						matched = true
					case func() bool { k, isK := constInt(l); return isK && k == 0 }():
					case func() bool {
						ex, isEx := unwrapConv(l).(*ssa.Extract)
						if !isEx || ex.Index != 0 {
							return false
						}
						c, isC := ex.Tuple.(*ssa.Call)
						return isC && c.Call.IsInvoke() && c.Call.Method.Name() == "Write"
					}():
					default:
						return false
					}
				}
				return matched
			}
			if len(written) == 0 || len(advanced) == 0 {
				r.Undecided(fmt.Sprintf("(*M/trafficshape.%s): connection writes and buffer advances", name), fmt.Sprintf("UNRESOLVED: found %d conn.Write(b[:n]) and %d b = b[n:]", len(written), len(advanced)))
				continue
			}
			for i, wv := range written {
				ok := false
				for _, av := range advanced {
					if sameAmount(av.key, wv.key) {
						ok = true
					}
				}
				if !ok {
					// b advanced by the reported count instead
					for _, av := range advanced {
						if anyIn(w.backSlice(av.key, flowOpt{}), func(v ssa.Value) bool {
							return isExtractOfCall(v, "(*M/trafficshape.Bucket).FillThrottleLocked") || isExtractOfCall(v, "(*M/trafficshape.Bucket).FillThrottle")
						}) {
							ok = true
						}
					}
				}
				r.Decide("flow", fmt.Sprintf("(*M/trafficshape.%s): conn.Write(b[:n]) #%d: b is advanced by the same n", name, i+1), ok, "the bound of the written slice and the bound of b = b[n:] are the same variable", "the number of bytes handed to the connection (in "+wv.d+") and the number b is advanced by are different quantities: when they differ, bytes are skipped without being sent or are sent twice", wv.pos)
			}
			for i, av := range advanced {
				ok := false
				for _, wv := range written {
					if sameAmount(av.key, wv.key) {
						ok = true
					}
				}
				// advancing by the count the write reported is the other sound form
				if !ok {
					ok = anyIn(w.backSlice(av.key, flowOpt{}), func(v ssa.Value) bool {
						return isExtractOfCall(v, "(*M/trafficshape.Bucket).FillThrottleLocked") || isExtractOfCall(v, "(*M/trafficshape.Bucket).FillThrottle")
					})
				}
				r.Decide("flow", fmt.Sprintf("(*M/trafficshape.%s): b = b[n:] #%d: n is the amount of a connection write", name, i+1), ok, "the same variable bounds a conn.Write(b[:n])", "b is advanced by a quantity that no connection write was bounded by: bytes are skipped without being sent", av.pos)
			}
		}
	})

	r.Guard("C18.R5", "outside its throttles a shape runs at its maximum bandwidth, or at the default when none is configured; an exhausted action stays exhausted", func() {
		ps := w.Fn("trafficshape", "parseShapes")
		if ps == nil || ps.Blocks == nil {
			r.Undecided("M/trafficshape.parseShapes", "UNRESOLVED")
			return
		}
		r.Touch(ps)
		// the bandwidth handed to getActionsFromThrottles, evaluated for MaxBandwidth 0, 1, 5
		def := int64(10) // DefaultBitrate is taken as 80 below
		n := 0
		for _, c := range plainCalls(ps, "M/trafficshape.getActionsFromThrottles") {
			n++
			ok, detail := true, ""
			for _, mb := range []int64{0, 1, 5} {
				ev := &miniEval{leaf: func(v ssa.Value) (int64, bool) {
					if ld, isLd := v.(*ssa.UnOp); isLd && ld.Op == token.MUL {
						if fa, isFa := ld.X.(*ssa.FieldAddr); isFa && fieldObj(fa).Name() == "MaxBandwidth" {
							return mb, true
						}
						if g, isG := ld.X.(*ssa.Global); isG && g.Name() == "DefaultBitrate" {
							return 80, true
						}
					}
					return 0, false
				}}
				got, okE := ev.Int(c.Call.Args[1])
				want := mb
				if mb == 0 {
					want = def
				}
				if !okE || got != want {
					ok = false
					detail = fmt.Sprintf("with max_bandwidth %d the bandwidth after a throttle is %d (evaluated: %v), want %d", mb, got, okE, want)
				}
			}
			r.Sites++
			r.Decide("table", "M/trafficshape.parseShapes: the bandwidth restored after a throttle", ok, "max_bandwidth {0,1,5}: the configured maximum, or DefaultBitrate/8 for 0", detail+": after a throttled range the bucket's capacity becomes 0 (every later write of the response blocks for ever) or another bandwidth than configured", c.Pos())
		}
		r.Decide("table", "M/trafficshape.parseShapes builds the throttle actions", n >= 1, fmt.Sprintf("%d call(s)", n), "getActionsFromThrottles is not called", ps.Pos())
		// decrementCount: only a positive count is decremented (0 stays 0: a decrement would make it
		// negative, which means 'every time')
		for _, tn := range []string{"Halt", "CloseConnection"} {
			dc := w.method(w.Named("trafficshape", tn), "decrementCount")
			if dc == nil || dc.Blocks == nil {
				r.Undecided("M/trafficshape."+tn+".decrementCount", "UNRESOLVED")
				continue
			}
			r.Touch(dc)
			isCount := func(v ssa.Value) bool {
				if ld, isLd := v.(*ssa.UnOp); isLd && ld.Op == token.MUL {
					if fa, isFa := ld.X.(*ssa.FieldAddr); isFa && fieldObj(fa).Name() == "Count" {
						return true
					}
				}
				return false
			}
			ok, nst := true, 0
			for _, in := range instrs(dc) {
				st, isSt := in.(*ssa.Store)
				if !isSt {
					continue
				}
				if fa, isFa := st.Addr.(*ssa.FieldAddr); !isFa || fieldObj(fa).Name() != "Count" {
					continue
				}
				nst++
				adm1, adm0 := true, true
				for _, ce := range ctrlEdges(st.Block()) {
					if rel, a := constCmpAdmits(ce, isCount, 1); rel && !a {
						adm1 = false
					}
					if rel, a := constCmpAdmits(ce, isCount, 0); rel && !a {
						adm0 = false
					}
				}
				if !adm1 || adm0 {
					ok = false
				}
			}
			r.Decide("guard", "(*M/trafficshape."+tn+").decrementCount decrements a positive count only", ok && nst >= 1, "the store is guarded by a test that admits 1 and excludes 0", "the count is decremented at 0 as well (it turns negative, which means the action fires on every later response) or not at 1 (the action never runs out)", dc.Pos())
		}
	})

	r.Guard("C18.R5", "the next action of a response that starts at an offset is the first action at or after that offset", func() {
		fn := w.Fn("trafficshape", "Conn.GetNextActionFromByte")
		if fn == nil || fn.Blocks == nil {
			r.Undecided("M/trafficshape.Conn.GetNextActionFromByte", "UNRESOLVED")
			return
		}
		r.Touch(fn)
		searches := plainCalls(fn, "sort.Search")
		if len(searches) != 1 {
			r.Undecided("M/trafficshape.Conn.GetNextActionFromByte: binary search", fmt.Sprintf("UNRESOLVED: %d sort.Search calls", len(searches)))
			return
		}
		// the predicate, evaluated for action offsets 4,5,6 against a start of 5: true for 5 and 6
		var pred *ssa.Function
		for v := range w.backSlice(searches[0].Call.Args[1], flowOpt{}) {
			if mc, isMc := v.(*ssa.MakeClosure); isMc {
				pred = mc.Fn.(*ssa.Function)
			}
			if f, isF := v.(*ssa.Function); isF {
				pred = f
			}
		}
		// a method value (`searchKey{...}.reached`): the bound wrapper stands for the method, whose
		// receiver fields hold what the literal captured
		if pred != nil && pred.Blocks != nil && pred.Synthetic != "" {
			for _, c := range calls(pred) {
				if sc := c.Common().StaticCallee(); sc != nil && sc.Blocks != nil && sc.Pkg == fn.Pkg {
					pred = sc
				}
			}
		}
		okPred := pred != nil
		if pred != nil {
			for _, ab := range []int64{4, 5, 6} {
				ev := &miniEval{leaf: func(v ssa.Value) (int64, bool) {
					if c, isC := v.(*ssa.Call); isC && c.Call.IsInvoke() && c.Call.Method.Name() == "getByte" {
						return ab, true
					}
					if ld, isLd := v.(*ssa.UnOp); isLd && ld.Op == token.MUL {
						if fv, isFv := ld.X.(*ssa.FreeVar); isFv && fv.Name() == fn.Params[1].Name() {
							return 5, true
						}
					}
					if fv, isFv := v.(*ssa.FreeVar); isFv && fv.Name() == fn.Params[1].Name() {
						return 5, true
					}
					// the offset kept in a field of the predicate's receiver, named like the parameter
					if fl, isFl := v.(*ssa.Field); isFl && fieldObjV(fl).Name() == fn.Params[1].Name() {
						return 5, true
					}
					if ld, isLd := v.(*ssa.UnOp); isLd && ld.Op == token.MUL {
						if fa, isFa := ld.X.(*ssa.FieldAddr); isFa && fieldObj(fa).Name() == fn.Params[1].Name() {
							return 5, true
						}
					}
					return 0, false
				}}
				for _, ret := range returns(pred) {
					got, okE := ev.Bool(ret.Results[0])
					if !okE || got != (ab >= 5) {
						okPred = false
					}
				}
			}
		}
		r.Decide("table", "M/trafficshape.Conn.GetNextActionFromByte: the search finds the first action at or after the offset", okPred, "predicate evaluated for offsets 4,5,6 against 5: true from 5 on", "the search predicate is not `offset of the action >= start`: an action placed exactly at the start of the range (or the one before it) is taken for the next one, and a close or halt configured there does not fire, or fires for the wrong byte", searches[0].Pos())
		// and the index found is the index used
		okInd := false
		for _, c := range plainCalls(fn, "M/trafficshape.nextActionFromIndex") {
			ev := &miniEval{leaf: func(v ssa.Value) (int64, bool) {
				if v == ssa.Value(searches[0]) {
					return 7, true
				}
				return 0, false
			}}
			if got, okE := ev.Int(c.Call.Args[1]); okE && got == 7 {
				okInd = true
			}
		}
		r.Decide("table", "M/trafficshape.Conn.GetNextActionFromByte: the look-up starts at the index the search found", okInd, "nextActionFromIndex(actions, ind) with ind the search result", "the index handed on is not the search result (it is adjusted on some path): of several actions at one offset only some run", fn.Pos())
		// after an action was performed the next one is the next in the list - the one at index+1 -
		// and not the first at a later byte: several actions may sit at one offset (a halt and a
		// close at the same byte), and a search from offset+1 skips the rest of them
		if wr := w.Fn("trafficshape", "Conn.Write"); wr != nil && wr.Blocks != nil {
			r.Touch(wr)
			nNext, okNext := 0, true
			var at token.Pos = wr.Pos()
			for _, in := range instrs(wr) {
				st, isSt := in.(*ssa.Store)
				if !isSt {
					continue
				}
				fa, isFa := st.Addr.(*ssa.FieldAddr)
				if !isFa || fieldObj(fa).Name() != "NextActionInfo" || namedOf(fa.X.Type()) != "Context" {
					continue
				}
				nNext++
				good := false
				if c, isC := st.Val.(*ssa.Call); isC && calleeName(c) == "(*M/trafficshape.Conn).GetNextActionFromIndex" && len(c.Call.Args) == 2 {
					if b, isB := c.Call.Args[1].(*ssa.BinOp); isB && b.Op == token.ADD {
						for _, pr := range [][2]ssa.Value{{b.X, b.Y}, {b.Y, b.X}} {
							k, isK := constInt(pr[1])
							fromIdx := anyIn(w.backSlice(pr[0], flowOpt{}), func(v ssa.Value) bool {
								f2, y := v.(*ssa.FieldAddr)
								return y && fieldObj(f2).Name() == "Index" && namedOf(f2.X.Type()) == "NextActionInfo"
							})
							if isK && k == 1 && fromIdx {
								good = true
							}
						}
					}
				}
				if !good {
					okNext = false
					at = st.Pos()
				}
			}
			r.Decide("flow", "(*M/trafficshape.Conn).Write: after an action the next action is the one at the following index", nNext >= 1 && okNext, "NextActionInfo = GetNextActionFromIndex(NextActionInfo.Index + 1)", "the action that follows is searched by byte offset (or from another index): a second action at the same offset as the one just performed - a close right after a halt - is skipped and never happens", at)
		}
	})

	r.Guard("C18.R1", "a connection looks its shape up only after checking that the shape table is the one it was accepted under", func() {
		// every look-up in the shape table by a connection is preceded by CheckExistenceAndValidity
		// (which compares the table's time stamp with the connection's): a configuration installed
		// later never shapes an earlier connection
		for _, mn := range []string{"Conn.GetCurrentThrottle", "Conn.GetNextActionFromByte", "Conn.GetNextActionFromIndex"} {
			f := w.Fn("trafficshape", mn)
			if f == nil || f.Blocks == nil {
				r.Undecided("M/trafficshape."+mn, "UNRESOLVED")
				continue
			}
			r.Touch(f)
			g := G(f)
			isCheck := func(i ssa.Instruction) bool {
				_, y := isCall(i, "(*M/trafficshape.Conn).CheckExistenceAndValidity")
				return y
			}
			isLook := func(i ssa.Instruction) bool {
				lk, ok := i.(*ssa.Lookup)
				if !ok {
					return false
				}
				_, isMap := lk.X.Type().Underlying().(*types.Map)
				return isMap && strings.Contains(lk.X.Type().String(), "trafficshape.")
			}
			p := g.PathTo([]ssa.Instruction{g.Entry()}, true, isCheck, isLook)
			r.Decide("path", "(*M/trafficshape."+mn+"): the shape table is looked into only after the validity check", p == nil, "CheckExistenceAndValidity lies on every path to a look-up in Shapes.M", "the connection reads its shape from the table without checking that the table is older than the connection: after a reconfiguration that names the same URL pattern, a connection accepted before it is shaped by the new configuration", f.Pos())
		}
		// a reconfiguration installs the shapes it parsed, untouched: the handler writes no field of a
		// Shape (carrying a bucket over from the previous table keeps the old bandwidth in force)
		nst := 0
		for _, in := range instrs(sh) {
			if st, isSt := in.(*ssa.Store); isSt {
				if fa, isFa := st.Addr.(*ssa.FieldAddr); isFa && namedOf(fa.X.Type()) == "Shape" {
					nst++
					r.Fail("flow", "(*M/trafficshape.Handler).ServeHTTP writes Shape."+fieldObj(fa).Name(), "the handler changes a field of a parsed shape before installing it (a bucket taken over from the shape it replaces): what the accepted configuration says about that shape does not take effect", nil, st.Pos())
				}
			}
		}
		if nst == 0 {
			r.Hold("flow", "(*M/trafficshape.Handler).ServeHTTP installs the parsed shapes as they are", "no store to a Shape field in the handler")
		}
	})

	r.Guard("C18.R5", "a throttle covers the bytes from its start up to, not including, its end", func() {
		fn := w.Fn("trafficshape", "Conn.GetCurrentThrottle")
		if fn == nil || fn.Blocks == nil {
			r.Undecided("M/trafficshape.Conn.GetCurrentThrottle", "UNRESOLVED")
			return
		}
		r.Touch(fn)
		// every comparison between a throttle's ByteEnd and the offset is evaluated on ByteEnd 4,5,6
		// against offset 5: it must hold exactly for 6 (the offset lies before the end)
		n := 0
		for _, f := range append([]*ssa.Function{fn}, fn.AnonFuncs...) {
			for _, in := range instrs(f) {
				b, isB := in.(*ssa.BinOp)
				if !isB {
					continue
				}
				switch b.Op {
				case token.LSS, token.LEQ, token.GTR, token.GEQ:
				default:
					continue
				}
				sawEnd, sawStart := false, false
				mk := func(end int64) *miniEval {
					return &miniEval{leaf: func(v ssa.Value) (int64, bool) {
						if ld, isLd := v.(*ssa.UnOp); isLd && ld.Op == token.MUL {
							if fa, isFa := ld.X.(*ssa.FieldAddr); isFa && fieldObj(fa).Name() == "ByteEnd" {
								sawEnd = true
								return end, true
							}
						}
						if isParamVal(v, fn.Params[1]) {
							sawStart = true
							return 5, true
						}
						return 0, false
					}}
				}
				ok, evald := true, true
				for _, end := range []int64{4, 5, 6} {
					ev := mk(end)
					x, okx := ev.Int(b.X)
					y, oky := ev.Int(b.Y)
					if !okx || !oky {
						evald = false
						break
					}
					if cmpHolds(b.Op, x, y) != (end > 5) {
						ok = false
					}
				}
				if !evald || !sawEnd || !sawStart {
					continue
				}
				n++
				r.Sites++
				r.Decide("table", fmt.Sprintf("M/trafficshape.Conn.GetCurrentThrottle: end test #%d holds exactly while the offset is before the end", n), ok, "evaluated on ByteEnd 4,5,6 against offset 5", "the comparison with a throttle's end counts the end offset itself as inside (or the last byte as outside): a response that starts exactly where a throttle ends is throttled with its bandwidth", b.Pos())
			}
		}
		r.Decide("table", "M/trafficshape.Conn.GetCurrentThrottle compares the offset with the throttle's end", n >= 1, fmt.Sprintf("%d end test(s)", n), "no comparison between ByteEnd and the offset: the look-up cannot tell whether the offset lies inside a throttle", fn.Pos())
	})

	r.Guard("C18.R8", "the shaped connection's bucket callbacks do the I/O they were given an allowance for", func() { shapedCallbacksDoIORule(r) })

	r.Guard("C18.R8", "every tick empties the bucket", func() { bucketDrainRule(r) })

	r.Guard("C18.R8", "a bucket hands its callback exactly the capacity that is left, whenever some is left, and accounts for what the callback used", func() {
		// evaluated on (fill, capacity) in {0,3,10,12} x {10}: the callback runs when fill < capacity
		// (otherwise a write waits for ever), never when fill > capacity (a negative allowance slices
		// out of range), with capacity - fill as its argument, and what it returns is added to the fill
		for _, mn := range []string{"FillThrottle", "FillThrottleLocked", "Fill"} {
			fn := w.Fn("trafficshape", "Bucket."+mn)
			if fn == nil || fn.Blocks == nil {
				r.Undecided("M/trafficshape.Bucket."+mn, "UNRESOLVED")
				continue
			}
			r.Touch(fn)
			atomicField := func(v ssa.Value) string {
				c, isC := v.(*ssa.Call)
				if !isC || calleeName(c) != "sync/atomic.LoadInt64" {
					return ""
				}
				if fa, isFa := c.Call.Args[0].(*ssa.FieldAddr); isFa {
					return fieldObj(fa).Name()
				}
				return ""
			}
			var cb *ssa.Call
			for _, c := range calls(fn) {
				if cc, isC := c.(*ssa.Call); isC && !cc.Call.IsInvoke() && isParamVal(cc.Call.Value, fn.Params[1]) {
					cb = cc
				}
			}
			var cmp *ssa.BinOp
			for _, in := range instrs(fn) {
				if b, isB := in.(*ssa.BinOp); isB && cmp == nil {
					fx, fy := atomicField(b.X), atomicField(b.Y)
					if (fx == "fill" && fy == "capacity") || (fx == "capacity" && fy == "fill") {
						cmp = b
					}
				}
			}
			if cb == nil || cmp == nil {
				r.Undecided("M/trafficshape.Bucket."+mn+": callback and fill/capacity comparison", "callback call or comparison not found")
				continue
			}
			okRun, okArg, detail := true, true, ""
			for _, fill := range []int64{0, 3, 10, 12} {
				const capv = int64(10)
				val := func(v ssa.Value) (int64, bool) {
					switch atomicField(v) {
					case "fill":
						return fill, true
					case "capacity":
						return capv, true
					}
					return 0, false
				}
				isClosedCall := func(v ssa.Value) bool { return isCallValue(v, "(*M/trafficshape.Bucket).closed") }
				out, okD := decideWith(cmp.Block(), func(v ssa.Value) (bool, bool) {
					if isClosedCall(v) {
						return false, true // an open bucket
					}
					b, isB := v.(*ssa.BinOp)
					if !isB {
						return false, false
					}
					ev := &miniEval{leaf: val}
					x, okx := ev.Int(b.X)
					y, oky := ev.Int(b.Y)
					if !okx || !oky {
						return false, false
					}
					return cmpHolds(b.Op, x, y), true
				}, func(i ssa.Instruction) bool { v, isV := i.(ssa.Value); return isV && isClosedCall(v) })
				if !okD || out == nil {
					okRun, detail = false, "the decision could not be evaluated"
					continue
				}
				runs := out == cb.Block()
				switch {
				case fill < capv && !runs:
					okRun, detail = false, fmt.Sprintf("with fill %d of %d the callback is not run: the write waits although capacity is left", fill, capv)
				case fill > capv && runs:
					okRun, detail = false, fmt.Sprintf("with fill %d of %d the callback is run with a negative allowance", fill, capv)
				}
				if runs && fill <= capv {
					ev := &miniEval{leaf: val}
					a, oka := ev.Int(cb.Call.Args[0])
					if !oka || a != capv-fill {
						okArg = false
						detail = fmt.Sprintf("with fill %d of %d the callback is given %d (evaluated: %v)", fill, capv, a, oka)
					}
				}
			}
			r.Sites++
			r.Decide("table", "(*M/trafficshape.Bucket)."+mn+": the callback runs exactly while capacity is left", okRun, "fill {0,3,10,12} of 10: runs when below, not when above", detail+": shaped bytes are never delivered, or the slice bound is negative", cmp.Pos())
			r.Decide("table", "(*M/trafficshape.Bucket)."+mn+": the callback's allowance is capacity - fill", okArg, "evaluated on fill {0,3,10} of 10", detail+": more than the configured bandwidth passes per interval (the throttle adds less than its delay), or less", cb.Pos())
			// a waiting call notices that the bucket was closed: every trip round the wait loop
			// passes the closed test (Conn.Close closes the buckets to release blocked writers)
			for _, l := range natLoops(fn) {
				g := G(fn)
				isClosed := func(i ssa.Instruction) bool { _, y := isCall(i, "(*M/trafficshape.Bucket).closed"); return y }
				head := l.Head.Instrs[0]
				round := false
				for _, b := range fn.Blocks {
					if !l.Blocks[b] {
						continue
					}
					for _, sc := range b.Succs {
						if sc == l.Head {
							// a path from the head to this back edge that avoids the closed test
							last := b.Instrs[len(b.Instrs)-1]
							if p := g.PathTo([]ssa.Instruction{head}, true, isClosed, func(i ssa.Instruction) bool { return i == last }); p != nil && !isClosed(head) {
								round = true
							}
						}
					}
				}
				r.Decide("path", "(*M/trafficshape.Bucket)."+mn+": the wait loop tests for a closed bucket on every round", !round, "b.closed() lies on every path round the loop", "the loop that waits for capacity can go round without looking at the closed flag: a write blocked on a full bucket is not released when the connection (and its buckets) are closed, and its goroutine spins for ever", l.Head.Instrs[0].Pos())
			}
			// the callback's count is added to the fill
			okAdd := false
			for _, c := range calls(fn, "sync/atomic.AddInt64") {
				if fa, isFa := c.Common().Args[0].(*ssa.FieldAddr); isFa && fieldObj(fa).Name() == "fill" {
					if ex, isEx := c.Common().Args[1].(*ssa.Extract); isEx && ex.Tuple == ssa.Value(cb) && ex.Index == 0 {
						okAdd = true
					}
				}
			}
			r.Decide("flow", "(*M/trafficshape.Bucket)."+mn+": what the callback used is added to the fill", okAdd, "atomic.AddInt64(&b.fill, n) with the callback's count", "the callback's count is not added to the fill: the bucket never fills and the throttle adds no delay", cb.Pos())
		}
	})

	r.Guard("C18.R7", "buckets created for a connection or a shape are closed when it goes away", func() {
		shapedCloseNeverWaitsRule(r)
		shapedCloseOwnBucketsRule(r)
		// the configured latency is slept once, before a connection's first read and first
		// write, on every path that leads to I/O
		if ct := w.Named("trafficshape", "Conn"); ct != nil {
			n := 0
			for _, mn := range []string{"Read", "ReadFrom", "WriteTo", "WriteDefaultBuckets", "Write"} {
				m := w.method(ct, mn)
				if m == nil || m.Blocks == nil {
					continue
				}
				gm := G(m)
				isLat := func(i ssa.Instruction) bool {
					c, y := isCall(i, "(*sync.Once).Do")
					if !y {
						return false
					}
					return anyIn(w.backSlice(c.Common().Args[1], flowOpt{}), func(v ssa.Value) bool {
						mc, isMC := v.(*ssa.MakeClosure)
						if !isMC {
							return false
						}
						fn, _ := mc.Fn.(*ssa.Function)
						return fn != nil && strings.Contains(fn.Name(), "sleepLatency")
					})
				}
				isIO := func(i ssa.Instruction) bool {
					c, y := i.(ssa.CallInstruction)
					if !y {
						return false
					}
					switch calleeName(c) {
					case "(*M/trafficshape.Bucket).FillThrottle", "(*M/trafficshape.Bucket).FillThrottleLocked", "(*M/trafficshape.Conn).WriteDefaultBuckets":
						return true
					}
					return c.Common().IsInvoke() && (c.Common().Method.Name() == "Write" || c.Common().Method.Name() == "Read")
				}
				hasIO := false
				for _, in := range instrs(m) {
					if isIO(in) {
						hasIO = true
					}
				}
				if !hasIO {
					continue
				}
				n++
				// Write delegates to WriteDefaultBuckets (which sleeps) on its unshaped path and sleeps itself on the shaped one
				p := gm.PathTo([]ssa.Instruction{gm.Entry()}, true, func(i ssa.Instruction) bool {
					if isLat(i) {
						return true
					}
					_, deleg := isCall(i, "(*M/trafficshape.Conn).WriteDefaultBuckets")
					return deleg && mn == "Write"
				}, func(i ssa.Instruction) bool {
					return isIO(i) && !(mn == "Write" && func() bool { _, d := isCall(i, "(*M/trafficshape.Conn).WriteDefaultBuckets"); return d }())
				})
				r.Decide("path", "(*M/trafficshape.Conn)."+mn+": the latency is slept before the first I/O", p == nil, "Once.Do(sleepLatency) lies on every path from the entry to the first throttled read / write", "a path reaches the connection's I/O without the configured latency having been slept: the latency adds no delay on that path", m.Pos())
			}
			if n < 4 {
				r.Undecided("M/trafficshape.Conn: I/O methods with latency", fmt.Sprintf("UNRESOLVED: %d found, want at least 4", n))
			}
			// the look-ups of the next action and the current throttle run for every non-empty
			// list, a list of one included
			for _, fname := range []string{"Conn.GetNextActionFromByte", "Conn.GetCurrentThrottle", "nextActionFromIndex"} {
				lf := w.Fn("trafficshape", fname)
				if lf == nil || lf.Blocks == nil {
					continue
				}
				r.Touch(lf)
				isLenV := func(v ssa.Value) bool {
					c, ok := unwrapConv(v).(*ssa.Call)
					if !ok {
						return false
					}
					b, ok := c.Call.Value.(*ssa.Builtin)
					return ok && b.Name() == "len"
				}
				// the block that does the work: the binary search, or the first element access
				var work *ssa.BasicBlock
				for _, in := range instrs(lf) {
					if _, y := isCall(in, "sort.Search"); y && work == nil {
						work = in.Block()
					}
				}
				if work == nil {
					for _, in := range instrs(lf) {
						if ia, y := in.(*ssa.IndexAddr); y && work == nil && inLoop(ia.Block()) {
							// the loop head's dominating guard
							work = ia.Block()
						}
					}
				}
				if work == nil {
					r.Undecided("M/trafficshape."+fname+": list look-up", "UNRESOLVED")
					continue
				}
				okOne := true
				n := 0
				for _, ce := range ctrlEdges(work) {
					for _, k := range []int64{1, 2} {
						if rel, adm := constCmpAdmits(ce, isLenV, k); rel {
							n++
							if !adm {
								okOne = false
							}
						}
					}
				}
				r.Decide("path", "M/trafficshape."+fname+": the look-up runs for a list of one or two entries", okOne, fmt.Sprintf("%d comparisons of the list length with a constant guard the look-up; all admit lengths 1 and 2", n), "the guard in front of the look-up excludes a list of exactly one (or two) entries: a shape with a single close action or a single throttle never acts", lf.Pos())
			}
			// a shape applies only to connections established after it was installed
			if cv := w.method(ct, "CheckExistenceAndValidity"); cv != nil && cv.Blocks != nil {
				okAnd := len(returns(cv)) > 0
				for _, ret := range returns(cv) {
					for _, present := range []bool{false, true} {
						for _, valid := range []bool{false, true} {
							ev := &miniEval{leaf: func(ssa.Value) (int64, bool) { return 0, false }, bleaf: func(v ssa.Value) (bool, bool) {
								if ex, isEx := v.(*ssa.Extract); isEx && ex.Index == 1 {
									if _, isLk := ex.Tuple.(*ssa.Lookup); isLk {
										return present, true
									}
								}
								if isCallValue(v, "(time.Time).Before") {
									return valid, true
								}
								return false, false
							}}
							got, ok := ev.Bool(ret.Results[0])
							if !ok || got != (present && valid) {
								okAnd = false
							}
						}
					}
				}
				r.Decide("flow", "(*M/trafficshape.Conn).CheckExistenceAndValidity: a shape applies when it exists and was installed before the connection was established", okAnd, "truth table: present && LastModifiedTime.Before(Established)", "the validity test is not the conjunction of the two: a configuration installed after a connection was accepted shapes that connection too", cv.Pos())
			}
		}
		// the listener's own two buckets (each a ticker and a goroutine) go with the listener
		if lc := r.W.Fn("trafficshape", "Listener.Close"); lc != nil && lc.Blocks != nil {
			r.Touch(lc)
			gl := G(lc)
			for _, fld := range []string{"ReadBucket", "WriteBucket"} {
				isClose := func(i ssa.Instruction) bool {
					c, y := isCall(i, "(*M/trafficshape.Bucket).Close")
					if !y {
						return false
					}
					ld, isLd := c.Common().Args[0].(*ssa.UnOp)
					if !isLd {
						return false
					}
					fa, isFa := ld.X.(*ssa.FieldAddr)
					return isFa && fieldObj(fa).Name() == fld
				}
				p := gl.PathTo([]ssa.Instruction{gl.Entry()}, true, isClose, isReturn)
				r.Decide("path", "(*M/trafficshape.Listener).Close closes its "+fld, p == nil, "Bucket.Close on every path", "closing the listener leaves the bucket's ticker goroutine running", lc.Pos())
			}
		}
		setterStoresRule(r, "trafficshape", "Listener", "SetDefaults", "defaults", "an accepted configuration's default bandwidth never takes effect")
		setterStoresRule(r, "trafficshape", "Listener", "SetLatency", "latency", "the configured latency never takes effect")
		// a failed Accept is reported, not turned into a nil connection
		errorsReturnedRule(r, r.W.Fn("trafficshape", "Listener.Accept"), false)
		errorsReturnedRule(r, r.W.Fn("trafficshape", "Conn.Read"), false)
		errorsReturnedRule(r, r.W.Fn("trafficshape", "Conn.ReadFrom"), false)
		gts := r.Use("trafficshape", "Listener.GetTrafficShapedConn")
		cl := r.Use("trafficshape", "Conn.Close")
		if gts == nil || cl == nil {
			return
		}
		// per-connection buckets live in LocalBuckets
		okStore := false
		for _, c := range plainCalls(gts, "M/trafficshape.NewBuckets") {
			if c.Referrers() != nil {
				for _, u := range *c.Referrers() {
					if mu, y := u.(*ssa.MapUpdate); y {
						for _, a := range allocsOf(gts, P("trafficshape")+".Conn") {
							for _, st := range litFieldStores(a)["LocalBuckets"] {
								if st.Val == mu.Map {
									okStore = true
								}
							}
						}
					}
				}
			}
		}
		r.Decide("flow", "(*M/trafficshape.Listener).GetTrafficShapedConn: per-connection buckets are kept in Conn.LocalBuckets", okStore, "NewBuckets results stored in the map handed to the Conn", "buckets created for a connection are not reachable from it (cannot be closed with it)", gts.Pos())
		// Conn.Close closes both buckets of every entry
		nclose := 0
		for _, c := range plainCalls(cl, "(*M/trafficshape.Bucket).Close") {
			if inLoop(c.Block()) && anyIn(w.backSlice(c.Call.Args[0], flowOpt{}), func(v ssa.Value) bool {
				n, isN := v.(*ssa.Next)
				if !isN {
					return false
				}
				rg, isR := n.Iter.(*ssa.Range)
				return isR && anyIn(w.backSlice(rg.X, flowOpt{}), func(x ssa.Value) bool { fa, y := x.(*ssa.FieldAddr); return y && fieldObj(fa).Name() == "LocalBuckets" })
			}) {
				nclose++
			}
		}
		okConn := nclose == 2 && len(calls(cl, "(net.Conn).Close")) == 1
		r.Decide("path", "(*M/trafficshape.Conn).Close: closes the read and write bucket of every per-connection entry and the connection", okConn, "two Bucket.Close calls in a loop over LocalBuckets, then conn.Close", "closing a shaped connection leaves its buckets (a ticker and a goroutine each) running", cl.Pos())
		// ... on every exit: no return of Close is reachable without walking the
		// buckets (e.g. an early return when closing the wrapped connection fails)
		var walk ssa.Instruction
		for _, in := range instrs(cl) {
			if rg, isR := in.(*ssa.Range); isR && anyIn(w.backSlice(rg.X, flowOpt{}), func(x ssa.Value) bool { fa, y := x.(*ssa.FieldAddr); return y && fieldObj(fa).Name() == "LocalBuckets" }) {
				walk = rg
			}
		}
		if walk != nil {
			gcl := G(cl)
			p := gcl.PathTo([]ssa.Instruction{gcl.Entry()}, true, func(i ssa.Instruction) bool { return i == walk }, isExit)
			r.Paths++
			if p != nil {
				r.Fail("path", "(*M/trafficshape.Conn).Close: the buckets are closed on every exit", "Close can return without having walked LocalBuckets (an error closing the wrapped connection, an early return): the per-connection buckets keep their tickers and goroutines", witness(w, p), cl.Pos())
			} else {
				r.Hold("path", "(*M/trafficshape.Conn).Close: the buckets are closed on every exit", "every path from the entry to a return passes the loop over LocalBuckets", cl.Pos())
			}
		}
		// per-shape bucket created by parseShapes
		nb := plainCalls(ps, "M/trafficshape.NewBucket")
		closers := 0
		for _, f := range w.Funcs("trafficshape") {
			for _, c := range plainCalls(f, "(*M/trafficshape.Bucket).Close") {
				if anyIn(w.backSlice(c.Call.Args[0], flowOpt{}), func(v ssa.Value) bool {
					fa, y := v.(*ssa.FieldAddr)
					return y && fieldObj(fa).Name() == "WriteBucket" && strings.HasSuffix(fa.X.Type().String(), "trafficshape.Shape")
				}) {
					closers++
				}
			}
		}
		r.Decide("callgraph", "M/trafficshape.parseShapes: the per-shape bucket is closed when its configuration is rejected or replaced", len(nb) == 0 || closers > 0, "a Close of Shape.WriteBucket exists", "parseShapes creates a bucket (ticker + goroutine) for every shape and nothing ever closes it, neither on a rejecting path nor when the shapes are replaced", ps.Pos())
	})
}

// rejectsFromBoth: both successors of the branch reject (then the comparison
// does not discriminate).
func rejectsFromBoth(f *ssa.Function, e condEdge, rej func(*ssa.Function, *ssa.BasicBlock) bool) bool {
	// the false edge usually continues into later checks that can also reject for other reasons, so
	// "both reject" is only meaningful when the false successor has a rejection before any other branch
	for _, in := range e.False.Instrs {
		if _, ok := isCall(in, "net/http.Error", "fmt.Errorf", "errors.New"); ok {
			return true
		}
		if _, ok := in.(*ssa.If); ok {
			return false
		}
	}
	return false
}

var _ = types.Universe

// shapedCloseNeverWaitsRule: Close of a shaped connection takes no lock that
// Read, Write, ReadFrom or WriteTo of the same connection may hold while they
// are inside an I/O call, a bucket wait or a sleep: Close is what unblocks
// them (and, in a blind tunnel, what passes one side's end-of-stream to the
// other while the opposite direction is still copying). Shared by C18.R7 and
// C04.R5.
func shapedCloseNeverWaitsRule(r *Report) {
	w := r.W
	cl := w.Fn("trafficshape", "Conn.Close")
	if cl == nil || cl.Blocks == nil {
		r.Undecided("M/trafficshape.Conn.Close", "UNRESOLVED")
		return
	}
	r.Touch(cl)
	taken := map[string]bool{}
	for p := range acquires(cl) {
		if len(cl.Params) > 0 && strings.HasPrefix(p, cl.Params[0].Name()+".") {
			taken[strings.TrimPrefix(p, cl.Params[0].Name())] = true
		}
	}
	n := 0
	for _, mn := range []string{"Read", "Write", "ReadFrom", "WriteTo", "WriteDefaultBuckets"} {
		m := w.Fn("trafficshape", "Conn."+mn)
		if m == nil || m.Blocks == nil || len(m.Params) == 0 {
			continue
		}
		r.Touch(m)
		may := lockStatesMay(m)
		recv := m.Params[0].Name()
		bad := ""
		for _, in := range instrs(m) {
			c, isC := in.(ssa.CallInstruction)
			if !isC {
				continue
			}
			blocking := false
			switch calleeName(c) {
			case "(*M/trafficshape.Bucket).FillThrottle", "(*M/trafficshape.Bucket).FillThrottleLocked", "(*M/trafficshape.Bucket).Fill", "(*M/trafficshape.Conn).WriteDefaultBuckets", "time.Sleep", "io.Copy", "io.CopyN", "(*sync.Once).Do":
				blocking = true
			}
			if c.Common().IsInvoke() {
				switch c.Common().Method.Name() {
				case "Read", "Write", "ReadFrom", "WriteTo":
					blocking = true
				}
			}
			if !blocking {
				continue
			}
			n++
			for k := range may[in] {
				p := k[strings.Index(k, ":")+1:]
				if strings.HasPrefix(p, recv+".") && taken[strings.TrimPrefix(p, recv)] {
					bad = strings.TrimPrefix(p, recv)
				}
			}
		}
		r.Sites++
		r.Decide("lockset", "(*M/trafficshape.Conn)."+mn+" blocks holding no lock that Close takes", bad == "", "no lock of Close held at an I/O call, a bucket wait or a sleep", "the method can sit in I/O (or wait for bandwidth) holding c"+bad+", which Close locks: Close - the call that is meant to unblock it - waits for it instead; a tunnel's end-of-stream is not passed on until the other direction finishes, and a blocked writer is never released", m.Pos())
	}
	r.Decide("lockset", "the shaped connection's I/O methods contain blocking calls", n >= 4, fmt.Sprintf("%d blocking call sites", n), "no blocking call found in the I/O methods: the rule has nothing to check", cl.Pos())
}

// shapedCallbacksDoIORule: the function a shaped connection hands to a bucket
// performs the I/O it was given an allowance for on every path: a callback
// that can return (0, nil) without reading or writing makes Read return no
// data without an error (bufio gives up with io.ErrNoProgress and the request
// is lost) or makes the write loop spin. Shared by C18.R8 and C01.R1.
func shapedCallbacksDoIORule(r *Report) {
	w := r.W
	n := 0
	for _, f := range w.Funcs("trafficshape") {
		if f.Signature.Recv() == nil || namedOf(f.Signature.Recv().Type()) != "Conn" {
			continue
		}
		for _, c := range plainCalls(f, "(*M/trafficshape.Bucket).FillThrottle", "(*M/trafficshape.Bucket).FillThrottleLocked", "(*M/trafficshape.Bucket).Fill") {
			var cb *ssa.Function
			for v := range w.backSlice(c.Call.Args[1], flowOpt{}) {
				if mc, isMc := v.(*ssa.MakeClosure); isMc {
					cb, _ = mc.Fn.(*ssa.Function)
				}
			}
			if cb == nil || cb.Blocks == nil {
				continue
			}
			n++
			r.Touch(f)
			g := G(cb)
			isIO := func(i ssa.Instruction) bool {
				ci, ok := i.(ssa.CallInstruction)
				if !ok {
					return false
				}
				if ci.Common().IsInvoke() {
					switch ci.Common().Method.Name() {
					case "Read", "Write", "ReadFrom", "WriteTo":
						return true
					}
				}
				switch calleeName(ci) {
				case "io.CopyN", "io.Copy", "(*M/trafficshape.Conn).WriteDefaultBuckets", "(*M/trafficshape.Bucket).FillThrottle", "(*M/trafficshape.Bucket).FillThrottleLocked", "(*M/trafficshape.Bucket).Fill":
					return true // (a nested bucket call: its own callback is checked in turn)
				}
				return false
			}
			// "nothing to do": a return guarded by `amount == 0` (an action is due at this very byte)
			zeroGuarded := func(ret *ssa.Return) bool {
				for _, ce := range ctrlEdges(ret.Block()) {
					if b, isB := ce.If.Cond.(*ssa.BinOp); isB && b.Op == token.EQL && ce.Taken {
						if k, isK := constInt(b.Y); isK && k == 0 {
							return true
						}
						if k, isK := constInt(b.X); isK && k == 0 {
							return true
						}
					}
				}
				return false
			}
			// a path to a return with a nil error that performs no I/O
			bad := g.PathTo([]ssa.Instruction{g.Entry()}, true, isIO, func(i ssa.Instruction) bool {
				ret, isR := i.(*ssa.Return)
				if !isR || len(ret.Results) < 2 || zeroGuarded(ret) {
					return false
				}
				for _, v := range retVals(ret, len(ret.Results)-1) {
					for _, l := range resolveAll(v) {
						if isNilConst(l) {
							return true
						}
					}
				}
				return false
			})
			r.Sites++
			r.Decide("path", fmt.Sprintf("%s: the callback given to %s performs its I/O on every successful path", fnName(f), site(f, c)), bad == nil, "no return with a nil error is reachable without the read or write", "the callback can return without an error and without having read or written (skipping a small allowance): Read then returns (0, nil) - a bufio reader gives up after a few of those and the request is lost - or the write loop spins until the next interval", c.Pos())
		}
	}
	r.Decide("path", "the shaped connection passes I/O callbacks to its buckets", n >= 4, fmt.Sprintf("%d callbacks", n), "fewer bucket callbacks than on the pinned tree", token.NoPos)
}

// bucketDrainRule: the drain loop of a bucket sets the fill to zero on every
// tick (a bucket that carries a debt over makes a later, unrelated write wait
// for as long as an earlier bulk transfer overdrew it - minutes, past the idle
// deadline). Shared by C18.R8 and C04.R5 (tunnels through a shaped listener).
func bucketDrainRule(r *Report) {
	lp := r.W.Fn("trafficshape", "Bucket.loop")
	if lp == nil || lp.Blocks == nil {
		r.Undecided("M/trafficshape.Bucket.loop", "UNRESOLVED")
		return
	}
	r.Touch(lp)
	isReset := func(i ssa.Instruction) bool {
		c, ok := i.(*ssa.Call)
		if !ok || !(calleeName(c) == "sync/atomic.StoreInt64" || strings.HasSuffix(calleeName(c), ".Store")) {
			return false
		}
		fa, isFa := c.Call.Args[0].(*ssa.FieldAddr)
		if !isFa || fieldObj(fa).Name() != "fill" {
			return false
		}
		k, isK := constInt(c.Call.Args[len(c.Call.Args)-1])
		return isK && k == 0
	}
	n, bad := everyRoundPasses(lp, isReset)
	r.Decide("path", "(*M/trafficshape.Bucket).loop: every tick resets the fill to zero", n >= 1 && bad == nil, "atomic.StoreInt64(&b.fill, 0) lies on every trip round the drain loop", "a tick can leave part of the fill in place (a debt carried over): bytes written after a bulk transfer overdrew the bucket stall until the debt is paid off, which can be longer than the connection's deadline", lp.Pos())
}

// noReentrantLockRule: inside package rel no function calls, while it may hold
// a lock, a function of the package that takes the same lock (translated
// through the receiver): sync mutexes are not reentrant, and a read lock taken
// twice deadlocks as soon as a writer waits in between.
func noReentrantLockRule(r *Report, rel string) {
	w := r.W
	// a call through a stream-processor interface may end in any relay method (the default
	// processor hands it to the peer relay, which locks): none is made with a lock held
	if rel == "h2" {
		for _, f := range w.Funcs(rel) {
			may := lockStatesMay(f)
			for _, c := range calls(f) {
				cc := c.Common()
				if !cc.IsInvoke() || len(may[c]) == 0 {
					continue
				}
				switch cc.Method.Name() {
				case "Data", "Header", "Priority", "RSTStream", "PushPromise":
				default:
					continue
				}
				if !strings.Contains(cc.Value.Type().String(), "Processor") {
					continue
				}
				var held []string
				for k := range may[c] {
					held = append(held, k)
				}
				sort.Strings(held)
				r.Fail("lockset", fmt.Sprintf("%s: %s is called with %v held", fnName(f), site(f, c), held), "a stream processor is invoked while a relay mutex is held: the processor chain ends in a relay method that takes the same (or the peer's) mutex - the reader deadlocks itself and the session never ends", nil, c.Pos())
			}
		}
	}
	for _, f := range w.Funcs(rel) {
		may := lockStatesMay(f)
		for _, c := range plainCalls(f) {
			callee := c.Call.StaticCallee()
			if callee == nil || callee.Pkg == nil || callee.Pkg.Pkg.Path() != P(rel) || callee.Blocks == nil {
				continue
			}
			acq := acquires(callee)
			if len(acq) == 0 || len(may[c]) == 0 {
				continue
			}
			// translate callee paths (rooted at its receiver) to the caller's view
			if len(callee.Params) == 0 || len(c.Call.Args) == 0 {
				continue
			}
			recvName := callee.Params[0].Name()
			argPath := pathOf(c.Call.Args[0])
			bad := ""
			for p := range acq {
				if !strings.HasPrefix(p, recvName+".") && p != recvName {
					continue
				}
				tp := argPath + strings.TrimPrefix(p, recvName)
				if may[c]["R:"+tp] || may[c]["W:"+tp] {
					bad = tp
				}
			}
			r.Sites++
			r.Decide("lockset", fmt.Sprintf("%s calls %s without holding a lock the callee takes", fnName(f), fnName(callee)), bad == "", "no overlap between held locks and the callee's acquisitions", "the caller holds "+bad+" and the callee locks it again: sync.RWMutex read locks are not reentrant, a waiting writer (reconfiguration) makes this deadlock", c.Pos())
		}
	}
}

// reconfigClosesNoBucketRule: see the comment in the body. Shared by C18.R1
// and C01.R1 (an established keep-alive connection keeps delivering complete
// responses across a reconfiguration).
func reconfigClosesNoBucketRule(r *Report) {
	w := r.W
	sh := w.Fn("trafficshape", "Handler.ServeHTTP")
	if sh == nil || sh.Blocks == nil {
		r.Undecided("M/trafficshape.Handler.ServeHTTP", "UNRESOLVED")
		return
	}
	r.Touch(sh)
	// reconfiguration leaves established connections alone: the handler closes no
	// bucket it did not create itself in this call (the buckets of the replaced
	// shapes are still in use by connections accepted earlier)
	for _, f := range r.W.staticReach(sh) {
		if fnName(f) == "(*M/trafficshape.Conn).Close" || fnName(f) == "(*M/trafficshape.Bucket).Close" {
			continue
		}
		for _, c := range calls(f, "(*M/trafficshape.Bucket).Close") {
			fresh := anyIn(w.backSlice(c.Common().Args[0], flowOpt{}), func(v ssa.Value) bool { return isCallValue(v, "M/trafficshape.NewBucket") })
			live := anyIn(w.backSlice(c.Common().Args[0], flowOpt{}), func(v ssa.Value) bool {
				fa, ok := v.(*ssa.FieldAddr)
				return ok && (fieldObj(fa).Name() == "Shapes" || fieldObj(fa).Name() == "M")
			})
			r.Decide("flow", "reconfiguration closes no bucket in use: "+site(f, c), fresh && !live, "only a bucket made in this call is closed", "the reconfiguration path closes a bucket reached through the listener's current shapes: connections accepted before the change still write through it and their next shaped response fails", c.Pos())
		}
	}

}

// shapedCloseOwnBucketsRule: closing one shaped connection closes the buckets
// made for that connection (LocalBuckets) and nothing shared: the listener's
// read/write buckets and the per-shape global buckets serve every connection
// of the listener, and closing them under another connection's exchange cuts
// that exchange's response. Shared by C18.R7 and C07.R2.
func shapedCloseOwnBucketsRule(r *Report) {
	w := r.W
	cl := w.Fn("trafficshape", "Conn.Close")
	if cl == nil || cl.Blocks == nil {
		r.Undecided("M/trafficshape.Conn.Close", "UNRESOLVED")
		return
	}
	r.Touch(cl)
	n, shared := 0, ""
	for _, c := range calls(cl, "(*M/trafficshape.Bucket).Close") {
		n++
		local := false
		var origin func(v ssa.Value, depth int)
		origin = func(v ssa.Value, depth int) {
			if depth > 8 {
				return
			}
			switch x := v.(type) {
			case *ssa.UnOp:
				origin(x.X, depth+1)
			case *ssa.FieldAddr:
				switch fieldObj(x).Name() {
				case "LocalBuckets":
					local = true
				case "GlobalBuckets", "GlobalBucket":
					shared = fieldObj(x).Name()
				}
				origin(x.X, depth+1)
			case *ssa.Field:
				origin(x.X, depth+1)
			case *ssa.Extract:
				origin(x.Tuple, depth+1)
			case *ssa.Next:
				origin(x.Iter, depth+1)
			case *ssa.Range:
				origin(x.X, depth+1)
			case *ssa.Lookup:
				origin(x.X, depth+1)
			case *ssa.IndexAddr:
				origin(x.X, depth+1)
			case *ssa.Phi:
				for _, e := range x.Edges {
					origin(e, depth+1)
				}
			}
		}
		origin(c.Common().Args[0], 0)
		if !local && shared == "" {
			// c.ReadBucket / c.WriteBucket directly: the listener's
			if ld, isLd := c.Common().Args[0].(*ssa.UnOp); isLd {
				if fa, isFa := ld.X.(*ssa.FieldAddr); isFa && len(cl.Params) > 0 && isParamVal(fa.X, cl.Params[0]) {
					shared = fieldObj(fa).Name()
				}
			}
		}
	}
	r.Decide("flow", "(*M/trafficshape.Conn).Close closes the connection's own buckets only", shared == "", fmt.Sprintf("%d Bucket.Close call(s), all on LocalBuckets entries", n), "Close also closes "+shared+", which other connections of the listener write through: an exchange in flight on another connection (parked in a modifier during shutdown, say) gets its response head and then no body", cl.Pos())
}
