package main

// propagatedErrors: for the central functions of the properties, the callees whose
// error reaches the function's own error result on the pinned tree (generated with the
// scratch property C00, VERIF_DUMP_ERRTABLE=1, and frozen here). errorsReturnedRule keeps
// them that way: a failure that is reported today is not logged and forgotten tomorrow.
var propagatedErrors = map[string][]string{
	"M/h2/grpc.gunzip":                              {"compress/gzip.NewReader", "io/ioutil.ReadAll"},
	"M/h2/grpc.deflate":                             {"io/ioutil.ReadAll"},
	"M/h2.forwardPreface":                           {"(io.Writer).Write", "io.ReadFull"},
	"(*M/h2.relay).decodeFull":                      {"(*golang.org/x/net/http2/hpack.Decoder).DecodeFull"},
	"(*M/h2.relay).encodeFull":                      {"(*golang.org/x/net/http2/hpack.Encoder).WriteField"},
	"(*M/trafficshape.Listener).Accept":             {"(net.Listener).Accept"},
	"M/body.modifierFromJSON":                       {"M/parse.NewResult", "encoding/json.Unmarshal"},
	"M/static.modifierFromJSON":                     {"M/parse.NewResult", "encoding/json.Unmarshal"},
	"M.newID":                                       {"crypto/rand.Read"},
	"M.newSession":                                  {"M.newID"},
	"M.withSession":                                 {"M.newID"},
	"(*M.Proxy).connect":                            {"field Proxy.dial", "net/http.ReadResponse"},
	"(*M/body.Modifier).ModifyResponse":             {"(*mime/multipart.Writer).CreatePart", "(io.Writer).Write", "strconv.Atoi"},
	"(*M/h2.Config).Proxy":                          {"M/h2.forwardPreface", "crypto/tls.Dial"},
	"(*M/h2.relay).header":                          {"(*M/h2.relay).encodeFull"},
	"(*M/h2.relay).processFrame":                    {"(*M/h2.relay).decodeFull", "(*M/h2.relay).sendWindowUpdates", "(*golang.org/x/net/http2.Framer).WriteGoAway", "(*golang.org/x/net/http2.Framer).WritePing", "(*golang.org/x/net/http2.Framer).WriteSettings", "(*golang.org/x/net/http2.Framer).WriteSettingsAck", "(*golang.org/x/net/http2.SettingsFrame).ForeachSetting", "(M/h2.DataFrameProcessor).Data", "(M/h2.HeaderProcessor).Header", "(M/h2.PriorityFrameProcessor).Priority", "(M/h2.PushPromiseProcessor).PushPromise", "(M/h2.RSTStreamProcessor).RSTStream", "(M/h2.continuationState).complete"},
	"(*M/h2.relay).pushPromise":                     {"(*M/h2.relay).encodeFull"},
	"(*M/h2.relay).relayFrames":                     {"(*M/h2.relay).processFrame"},
	"(*M/h2.relay).sendWindowUpdates":               {"(*golang.org/x/net/http2.Framer).WriteWindowUpdate"},
	"(*M/h2/grpc.adapter).Data":                     {"(M/h2.DataFrameProcessor).Data", "(M/h2/grpc.Processor).Message", "M/h2/grpc.deflate", "M/h2/grpc.gunzip", "encoding/binary.Read", "io/ioutil.ReadAll"},
	"(*M/h2/grpc.adapter).Header":                   {"(M/h2.HeaderProcessor).Header"},
	"(*M/h2/grpc.emitter).Message":                  {"(*compress/flate.Writer).Close", "(*compress/flate.Writer).Write", "(*compress/gzip.Writer).Close", "(*compress/gzip.Writer).Write", "(*github.com/golang/snappy.Writer).Close", "(*github.com/golang/snappy.Writer).Write", "(M/h2.DataFrameProcessor).Data"},
	"(*M/har.Logger).RecordRequest":                 {"M/har.NewRequest"},
	"(*M/har.Logger).RecordResponse":                {"M/har.NewResponse"},
	"(*M/marbl.Reader).ReadFrame":                   {"io.ReadFull"},
	"(*M/martianlog.Logger).ModifyRequest":          {"(*M/messageview.MessageView).Reader", "(*M/messageview.MessageView).SnapshotRequest"},
	"(*M/martianlog.Logger).ModifyResponse":         {"(*M/messageview.MessageView).Reader", "(*M/messageview.MessageView).SnapshotResponse"},
	"(*M/messageview.MessageView).BodyReader":       {"compress/gzip.NewReader"},
	"(*M/messageview.MessageView).SnapshotRequest":  {"io/ioutil.ReadAll"},
	"(*M/messageview.MessageView).SnapshotResponse": {"io/ioutil.ReadAll"},
	"(*M/mitm.Config).cert":                         {"crypto/rand.Int", "crypto/x509.CreateCertificate", "crypto/x509.ParseCertificate"},
	"(*M/static.Modifier).ModifyResponse":           {"(*mime/multipart.Writer).CreatePart", "(*os.File).ReadAt", "(*os.File).Stat", "(io.Writer).Write", "os.Open", "strconv.Atoi"},
	"M/har.NewRequest":                              {"M/har.postData"},
	"M/har.NewResponse":                             {"(*M/messageview.MessageView).BodyReader", "(*M/messageview.MessageView).SnapshotResponse", "io/ioutil.ReadAll"},
	"M/har.postData":                                {"(*M/messageview.MessageView).BodyReader", "(*M/messageview.MessageView).SnapshotRequest", "(*mime/multipart.Reader).NextPart", "io/ioutil.ReadAll", "net/url.ParseQuery"},
	"M/parse.FromJSON":                              {"encoding/json.Unmarshal"},
}
