package main

import (
	"fmt"
	"go/token"
	"go/types"
	"strings"

	"golang.org/x/tools/go/ssa"
)

func init() {
	props["C07"] = func(r *Report) {
		c07(r)
		r.Guard("C07.R6", "every lock taken is released on every exit: connsMu and the other core locks (a lock left held makes Close or Serve block for ever)", func() { lockPairRule(r, ""); goCaptureRule(r, ""); goBlockRule(r, "", "h2") })
	}
	floors["C07"] = map[string]int{"C07.R1": 6, "C07.R2": 4, "C07.R3": 4, "C07.R4": 2, "C07.R5": 4, "C07.R6": 1}
}

// wgCall reports whether c is p.conns.<method>() on the Proxy's wait group.
func wgCall(c ssa.CallInstruction, method string) bool {
	if calleeName(c) != "(*sync.WaitGroup)."+method {
		return false
	}
	return isFieldRef(c.Common().Args[0], M, "Proxy", "conns")
}

func c07(r *Report) {
	w := r.W
	r.Decline("the six schedule placements as such (only the structural conditions that every placement relies on)")
	r.Decline("panics on a second Close (close of a closed channel)")
	r.Decline("Serve blocked in Accept after shutdown (the listener is closed only when Serve returns): an accepted-after-shutdown connection is closed by its handler, but Accept itself is not woken")
	r.Decline("the window between Accept returning and the wait-group Add inside Serve")
	serve := r.Use("", "Proxy.Serve")
	loop := r.Use("", "Proxy.handleLoop")
	cl := r.Use("", "Proxy.Close")
	rd := r.Use("", "Proxy.readRequest")
	handle := r.Use("", "Proxy.handle")
	if serve == nil || loop == nil || cl == nil || rd == nil || handle == nil {
		return
	}

	r.Guard("C07.R1", "wait-group pairing: Add and Wait under connsMu, Done and conn.Close deferred on every handler exit, closing signalled before waiting", func() {
		// a tunnel handler finishes: both copiers end each other and report their end
		if hcr := r.Use("", "Proxy.handleConnectRequest"); hcr != nil {
			tunnelEOSRule(r, hcr, tunnelCopiers(hcr))
		}
		// closing one (idle) connection at shutdown does not cut the response of another: a shaped
		// connection closes its own buckets only
		shapedCloseOwnBucketsRule(r)
		// the shutdown signal is made once, with the proxy: nothing replaces the channel that running
		// relays and handlers watch (a Serve that re-creates it revives a closed proxy and orphans
		// every session started before)
		fieldWritersRule(r, "", "Proxy", "closing", map[string]bool{"M.NewProxy": true}, "the shutdown channel is replaced after construction: sessions started before keep watching the old one and are never told to stop, and a closed proxy serves again")
		// an HTTP/2 tunnel's handler finishes only when both relay directions have: the relay call
		// joins its goroutines before it returns (a return on the stop signal alone lets Close return
		// while a direction is still inside a stream processor)
		if px := r.W.Fn("h2", "Config.Proxy"); px != nil && px.Blocks != nil {
			r.Touch(px)
			g := G(px)
			isWait := func(i ssa.Instruction) bool { _, y := isCall(i, "(*sync.WaitGroup).Wait"); return y }
			ngo, okJoin := 0, true
			for _, in := range instrs(px) {
				if gs, isGo := in.(*ssa.Go); isGo {
					fn := goTarget(gs)
					if fn == nil || len(calls(fn, "(*M/h2.relay).relayFrames")) == 0 {
						continue
					}
					ngo++
					if p := g.PathTo([]ssa.Instruction{gs}, false, isWait, isReturn); p != nil {
						okJoin = false
					}
				}
			}
			r.Decide("path", "(*M/h2.Config).Proxy returns only after both relay goroutines were joined", ngo == 2 && okJoin, "WaitGroup.Wait lies on every path from each go statement to a return", "the relay call can return while one of its directions is still running: the connection handler finishes, Proxy.Close returns, and a stream processor is still being called", px.Pos())
		}
		for _, f := range w.Funcs("") {
			var st map[ssa.Instruction]lockset
			for _, c := range calls(f) {
				for _, m := range []string{"Add", "Wait"} {
					if !wgCall(c, m) {
						continue
					}
					if st == nil {
						st = lockStates(f, nil)
					}
					ls := st[c]
					held := false
					if fa, ok := c.Common().Args[0].(*ssa.FieldAddr); ok {
						held = ls.heldW(pathOf(fa.X) + ".connsMu")
					}
					r.Sites++
					r.Decide("lockset", fmt.Sprintf("conns.%s under connsMu: %s", m, site(f, c)), held, "lockset "+ls.String(), "the wait group is touched without connsMu: Add can race with Wait; lockset "+ls.String(), c.Pos())
				}
			}
		}
		// handler: deferred Done and conn.Close in the entry block
		done, closed := false, false
		for _, c := range calls(loop) {
			d, ok := c.(*ssa.Defer)
			if !ok || d.Block() != loop.Blocks[0] {
				continue
			}
			if wgCall(d, "Done") {
				done = true
			}
			if calleeName(d) == "(net.Conn).Close" && isParamVal(d.Call.Value, loop.Params[1]) {
				closed = true
			}
		}
		// nothing that can return or block precedes them
		r.Decide("path", "(*M.Proxy).handleLoop: defer conns.Done() in the entry block", done, "registered before any exit", "the handler does not release the wait group on every exit: Close blocks forever (or returns early)", loop.Pos())
		r.Decide("path", "(*M.Proxy).handleLoop: defer conn.Close() in the entry block", closed, "registered before any exit", "the handler does not close its connection on every exit", loop.Pos())
		// deferred calls run last-in first-out: Close must be registered after Done so that it runs before it
		var dDone, dClose ssa.Instruction
		for _, c := range calls(loop) {
			if d, ok := c.(*ssa.Defer); ok {
				if wgCall(d, "Done") {
					dDone = d
				}
				if calleeName(d) == "(net.Conn).Close" && isParamVal(d.Call.Value, loop.Params[1]) {
					dClose = d
				}
			}
		}
		r.Decide("path", "(*M.Proxy).handleLoop: the connection is closed before the wait group is released", dDone != nil && dClose != nil && G(loop).Before(dDone, dClose), "defer Done() is registered before defer conn.Close(), so Close runs first", "conns.Done() runs before conn.Close(): Proxy.Close can return while the connection is still open", loop.Pos())
		// Close: close(p.closing) before Wait
		var closeCh, wait ssa.Instruction
		for _, c := range calls(cl) {
			if b, ok := c.Common().Value.(*ssa.Builtin); ok && b.Name() == "close" {
				if ld, ok := c.Common().Args[0].(*ssa.UnOp); ok && isFieldRef(ld.X, M, "Proxy", "closing") {
					closeCh = c
				}
			}
			if wgCall(c, "Wait") {
				wait = c
			}
			// a helper closure of Close that waits counts as the wait
			if callee := c.Common().StaticCallee(); callee != nil && callee.Parent() == cl {
				for _, cc := range calls(callee) {
					if wgCall(cc, "Wait") {
						wait = c
					}
				}
			}
		}
		ok := closeCh != nil && wait != nil && G(cl).Before(closeCh, wait)
		r.Decide("path", "(*M.Proxy).Close: close(p.closing) precedes conns.Wait()", ok, "handlers are told to stop before Close waits for them", "Close waits before (or without) signalling shutdown: it never returns while a connection is idle", cl.Pos())
	})

	r.Guard("C07.R2", "an accepted connection is registered with the wait group by the accept loop before its handler is spawned", func() {
		var goes []*ssa.Go
		for _, c := range calls(serve) {
			if g, ok := c.(*ssa.Go); ok && g.Call.StaticCallee() == loop {
				goes = append(goes, g)
			}
		}
		if len(goes) != 1 {
			r.Fail("path", "(*M.Proxy).Serve: go handleLoop", fmt.Sprintf("found %d go statements starting the handler, want 1", len(goes)), nil, serve.Pos())
			return
		}
		gs := G(serve)
		var adds []ssa.Instruction
		for _, c := range calls(serve) {
			if wgCall(c, "Add") {
				adds = append(adds, c)
			}
		}
		accept := calls(serve, "(net.Listener).Accept")
		isAdd := func(i ssa.Instruction) bool {
			for _, a := range adds {
				if a == i {
					return true
				}
			}
			return false
		}
		isAccept := func(i ssa.Instruction) bool { return len(accept) == 1 && i == ssa.Instruction(accept[0]) }
		isGo := func(i ssa.Instruction) bool { return i == ssa.Instruction(goes[0]) }
		// every path from Accept to the go statement passes exactly one Add
		p1 := gs.PathTo([]ssa.Instruction{accept[0]}, false, isAdd, isGo)
		r.Paths++
		r.Decide("path", "(*M.Proxy).Serve: conns.Add(1) between Accept and go handleLoop", len(accept) == 1 && len(adds) > 0 && p1 == nil, "every path from Accept to the go statement passes Add", "the handler is spawned without the accept loop having added it to the wait group: Close can return while the connection is open", goes[0].Pos())
		// after Add, the handler is always started (no continue/return in between)
		var p2 []ssa.Instruction
		for _, a := range adds {
			if p := gs.PathTo([]ssa.Instruction{a}, false, isGo, func(i ssa.Instruction) bool { return isExit(i) || isAccept(i) || isAdd(i) }); p != nil {
				p2 = p
			}
		}
		r.Paths++
		r.Decide("path", "(*M.Proxy).Serve: every Add is followed by the handler start", p2 == nil, "no exit, second Add or new Accept between Add and go", "an Add is not matched by a handler (and its Done): Close blocks forever", goes[0].Pos())
		// Add(1)
		okDelta := len(adds) > 0
		for _, a := range adds {
			if n, ok := constInt(a.(ssa.CallInstruction).Common().Args[1]); !ok || n != 1 {
				okDelta = false
			}
		}
		r.Decide("lookup", "(*M.Proxy).Serve: Add delta is 1", okDelta, "one unit per connection", "the wait-group delta is not 1 per accepted connection", serve.Pos())
		// the handler itself does not Add
		n := 0
		for _, c := range calls(loop) {
			if wgCall(c, "Add") {
				n++
			}
		}
		r.Decide("callgraph", "(*M.Proxy).handleLoop: no Add inside the spawned handler", n == 0, "registration happens before the spawn only", "the spawned handler adds itself to the wait group: Wait can observe zero between the go statement and that Add", loop.Pos())
	})

	r.Guard("C07.R3", "shutdown is observed: by the request reader, at the top of the accept loop, and by a new handler before it serves", func() {
		// reader: select with a receive on p.closing whose arm returns errClose
		found := false
		var pos token.Pos = rd.Pos()
		for _, in := range instrs(rd) {
			sel, ok := in.(*ssa.Select)
			if !ok {
				continue
			}
			for idx, st := range sel.States {
				if st.Dir != types.RecvOnly {
					continue
				}
				ld, ok := st.Chan.(*ssa.UnOp)
				if !ok || !isFieldRef(ld.X, M, "Proxy", "closing") {
					continue
				}
				pos = sel.Pos()
				// the arm: extract #0 == idx
				for _, u := range *sel.Referrers() {
					e, ok := u.(*ssa.Extract)
					if !ok || e.Index != 0 || e.Referrers() == nil {
						continue
					}
					for _, uu := range *e.Referrers() {
						b, ok := uu.(*ssa.BinOp)
						if !ok || b.Op != token.EQL {
							continue
						}
						if k, isC := constInt(b.Y); !isC || int(k) != idx {
							continue
						}
						for _, ce := range branchesOn(b) {
							cls, _, _ := returnClassesFrom(ce.True, 1, 1000)
							if len(cls) == 1 && cls["global:errClose"] {
								found = true
							}
						}
					}
				}
				if sel.Blocking && !found {
					// the closing arm may be the last one (no comparison emitted)
					cls := map[string]bool{}
					for _, ret := range returns(rd) {
						for _, v := range retVals(ret, 1) {
							for _, l := range resolveAll(v) {
								cls[errClass(l)] = true
							}
						}
					}
					_ = cls
				}
			}
		}
		r.Decide("path", "(*M.Proxy).readRequest: select arm on p.closing returns errClose", found, "an idle or half-read connection is released on shutdown", "the request reader does not watch p.closing (or its arm does not return errClose): idle connections keep Close waiting until their timeout", pos)
		// the select is only reached promptly if the blocking read happens on another
		// goroutine: http.ReadRequest is called from a goroutine literal, never on the
		// goroutine that selects
		inline := 0
		{
			// functions run on the selecting goroutine: rd itself and whatever it calls
			// (closures included) other than through `go`
			seen := map[*ssa.Function]bool{}
			var visit func(f *ssa.Function)
			visit = func(f *ssa.Function) {
				if f == nil || seen[f] || f.Blocks == nil {
					return
				}
				seen[f] = true
				for _, in := range instrs(f) {
					switch x := in.(type) {
					case *ssa.Call:
						if calleeName(x) == "net/http.ReadRequest" {
							inline++
							pos = x.Pos()
						}
						if sc := x.Call.StaticCallee(); sc != nil && strings.HasPrefix(sc.String(), "(*"+M+".Proxy).readRequest$") {
							visit(sc)
						}
					case *ssa.Defer:
						if sc := x.Call.StaticCallee(); sc != nil && sc.Parent() != nil {
							visit(sc)
						}
					}
				}
			}
			visit(rd)
		}
		spawned := 0
		for _, in := range instrs(rd) {
			if gs, ok := in.(*ssa.Go); ok {
				if t := goTarget(gs); t != nil {
					spawned += len(calls(t, "net/http.ReadRequest"))
				}
			}
		}
		readFromConnReaderRule(r, rd)
		r.Decide("path", "(*M.Proxy).readRequest: the blocking read runs on its own goroutine", inline == 0 && spawned > 0, "http.ReadRequest is called in a goroutine literal; the reader itself only selects", "http.ReadRequest is called on the goroutine that is meant to select on p.closing: an idle connection is not released on shutdown until its read deadline expires, and Close waits that long", pos)
		// Closing() reports the state of the channel: true on the receive arm, false on default
		if cf := r.W.Fn("", "Proxy.Closing"); cf != nil && cf.Blocks != nil {
			okPoll := false
			for _, in := range instrs(cf) {
				sel, ok := in.(*ssa.Select)
				if !ok || sel.Blocking || len(sel.States) != 1 {
					continue
				}
				if ld, ok := sel.States[0].Chan.(*ssa.UnOp); !ok || !isFieldRef(ld.X, M, "Proxy", "closing") {
					continue
				}
				arm := selectArmBlock(sel, 0)
				if arm == nil {
					continue
				}
				clsT, _, okT := returnBoolsFrom(arm)
				okPoll = okT && len(clsT) == 1 && clsT[true]
				for _, ret := range returns(cf) {
					if edgeReaches(arm, ret.Block()) {
						continue
					}
					if b, isB := constBool(ret.Results[0]); !isB || b {
						okPoll = false
					}
				}
			}
			r.Decide("path", "(*M.Proxy).Closing: true exactly when the closing channel is closed", okPoll, "non-blocking receive: the receive arm returns true, the default arm false", "Closing() does not report the closing channel's state: the accept loop and new handlers keep serving after shutdown began (or refuse before it)", cf.Pos())
		} else {
			r.Undecided("(*M.Proxy).Closing", "UNRESOLVED")
		}
		// accept loop: Closing() tested before every Accept
		gs := G(serve)
		accept := calls(serve, "(net.Listener).Accept")
		cls := plainCalls(serve, "(*M.Proxy).Closing")
		ok := len(accept) == 1 && len(cls) >= 1
		if ok {
			isC := func(i ssa.Instruction) bool { _, y := isCall(i, "(*M.Proxy).Closing"); return y }
			isA := func(i ssa.Instruction) bool { return i == ssa.Instruction(accept[0]) }
			if gs.PathTo([]ssa.Instruction{gs.Entry()}, true, isC, isA) != nil || gs.PathTo([]ssa.Instruction{accept[0]}, false, isC, isA) != nil {
				ok = false
			}
			for _, c := range cls {
				for _, e := range branchesOn(c) {
					if gs.PathTo(blockStart(e.True), true, nil, isA) != nil {
						ok = false
					}
				}
			}
		}
		r.Paths += 2
		r.Decide("path", "(*M.Proxy).Serve: Closing() tested before every Accept and its true edge leaves", ok, "the accept loop stops once shutdown began", "the accept loop can call Accept again without testing Closing()", serve.Pos())
		// handler: Closing() before the session is created
		ns := plainCalls(loop, "M.newSession")
		ok2 := false
		if len(ns) == 1 {
			for _, c := range plainCalls(loop, "(*M.Proxy).Closing") {
				for _, e := range branchesOn(c) {
					for k, s := range e.If.Block().Succs {
						if s == e.False && edgeDominates(e.If.Block(), k, ns[0].Block()) {
							if G(loop).PathTo(blockStart(e.True), true, nil, func(i ssa.Instruction) bool { _, y := isCall(i, nHandle); return y }) == nil {
								ok2 = true
							}
						}
					}
				}
			}
		}
		r.Decide("path", "(*M.Proxy).handleLoop: a connection accepted after shutdown began is closed without being served", ok2, "Closing()==false dominates session creation; the true edge only returns", "a connection accepted during shutdown is served", loop.Pos())
		// Closing(): non-blocking receive on p.closing
		cf := r.Use("", "Proxy.Closing")
		ok3 := false
		if cf != nil {
			for _, in := range instrs(cf) {
				if sel, isSel := in.(*ssa.Select); isSel && !sel.Blocking && len(sel.States) == 1 {
					if ld, isLd := sel.States[0].Chan.(*ssa.UnOp); isLd && isFieldRef(ld.X, M, "Proxy", "closing") {
						ok3 = true
					}
				}
			}
		}
		r.Decide("lookup", "(*M.Proxy).Closing: non-blocking receive on p.closing", ok3, "select with default", "Closing() no longer polls the closing channel", pos)
	})

	r.Guard("C07.R4", "an exchange in flight when shutdown begins is answered with connection-close and ends the connection", func() {
		closeDecision(r, handle, "p.Closing()")
		// shutdown is sampled after the last modifier ran (a shutdown that begins inside the
		// response modifier must still mark the response close)
		g := G(handle)
		isClosing := func(i ssa.Instruction) bool {
			if _, ok := isCall(i, "(*M.Proxy).Closing"); ok {
				return true
			}
			// a path on which the response is already marked close needs no shutdown test
			if st, ok := i.(*ssa.Store); ok {
				if fa, ok := st.Addr.(*ssa.FieldAddr); ok && fieldObj(fa).Name() == "Close" && fa.X.Type().String() == "*net/http.Response" {
					b, isB := constBool(st.Val)
					return isB && b
				}
			}
			return false
		}
		isWrite := func(i ssa.Instruction) bool { _, ok := isCall(i, nResWrite); return ok }
		for _, c := range calls(handle) {
			if !isResMod(c) {
				continue
			}
			p := g.PathTo([]ssa.Instruction{c}, false, isClosing, isWrite)
			r.Paths++
			r.Decide("path", "(*M.Proxy).handle: shutdown sampled between the response modifier and the write", p == nil, "every path from ModifyResponse to the write tests Closing()", "the close decision is taken before the response modifier: a shutdown that starts inside it yields a response without connection-close", c.Pos())
		}
	})

	r.Guard("C07.R5", "an exchange whose request modifier has started is not cut by shutdown", func() {
		// its response is written and flushed on every normal exit (an unflushed response is
		// lost when shutdown closes the connection)
		responseWrittenRule(r, handle)
		g := G(handle)
		// no select and no receive on p.closing in the exchange functions
		for _, f := range []*ssa.Function{handle, r.Use("", "Proxy.handleConnectRequest"), r.W.Fn("", "Proxy.roundTrip")} {
			if f == nil {
				continue
			}
			n := 0
			for _, in := range instrs(f) {
				switch x := in.(type) {
				case *ssa.Select:
					n++
				case *ssa.UnOp:
					if x.Op == token.ARROW {
						if ld, ok := x.X.(*ssa.UnOp); ok && isFieldRef(ld.X, M, "Proxy", "closing") {
							n++
						}
					}
				}
			}
			r.Decide("callgraph", fnName(f)+": does not wait on p.closing", n == 0, "no select / receive on the closing channel", "the exchange can be interrupted by shutdown between modifier and response", f.Pos())
		}
		// nothing else in the core reacts to the closing channel: the request
		// reader (between exchanges) and the Closing() poll are the only
		// watchers. A watcher that, say, sets a deadline on the connection when
		// shutdown starts cuts the exchange that is in flight on it.
		watchers := 0
		for _, f := range w.Funcs("") {
			allowed := fnName(f) == "(*M.Proxy).readRequest" || fnName(f) == "(*M.Proxy).Closing"
			for _, in := range instrs(f) {
				var ch ssa.Value
				switch x := in.(type) {
				case *ssa.Select:
					for _, st := range x.States {
						if st.Dir == types.RecvOnly {
							if ld, ok := resolveFree(st.Chan).(*ssa.UnOp); ok && isFieldRef(ld.X, M, "Proxy", "closing") {
								ch = st.Chan
							}
						}
					}
				case *ssa.UnOp:
					if x.Op == token.ARROW {
						if ld, ok := resolveFree(x.X).(*ssa.UnOp); ok && isFieldRef(ld.X, M, "Proxy", "closing") {
							ch = x.X
						}
					}
				}
				if ch == nil {
					continue
				}
				watchers++
				r.Touch(f)
				r.Decide("callgraph", fnName(f)+" may watch p.closing", allowed, "the request reader / the Closing() poll", "a function other than the request reader waits for shutdown ("+fnName(f)+"): whatever it does when shutdown starts (deadline, close, cancel) hits exchanges whose request modifier has already run", in.Pos())
			}
		}
		// and Closing() is consulted only where a refusal harms nobody: by the accept
		// loop, by a new handler before it creates a session, and by the exchange
		// function for the close decision after the response modifier. A helper
		// between the two modifiers (round trip, connect) that refuses to work once
		// shutdown has begun turns the in-flight exchange into an error response.
		for _, f := range w.Funcs("") {
			for _, c := range calls(f, "(*M.Proxy).Closing") {
				okCaller := fnName(f) == "(*M.Proxy).Serve" || fnName(f) == "(*M.Proxy).handleLoop"
				if f == handle {
					// only after the response modifier has run
					for _, m := range calls(handle) {
						if isResMod(m) && g.Before(m, c) {
							okCaller = true
						}
					}
				}
				r.Decide("callgraph", "Closing() consulted in "+site(f, c), okCaller, "accept loop, new handler or the exchange function's close decision", "Closing() is consulted in "+fnName(f)+": a step of an exchange whose request modifier has already run can now refuse because shutdown started, and the client gets an error instead of its response", c.Pos())
			}
		}
		if watchers < 2 {
			r.Undecided("watchers of p.closing", fmt.Sprintf("UNRESOLVED: %d found, the reader's select and the Closing() poll expected", watchers))
		}
		// a Closing() test after the request modifier must not lead to an exit that skips the write
		var mod ssa.Instruction
		for _, c := range calls(handle) {
			if isReqMod(c) {
				mod = c
			}
		}
		if mod == nil {
			return
		}
		after := g.Reach([]ssa.Instruction{mod}, false, nil)
		for _, c := range plainCalls(handle, "(*M.Proxy).Closing") {
			if !after[c] {
				continue
			}
			for _, e := range branchesOn(c) {
				p := g.PathTo(blockStart(e.True), true, func(i ssa.Instruction) bool { _, y := isCall(i, nResWrite); return y }, func(i ssa.Instruction) bool {
					ret, ok := i.(*ssa.Return)
					if !ok {
						return false
					}
					k, _ := exitKind(handle, ret)
					return k == "normal"
				})
				r.Paths++
				r.Decide("path", "(*M.Proxy).handle: Closing() after the modifier never skips the response", p == nil, "every normal exit from the shutdown edge passes the response write", "shutdown makes an in-flight exchange return without writing its response", c.Pos())
			}
		}
	})
}

// returnBoolsFrom collects the constant boolean results of the returns
// reachable from b; ok is false when a reachable return's result is not constant.
func returnBoolsFrom(b *ssa.BasicBlock) (map[bool]bool, int, bool) {
	out := map[bool]bool{}
	n, ok := 0, true
	for _, ret := range returns(b.Parent()) {
		if !edgeReaches(b, ret.Block()) {
			continue
		}
		n++
		if v, isB := constBool(ret.Results[0]); isB {
			out[v] = true
		} else {
			ok = false
		}
	}
	return out, n, ok && n > 0
}

func edgeReaches(from, to *ssa.BasicBlock) bool {
	seen := map[*ssa.BasicBlock]bool{}
	var walk func(b *ssa.BasicBlock) bool
	walk = func(b *ssa.BasicBlock) bool {
		if b == to {
			return true
		}
		if seen[b] {
			return false
		}
		seen[b] = true
		for _, s := range b.Succs {
			if walk(s) {
				return true
			}
		}
		return false
	}
	return walk(from)
}

// readFromConnReaderRule: every request of a connection is parsed from the
// connection's one buffered reader (brw.Reader): a reader created per request
// reads ahead and keeps the bytes of the next pipelined request when it is
// discarded. Shared by C01.R5 and C07.R3.
func readFromConnReaderRule(r *Report, rd *ssa.Function) {
	// the buffered reader/writer parameter, wherever it is in the signature
	var brwP *ssa.Parameter
	for _, p := range rd.Params {
		if p.Type().String() == "*bufio.ReadWriter" {
			brwP = p
		}
	}
	if brwP == nil {
		r.Undecided("(*M.Proxy).readRequest: buffered reader parameter", "UNRESOLVED")
		return
	}
	okRd := true
	nrd := 0
	var fs []*ssa.Function
	fs = append(fs, rd)
	fs = append(fs, rd.AnonFuncs...)
	for _, f := range fs {
		for _, c := range calls(f, "net/http.ReadRequest") {
			nrd++
			direct := false
			for _, l := range resolveAll(c.Common().Args[0]) {
				if ld, ok := l.(*ssa.UnOp); ok && ld.Op == token.MUL {
					if fa, isFa := ld.X.(*ssa.FieldAddr); isFa && fieldObj(fa).Name() == "Reader" {
						if isParamVal(resolveFree(fa.X), brwP) || func() bool {
							bl, isL := resolveFree(fa.X).(*ssa.UnOp)
							if !isL {
								return false
							}
							a, isA := bl.X.(*ssa.Alloc)
							return isA && len(storesTo(a)) == 1 && isParamVal(storesTo(a)[0].Val, rd.Params[3])
						}() {
							direct = true
						}
					}
				}
			}
			if !direct {
				okRd = false
			}
		}
	}
	r.Decide("flow", "(*M.Proxy).readRequest: requests are parsed from the connection's own buffered reader", okRd && nrd > 0, "http.ReadRequest(brw.Reader)", "the request is parsed through a reader made for this call: what it read ahead (the next pipelined request) is lost when it is discarded", rd.Pos())
}
