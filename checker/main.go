package main

import (
	"encoding/json"
	"flag"
	"fmt"
	"os"
	"path/filepath"
	"runtime"
	"runtime/debug"
	"sort"
	"strconv"
	"strings"
	"time"
)

// props maps a property id to the function that applies its rules.
var props = map[string]func(r *Report){}

// floors[prop][rule] = number of obligations confirmed by hand on the pinned tree.
var floors = map[string]map[string]int{}

type multiFlag []string

func (m *multiFlag) String() string     { return strings.Join(*m, ",") }
func (m *multiFlag) Set(s string) error { *m = append(*m, s); return nil }

func main() {
	prop := flag.String("prop", "", "property id (C01..C20)")
	tier := flag.String("tier", "quick", "quick | thorough")
	repo := flag.String("repo", "/repo", "repository to analyse")
	verif := flag.String("verif", "/verif", "verification directory (evidence, known findings)")
	raw := flag.Bool("raw", false, "print non-holding obligations as JSON lines; write no evidence (used by the self-test)")
	list := flag.Bool("list", false, "print every obligation")
	selftest := flag.Bool("selftest", false, "also run the mutants/twins of this property")
	only := flag.String("only", "", "restrict the self-test to mutants whose name contains this")
	explain := flag.String("explain", "", "print a replay file in readable form")
	genInv := flag.Bool("geninventory", false, "print the inventory (functions, struct fields) of the analysed tree as JSON; written to checker/inventory.json when the rules are re-confirmed")
	flag.BoolVar(&noNormalize, "nonormalize", false, "analyse the source as it is (no rename-back, no inlining of new helpers)")
	var overlays multiFlag
	flag.Var(&overlays, "overlay", "repo-relative-file=replacement-file (self-test only)")
	flag.Parse()
	// The sandbox's kernel makes page faults from many threads very slow;
	// four workers and a lazier GC are both faster and lighter.
	if os.Getenv("GOMAXPROCS") == "" {
		runtime.GOMAXPROCS(4)
	}
	if os.Getenv("GOGC") == "" {
		debug.SetGCPercent(300)
	}
	if *genInv {
		noNormalize = true
		w, err := Load(*repo, "", "", nil, false)
		if err != nil {
			fmt.Println("TOOLING-ERROR:", err)
			os.Exit(2)
		}
		b, _ := json.MarshalIndent(buildInventory(w.Init), "", " ")
		fmt.Println(string(b))
		return
	}
	if *explain != "" {
		b, err := os.ReadFile(*explain)
		if err != nil {
			fmt.Println(err)
			os.Exit(2)
		}
		var o Ob
		json.Unmarshal(b, &o)
		fmt.Printf("property %s rule %s\nconstruct: %s\nverdict: %s\nreason: %s\npositions: %s\n", o.Property, o.Rule, o.Construct, o.Verdict, o.Reason, strings.Join(o.Positions, " "))
		for _, s := range o.Witness {
			fmt.Println("  ", s)
		}
		fmt.Printf("re-run: bin/check %s quick\n", o.Property)
		return
	}
	run, ok := props[*prop]
	if !ok {
		var ids []string
		for id := range props {
			ids = append(ids, id)
		}
		sort.Strings(ids)
		fmt.Printf("TOOLING-ERROR: unknown property %q; have %v\n", *prop, ids)
		os.Exit(2)
	}
	seed, _ := strconv.Atoi(os.Getenv("VERIF_SEED"))
	start := time.Now()
	overlay := map[string][]byte{}
	for _, o := range overlays {
		kv := strings.SplitN(o, "=", 2)
		b, err := os.ReadFile(kv[1])
		if err != nil {
			fmt.Printf("TOOLING-ERROR: overlay: %v\n", err)
			os.Exit(2)
		}
		overlay[filepath.Join(*repo, kv[0])] = b
	}
	type cfg struct{ goos, goarch string }
	cfgs := []cfg{{"", ""}}
	if *tier == "thorough" {
		cfgs = append(cfgs, cfg{"darwin", "arm64"}, cfg{"windows", "amd64"}, cfg{"linux", "386"})
	}
	var reps []*Report
	for _, c := range cfgs {
		w, err := Load(*repo, c.goos, c.goarch, overlay, *tier == "thorough" && c.goos == "")
		if err != nil {
			fmt.Printf("TOOLING-ERROR: load %s/%s: %v\n", c.goos, c.goarch, err)
			os.Exit(2)
		}
		r := NewReport(w, *prop)
		func() {
			defer func() {
				if e := recover(); e != nil {
					r.cur = *prop + ".R0"
					r.Undecided("checker", fmt.Sprintf("PANIC outside a rule: %v", e))
				}
			}()
			run(r)
		}()
		reps = append(reps, r)
	}
	if *list {
		for _, o := range reps[0].Obs {
			fmt.Printf("%-9s %-8s %-9s %s :: %s %s\n", o.Verdict, o.Rule, o.Kind, o.Construct, o.Reason, strings.Join(o.Positions, " "))
		}
	}
	if *raw {
		n := 0
		for _, rep := range reps {
			for _, o := range rep.Obs {
				if o.Verdict != Holds {
					b, _ := json.Marshal(o)
					fmt.Println(string(b))
					n++
				}
			}
		}
		// floors are still relevant for mutants that delete anchors
		per := map[string]int{}
		for _, o := range reps[0].Obs {
			per[o.Rule]++
		}
		for rule, fl := range floors[*prop] {
			fl = effFloor(fl)
			if per[rule] < fl {
				b, _ := json.Marshal(Ob{Property: *prop, Rule: rule, Construct: "instance-count floor", Verdict: Undecided, Reason: fmt.Sprintf("%d < floor %d", per[rule], fl)})
				fmt.Println(string(b))
			}
		}
		return
	}
	extra := map[string]interface{}{}
	if *tier == "thorough" || *selftest {
		baseline := map[string]bool{}
		for _, o := range reps[0].Obs {
			if o.Verdict != Holds {
				baseline[o.Rule+"|"+o.Construct] = true
			}
		}
		res := runSelfTest(*prop, *repo, baseline, *only)
		tally := map[string]int{}
		for _, m := range res {
			tally[m.Outcome]++
			fmt.Printf("SELFTEST %-8s %-7s %s %s\n", m.Outcome, m.Kind, m.Name, strings.Join(m.Reports, " | "))
		}
		extra["selftest"] = map[string]interface{}{"results": res, "tally": tally,
			"explanation": "mutants: single-instance edits applied as in-memory overlays on the current /repo source that the named rule must report; twins: behaviour-preserving rewrites that must produce no new report. Informational: never changes the exit status."}
	}
	os.Exit(finish(*verif, *prop, *tier, seed, reps, extra, start))
}
