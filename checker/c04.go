package main

import (
	"fmt"
	"go/token"
	"go/types"
	"strings"

	"golang.org/x/tools/go/ssa"
)

func init() {
	props["C04"] = c04
	floors["C04"] = map[string]int{"C04.R1": 3, "C04.R2": 4, "C04.R3": 4, "C04.R4": 5, "C04.R5": 1, "C04.R6": 2}
}

// tunnelCopier describes one `go copier(dst, src, done)` of the blind tunnel.
type tunnelCopier struct {
	Go       *ssa.Go
	Fn       *ssa.Function
	Dst, Src ssa.Value
	Done     ssa.Value
	Copy     *ssa.Call // the io.Copy inside the copier
}

func tunnelCopiers(hcr *ssa.Function) []tunnelCopier {
	var out []tunnelCopier
	for _, c := range calls(hcr) {
		g, ok := c.(*ssa.Go)
		if !ok {
			continue
		}
		fn := g.Call.StaticCallee()
		if fn == nil || fn.Blocks == nil {
			continue
		}
		cps := plainCalls(fn, "io.Copy")
		if len(cps) != 1 {
			continue
		}
		tc := tunnelCopier{Go: g, Fn: fn, Copy: cps[0]}
		// map the copier's io.Copy operands back to the go statement's arguments
		argOf := func(v ssa.Value) ssa.Value {
			for i, p := range fn.Params {
				if p == v && i < len(g.Call.Args) {
					return g.Call.Args[i]
				}
			}
			return nil
		}
		tc.Dst = argOf(cps[0].Call.Args[0])
		tc.Src = argOf(cps[0].Call.Args[1])
		for i, p := range fn.Params {
			if _, isChan := p.Type().Underlying().(*types.Chan); isChan && i < len(g.Call.Args) {
				tc.Done = g.Call.Args[i]
			}
		}
		out = append(out, tc)
	}
	return out
}

func unwrapIface(v ssa.Value) ssa.Value {
	for {
		switch x := v.(type) {
		case *ssa.MakeInterface:
			v = x.X
		case *ssa.ChangeInterface:
			v = x.X
		case *ssa.ChangeType:
			v = x.X
		default:
			return v
		}
	}
}

func c04(r *Report) {
	w := r.W
	r.Decline("byte transparency for arbitrary sizes and interleavings (io.Copy over library fast paths chosen by dynamic connection types)")
	r.Decline("timing of end-of-stream; only the existence of a propagation mechanism is decided (C04.R5)")
	r.Decline("bytes a downstream proxy sends together with its 200 (they stay in connect's private bufio.Reader) are not decided")
	hcr := r.Use("", "Proxy.handleConnectRequest")
	conn := r.Use("", "Proxy.connect")
	if hcr == nil || conn == nil {
		return
	}
	g := G(hcr)
	cops := tunnelCopiers(hcr)
	brw := hcr.Params[4]
	cconnCalls := plainCalls(hcr, "(*M.Proxy).connect")
	if len(cconnCalls) != 1 {
		r.Rule("C04.R1", "")
		r.Undecided("(*M.Proxy).handleConnectRequest: connect", "UNRESOLVED: expected one connect call")
		return
	}
	cconn := resultOf(cconnCalls[0], 1)
	derives := func(v ssa.Value, root ssa.Value) bool {
		return anyIn(w.backSlice(v, flowOpt{Through: map[string]bool{"bufio.NewReader": true, "bufio.NewWriter": true, "bufio.NewReadWriter": true}}), func(x ssa.Value) bool { return x == root })
	}

	r.Guard("C04.R1", "bytes that arrived with the CONNECT request are relayed: the client-to-target copy reads the session's buffered reader, after the 200 was flushed", func() {
		// what follows the request head in the client's buffer belongs to the tunnel (or to the
		// next request): the request reader takes nothing out of the buffer besides the request
		// http.ReadRequest parses
		if rd := r.Use("", "Proxy.readRequest"); rd != nil {
			consumers := map[string]bool{"Discard": true, "Read": true, "ReadByte": true, "ReadBytes": true, "ReadLine": true, "ReadRune": true, "ReadSlice": true, "ReadString": true, "WriteTo": true, "Reset": true}
			bad := ""
			var pos token.Pos = rd.Pos()
			for _, f := range append([]*ssa.Function{rd}, rd.AnonFuncs...) {
				for _, c := range calls(f) {
					sc := c.Common().StaticCallee()
					if sc == nil || sc.Signature.Recv() == nil || sc.Signature.Recv().Type().String() != "*bufio.Reader" {
						continue
					}
					if consumers[sc.Name()] {
						bad = sc.Name()
						pos = c.Pos()
					}
				}
			}
			r.Decide("callgraph", "(*M.Proxy).readRequest takes nothing but the request out of the client's buffer", bad == "", "no consuming bufio.Reader call besides http.ReadRequest", "the request reader consumes bytes after the request head (bufio.Reader."+bad+"): when they are the first bytes of a CONNECT tunnel (or of a pipelined request) they never reach their destination", pos)
		}
		if len(cops) != 2 {
			r.Fail("path", "(*M.Proxy).handleConnectRequest: two tunnel copiers", fmt.Sprintf("found %d goroutines running a single io.Copy, want 2", len(cops)), nil, hcr.Pos())
			return
		}
		nBrw, nRawClient := 0, 0
		for _, c := range cops {
			if c.Src != nil && derives(c.Src, brw) {
				nBrw++
			}
			if c.Src != nil && isParamVal(unwrapIface(c.Src), hcr.Params[5]) {
				nRawClient++
			}
		}
		r.Decide("flow", "(*M.Proxy).handleConnectRequest: client-to-target copier reads brw", nBrw == 1 && nRawClient == 0, "exactly one copier reads the buffered client reader; none reads the raw client conn", fmt.Sprintf("%d copiers read brw, %d read the raw client connection: bytes buffered with the CONNECT head are lost", nBrw, nRawClient), cops[0].Go.Pos())
		nT := 0
		for _, c := range cops {
			if c.Src != nil && derives(c.Src, cconn) && c.Dst != nil && (derives(c.Dst, hcr.Params[5]) || derives(c.Dst, brw)) {
				nT++
			}
		}
		r.Decide("flow", "(*M.Proxy).handleConnectRequest: target-to-client copier reads the dialled connection", nT == 1, "one copier reads cconn and writes to the client", "no copier relays the target connection to the client", cops[1].Go.Pos())
		// the 200 is flushed before the copiers start
		ok := true
		for _, c := range cops {
			fl := false
			for _, f := range plainCalls(hcr, nFlush) {
				if g.Before(f, c.Go) {
					fl = true
				}
			}
			if !fl {
				ok = false
			}
		}
		r.Decide("path", "(*M.Proxy).handleConnectRequest: response flushed before the tunnel starts", ok, "a Flush dominates both go statements", "the tunnel starts before the CONNECT response is flushed", cops[0].Go.Pos())
	})

	r.Guard("C04.R2", "both copiers are joined before the tunnel's connections are released", func() {
		if len(cops) == 0 {
			r.Undecided("tunnel copiers", "UNRESOLVED")
			return
		}
		done := cops[0].Done
		mk, _ := done.(*ssa.MakeChan)
		if cv, ok := done.(*ssa.ChangeType); ok {
			mk, _ = cv.X.(*ssa.MakeChan)
		}
		if mk == nil {
			r.Undecided("done channel", "UNRESOLVED: the copiers' done channel is not a local make(chan)")
			return
		}
		size, _ := constInt(mk.Size)
		r.Decide("lookup", "(*M.Proxy).handleConnectRequest: done channel capacity >= copiers", int(size) >= len(cops), fmt.Sprintf("capacity %d for %d senders", size, len(cops)), fmt.Sprintf("capacity %d < %d senders: a copier can block forever on its completion signal", size, len(cops)), mk.Pos())
		isRecv := func(i ssa.Instruction) bool {
			u, ok := i.(*ssa.UnOp)
			return ok && u.Op == token.ARROW && (u.X == ssa.Value(mk) || unwrapIface(u.X) == ssa.Value(mk))
		}
		rc := countBefore(hcr, isRecv)
		last := cops[len(cops)-1].Go
		for k, ret := range returns(hcr) {
			if !g.Reach([]ssa.Instruction{last}, false, nil)[ret] {
				continue
			}
			r.Paths++
			n := rc[ret]
			r.Decide("path", fmt.Sprintf("(*M.Proxy).handleConnectRequest: receives before tunnel exit #%d", k+1), n.Min >= len(cops), fmt.Sprintf("%v receives for %d copiers", n, len(cops)), fmt.Sprintf("only %v receives on the done channel before returning with %d copiers running: a connection is closed under a live copier", n, len(cops)), ret.Pos())
		}
		// connections are not closed under a live copier
		{
			var recvs []ssa.Instruction
			for _, in := range instrs(hcr) {
				if isRecv(in) {
					recvs = append(recvs, in)
				}
			}
			bad := false
			var pos token.Pos = hcr.Pos()
			if len(recvs) > 0 {
				lastRecv := recvs[len(recvs)-1]
				for i := range g.Reach([]ssa.Instruction{cops[0].Go}, false, func(i ssa.Instruction) bool { return i == lastRecv }) {
					if cc, ok := i.(*ssa.Call); ok && (calleeName(cc) == "(net.Conn).Close" || calleeName(cc) == "(io.Closer).Close") {
						bad = true
						pos = cc.Pos()
					}
				}
			}
			r.Decide("path", "(*M.Proxy).handleConnectRequest: no connection is closed between the start of the copiers and the last join", !bad, "closes happen only after both copiers were joined (deferred)", "a tunnel connection is closed while a copier may still be relaying the other direction: bytes sent after one side's half-close are lost", pos)
		}
		for _, c := range cops {
			isSend := func(i ssa.Instruction) bool {
				s, ok := i.(*ssa.Send)
				if !ok {
					return false
				}
				// only the channel handed in by the joiner counts, not a channel local to the copier
				switch s.Chan.(type) {
				case *ssa.Parameter, *ssa.FreeVar:
					return true
				}
				return false
			}
			sc := countBefore(c.Fn, isSend)
			// a send in a deferred closure registered in the entry block happens once on every exit
			deferred := 0
			for _, ci := range calls(c.Fn) {
				d, isD := ci.(*ssa.Defer)
				if !isD || d.Block() != c.Fn.Blocks[0] {
					continue
				}
				if mc, isMC := d.Call.Value.(*ssa.MakeClosure); isMC {
					for _, in := range instrs(mc.Fn.(*ssa.Function)) {
						if sd, isS := in.(*ssa.Send); isS {
							if _, fromParam := resolveFree(sd.Chan).(*ssa.Parameter); fromParam {
								deferred++
							}
						}
					}
				}
			}
			ok := true
			for _, ret := range returns(c.Fn) {
				n := sc[ret]
				n.Min += deferred
				n.Max += deferred
				if n != (cnt{1, 1}) {
					ok = false
				}
			}
			r.Decide("path", fmt.Sprintf("%s: signals completion exactly once on every path", fnName(c.Fn)), ok, "one send before every return", "a copier can return without signalling (or signal twice): the join blocks forever or releases early", c.Fn.Pos())
			break // both goroutines share one function today; a second function would be another obligation
		}
	})

	r.Guard("C04.R3", "the upstream connection and response body are released on every exit", func() {
		if h := r.Use("", "Proxy.handle"); h != nil {
			requestBodyClosedOnlyByDefer(r, h)
		}
		setterStoresRule(r, "", "Proxy", "SetDial", "dial", "tunnels are dialled with the default dialler whatever the user configures")
		setterStoresRule(r, "", "Proxy", "SetDownstreamProxy", "proxyURL", "CONNECT goes to the target directly although a downstream proxy was configured")
		errorsReturnedRule(r, conn, false)

		// the connection connect() hands to the tunnel carries no leftover time limit
		// and no abortive-close setting: a deadline armed for the CONNECT handshake is
		// disarmed, for reading and for writing, on every path to the successful
		// return; SO_LINGER is never set (a zero linger turns the close after the last
		// byte into a reset that discards bytes the peer has not read yet)
		for _, f := range w.Funcs("") {
			for _, c := range calls(f) {
				cc := c.Common()
				if cc.IsInvoke() {
					continue
				}
				if n := calleeName(c); strings.HasSuffix(n, ").SetLinger") {
					r.Fail("callgraph", fnName(f)+": "+n, "the core sets SO_LINGER on a connection: closing it after a half-close resets the connection and the tail of the data in flight is lost", nil, c.Pos())
				}
			}
		}
		gconn := G(conn)
		zeroTime := func(v ssa.Value) bool {
			switch x := v.(type) {
			case *ssa.Const:
				return x.Value == nil
			case *ssa.UnOp:
				if a, ok := x.X.(*ssa.Alloc); ok && x.Op == token.MUL {
					return len(storesTo(a)) == 0 && !allocEscapes(a)
				}
			}
			return false
		}
		for _, c := range calls(conn) {
			cc := c.Common()
			if !cc.IsInvoke() || len(cc.Args) != 1 || zeroTime(cc.Args[0]) {
				continue
			}
			var need []string
			switch cc.Method.Name() {
			case "SetDeadline":
				need = []string{"Read", "Write"}
			case "SetReadDeadline":
				need = []string{"Read"}
			case "SetWriteDeadline":
				need = []string{"Write"}
			default:
				continue
			}
			for _, side := range need {
				clears := func(i ssa.Instruction) bool {
					d, ok := i.(ssa.CallInstruction)
					if !ok || !d.Common().IsInvoke() || len(d.Common().Args) != 1 || !zeroTime(d.Common().Args[0]) {
						return false
					}
					m := d.Common().Method.Name()
					return m == "SetDeadline" || m == "Set"+side+"Deadline"
				}
				var wit []ssa.Instruction
				for _, ret := range returns(conn) {
					// successful returns: the error result is nil
					okRet := false
					for _, v := range retVals(ret, 2) {
						for _, l := range resolveAll(v) {
							if isNilConst(l) {
								okRet = true
							}
						}
					}
					if !okRet {
						continue
					}
					if p := gconn.PathTo([]ssa.Instruction{c}, false, clears, func(i ssa.Instruction) bool { return i == ssa.Instruction(ret) }); p != nil {
						wit = p
					}
				}
				r.Paths++
				if wit != nil {
					r.Fail("path", fmt.Sprintf("(*M.Proxy).connect: %s deadline armed by %s is disarmed before the connection is handed over", strings.ToLower(side), site(conn, c)), "the "+strings.ToLower(side)+" deadline set for the CONNECT handshake is still armed on the connection the tunnel gets: some seconds into the tunnel every "+strings.ToLower(side)+" fails, and the peer is given a false end of stream", witness(w, wit), c.Pos())
				} else {
					r.Hold("path", fmt.Sprintf("(*M.Proxy).connect: %s deadline armed by %s is disarmed before the connection is handed over", strings.ToLower(side), site(conn, c)), "a zero deadline is set on every path to the successful return", c.Pos())
				}
			}
		}

		tests := errTests(cconnCalls[0])
		if len(tests) != 1 {
			r.Fail("path", "(*M.Proxy).handleConnectRequest: connect error tested", "connect's error is not tested exactly once", nil, cconnCalls[0].Pos())
			return
		}
		resv := resultOf(cconnCalls[0], 0)
		for _, want := range []struct {
			name string
			is   func(d *ssa.Defer) bool
		}{
			{"defer cconn.Close()", func(d *ssa.Defer) bool {
				return calleeName(d) == "(net.Conn).Close" && d.Call.Value == cconn
			}},
			{"defer res.Body.Close()", func(d *ssa.Defer) bool {
				if calleeName(d) != "(io.Closer).Close" {
					return false
				}
				ld, ok := d.Call.Value.(*ssa.UnOp)
				if !ok {
					return false
				}
				fa, ok := ld.X.(*ssa.FieldAddr)
				return ok && fa.X == resv && fieldObj(fa).Name() == "Body"
			}},
		} {
			var def *ssa.Defer
			for _, c := range calls(hcr) {
				if d, ok := c.(*ssa.Defer); ok && want.is(d) {
					def = d
				}
			}
			key := "(*M.Proxy).handleConnectRequest: " + want.name
			if def == nil {
				r.Fail("path", key, "the deferred release is missing", nil, cconnCalls[0].Pos())
				continue
			}
			p := g.PathTo(blockStart(tests[0].Nil), true, func(i ssa.Instruction) bool { return i == ssa.Instruction(def) }, func(i ssa.Instruction) bool {
				if isExit(i) {
					return true
				}
				_, isGo := i.(*ssa.Go)
				return isGo || isResMod(i)
			})
			r.Paths++
			r.Decide("path", key, p == nil, "registered before any exit, modifier call or copier start", "an exit is reachable after a successful connect before the release is registered", def.Pos())
		}
		// in connect: a dialled connection is returned or closed on every path
		gc := G(conn)
		for _, in := range instrs(conn) {
			c, ok := in.(*ssa.Call)
			if !ok || c.Call.IsInvoke() || c.Call.StaticCallee() != nil {
				continue
			}
			// dynamic call through the p.dial field
			ld, ok := c.Call.Value.(*ssa.UnOp)
			if !ok || !isFieldRef(ld.X, M, "Proxy", "dial") {
				continue
			}
			dialled := resultOf(c, 0)
			ts := errTests(c)
			key := fmt.Sprintf("(*M.Proxy).connect: dialled connection #%d returned or closed", ordinalDyn(conn, c))
			if len(ts) != 1 || dialled == nil {
				r.Fail("path", key, "dial error not tested exactly once", nil, c.Pos())
				continue
			}
			isClose := func(i ssa.Instruction) bool {
				cc, ok := isCall(i, "(net.Conn).Close")
				return ok && cc.Common().Value == dialled
			}
			bad := false
			var wit []string
			for _, ret := range returns(conn) {
				returnsIt := false
				for _, v := range retVals(ret, 1) {
					for _, l := range resolveAll(v) {
						if l == dialled {
							returnsIt = true
						}
						// handed back inside a wrapper (e.g. one that replays buffered bytes)
						if mi, isMI := l.(*ssa.MakeInterface); isMI {
							if a, isA := mi.X.(*ssa.Alloc); isA {
								for _, sts := range litFieldStores(a) {
									for _, st := range sts {
										if st.Val == dialled {
											returnsIt = true
											hasCW := types.NewMethodSet(a.Type()).Lookup(conn.Pkg.Pkg, "CloseWrite") != nil
											r.Decide("sibling", fmt.Sprintf("(*M.Proxy).connect: the wrapper around dialled connection #%d can still half-close", ordinalDyn(conn, c)), hasCW, "the wrapper type has a CloseWrite method", fmt.Sprintf("the connection is handed to the tunnel inside %s, which has no CloseWrite: the tunnel can no longer pass on one direction's end of stream without closing the other, so a peer that half-closes loses the answer", short(a.Type().String())), ret.Pos())
										}
									}
								}
							}
						}
					}
				}
				if returnsIt {
					continue
				}
				if p := gc.PathTo(blockStart(ts[0].Nil), true, isClose, func(i ssa.Instruction) bool { return i == ssa.Instruction(ret) }); p != nil {
					bad = true
					wit = witness(w, p)
				}
			}
			r.Paths++
			if bad {
				r.Fail("path", key, "a return after a successful dial neither returns nor closes the connection (leak)", wit, c.Pos())
			} else {
				r.Hold("path", key, "every return either hands the connection to the caller or passes conn.Close()", c.Pos())
			}
		}
	})

	r.Guard("C04.R4", "a failed CONNECT yields a written and flushed 502 with a Warning that passed the response modifier", func() {
		synth502(r, hcr, cconnCalls[0], 0, "connect")
		if wf := r.Use("proxyutil", "Warning"); wf != nil {
			warningQuoted(r, wf)
		}
		tests := errTests(cconnCalls[0])
		if len(tests) != 1 {
			return
		}
		isW := func(i ssa.Instruction) bool { _, ok := isCall(i, nResWrite); return ok }
		isF := func(i ssa.Instruction) bool { _, ok := isCall(i, nFlush); return ok }
		for k, ret := range returns(hcr) {
			if !edgeDominatesNonNil(tests[0], ret.Block()) {
				continue
			}
			if kind, _ := exitKind(hcr, ret); kind == "hijack" {
				continue
			}
			pw := g.PathTo(blockStart(tests[0].NonNil), true, isW, func(i ssa.Instruction) bool { return i == ssa.Instruction(ret) })
			pf := g.PathTo(blockStart(tests[0].NonNil), true, isF, func(i ssa.Instruction) bool { return i == ssa.Instruction(ret) })
			r.Paths += 2
			r.Decide("path", fmt.Sprintf("(*M.Proxy).handleConnectRequest: 502 written and flushed before failure exit #%d", k+1), pw == nil && pf == nil, "Write and Flush on every path", "a failed CONNECT can return without writing/flushing the 502", ret.Pos())
			connectFailureReturn(r, hcr, cconnCalls[0], ret, k)
		}
	})

	r.Guard("C04.R5", "one direction ending can end the other (end-of-stream propagation exists)", func() {
		tunnelEOSRule(r, hcr, cops)
		// ... by end-of-stream, not by a timer: no deadline is armed on a tunnel end
		if lp := r.Use("", "Proxy.handleLoop"); lp != nil {
			deadlineSitesRule(r, lp)
		}
		// ... also through a traffic-shaped listener: closing the shaped client connection (how one
		// side's end is passed on) does not wait for the opposite copy direction
		shapedCloseNeverWaitsRule(r)
		bucketDrainRule(r)
		// a listener-wide bucket is never locked across the copy of a tunnel direction: the callback
		// of FillThrottleLocked does not run io.Copy / io.CopyN (one tunnel would hold the lock for
		// its whole life and every other connection's bytes and end-of-stream would wait for it)
		nl := 0
		for _, f := range r.W.Funcs("trafficshape") {
			for _, c := range plainCalls(f, "(*M/trafficshape.Bucket).FillThrottleLocked") {
				nl++
				bad := false
				for v := range r.W.backSlice(c.Call.Args[1], flowOpt{}) {
					if mc, isMc := v.(*ssa.MakeClosure); isMc {
						if cf, isF := mc.Fn.(*ssa.Function); isF && len(calls(cf, "io.CopyN", "io.Copy", "io.CopyBuffer")) > 0 {
							bad = true
						}
					}
				}
				r.Decide("lockset", fnName(f)+": "+site(f, c)+" holds the bucket's lock for one bounded write only", !bad, "the callback performs a single Read/Write", "the bucket's lock is held across io.Copy / io.CopyN, i.e. for as long as the peer keeps sending: on the listener-wide bucket every other connection stalls behind one tunnel", c.Pos())
			}
		}
		r.Decide("lockset", "shaped writes use the locked fill", nl >= 1, fmt.Sprintf("%d FillThrottleLocked site(s)", nl), "no FillThrottleLocked call found", token.NoPos)
	})

	r.Guard("C04.R1", "a proxy without MITM configured never takes the MITM branch: no typed-nil interface field", func() {
		typedNilFieldRule(r, "")
	})

	r.Guard("C04.R6", "no unflushed buffer sits between the two sockets", func() {
		for k, c := range cops {
			key := fmt.Sprintf("(*M.Proxy).handleConnectRequest: tunnel copier #%d destination", k+1)
			if c.Dst == nil {
				r.Undecided(key, "cannot map the copier's destination to an argument")
				continue
			}
			t := unwrapIface(c.Dst).Type().String()
			buffered := t == "*bufio.Writer" || t == "*bufio.ReadWriter"
			r.Decide("lookup", key, !buffered, "destination type "+t, "the copy writes into a "+t+" that is not flushed per write: bytes are delivered only when the buffer fills", c.Go.Pos())
		}
	})
}

// tunnelEOSRule: a finished copy direction passes the end of stream on, however
// the copy ended (shared by C04.R5 and C03.R5).
func tunnelEOSRule(r *Report, hcr *ssa.Function, cops []tunnelCopier) {
	// the copier tells a destination that can half-close by its CloseWrite method: a module type
	// that offers CloseWrite must really half-close (a wrapper that answers nil when the connection
	// it wraps cannot do it makes the copier skip the full close, and the peer never sees the end)
	for _, f := range r.W.Funcs() {
		if f.Name() != "CloseWrite" || f.Signature.Recv() == nil || f.Blocks == nil {
			continue
		}
		r.Touch(f)
		g := G(f)
		isCW := func(i ssa.Instruction) bool {
			c, ok := i.(ssa.CallInstruction)
			if !ok {
				return false
			}
			if c.Common().IsInvoke() {
				return c.Common().Method.Name() == "CloseWrite"
			}
			sc := c.Common().StaticCallee()
			return sc != nil && sc.Name() == "CloseWrite" && sc != f
		}
		bad := g.PathTo([]ssa.Instruction{g.Entry()}, true, isCW, func(i ssa.Instruction) bool {
			ret, isR := i.(*ssa.Return)
			if !isR || len(ret.Results) == 0 {
				return isR
			}
			for _, v := range retVals(ret, len(ret.Results)-1) {
				for _, l := range resolveAll(v) {
					if isNilConst(l) {
						return true
					}
				}
			}
			return false
		})
		r.Decide("path", fnName(f)+": reports success only after half-closing the connection it wraps", bad == nil, "every successful return follows a CloseWrite of the wrapped connection", "the method can answer nil without having half-closed anything (the wrapped connection has no CloseWrite): the tunnel copier takes that for a half-close and skips the full close, so the peer never sees end-of-stream", f.Pos())
	}
	w := r.W
	g := G(hcr)
	wake := map[string]bool{"(net.Conn).Close": true, "(*net.TCPConn).CloseWrite": true, "(net.Conn).SetReadDeadline": true, "(net.Conn).SetDeadline": true, "(*crypto/tls.Conn).CloseWrite": true}
	found := false
	for _, c := range cops {
		gf := G(c.Fn)
		after := gf.Reach([]ssa.Instruction{c.Copy}, false, nil)
		for i := range after {
			if cc, ok := i.(*ssa.Call); ok && (wake[calleeName(cc)] || calleeName(cc) == "CloseWrite") {
				found = true
			}
			// interface assertion to a CloseWrite-capable type followed by invoke
			if cc, ok := i.(*ssa.Call); ok && cc.Call.IsInvoke() && (cc.Call.Method.Name() == "CloseWrite" || cc.Call.Method.Name() == "Close" || cc.Call.Method.Name() == "SetReadDeadline" || cc.Call.Method.Name() == "SetDeadline") {
				found = true
			}
		}
	}
	// or between the first and the last receive in the handler
	var recvs []ssa.Instruction
	for _, in := range instrs(hcr) {
		if u, ok := in.(*ssa.UnOp); ok && u.Op == token.ARROW {
			recvs = append(recvs, u)
		}
	}
	if len(recvs) >= 2 {
		between := g.Reach([]ssa.Instruction{recvs[0]}, false, func(i ssa.Instruction) bool { return i == recvs[len(recvs)-1] })
		for i := range between {
			if cc, ok := i.(*ssa.Call); ok && (wake[calleeName(cc)] || (cc.Call.IsInvoke() && (cc.Call.Method.Name() == "CloseWrite" || cc.Call.Method.Name() == "Close" || cc.Call.Method.Name() == "SetDeadline" || cc.Call.Method.Name() == "SetReadDeadline"))) {
				found = true
			}
		}
	}
	// and it does so however the copy ended (a read error such as a reset as well as a clean EOF)
	if found {
		for _, c := range cops {
			gf := G(c.Fn)
			isWake := func(i ssa.Instruction) bool {
				cc, ok := i.(*ssa.Call)
				if !ok {
					return false
				}
				if wake[calleeName(cc)] {
					return true
				}
				return cc.Call.IsInvoke() && (cc.Call.Method.Name() == "CloseWrite" || cc.Call.Method.Name() == "Close" || cc.Call.Method.Name() == "SetDeadline" || cc.Call.Method.Name() == "SetReadDeadline")
			}
			// an assertion of the destination to an interface that every destination's static
			// type implements cannot fail: its not-ok edge is infeasible
			skip := func(b *ssa.BasicBlock, k int) bool {
				if k != 1 || len(b.Instrs) == 0 {
					return false
				}
				iff, ok := b.Instrs[len(b.Instrs)-1].(*ssa.If)
				if !ok {
					return false
				}
				ex, ok := iff.Cond.(*ssa.Extract)
				if !ok || ex.Index != 1 {
					return false
				}
				ta, ok := ex.Tuple.(*ssa.TypeAssert)
				if !ok {
					return false
				}
				iface, ok := ta.AssertedType.Underlying().(*types.Interface)
				if !ok {
					return false
				}
				for _, cc := range cops {
					if cc.Dst == nil || !types.Implements(unwrapIface(cc.Dst).Type(), iface) {
						return false
					}
				}
				return true
			}
			if p := gf.PathToE([]ssa.Instruction{c.Copy}, false, isWake, isReturn, skip); p != nil {
				found = false
				r.Note("C04.R5: a path from io.Copy to the copier's return skips the half-close: %v", witness(w, p))
			}
			break
		}
	}
	// a destination that can half-close is half-closed, not closed: the full close is the
	// fallback for destinations without CloseWrite only (it also ends the opposite direction,
	// whose bytes the peer then never receives)
	for _, c := range cops {
		var ta *ssa.TypeAssert
		for _, in := range instrs(c.Fn) {
			x, ok := in.(*ssa.TypeAssert)
			if !ok || !x.CommaOk {
				continue
			}
			if iface, isI := x.AssertedType.Underlying().(*types.Interface); isI {
				for k := 0; k < iface.NumMethods(); k++ {
					if iface.Method(k).Name() == "CloseWrite" {
						ta = x
					}
				}
			}
		}
		if ta == nil {
			continue
		}
		okv := extractOf(ta, 1)
		half, full := false, true
		for _, in := range instrs(c.Fn) {
			cc, isC := in.(*ssa.Call)
			if !isC || !cc.Call.IsInvoke() {
				continue
			}
			switch cc.Call.Method.Name() {
			case "CloseWrite":
				for _, e := range branchesOn(okv) {
					if blockDominates(e.True, cc.Block()) {
						half = true
					}
				}
			case "Close":
				onNotOk := false
				for _, e := range branchesOn(okv) {
					if blockDominates(e.False, cc.Block()) {
						onNotOk = true
					}
				}
				if !onNotOk {
					full = false
				}
			}
		}
		r.Decide("path", fnName(c.Fn)+": a destination that can half-close is half-closed", okv != nil && half && full, "CloseWrite on the ok edge of the assertion, Close only on the other edge", "the copier closes the destination outright although it supports CloseWrite (or never calls CloseWrite): the opposite direction of the tunnel dies with it and the peer that half-closed after sending never receives the answer", ta.Pos())
		break
	}
	// every copier reports that it is done, however its copy ended: the handler waits for both
	for _, c := range cops {
		gf := G(c.Fn)
		isDone := func(i ssa.Instruction) bool {
			s, ok := i.(*ssa.Send)
			return ok && len(c.Fn.Params) > 2 && (s.Chan == ssa.Value(c.Fn.Params[2]) || isParamVal(s.Chan, c.Fn.Params[2]))
		}
		// a deferred closure that sends on the done channel (registered on every path) does as well
		isDeferredDone := func(i ssa.Instruction) bool {
			d, ok := i.(*ssa.Defer)
			if !ok {
				return false
			}
			var fn *ssa.Function
			switch x := d.Call.Value.(type) {
			case *ssa.MakeClosure:
				fn, _ = x.Fn.(*ssa.Function)
			case *ssa.Function:
				fn = x
			}
			if fn == nil || len(c.Fn.Params) <= 2 {
				return false
			}
			for _, in := range instrs(fn) {
				if s, isS := in.(*ssa.Send); isS {
					ch := s.Chan
					if ld, isLd := ch.(*ssa.UnOp); isLd {
						ch = ld.X
					}
					if fv, isFv := ch.(*ssa.FreeVar); isFv {
						if rv := resolveFree(fv); rv != nil && (rv == ssa.Value(c.Fn.Params[2]) || isParamVal(rv, c.Fn.Params[2]) || pathOf(rv) == c.Fn.Params[2].Name()) {
							return true
						}
					}
				}
			}
			return false
		}
		p := gf.PathTo([]ssa.Instruction{gf.Entry()}, true, func(i ssa.Instruction) bool { return isDone(i) || isDeferredDone(i) }, isReturn)
		r.Decide("path", fnName(c.Fn)+": the copier signals its end on every path", p == nil, "a send on the done channel lies on every path to the return", "a copier can return without signalling (an early return on a copy error): the handler waits for it for ever, the connection is never released and Proxy.Close never returns", c.Fn.Pos())
		break
	}
	r.Decide("path", "(*M.Proxy).handleConnectRequest: a finished copier wakes the opposite direction", found, "a close / half-close / deadline call follows the end of a copy before the join completes", "nothing between the end of one copy and the join can end the other copy: a half-closed tunnel stalls until the idle deadline", hcr.Pos())
}

func ordinalDyn(f *ssa.Function, c *ssa.Call) int {
	k := 0
	for _, in := range instrs(f) {
		x, ok := in.(*ssa.Call)
		if !ok || x.Call.IsInvoke() || x.Call.StaticCallee() != nil {
			continue
		}
		if _, isB := x.Call.Value.(*ssa.Builtin); isB {
			continue
		}
		k++
		if x == c {
			return k
		}
	}
	return 0
}

// connectFailureReturn: after the 502 for a failed CONNECT the connection goes
// on serving; the exit hands the connection loop the outcome of writing the
// 502, never the dial error itself (a dial timeout is "closeable" and would
// end a connection that can still be used). Shared by C04.R4 and C03.R8.
func connectFailureReturn(r *Report, hcr *ssa.Function, connect *ssa.Call, ret *ssa.Return, k int) {
	dialErr := false
	for _, v := range retVals(ret, 0) {
		for _, l := range resolveAll(v) {
			for _, e := range errOf(connect) {
				if l == e {
					dialErr = true
				}
			}
		}
	}
	r.Decide("flow", fmt.Sprintf("(*M.Proxy).handleConnectRequest: failure exit #%d does not return the connect error", k+1), !dialErr, "returns the flush outcome / nil", "the failed-CONNECT exit returns the dial error to the connection loop: when that error is closeable (a timeout) the client's connection is closed right after the 502 instead of serving further requests", ret.Pos())
}

// allocEscapes: the address of a local is passed on (so it may be written
// elsewhere); used to recognise a zero value that nothing fills in.
func allocEscapes(a *ssa.Alloc) bool {
	if a.Referrers() == nil {
		return false
	}
	for _, u := range *a.Referrers() {
		switch x := u.(type) {
		case *ssa.UnOp:
		case *ssa.Store:
			if x.Val == ssa.Value(a) {
				return true
			}
		case *ssa.DebugRef:
		default:
			return true
		}
	}
	return false
}
