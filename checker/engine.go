package main

// Engine: loading of /repo, obligations, verdicts, known findings, evidence.
// See /verif/DESIGN.md section 2.

import (
	"encoding/json"
	"fmt"
	"go/ast"
	"go/token"
	"go/types"
	"os"
	"path/filepath"
	"runtime/debug"
	"sort"
	"strings"
	"time"

	"golang.org/x/tools/go/callgraph"
	"golang.org/x/tools/go/callgraph/cha"
	"golang.org/x/tools/go/callgraph/vta"
	"golang.org/x/tools/go/packages"
	"golang.org/x/tools/go/ssa"
	"golang.org/x/tools/go/ssa/ssautil"
)

// M is the module path of the code under analysis.
const M = "github.com/google/martian/v3"

// World is one loaded, type-checked and SSA-built configuration of /repo.
type World struct {
	Dir       string
	Fset      *token.FileSet
	Pkgs      map[string]*packages.Package // module packages by import path
	Init      []*packages.Package
	Prog      *ssa.Program
	SPkg      map[string]*ssa.Package
	Config    string // e.g. linux/amd64
	cg        *callgraph.Graph
	fns       []*ssa.Function // all source functions of module packages (incl. anonymous)
	declOf    map[*ssa.Function]*ast.FuncDecl
	full      bool
	NormNotes []string
}

// noNormalize disables the source normalisation (flag -nonormalize).
var noNormalize bool

func hasErrors(pkgs []*packages.Package) bool {
	bad := false
	packages.Visit(pkgs, nil, func(p *packages.Package) {
		if len(p.Errors) > 0 {
			bad = true
		}
	})
	return bad
}

func firstError(pkgs []*packages.Package, err error) string {
	if err != nil {
		return err.Error()
	}
	msg := "?"
	packages.Visit(pkgs, nil, func(p *packages.Package) {
		if len(p.Errors) > 0 && msg == "?" {
			msg = p.Errors[0].Error()
		}
	})
	return msg
}

// Load type-checks every package of the module rooted at dir. overlay maps
// absolute file names to replacement contents (used by the self-test only).
func Load(dir string, goos, goarch string, overlay map[string][]byte, full bool) (*World, error) {
	if os.Getenv("GOWORK") != "" && os.Getenv("GOWORK") != "off" {
		return nil, fmt.Errorf("GOWORK is set (%s); refusing to analyse", os.Getenv("GOWORK"))
	}
	env := append(os.Environ(), "GOFLAGS=-mod=mod", "GOPROXY=off", "GOSUMDB=off", "GOWORK=off", "GOTOOLCHAIN=local")
	cfgname := "default"
	if goos != "" {
		env = append(env, "GOOS="+goos, "GOARCH="+goarch, "CGO_ENABLED=0")
		cfgname = goos + "/" + goarch
	}
	cfg := &packages.Config{
		Mode:    packages.LoadAllSyntax,
		Dir:     dir,
		Env:     env,
		Overlay: overlay,
		Tests:   false,
	}
	pkgs, err := packages.Load(cfg, "./...")
	if err != nil {
		return nil, err
	}
	if len(pkgs) == 0 {
		return nil, fmt.Errorf("no packages loaded from %s", dir)
	}
	// normalisation (normalize.go): undo private renames, inline new helpers
	var normNotes []string
	if !noNormalize && !hasErrors(pkgs) {
		seq := 0
		cur := overlay
		if cur == nil {
			cur = map[string][]byte{}
		}
		for round := 0; round < 11; round++ {
			phase := 1
			// type renames are undone in up to four rounds: a renamed type whose fields
			// mention another renamed type only matches its pinned structure once that one
			// has been renamed back
			if round < 4 {
				phase = -1
			} else if round == 4 {
				phase = 0
			}
			next, notes, changed := normalizeStep(pkgs, cur, phase, &seq)
			if !changed {
				normNotes = append(normNotes, notes...)
				if phase < 1 {
					continue
				}
				break
			}
			cfg2 := *cfg
			cfg2.Overlay = next
			pkgs2, err2 := packages.Load(&cfg2, "./...")
			if err2 != nil || len(pkgs2) == 0 || hasErrors(pkgs2) {
				normNotes = append(normNotes, "normalise: the normalised source does not type-check ("+firstError(pkgs2, err2)+"); this step is abandoned and the rules see the source as it is")
				if os.Getenv("VERIF_KEEP_NORMALISED") != "" {
					for name, b := range next {
						os.WriteFile(filepath.Join(os.Getenv("VERIF_KEEP_NORMALISED"), "FAILED_"+filepath.Base(name)), b, 0o644)
					}
				}
				break
			}
			normNotes = append(normNotes, notes...)
			pkgs, cur = pkgs2, next
		}
		if d := os.Getenv("VERIF_KEEP_NORMALISED"); d != "" {
			for name, b := range cur {
				os.WriteFile(filepath.Join(d, filepath.Base(name)), b, 0o644)
			}
		}
	}
	w := &World{NormNotes: normNotes, Dir: dir, Pkgs: map[string]*packages.Package{}, SPkg: map[string]*ssa.Package{}, Config: cfgname, declOf: map[*ssa.Function]*ast.FuncDecl{}, full: full}
	var errs []string
	packages.Visit(pkgs, nil, func(p *packages.Package) {
		for _, e := range p.Errors {
			errs = append(errs, fmt.Sprintf("%s: %v", p.PkgPath, e))
		}
	})
	if len(errs) > 0 {
		return nil, fmt.Errorf("type/load errors (%d): %s", len(errs), strings.Join(errs[:min(len(errs), 5)], "; "))
	}
	w.Init = pkgs
	w.Fset = pkgs[0].Fset
	var prog *ssa.Program
	var spkgs []*ssa.Package
	if full {
		prog, spkgs = ssautil.AllPackages(pkgs, ssa.InstantiateGenerics)
	} else {
		prog, spkgs = ssautil.Packages(pkgs, ssa.InstantiateGenerics)
	}
	prog.Build()
	w.Prog = prog
	for i, p := range pkgs {
		if !strings.HasPrefix(p.PkgPath, M) {
			continue
		}
		w.Pkgs[p.PkgPath] = p
		if spkgs[i] != nil {
			w.SPkg[p.PkgPath] = spkgs[i]
		}
	}
	if len(w.Pkgs) == 0 {
		return nil, fmt.Errorf("no packages of module %s under %s", M, dir)
	}
	// collect source functions
	seen := map[*ssa.Function]bool{}
	var add func(f *ssa.Function)
	add = func(f *ssa.Function) {
		if f == nil || seen[f] || f.Blocks == nil {
			return
		}
		seen[f] = true
		w.fns = append(w.fns, f)
		if d, ok := f.Syntax().(*ast.FuncDecl); ok {
			w.declOf[f] = d
		}
		for _, a := range f.AnonFuncs {
			add(a)
		}
	}
	for _, sp := range w.SPkg {
		for _, m := range sp.Members {
			switch m := m.(type) {
			case *ssa.Function:
				add(m)
			case *ssa.Type:
				for _, T := range []types.Type{m.Type(), types.NewPointer(m.Type())} {
					ms := prog.MethodSets.MethodSet(T)
					for i := 0; i < ms.Len(); i++ {
						f := prog.MethodValue(ms.At(i))
						if f != nil && f.Synthetic == "" {
							add(f)
						}
					}
				}
			}
		}
	}
	sort.Slice(w.fns, func(i, j int) bool { return w.fns[i].Pos() < w.fns[j].Pos() })
	return w, nil
}

// P returns the import path for a module-relative package ("" is the root).
func P(rel string) string {
	if rel == "" {
		return M
	}
	return M + "/" + rel
}

// Fn resolves a function or method of a module package. name is "Func",
// "T.Method" (value or pointer receiver), or "Func$1" for the first anonymous
// function inside Func.
func (w *World) Fn(rel, name string) *ssa.Function {
	sp := w.SPkg[P(rel)]
	if sp == nil {
		return nil
	}
	anon := ""
	if i := strings.Index(name, "$"); i >= 0 {
		anon = name[i:]
		name = name[:i]
	}
	var f *ssa.Function
	if i := strings.Index(name, "."); i >= 0 {
		tn, mn := name[:i], name[i+1:]
		t, ok := sp.Members[tn].(*ssa.Type)
		if !ok {
			return nil
		}
		for _, T := range []types.Type{types.NewPointer(t.Type()), t.Type()} {
			sel := w.Prog.MethodSets.MethodSet(T).Lookup(sp.Pkg, mn)
			if sel != nil {
				f = w.Prog.MethodValue(sel)
				if f != nil && f.Synthetic == "" {
					break
				}
				// promoted or wrapper: not a declared method of T
				f = nil
			}
		}
	} else {
		f, _ = sp.Members[name].(*ssa.Function)
	}
	if f == nil {
		return nil
	}
	for anon != "" {
		// "$3" selects the 3rd anonymous function (1-based) in source order
		rest := anon[1:]
		j := strings.Index(rest, "$")
		tok := rest
		if j >= 0 {
			tok = rest[:j]
			anon = rest[j:]
		} else {
			anon = ""
		}
		var n int
		fmt.Sscanf(tok, "%d", &n)
		if n < 1 || n > len(f.AnonFuncs) {
			return nil
		}
		f = f.AnonFuncs[n-1]
	}
	return f
}

// Named resolves a named type of a module package.
func (w *World) Named(rel, name string) *types.Named {
	p := w.Pkgs[P(rel)]
	if p == nil {
		return nil
	}
	o := p.Types.Scope().Lookup(name)
	if o == nil {
		return nil
	}
	n, _ := o.Type().(*types.Named)
	return n
}

// Funcs returns every source function (including anonymous ones) of the
// module, optionally restricted to the given module-relative packages.
func (w *World) Funcs(rels ...string) []*ssa.Function {
	if len(rels) == 0 {
		return w.fns
	}
	want := map[string]bool{}
	for _, r := range rels {
		want[P(r)] = true
	}
	var out []*ssa.Function
	for _, f := range w.fns {
		if f.Pkg != nil && want[f.Pkg.Pkg.Path()] {
			out = append(out, f)
		}
	}
	return out
}

// Pos renders a position relative to the analysed directory.
func (w *World) Pos(p token.Pos) string {
	if !p.IsValid() {
		return "-"
	}
	ps := w.Fset.Position(p)
	rel, err := filepath.Rel(w.Dir, ps.Filename)
	if err != nil {
		rel = ps.Filename
	}
	return fmt.Sprintf("%s:%d:%d", rel, ps.Line, ps.Column)
}

// CallGraph returns the VTA call graph (built on demand; thorough tier).
func (w *World) CallGraph() *callgraph.Graph {
	if w.cg == nil {
		all := ssautil.AllFunctions(w.Prog)
		w.cg = vta.CallGraph(all, cha.CallGraph(w.Prog))
	}
	return w.cg
}

// ---------------------------------------------------------------------------
// Obligations

const (
	Holds     = "holds"
	Violated  = "violated"
	Undecided = "undecided"
)

// Ob is one obligation (rule, construct) and its verdict.
type Ob struct {
	Property  string   `json:"property"`
	Rule      string   `json:"rule"`
	Construct string   `json:"construct"`
	Verdict   string   `json:"verdict"`
	Reason    string   `json:"reason"`
	Positions []string `json:"positions,omitempty"`
	Witness   []string `json:"witness,omitempty"`
	Kind      string   `json:"kind,omitempty"` // lookup | path | flow | lockset | table | sibling | callgraph
	Config    string   `json:"config,omitempty"`
	Known     bool     `json:"known_finding,omitempty"`
}

// Report collects what one property's rules decided on one World.
type Report struct {
	W        *World
	Prop     string
	Obs      []*Ob
	Notes    []string
	Declined []string
	RuleDoc  map[string]string
	funcs    map[*ssa.Function]bool
	Sites    int
	Paths    int
	cur      string
}

func NewReport(w *World, prop string) *Report {
	return &Report{W: w, Prop: prop, RuleDoc: map[string]string{}, funcs: map[*ssa.Function]bool{}}
}

// Rule declares the rule the following obligations belong to.
func (r *Report) Rule(id, doc string) {
	r.cur = id
	r.RuleDoc[id] = doc
}

func (r *Report) add(verdict, kind, construct, reason string, pos []token.Pos, witness []string) *Ob {
	o := &Ob{Property: r.Prop, Rule: r.cur, Construct: construct, Verdict: verdict, Reason: reason, Kind: kind, Witness: witness, Config: r.W.Config}
	for _, p := range pos {
		o.Positions = append(o.Positions, r.W.Pos(p))
	}
	r.Obs = append(r.Obs, o)
	return o
}

// Decide records an obligation as holding or violated.
func (r *Report) Decide(kind, construct string, ok bool, okReason, failReason string, pos ...token.Pos) bool {
	if ok {
		r.add(Holds, kind, construct, okReason, pos, nil)
	} else {
		r.add(Violated, kind, construct, failReason, pos, nil)
	}
	return ok
}

func (r *Report) Hold(kind, construct, reason string, pos ...token.Pos) {
	r.add(Holds, kind, construct, reason, pos, nil)
}
func (r *Report) Fail(kind, construct, reason string, witness []string, pos ...token.Pos) {
	r.add(Violated, kind, construct, reason, pos, witness)
}
func (r *Report) Undecided(construct, reason string, pos ...token.Pos) {
	r.add(Undecided, "anchor", construct, reason, pos, nil)
}
func (r *Report) Note(format string, a ...interface{}) {
	r.Notes = append(r.Notes, fmt.Sprintf(format, a...))
}
func (r *Report) Decline(s string) { r.Declined = append(r.Declined, s) }

// Use marks a function as analysed (for evidence) and returns it; a nil
// function is recorded as an unresolved anchor, which fails the check.
func (r *Report) Use(rel, name string) *ssa.Function {
	f := r.W.Fn(rel, name)
	if f == nil {
		r.Undecided("anchor "+P(rel)+"."+name, "UNRESOLVED: function not found (renamed or removed); the rule cannot be evaluated")
		return nil
	}
	r.funcs[f] = true
	return f
}
func (r *Report) Touch(f *ssa.Function) {
	if f != nil {
		r.funcs[f] = true
	}
}

// Guard runs one rule body, converting a panic of the checker into an
// undecided obligation (which fails the check).
func (r *Report) Guard(id, doc string, body func()) {
	r.Rule(id, doc)
	defer func() {
		if e := recover(); e != nil {
			r.cur = id
			r.Undecided("checker", fmt.Sprintf("PANIC in rule %s: %v\n%s", id, e, trimStack(debug.Stack())))
		}
	}()
	body()
}

func trimStack(b []byte) string {
	s := string(b)
	if len(s) > 1500 {
		s = s[:1500]
	}
	return s
}

// ---------------------------------------------------------------------------
// Known findings

type Finding struct {
	Property  string `json:"property"`
	Rule      string `json:"rule"`
	Construct string `json:"construct"`
	Status    string `json:"status"` // open | fixed
	What      string `json:"what"`
	FixedBy   string `json:"fixed_by,omitempty"`
}

type findingsFile struct {
	Findings []Finding `json:"findings"`
}

func loadFindings(path string) ([]Finding, error) {
	b, err := os.ReadFile(path)
	if err != nil {
		if os.IsNotExist(err) {
			return nil, nil
		}
		return nil, err
	}
	var ff findingsFile
	if err := json.Unmarshal(b, &ff); err != nil {
		return nil, err
	}
	return ff.Findings, nil
}

// ---------------------------------------------------------------------------
// Evidence

type evidence struct {
	PropertyID  string                 `json:"property_id"`
	Tier        string                 `json:"tier"`
	Seed        int                    `json:"seed"`
	Level       string                 `json:"level"`
	Coverage    map[string]interface{} `json:"coverage"`
	Assumptions []string               `json:"assumptions"`
	WallS       float64                `json:"wall_s"`
	Violations  int                    `json:"violations"`
}

type outcome struct {
	violations int
	known      int
	lines      []string
}

// effFloor is the instance count below which a rule is considered to have
// lost its subject. The count confirmed on the pinned tree is the reference;
// a harmless edit may merge two instances into one (two sites served by one
// statement), so counts of three or more tolerate the loss of a quarter (at
// least one). What must exist in a particular number is stated by the rules
// as obligations of their own, not through the floor.
func effFloor(n int) int {
	if n < 3 {
		return n
	}
	slack := n / 4
	if slack < 1 {
		slack = 1
	}
	return n - slack
}

// finish matches obligations against floors and known findings, writes the
// evidence file and replay files, prints the verdict lines.
func finish(verifDir, prop, tier string, seed int, reps []*Report, extra map[string]interface{}, start time.Time) int {
	findings, err := loadFindings(filepath.Join(verifDir, "known_findings.json"))
	if err != nil {
		fmt.Printf("TOOLING-ERROR: known_findings.json: %v\n", err)
		return 2
	}
	open := map[string]Finding{}
	for _, f := range findings {
		if f.Property == prop && f.Status == "open" {
			open[f.Rule+"|"+f.Construct] = f
		}
	}
	primary := reps[0]
	// floors, on the primary configuration
	perRule := map[string]int{}
	for _, o := range primary.Obs {
		perRule[o.Rule]++
	}
	for rule, floor := range floors[prop] {
		floor = effFloor(floor)
		if perRule[rule] < floor {
			primary.cur = rule
			primary.add(Undecided, "floor", "instance-count floor", fmt.Sprintf("rule matched %d constructs, fewer than the %d confirmed by hand on the pinned tree: anchors were renamed/removed or the rule went vacuous", perRule[rule], floor), nil, nil)
		}
	}
	for rule := range primary.RuleDoc {
		if _, ok := floors[prop][rule]; !ok {
			primary.cur = rule
			primary.add(Undecided, "floor", "instance-count floor", "rule has no floor registered in floors.go", nil, nil)
		}
	}
	// merge obligations over configurations: key rule|construct
	type agg struct {
		ob      *Ob
		configs []string
	}
	merged := map[string]*agg{}
	var order []string
	rank := map[string]int{Holds: 0, Undecided: 1, Violated: 2}
	for _, rep := range reps {
		for _, o := range rep.Obs {
			k := o.Rule + "|" + o.Construct
			a := merged[k]
			if a == nil {
				a = &agg{ob: o}
				merged[k] = a
				order = append(order, k)
			} else if rank[o.Verdict] > rank[a.ob.Verdict] {
				a.ob = o
			}
			a.configs = append(a.configs, rep.W.Config)
		}
	}
	replayDir := filepath.Join(verifDir, "evidence", "replay")
	os.MkdirAll(replayDir, 0o755)
	old, _ := filepath.Glob(filepath.Join(replayDir, prop+"-*.json"))
	for _, f := range old {
		os.Remove(f)
	}
	var viol, known, holds, nontrivial int
	seenFinding := map[string]bool{}
	var lines []string
	var samples []interface{}
	var bad []interface{}
	distinct := map[string]bool{}
	for _, k := range order {
		o := merged[k].ob
		if o.Verdict == Holds {
			holds++
		}
		if !distinct[k] && o.Kind != "lookup" && o.Kind != "floor" && o.Kind != "anchor" {
			nontrivial++
		}
		distinct[k] = true
		if o.Verdict != Holds {
			if f, ok := open[k]; ok && o.Verdict == Violated {
				o.Known = true
				known++
				seenFinding[k] = true
				lines = append(lines, fmt.Sprintf("KNOWN-FINDING: property=%s %s %s: %s", prop, o.Rule, o.Construct, f.What))
			} else {
				viol++
				path := filepath.Join(replayDir, fmt.Sprintf("%s-%d.json", prop, viol))
				b, _ := json.MarshalIndent(o, "", "  ")
				os.WriteFile(path, b, 0o644)
				lines = append(lines, fmt.Sprintf("VIOLATION property=%s replay=%s", prop, path))
				lines = append(lines, fmt.Sprintf("  %s [%s] %s: %s %s", o.Rule, o.Verdict, o.Construct, o.Reason, strings.Join(o.Positions, " ")))
			}
			bad = append(bad, o)
		}
	}
	var stale []string
	for k, f := range open {
		if !seenFinding[k] {
			stale = append(stale, fmt.Sprintf("%s %s (listed open, no longer reproduced)", f.Rule, f.Construct))
		}
	}
	sort.Strings(stale)
	// samples: up to 3 per rule, holds first come first
	perRuleS := map[string]int{}
	for _, k := range order {
		o := merged[k].ob
		if perRuleS[o.Rule] < 2 {
			perRuleS[o.Rule]++
			samples = append(samples, o)
		}
	}
	ruleInst := map[string]interface{}{}
	var ruleIDs []string
	for id := range primary.RuleDoc {
		ruleIDs = append(ruleIDs, id)
	}
	sort.Strings(ruleIDs)
	for _, id := range ruleIDs {
		ruleInst[id] = map[string]interface{}{"instances": perRule[id], "floor": floors[prop][id], "rule": primary.RuleDoc[id]}
	}
	var fnames []string
	for f := range primary.funcs {
		fnames = append(fnames, f.String())
	}
	sort.Strings(fnames)
	var cfgs []string
	for _, rep := range reps {
		cfgs = append(cfgs, rep.W.Config)
	}
	expl := "Static analysis of /repo (go/packages LoadAllSyntax + go/ssa, x/tools v0.29.0); nothing is executed. " +
		"Each rule expands into obligations (rule, construct) decided holds/violated/undecided for every path, call site, field or sibling the source determines. " +
		"Decided: structural necessary conditions of the property (see rule_instances). NOT decided (declined clauses): " + strings.Join(primary.Declined, "; ")
	cov := map[string]interface{}{
		"explanation":         expl,
		"obligations":         len(order),
		"discharged":          holds,
		"known_findings":      known,
		"evaluations":         len(order),
		"distinct_nontrivial": nontrivial,
		"rule":                "one evaluation = one obligation (rule, construct); non-trivial = decided by a path, flow, lockset, table, sibling or call-graph argument rather than by a lookup; distinct = distinct (rule, construct) keys",
		"samples":             samples,
		"not_holding":         bad,
		"rule_instances":      ruleInst,
		"functions_analysed":  fnames,
		"functions_count":     len(fnames),
		"packages":            len(primary.W.Pkgs),
		"module_functions":    len(primary.W.fns),
		"configurations":      cfgs,
		"notes":               append(append([]string{}, primary.W.NormNotes...), primary.Notes...),
		"stale_findings":      stale,
		"checker_cmd":         fmt.Sprintf("bin/check %s %s", prop, tier),
		"trusted_base":        []string{"go/types", "golang.org/x/tools v0.29.0 go/ssa, go/packages, callgraph/vta", "frozen tables in /verif/checker/c*.go", "documented semantics of the Go standard library and x/net/http2 that rules cite"},
		"exhaustive":          true,
	}
	for k, v := range extra {
		cov[k] = v
	}
	ev := evidence{
		PropertyID: prop, Tier: tier, Seed: seed, Level: "other", Coverage: cov,
		Assumptions: []string{
			"go/types and go/ssa model the program faithfully; the analysed build configurations are " + strings.Join(cfgs, ", "),
			"standard-library and x/net/http2 calls behave as documented (they are not analysed)",
			"user-supplied modifiers are outside the analysed program",
			"the rules decide necessary structural conditions only; declined clauses are listed in coverage.explanation",
		},
		WallS: time.Since(start).Seconds(), Violations: viol,
	}
	b, _ := json.MarshalIndent(ev, "", " ")
	os.MkdirAll(filepath.Join(verifDir, "evidence"), 0o755)
	if err := os.WriteFile(filepath.Join(verifDir, "evidence", prop+".json"), b, 0o644); err != nil {
		fmt.Printf("TOOLING-ERROR: cannot write evidence: %v\n", err)
		return 2
	}
	fmt.Printf("%s %s: %d obligations over %d rules, %d hold, %d known findings, %d violations; %d functions, configs %v, %.1fs\n",
		prop, tier, len(order), len(ruleIDs), holds, known, viol, len(fnames), cfgs, time.Since(start).Seconds())
	for _, l := range lines {
		fmt.Println(l)
	}
	for _, s := range stale {
		fmt.Println("NOTE stale finding:", s)
	}
	if viol > 0 {
		return 1
	}
	return 0
}
