package main

import (
	"fmt"
	"go/token"
	"go/types"
	"strings"

	"golang.org/x/tools/go/ssa"
)

func init() {
	props["C15"] = c15
	floors["C15"] = map[string]int{"C15.R1": 2, "C15.R2": 4, "C15.R3": 3, "C15.R4": 6, "C15.R5": 6}
}

var loggerPkgs = []string{"messageview", "har", "marbl", "martianlog"}

// msgField: v is (an address of / load of) field `name` of an *http.Request
// or *http.Response value; returns the message value.
func msgFieldAddr(v ssa.Value, name string) ssa.Value {
	fa, ok := v.(*ssa.FieldAddr)
	if !ok || fieldObj(fa).Name() != name {
		return nil
	}
	t := fa.X.Type().String()
	if t == "*net/http.Request" || t == "*net/http.Response" {
		return fa.X
	}
	return nil
}

// isHeaderValues: v is (a view of) a []string taken out of an http.Header map
// by indexing or ranging, possibly through conversions, re-slicing and phis.
func isHeaderValues(v ssa.Value) bool {
	seen := map[ssa.Value]bool{}
	var walk func(v ssa.Value) bool
	walk = func(v ssa.Value) bool {
		if v == nil || seen[v] {
			return false
		}
		seen[v] = true
		isHdr := func(t types.Type) bool {
			s := t.String()
			return s == "net/http.Header" || s == "net/textproto.MIMEHeader"
		}
		switch x := v.(type) {
		case *ssa.Lookup:
			return isHdr(x.X.Type())
		case *ssa.Extract:
			if nx, ok := x.Tuple.(*ssa.Next); ok && x.Index == 2 {
				if rg, ok := nx.Iter.(*ssa.Range); ok {
					return isHdr(rg.X.Type())
				}
			}
			if lk, ok := x.Tuple.(*ssa.Lookup); ok && x.Index == 0 {
				return isHdr(lk.X.Type())
			}
		case *ssa.Call:
			n := calleeName(x)
			return n == "(net/http.Header).Values" || n == "(net/textproto.MIMEHeader).Values"
		case *ssa.ChangeType:
			return walk(x.X)
		case *ssa.Convert:
			return walk(x.X)
		case *ssa.MakeInterface:
			return walk(x.X)
		case *ssa.Slice:
			return walk(x.X)
		case *ssa.Phi:
			for _, e := range x.Edges {
				if walk(e) {
					return true
				}
			}
		case *ssa.UnOp:
			if x.Op == token.MUL {
				if a, ok := x.X.(*ssa.Alloc); ok {
					for _, st := range storesTo(a) {
						if walk(st.Val) {
							return true
						}
					}
				}
			}
		}
		return false
	}
	return walk(v)
}

func c15(r *Report) {
	w := r.W
	r.Decline("equality of the forwarded wire form with an unlogged twin (framing decisions are taken inside net/http from ContentLength, TransferEncoding and the dynamic type of Body)")
	r.Decline("content-encoding handling, large bodies, that the snapshot equals the original beyond its termination (C15.R5)")

	r.Guard("C15.R1", "whoever consumes a message body puts the same bytes back", func() {
		// a request without a body is not snapshotted by the HAR logger (the snapshot replaces
		// http.NoBody by a reader and the request is then forwarded chunked)
		if pdf := r.Use("har", "postData"); pdf != nil {
			postDataPresenceRule(r, pdf)
		}
		// trailers exist only once the body has been read to its end (net/http fills
		// Request.Trailer / Response.Trailer at EOF, and creates the map there when the
		// trailer was not announced): every read of the message's Trailer field in a
		// snapshot comes after the body was drained
		for _, f := range w.Funcs("messageview") {
			g := G(f)
			var drains []ssa.Instruction
			for _, c := range plainCalls(f, "io/ioutil.ReadAll", "io.ReadAll") {
				if anyIn(w.backSlice(c.Call.Args[0], flowOpt{}), func(v ssa.Value) bool { return msgFieldAddr(v, "Body") != nil }) {
					drains = append(drains, c)
				}
			}
			if len(drains) == 0 {
				continue
			}
			for _, in := range instrs(f) {
				ld, ok := in.(*ssa.UnOp)
				if !ok || ld.Op != token.MUL || msgFieldAddr(ld.X, "Trailer") == nil {
					continue
				}
				after := false
				for _, d := range drains {
					if g.Before(d, ld) {
						after = true
					}
				}
				r.Decide("path", fmt.Sprintf("%s: the trailer is looked at after the body has been read", fnName(f)), after, "the load of Trailer is dominated by the ReadAll of the body", "the message's Trailer is read before its body has been consumed: trailer fields that were not announced in a Trailer header do not exist yet and are missing from the snapshot", ld.Pos())
			}
		}

		snapshotBodyAfterCheckRule(r)
		// a body is only ever replaced by something built from itself: a wrapper around the old
		// body, or a reader over the bytes read from it - never by a constant such as http.NoBody
		// (the test that is meant to spot "no body" also matches a body of unknown length)
		nb := 0
		for _, f := range w.Funcs(loggerPkgs...) {
			for _, in := range instrs(f) {
				st, isSt := in.(*ssa.Store)
				if !isSt || msgFieldAddr(st.Addr, "Body") == nil {
					continue
				}
				nb++
				ordinal := 0
				for _, in2 := range instrs(f) {
					if st2, isSt2 := in2.(*ssa.Store); isSt2 && msgFieldAddr(st2.Addr, "Body") != nil {
						ordinal++
						if st2 == st {
							break
						}
					}
				}
				derived := true
				for _, l := range resolveAll(st.Val) {
					if mi, isMi := l.(*ssa.MakeInterface); isMi {
						l = mi.X
					}
					var from func(v ssa.Value, depth int) bool
					from = func(v ssa.Value, depth int) bool {
						if depth > 8 {
							return false
						}
						for x := range w.backSlice(v, flowOpt{Fields: true}) {
							if ld, isLd := x.(*ssa.UnOp); isLd && ld.Op == token.MUL && msgFieldAddr(ld.X, "Body") != nil {
								return true
							}
							// readers over the bytes that were read from the body
							if c, isC := x.(*ssa.Call); isC && x != v {
								switch calleeName(c) {
								case "io/ioutil.NopCloser", "io.NopCloser", "bytes.NewReader", "bytes.NewBuffer", "io.MultiReader", "bufio.NewReader", "io/ioutil.ReadAll", "io.ReadAll", "io.TeeReader":
									for _, a := range c.Call.Args {
										if from(a, depth+1) {
											return true
										}
									}
								}
							}
							if c, isC := x.(*ssa.Call); isC && x != v && (calleeName(c) == "(*bytes.Buffer).Bytes" || calleeName(c) == "(*bytes.Buffer).String") && from(c, depth+1) {
								return true
							}
							if ex, isEx := x.(*ssa.Extract); isEx && x != v {
								if c, isC := ex.Tuple.(*ssa.Call); isC && (calleeName(c) == "io/ioutil.ReadAll" || calleeName(c) == "io.ReadAll") && from(c.Call.Args[0], depth+1) {
									return true
								}
							}
						}
						if c, isC := v.(*ssa.Call); isC {
							switch calleeName(c) {
							case "io/ioutil.NopCloser", "io.NopCloser", "bytes.NewReader", "bytes.NewBuffer", "io.MultiReader", "bufio.NewReader", "io.TeeReader":
								for _, a := range c.Call.Args {
									if from(a, depth+1) {
										return true
									}
								}
							}
						}
						if ex, isEx := v.(*ssa.Extract); isEx {
							if c, isC := ex.Tuple.(*ssa.Call); isC && (calleeName(c) == "io/ioutil.ReadAll" || calleeName(c) == "io.ReadAll") {
								return from(c.Call.Args[0], depth+1)
							}
						}
						// the contents of a buffer the body was drained into
						if c, isC := v.(*ssa.Call); isC && (calleeName(c) == "(*bytes.Buffer).Bytes" || calleeName(c) == "(*bytes.Buffer).String") {
							for _, fill := range plainCalls(c.Parent(), "(*bytes.Buffer).ReadFrom", "io.Copy", "io.CopyBuffer") {
								dst := fill.Call.Args[0]
								if mi, isMi := dst.(*ssa.MakeInterface); isMi {
									dst = mi.X
								}
								if pathOf(dst) == pathOf(c.Call.Args[0]) && from(fill.Call.Args[1], depth+1) {
									return true
								}
							}
						}
						return false
					}
					if !from(l, 0) {
						derived = false
					}
				}
				r.Touch(f)
				r.Sites++
				r.Decide("flow", fmt.Sprintf("%s: Body store #%d replaces the body by something built from it", fnName(f), ordinal), derived, "every value stored derives from the message's own Body", "the body is replaced by a value that does not come from the old body (http.NoBody, an empty reader): when the condition guarding it also matches a message that has a body (unknown length, no transfer coding), that body is dropped from the forwarded message", st.Pos())
			}
		}
		r.Decide("flow", "loggers replace message bodies", nb >= 4, fmt.Sprintf("%d stores to Body", nb), "fewer stores to Body than confirmed on the pinned tree", token.NoPos)

		// any other way of draining a message body is not an accepted idiom
		for _, f := range w.Funcs(loggerPkgs...) {
			for _, ci := range calls(f) {
				c, isCall := ci.(*ssa.Call)
				if !isCall {
					continue
				}
				switch calleeName(c) {
				case "io/ioutil.ReadAll", "io.ReadAll", "io.Copy", "(*bytes.Buffer).ReadFrom", "(io.Closer).Close":
					continue // judged below
				}
				var ops []ssa.Value
				ops = append(ops, c.Call.Args...)
				if c.Call.IsInvoke() {
					if c.Call.Method.Name() == "Close" {
						continue
					}
					ops = append(ops, c.Call.Value)
				}
				for _, a := range ops {
					if _, isRd := a.Type().Underlying().(*types.Interface); !isRd {
						continue
					}
					direct := false
					for v := range w.backSlice(a, flowOpt{}) {
						if msgFieldAddr(v, "Body") != nil {
							direct = true
						}
					}
					if direct && fnName(f) != "(*M/marbl.bodyLogger).Read" {
						r.Sites++
						r.Fail("flow", fmt.Sprintf("%s: message body handed to %s", fnName(f), nameOrDyn(c)), "the message body is drained by something other than ReadAll or a copy into a buffer of its own: the bytes put back are not provably the bytes read", nil, c.Pos())
					}
				}
			}
		}
		for _, f := range w.Funcs(loggerPkgs...) {
			for _, c := range plainCalls(f, "io/ioutil.ReadAll", "io.ReadAll", "io.Copy", "(*bytes.Buffer).ReadFrom") {
				// source derives from a message's Body field?
				srcArg := c.Call.Args[0]
				var into ssa.Value // the buffer the body is copied into (nil for ReadAll)
				if n := calleeName(c); n == "io.Copy" || n == "(*bytes.Buffer).ReadFrom" {
					srcArg = c.Call.Args[1]
					into = unwrapIface(c.Call.Args[0])
				}
				var msg ssa.Value
				for v := range w.backSlice(srcArg, flowOpt{}) {
					if m := msgFieldAddr(v, "Body"); m != nil {
						msg = m
					}
				}
				if msg == nil {
					continue
				}
				r.Touch(f)
				r.Sites++
				key := fmt.Sprintf("%s: body consumed by %s#%d is replaced with the same bytes", fnName(f), calleeName(c), ordinalAny(f, c))
				if into != nil {
					// the copy must go into a buffer that belongs to this call alone
					own := false
					switch x := into.(type) {
					case *ssa.Alloc:
						own = x.Type().String() == "*bytes.Buffer"
					case *ssa.Call:
						own = calleeName(x) == "bytes.NewBuffer" && isNilConst(x.Call.Args[0])
					}
					if !own {
						r.Fail("flow", key, "the body is drained into a writer that is not a buffer created for this message (a pooled or shared buffer, or something that does not retain the bytes): what is re-attached can be overwritten while the message is still being forwarded", nil, c.Pos())
						continue
					}
				}
				data := resultOf(c, 0)
				tests := errTests(c)
				// an inlined helper tests the error and its caller tests the helper's result again: the
				// last test (the one every other dominates) is the one that decides
				if len(tests) > 1 {
					for _, t := range tests {
						last := true
						for _, u := range tests {
							if u.If != t.If && !u.If.Block().Dominates(t.If.Block()) {
								last = false
							}
						}
						if last {
							tests = []nilTest{t}
							break
						}
					}
				}
				if len(tests) != 1 || data == nil {
					r.Fail("path", key, "the error of draining the body is not tested exactly once", nil, c.Pos())
					continue
				}
				isData := func(v ssa.Value) bool {
					if into == nil {
						return v == data
					}
					if v == into {
						return true
					}
					bc, ok := v.(*ssa.Call)
					return ok && calleeName(bc) == "(*bytes.Buffer).Bytes" && bc.Call.Args[0] == into
				}
				g := G(f)
				isPutBack := func(i ssa.Instruction) bool {
					st, ok := i.(*ssa.Store)
					if !ok || msgFieldAddr(st.Addr, "Body") != msg {
						return false
					}
					sl := w.backSlice(st.Val, flowOpt{Through: map[string]bool{"io/ioutil.NopCloser": true, "io.NopCloser": true, "bytes.NewReader": true, "bytes.NewBuffer": true}})
					if !anyIn(sl, isData) {
						return false
					}
					// exactly the bytes read: no sub-slice, no re-encoding on the way
					for v := range sl {
						if _, isSlice := v.(*ssa.Slice); isSlice {
							return false
						}
					}
					return true
				}
				p := g.PathTo(blockStart(tests[0].Nil), true, isPutBack, isReturn)
				r.Paths++
				if p != nil {
					r.Fail("path", key, "a successful path returns without Body = NopCloser(NewReader(<exactly the bytes read>)): the forwarded message loses or changes its body", witness(w, p), c.Pos())
				} else {
					r.Hold("path", key, "every successful path re-attaches a reader over the very bytes that were read", c.Pos())
				}
			}
		}
	})

	r.Guard("C15.R2", "loggers and snapshots do not edit the message: only Body is ever assigned, headers and trailers are not modified", func() {
		// nothing filters or compacts one of the message's own slices in place: `x[:0]` followed by
		// appends rewrites the backing array the message still uses (a header's value list, the
		// transfer codings)
		for _, pk := range append([]string{"proxyutil"}, loggerPkgs...) {
			for _, f := range w.Funcs(pk) {
				ord := 0
				for _, in := range instrs(f) {
					sl, isSl := in.(*ssa.Slice)
					if !isSl || sl.High == nil {
						continue
					}
					if k, isK := constInt(sl.High); !isK || k != 0 {
						continue
					}
					ord++
					fresh := false
					for _, l := range resolveAll(sl.X) {
						switch x := l.(type) {
						case *ssa.MakeSlice:
							fresh = true
						case *ssa.Alloc:
							fresh = true
						case *ssa.Call:
							fresh = isCallValue(x, "append") || strings.HasPrefix(calleeName(x), "bytes.") || strings.HasPrefix(calleeName(x), "strings.")
						}
					}
					r.Touch(f)
					r.Decide("flow", fmt.Sprintf("%s: x[:0] #%d re-uses a slice made here", fnName(f), ord), fresh, "the slice was made in this function", "a slice that belongs to the message (a header's value list) is emptied and refilled in place: the message's own values are shifted and duplicated, and the forwarded headers differ from what was received", sl.Pos())
				}
			}
		}
		// the text logger fails an exchange only where it does today (snapshot and reader
		// set-up): an error it returns becomes a Warning header on the forwarded message
		for _, n := range []string{"Logger.ModifyRequest", "Logger.ModifyResponse"} {
			errorsReturnedRule(r, r.W.Fn("martianlog", n), true)
		}
		for _, n := range []string{"MessageView.SnapshotRequest", "MessageView.SnapshotResponse"} {
			errorsReturnedRule(r, r.W.Fn("messageview", n), false)
		}
		// a reader over a snapshot fails only where a decoder refuses its input when it is set up
		// (gzip's header): a new way to fail - a sniffing read that hits the end of an empty body -
		// turns a message the proxy forwards untouched into one with a Warning header
		errorsReturnedRule(r, r.W.Fn("messageview", "MessageView.BodyReader"), true)
		// the HAR logger likewise fails an exchange only where it does on the pinned tree (every error
		// it returns becomes a Warning header on the forwarded message and stops the modifiers
		// after it in a group)
		for _, n := range []string{"NewRequest", "NewResponse", "postData", "Logger.RecordRequest", "Logger.RecordResponse", "Logger.ModifyRequest", "Logger.ModifyResponse"} {
			errorsReturnedRule(r, r.W.Fn("har", n), true)
		}

		for _, pkg := range loggerPkgs {
			bad := 0
			for _, f := range w.Funcs(pkg) {
				for _, in := range instrs(f) {
					switch x := in.(type) {
					case *ssa.Store:
						fa, ok := x.Addr.(*ssa.FieldAddr)
						if !ok {
							continue
						}
						t := fa.X.Type().String()
						if (t == "*net/http.Request" || t == "*net/http.Response") && fieldObj(fa).Name() != "Body" {
							bad++
							r.Fail("callgraph", fmt.Sprintf("%s assigns %s.%s", fnName(f), t, fieldObj(fa).Name()), "a logger / snapshot assigns a field of the message other than Body", nil, x.Pos())
						}
					case *ssa.MapUpdate:
						if x.Map.Type().String() == "net/http.Header" {
							if anyIn(w.backSlice(x.Map, flowOpt{}), func(v ssa.Value) bool { return msgFieldAddr(v, "Header") != nil || msgFieldAddr(v, "Trailer") != nil }) {
								bad++
								r.Fail("callgraph", fnName(f)+" stores into a message header map", "a logger edits the message's headers", nil, x.Pos())
							}
						}
					case ssa.CallInstruction:
						n := calleeName(x)
						if n == "(net/http.Header).Set" || n == "(net/http.Header).Add" || n == "(net/http.Header).Del" {
							if anyIn(w.backSlice(x.Common().Args[0], flowOpt{}), func(v ssa.Value) bool { return msgFieldAddr(v, "Header") != nil || msgFieldAddr(v, "Trailer") != nil }) {
								bad++
								r.Fail("callgraph", fmt.Sprintf("%s edits a message header: %s", fnName(f), site(f, x)), "a logger / snapshot edits the message's headers or trailers", nil, x.Pos())
							}
						}
					}
				}
			}
			// the value slices of a header map are the live message's storage
			// (Header.Map(), Header.Values and map indexing all share them):
			// sorting, overwriting or appending to them edits the message
			for _, f := range w.Funcs(pkg) {
				for _, in := range instrs(f) {
					var victim ssa.Value
					what := ""
					switch x := in.(type) {
					case *ssa.Store:
						if ia, ok := x.Addr.(*ssa.IndexAddr); ok {
							victim, what = ia.X, "an element store"
						}
					case ssa.CallInstruction:
						cc := x.Common()
						switch n := calleeName(x); n {
						case "sort.Strings", "sort.Sort", "sort.Stable", "sort.Slice", "sort.SliceStable", "slices.Sort", "slices.SortFunc", "slices.SortStableFunc", "slices.Reverse":
							if len(cc.Args) > 0 {
								victim, what = cc.Args[0], n
							}
						case "builtin.copy", "builtin.append":
							if len(cc.Args) > 0 {
								victim, what = cc.Args[0], n[8:]+" into it"
							}
						}
					}
					if victim != nil && isHeaderValues(victim) {
						bad++
						r.Fail("flow", fmt.Sprintf("%s modifies a header value slice in place (%s)", fnName(f), what), "the value slices obtained from an http.Header belong to the live message: "+what+" reorders or overwrites the header values that are forwarded", nil, in.Pos())
					}
				}
			}
			r.Sites++
			if bad == 0 {
				r.Hold("callgraph", "package "+pkg+" assigns nothing but Body on messages", fmt.Sprintf("%d functions scanned", len(w.Funcs(pkg))), token.NoPos)
			}
		}
	})

	r.Guard("C15.R3", "the marbl body wrapper is transparent: Read returns exactly what the underlying body returned for the caller's buffer, Close delegates", func() {
		rd := r.Use("marbl", "bodyLogger.Read")
		cl := r.Use("marbl", "bodyLogger.Close")
		if rd == nil || cl == nil {
			return
		}
		var inner *ssa.Call
		for _, c := range calls(rd) {
			if cc, ok := c.(*ssa.Call); ok && cc.Call.IsInvoke() && cc.Call.Method.Name() == "Read" {
				inner = cc
			}
		}
		ok := inner != nil && len(inner.Call.Args) == 1 && isParamVal(inner.Call.Args[0], rd.Params[1])
		if ok {
			ld, isLd := inner.Call.Value.(*ssa.UnOp)
			ok = isLd
			if isLd {
				fa, isFa := ld.X.(*ssa.FieldAddr)
				ok = isFa && fieldObj(fa).Name() == "body" && isParamVal(fa.X, rd.Params[0])
			}
		}
		r.Decide("flow", "(*M/marbl.bodyLogger).Read: reads the wrapped body into the caller's buffer", ok, "bl.body.Read(b)", "the wrapper does not read the wrapped body with the caller's buffer", rd.Pos())
		okRet := inner != nil
		for _, ret := range returns(rd) {
			n, e := retVals(ret, 0), retVals(ret, 1)
			if len(n) != 1 || len(e) != 1 || n[0] != resultOf(inner, 0) || e[0] != resultOf(inner, 1) {
				okRet = false
			}
		}
		r.Decide("flow", "(*M/marbl.bodyLogger).Read: returns the underlying (n, err) unchanged", okRet, "results are the extracts of the inner Read", "the count or error seen by the consumer differs from the underlying body's", rd.Pos())
		okCl := false
		for _, c := range calls(cl) {
			if cc, y := c.(*ssa.Call); y && cc.Call.IsInvoke() && cc.Call.Method.Name() == "Close" {
				for _, ret := range returns(cl) {
					if v := retVals(ret, 0); len(v) == 1 && v[0] == ssa.Value(cc) {
						okCl = true
					}
				}
			}
		}
		r.Decide("flow", "(*M/marbl.bodyLogger).Close: delegates to the wrapped body", okCl, "return bl.body.Close()", "closing the wrapper does not close the body", cl.Pos())
	})

	r.Guard("C15.R5", "reading a snapshot does not change it", func() {
		// the reader methods of MessageView only load the view's fields: no store to them and
		// no field address handed to anything else (an option applied to the view itself makes
		// one reader's choice - decoded or raw - stick for the next)
		mvT := w.Named("messageview", "MessageView")
		if mvT == nil {
			r.Undecided("M/messageview.MessageView", "UNRESOLVED")
			return
		}
		n := 0
		for _, mn := range []string{"Reader", "HeaderReader", "BodyReader", "TrailerReader"} {
			f := w.method(mvT, mn)
			if f == nil || f.Blocks == nil {
				continue
			}
			n++
			r.Touch(f)
			bad := ""
			var pos token.Pos = f.Pos()
			for _, in := range instrs(f) {
				fa, ok := in.(*ssa.FieldAddr)
				if !ok || fa.X != ssa.Value(f.Params[0]) || fa.Referrers() == nil {
					continue
				}
				for _, u := range *fa.Referrers() {
					switch x := u.(type) {
					case *ssa.UnOp:
						if x.Op == token.MUL {
							continue
						}
					case *ssa.FieldAddr:
						// nested field of a struct field: judged by its own uses
						nested := true
						if x.Referrers() != nil {
							for _, uu := range *x.Referrers() {
								if ld, isLd := uu.(*ssa.UnOp); !isLd || ld.Op != token.MUL {
									nested = false
								}
							}
						}
						if nested {
							continue
						}
					case *ssa.DebugRef:
						continue
					}
					bad = fieldObj(fa).Name()
					pos = u.Pos()
				}
			}
			r.Decide("flow", "(*M/messageview.MessageView)."+mn+" only reads the view", bad == "", "every use of a field of the view is a load", "the reader stores to, or hands out the address of, the view's field "+bad+": what one reader chose (decoding) changes what the next reader of the same snapshot returns", pos)
		}
		if n < 2 {
			r.Undecided("M/messageview.MessageView readers", "UNRESOLVED")
		}
	})

	r.Guard("C15.R4", "an exchange marked skip-logging is recorded by no logger", func() {
		freshContextUnmarkedRule(r)
		contextFlagRules(r, "SkipLogging", "SkippingLogging")
		for _, lt := range []struct{ pkg, typ string }{{"har", "Logger"}, {"martianlog", "Logger"}, {"marbl", "Modifier"}} {
			T := w.Named(lt.pkg, lt.typ)
			for _, mn := range []string{"ModifyRequest", "ModifyResponse"} {
				f := w.method(T, mn)
				key := fmt.Sprintf("(*M/%s.%s).%s: recording is guarded by SkippingLogging()", lt.pkg, lt.typ, mn)
				if f == nil {
					r.Undecided(key, "UNRESOLVED: method not found")
					continue
				}
				r.Touch(f)
				g := G(f)
				sk := plainCalls(f, "(*M.Context).SkippingLogging")
				ok := len(sk) == 1
				if ok {
					// the context is this message's
					ok = anyIn(w.backSlice(sk[0].Call.Args[0], flowOpt{}), func(v ssa.Value) bool { return isCallValue(v, "M.NewContext") })
					isRec := func(i ssa.Instruction) bool {
						c, y := i.(ssa.CallInstruction)
						if !y {
							return false
						}
						switch calleeName(c) {
						case "M.NewContext", "(*M.Context).SkippingLogging", "(*M.Context).ID":
							return false
						}
						if _, isB := c.Common().Value.(*ssa.Builtin); isB {
							return false
						}
						return true
					}
					// nothing is recorded before the test, nor on its true edge
					if g.PathTo([]ssa.Instruction{g.Entry()}, true, func(i ssa.Instruction) bool { return i == ssa.Instruction(sk[0]) }, isRec) != nil {
						ok = false
					}
					for _, e := range branchesOn(sk[0]) {
						if g.PathTo(blockStart(e.True), true, nil, isRec) != nil {
							ok = false
						}
					}
					if len(branchesOn(sk[0])) != 1 {
						ok = false
					}
				}
				r.Sites++
				r.Paths++
				r.Decide("sibling", key, ok, "every recording call lies behind SkippingLogging()==false of this message's context", "this logger records exchanges that are marked skip-logging (its siblings do not)", f.Pos())
			}
		}
	})

	r.Guard("C15.R5", "a chunked snapshot is terminated: the final empty line follows the last chunk and any trailers", func() {
		mv := w.Named("messageview", "MessageView")
		// the framing line of a message with a known length is kept, including
		// "Content-Length: 0": without it the snapshot of an empty response
		// parses as close-delimited and swallows what follows
		for _, mn := range []string{"SnapshotRequest", "SnapshotResponse"} {
			f := w.method(mv, mn)
			if f == nil {
				continue
			}
			isCL := func(v ssa.Value) bool {
				ld, ok := v.(*ssa.UnOp)
				if !ok || ld.Op != token.MUL {
					return false
				}
				return msgFieldAddr(ld.X, "ContentLength") != nil
			}
			found := false
			for _, c := range calls(f, "fmt.Fprintf") {
				cc := c.Common()
				if len(cc.Args) < 2 {
					continue
				}
				if k, isK := constString(cc.Args[1]); !isK || !strings.HasPrefix(k, "Content-Length:") {
					continue
				}
				found = true
				ok := true
				n := 0
				for _, ce := range ctrlEdges(c.Block()) {
					if rel, adm := constCmpAdmits(ce, isCL, 0); rel {
						n++
						if !adm {
							ok = false
						}
					}
				}
				r.Decide("path", fmt.Sprintf("(*M/messageview.MessageView).%s: the Content-Length line is written for a known length of zero too", mn), ok, fmt.Sprintf("%d guard(s) on ContentLength, all admit 0", n), "the guard on ContentLength excludes 0: the snapshot of a message framed by `Content-Length: 0` has no framing header and does not parse back to the original", c.Pos())
			}
			if !found {
				r.Fail("path", fmt.Sprintf("(*M/messageview.MessageView).%s: the Content-Length line is written for a known length of zero too", mn), "the snapshot never writes a Content-Length line", nil, f.Pos())
			}
		}
		for _, mn := range []string{"SnapshotRequest", "SnapshotResponse"} {
			f := w.method(mv, mn)
			key := fmt.Sprintf("(*M/messageview.MessageView).%s: a chunked snapshot ends with an empty line after the trailers", mn)
			if f == nil {
				r.Undecided(key, "UNRESOLVED")
				continue
			}
			r.Touch(f)
			g := G(f)
			isCRLF := func(i ssa.Instruction) bool {
				c, y := isCall(i, "fmt.Fprint", "fmt.Fprintf", "(*bytes.Buffer).WriteString", "io.WriteString")
				if !y {
					return false
				}
				for _, a := range c.Common().Args {
					for v := range w.backSlice(a, flowOpt{}) {
						if s, isC := constString(v); isC && s == "\r\n" {
							return true
						}
					}
				}
				return false
			}
			var cwClose []ssa.Instruction
			for _, c := range calls(f) {
				if calleeName(c) == "(io.Closer).Close" || calleeName(c) == "(io.WriteCloser).Close" {
					if anyIn(w.backSlice(c.Common().Value, flowOpt{}), func(v ssa.Value) bool { return isCallValue(v, "net/http/httputil.NewChunkedWriter") }) {
						cwClose = append(cwClose, c)
					}
				}
			}
			trailerWrites := calls(f, "(net/http.Header).Write")
			if len(cwClose) == 0 {
				r.Undecided(key, "UNRESOLVED: chunked writer close not found")
				continue
			}
			var starts []ssa.Instruction
			starts = append(starts, cwClose...)
			for _, t := range trailerWrites {
				starts = append(starts, t)
			}
			isTrailer := func(i ssa.Instruction) bool {
				for _, t := range trailerWrites {
					if i == ssa.Instruction(t) {
						return true
					}
				}
				return false
			}
			for _, s := range starts {
				k := key
				if !isTrailer(s) {
					k = strings.Replace(key, "after the trailers", "when there are no trailers", 1)
				}
				// the chunked writer is closed only when mv.chunked is true; the field is not assigned in
				// between, so later tests of it cannot take the false edge on these paths
				var skip func(*ssa.BasicBlock, int) bool
				if !isTrailer(s) {
					skip = contradictsField(f, "chunked", true)
				}
				p := g.PathToE([]ssa.Instruction{s}, false, func(i ssa.Instruction) bool {
					// a later trailer write restarts the obligation and is checked on its own
					return isCRLF(i) || (isTrailer(i) && i != s)
				}, isReturn, skip)
				r.Paths++
				if p != nil {
					r.Fail("path", k, "a path reaches the return without writing the terminating CRLF of the chunked body: the snapshot is not a parseable message", witness(w, p), s.Pos())
				} else {
					r.Hold("path", k, "every path writes the final CRLF", s.Pos())
				}
			}
		}
	})
}

var _ = types.Universe
var _ = strings.TrimSpace

// snapshotBodyAfterCheckRule: a snapshot puts the bytes it read back as the
// message's body only after the read succeeded: the store to Body lies behind
// the nil edge of ReadAll's error. Put back before the check, a body the
// origin cut short becomes a complete-looking one, and the proxy forwards a
// shortened message as if it were whole. Shared by C15.R1 and C03.R2.
func snapshotBodyAfterCheckRule(r *Report) {
	w := r.W
	n := 0
	for _, f := range w.Funcs("messageview", "har", "martianlog", "marbl") {
		for _, c := range plainCalls(f, "io/ioutil.ReadAll", "io.ReadAll") {
			if !anyIn(w.backSlice(c.Call.Args[0], flowOpt{}), func(v ssa.Value) bool { return msgFieldAddr(v, "Body") != nil }) {
				continue
			}
			tests := errTests(c)
			for _, in := range instrs(f) {
				st, isSt := in.(*ssa.Store)
				if !isSt || msgFieldAddr(st.Addr, "Body") == nil {
					continue
				}
				if !anyIn(w.backSlice(st.Val, flowOpt{Through: map[string]bool{"io/ioutil.NopCloser": true, "io.NopCloser": true, "bytes.NewReader": true, "bytes.NewBuffer": true}, CallArg: true}), func(v ssa.Value) bool { return isExtractOfCallValue(v, c) }) {
					continue
				}
				n++
				ok := false
				for _, e := range tests {
					if blockDominates(e.Nil, st.Block()) {
						ok = true
					}
				}
				r.Touch(f)
				r.Decide("path", fmt.Sprintf("%s: the bytes read are put back as the body only after the read succeeded", fnName(f)), ok, "the Body store lies behind the nil edge of ReadAll's error", "the body is replaced by what was read before the read's error is looked at: a response the origin cut short is handed on as a complete, shorter body (with its framing re-computed), and the client cannot tell that it is incomplete", st.Pos())
			}
		}
	}
	r.Decide("path", "snapshots put the body back", n >= 1, fmt.Sprintf("%d body replacements fed by ReadAll", n), "fewer replacements than on the pinned tree", token.NoPos)
}

func isExtractOfCallValue(v ssa.Value, c *ssa.Call) bool {
	ex, ok := v.(*ssa.Extract)
	return ok && ex.Tuple == ssa.Value(c)
}

// freshContextUnmarkedRule: the per-exchange marks start cleared: a context is
// built with skipLogging, skipRoundTrip and apiRequest unset - not seeded
// from the session or anything else that outlives the exchange. Shared by
// C15.R4 and C17.R5 (an exchange that follows a skip-logged one on the same
// connection is recorded like any other).
func freshContextUnmarkedRule(r *Report) {
	w := r.W
	n := 0
	for _, f := range w.Funcs("") {
		for _, a := range allocsOf(f, M+".Context") {
			n++
			fs := litFieldStores(a)
			bad := ""
			for _, fld := range []string{"skipLogging", "skipRoundTrip", "apiRequest", "flags"} {
				for _, st := range fs[fld] {
					if k, isK := constBool(st.Val); isK && !k {
						continue
					}
					if k, isK := constInt(st.Val); isK && k == 0 {
						continue
					}
					bad = fld
				}
			}
			r.Touch(f)
			r.Decide("flow", fnName(f)+": a new context starts with its marks cleared", bad == "", "skipLogging / skipRoundTrip / apiRequest are left at their zero value", "a new context is built with "+bad+" taken from somewhere else (the session): the mark of one exchange applies to every later exchange of the connection, which is then not logged (or not forwarded, or not verified)", a.Pos())
		}
	}
	if n == 0 {
		r.Undecided("M.Context literal", "UNRESOLVED")
	}
}
