package main

// C00 is a scratch property for trying shared rules over the whole module
// (not in the manifest).
func init() {
	props["C00"] = func(r *Report) {
		r.Guard("C00.R1", "lock pairing over the whole module", func() { lockPairRule(r); goCaptureRule(r); lastIndexRule(r) })
	}
	floors["C00"] = map[string]int{"C00.R1": 1}
}
