package main

// C00 is a scratch property for trying shared rules over the whole module
// (not in the manifest).
func init() {
	props["C00"] = func(r *Report) {
		r.Guard("C00.R1", "lock pairing over the whole module", func() {
			lockPairRule(r)
			goCaptureRule(r)
			lastIndexRule(r)
			nilableFieldRule(r)
			goBlockRule(r)
			funcFieldCallsRule(r)
		})
		r.Guard("C00.R2", "errors returned", func() {
			for _, n := range [][2]string{{"mitm", "Config.cert"}, {"h2", "relay.processFrame"}, {"trafficshape", "Handler.ServeHTTP"}, {"parse", "FromJSON"}, {"marbl", "Stream.sendHeader"}, {"header", "ViaModifier.ModifyRequest"}, {"marbl", "Reader.ReadFrame"}, {"har", "NewRequest"}, {"har", "NewResponse"}, {"har", "postData"}, {"har", "Logger.RecordRequest"}, {"har", "Logger.RecordResponse"}, {"static", "Modifier.ModifyResponse"}, {"body", "Modifier.ModifyResponse"}, {"h2/grpc", "adapter.Data"}, {"h2/grpc", "emitter.Message"}, {"h2/grpc", "adapter.Header"}, {"messageview", "MessageView.SnapshotRequest"}, {"messageview", "MessageView.SnapshotResponse"}, {"messageview", "MessageView.BodyReader"}, {"trafficshape", "parseShapes"}, {"h2", "relay.relayFrames"}, {"h2", "relay.sendWindowUpdates"}, {"h2", "relay.data"}, {"h2", "relay.header"}, {"h2", "relay.pushPromise"}, {"h2", "Config.Proxy"}, {"", "Proxy.connect"}, {"", "Proxy.readRequest"}, {"", "newSession"}, {"har", "PostData.UnmarshalJSON"}, {"har", "Content.UnmarshalJSON"}, {"har", "PostData.MarshalJSON"}, {"har", "Content.MarshalJSON"}, {"h2/grpc", "gunzip"}, {"h2/grpc", "deflate"}, {"h2", "forwardPreface"}, {"trafficshape", "Listener.Accept"}, {"body", "modifierFromJSON"}, {"static", "modifierFromJSON"}, {"h2", "relay.decodeFull"}, {"h2", "relay.encodeFull"}, {"", "withSession"}, {"", "newID"}, {"", "TestContext"}, {"marbl", "Stream.LogRequest"}, {"marbl", "Stream.LogResponse"}, {"martianlog", "Logger.ModifyRequest"}, {"martianlog", "Logger.ModifyResponse"}} {
				errorsReturnedRule(r, r.Use(n[0], n[1]), false)
			}
		})
	}
	floors["C00"] = map[string]int{"C00.R1": 1, "C00.R2": 1}
}
