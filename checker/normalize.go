package main

// Source normalisation (DESIGN.md section 2, "Normalisation").
//
// The rules name their subjects by function and field. Two kinds of harmless
// maintenance edits would otherwise make them lose their subject:
//
//   - a private function, method or struct field is renamed;
//   - a block is extracted into a new private helper.
//
// Both are undone on an in-memory copy of the source before the rules run:
//
//   1. rename-back: a function/method/field of the pinned inventory
//      (inventory.json, generated from the tree the rules were confirmed on)
//      that has disappeared, while exactly one newcomer with the same receiver
//      and the same signature (type) has appeared, is the same thing under a new
//      name; the newcomer is given the pinned name again.
//   2. inlining: a function that is not in the pinned inventory is inlined at
//      its call sites (statement contexts: expression statement, assignment,
//      return, if-init, if-condition; expression context for single-return
//      bodies with pure arguments) and its declaration is dropped when nothing
//      else refers to it.
//
// Both transformations preserve behaviour, so a verdict on the normalised
// program is a verdict on the program. The result is type-checked again; if it
// does not type-check the normalisation is abandoned and the rules see the
// source as it is. On the pinned tree there is nothing to normalise.

import (
	"bytes"
	_ "embed"
	"encoding/json"
	"fmt"
	"go/ast"
	"go/parser"
	"go/printer"
	"go/token"
	"go/types"
	"os"
	"sort"
	"strings"

	"golang.org/x/tools/go/ast/astutil"
	"golang.org/x/tools/go/packages"
)

//go:embed inventory.json
var inventoryJSON []byte

type inventory struct {
	Funcs  map[string]string `json:"funcs"`  // pkg|Recv|Name -> signature key
	Fields map[string]string `json:"fields"` // pkg|Type|Field -> type
	Types  map[string]string `json:"types"`  // pkg|Type -> structural key (underlying type and method set, own name abstracted)
}

// namedKey describes a named type by its structure, with its own name
// abstracted away, so that a renamed type can be recognised.
func namedKey(tn *types.TypeName) string {
	self := tn.Pkg().Path() + "." + tn.Name()
	abstract := func(s string) string { return strings.ReplaceAll(s, self, "·") }
	var b strings.Builder
	b.WriteString(abstract(typeKey(tn.Type().Underlying())))
	if named, ok := tn.Type().(*types.Named); ok {
		var ms []string
		for i := 0; i < named.NumMethods(); i++ {
			m := named.Method(i)
			ms = append(ms, m.Name()+abstract(sigKey(m.Type().(*types.Signature))))
		}
		sort.Strings(ms)
		b.WriteString(" methods:" + strings.Join(ms, ";"))
	}
	return b.String()
}

var pinned *inventory

func loadInventory() *inventory {
	if pinned == nil {
		pinned = &inventory{Funcs: map[string]string{}, Fields: map[string]string{}, Types: map[string]string{}}
		if len(bytes.TrimSpace(inventoryJSON)) > 0 {
			json.Unmarshal(inventoryJSON, pinned)
		}
	}
	return pinned
}

func typeKey(t types.Type) string { return types.TypeString(t, nil) }

func sigKey(sig *types.Signature) string {
	var b strings.Builder
	if r := sig.Recv(); r != nil {
		if _, ok := r.Type().(*types.Pointer); ok {
			b.WriteString("*")
		}
	}
	b.WriteString("(")
	for i := 0; i < sig.Params().Len(); i++ {
		if i > 0 {
			b.WriteString(",")
		}
		b.WriteString(typeKey(sig.Params().At(i).Type()))
	}
	if sig.Variadic() {
		b.WriteString("...")
	}
	b.WriteString(")(")
	for i := 0; i < sig.Results().Len(); i++ {
		if i > 0 {
			b.WriteString(",")
		}
		b.WriteString(typeKey(sig.Results().At(i).Type()))
	}
	b.WriteString(")")
	return b.String()
}

func recvName(fn *types.Func) string {
	sig := fn.Type().(*types.Signature)
	if sig.Recv() == nil {
		return ""
	}
	t := sig.Recv().Type()
	if p, ok := t.(*types.Pointer); ok {
		t = p.Elem()
	}
	if n, ok := t.(*types.Named); ok {
		return n.Obj().Name()
	}
	return "?"
}

func funcKey(fn *types.Func) string {
	return fn.Pkg().Path() + "|" + recvName(fn) + "|" + fn.Name()
}

// modulePkgs returns the module's packages among the loaded roots.
func modulePkgs(pkgs []*packages.Package) []*packages.Package {
	var out []*packages.Package
	for _, p := range pkgs {
		if strings.HasPrefix(p.PkgPath, M) && p.Types != nil {
			out = append(out, p)
		}
	}
	sort.Slice(out, func(i, j int) bool { return out[i].PkgPath < out[j].PkgPath })
	return out
}

// declaredFuncs lists every function and method declared in the package's
// syntax (so that methods of unexported types are included).
func declaredFuncs(p *packages.Package) map[*types.Func]*ast.FuncDecl {
	out := map[*types.Func]*ast.FuncDecl{}
	for _, f := range p.Syntax {
		for _, d := range f.Decls {
			if fd, ok := d.(*ast.FuncDecl); ok {
				if fn, ok := p.TypesInfo.Defs[fd.Name].(*types.Func); ok {
					out[fn] = fd
				}
			}
		}
	}
	return out
}

func buildInventory(pkgs []*packages.Package) *inventory {
	inv := &inventory{Funcs: map[string]string{}, Fields: map[string]string{}, Types: map[string]string{}}
	for _, p := range modulePkgs(pkgs) {
		for _, name := range p.Types.Scope().Names() {
			if tn, ok := p.Types.Scope().Lookup(name).(*types.TypeName); ok && !tn.IsAlias() {
				inv.Types[p.PkgPath+"|"+name] = namedKey(tn)
			}
		}
		for fn := range declaredFuncs(p) {
			if fn.Name() == "init" || fn.Name() == "_" {
				continue
			}
			inv.Funcs[funcKey(fn)] = sigKey(fn.Type().(*types.Signature))
		}
		sc := p.Types.Scope()
		for _, name := range sc.Names() {
			tn, ok := sc.Lookup(name).(*types.TypeName)
			if !ok {
				continue
			}
			st, ok := tn.Type().Underlying().(*types.Struct)
			if !ok {
				continue
			}
			for i := 0; i < st.NumFields(); i++ {
				f := st.Field(i)
				inv.Fields[p.PkgPath+"|"+name+"|"+f.Name()] = typeKey(f.Type())
			}
		}
	}
	return inv
}

// ---------------------------------------------------------------------------

type textEdit struct {
	start, end int
	text       string
}

type normalizer struct {
	pkgs    []*packages.Package
	fset    *token.FileSet
	overlay map[string][]byte
	edits   map[string][]textEdit
	notes   []string
	seq     int
	// recvLast: convertKind turns a method into a function that takes the receiver last
	recvLast bool
}

func (n *normalizer) src(filename string) []byte {
	if b, ok := n.overlay[filename]; ok {
		return b
	}
	b, _ := os.ReadFile(filename)
	return b
}

func (n *normalizer) offsets(start, end token.Pos) (string, int, int) {
	tf := n.fset.File(start)
	return tf.Name(), tf.Offset(start), tf.Offset(end)
}

func (n *normalizer) addEdit(start, end token.Pos, text string) {
	name, s, e := n.offsets(start, end)
	n.edits[name] = append(n.edits[name], textEdit{s, e, text})
}

// tryEdit adds an edit unless it overlaps one already scheduled for the file.
func (n *normalizer) tryEdit(start, end token.Pos, text string) bool {
	name, s, e := n.offsets(start, end)
	for _, x := range n.edits[name] {
		if s < x.end && x.start < e {
			return false
		}
	}
	n.edits[name] = append(n.edits[name], textEdit{s, e, text})
	return true
}

// apply produces the new overlay; ok is false when edits overlap.
func (n *normalizer) apply() (map[string][]byte, bool) {
	out := map[string][]byte{}
	for k, v := range n.overlay {
		out[k] = v
	}
	for name, es := range n.edits {
		sort.Slice(es, func(i, j int) bool {
			if es[i].start != es[j].start {
				return es[i].start < es[j].start
			}
			return es[i].end < es[j].end
		})
		src := n.src(name)
		var b bytes.Buffer
		last := 0
		for _, e := range es {
			if e.start < last || e.end > len(src) {
				return nil, false
			}
			b.Write(src[last:e.start])
			b.WriteString(e.text)
			last = e.end
		}
		b.Write(src[last:])
		out[name] = b.Bytes()
	}
	return out, true
}

// renameTypesBack: a pinned named type that disappeared while exactly one new
// type with the same structure (underlying type, method names and signatures)
// appeared is that type under a new name.
func (n *normalizer) renameTypesBack() {
	inv := loadInventory()
	if len(inv.Types) == 0 {
		return
	}
	renames := map[types.Object]string{}
	for _, p := range modulePkgs(n.pkgs) {
		cur := map[string]*types.TypeName{}
		for _, name := range p.Types.Scope().Names() {
			if tn, ok := p.Types.Scope().Lookup(name).(*types.TypeName); ok && !tn.IsAlias() {
				cur[name] = tn
			}
		}
		claimed := map[*types.TypeName][]string{}
		for k, key := range inv.Types {
			if !strings.HasPrefix(k, p.PkgPath+"|") {
				continue
			}
			name := strings.TrimPrefix(k, p.PkgPath+"|")
			if cur[name] != nil {
				continue
			}
			var cands []*types.TypeName
			for cn, tn := range cur {
				if _, isPinned := inv.Types[p.PkgPath+"|"+cn]; isPinned {
					continue
				}
				if namedKey(tn) == key && tn.Exported() == ast.IsExported(name) {
					cands = append(cands, tn)
				}
			}
			if len(cands) == 1 {
				claimed[cands[0]] = append(claimed[cands[0]], name)
			}
		}
		for tn, names := range claimed {
			if len(names) == 1 {
				renames[tn] = names[0]
				n.notes = append(n.notes, fmt.Sprintf("normalise: type %s.%s is the pinned type %s under a new name (same structure and methods, pinned name gone); analysed as %s", short(p.PkgPath), tn.Name(), names[0], names[0]))
			}
		}
	}
	for _, p := range modulePkgs(n.pkgs) {
		for id, o := range p.TypesInfo.Defs {
			if nn, ok := renames[o]; ok && o != nil {
				n.addEdit(id.Pos(), id.End(), nn)
			}
		}
		for id, o := range p.TypesInfo.Uses {
			if nn, ok := renames[o]; ok {
				n.addEdit(id.Pos(), id.End(), nn)
			}
		}
	}
}

// renameBack finds pinned functions/fields that disappeared and a unique
// same-shape newcomer, and schedules the edits that restore the pinned name.
func (n *normalizer) renameBack() {
	inv := loadInventory()
	if len(inv.Funcs) == 0 {
		return
	}
	renames := map[types.Object]string{}
	for _, p := range modulePkgs(n.pkgs) {
		// functions
		cur := map[string]*types.Func{}
		for fn := range declaredFuncs(p) {
			cur[funcKey(fn)] = fn
		}
		var missing []string
		for k := range inv.Funcs {
			if strings.HasPrefix(k, p.PkgPath+"|") && cur[k] == nil {
				missing = append(missing, k)
			}
		}
		sort.Strings(missing)
		claimed := map[*types.Func][]string{}
		for _, mk := range missing {
			parts := strings.Split(mk, "|")
			var cands []*types.Func
			for k, fn := range cur {
				if _, isPinned := inv.Funcs[k]; isPinned {
					continue
				}
				if recvName(fn) == parts[1] && sigKey(fn.Type().(*types.Signature)) == inv.Funcs[mk] && fn.Exported() == ast.IsExported(parts[2]) {
					cands = append(cands, fn)
				}
			}
			if len(cands) == 1 {
				claimed[cands[0]] = append(claimed[cands[0]], parts[2])
			}
		}
		for fn, names := range claimed {
			if len(names) == 1 {
				renames[fn] = names[0]
				n.notes = append(n.notes, fmt.Sprintf("normalise: %s is the pinned %s under a new name (same receiver and signature, pinned name gone); analysed as %s", fn.FullName(), names[0], names[0]))
			}
		}
		// a pinned function that became a method of its first parameter's type, or a
		// pinned method that became a function taking the receiver first
		decls := declaredFuncs(p)
		trailing := map[*types.Func]bool{}
		for _, mk := range missing {
			parts := strings.Split(mk, "|")
			if len(claimed) > 0 {
				skip := false
				for _, names := range claimed {
					for _, nm := range names {
						if nm == parts[2] {
							skip = true
						}
					}
				}
				if skip {
					continue
				}
			}
			var cands []*types.Func
			for k, fn := range cur {
				if _, isPinned := inv.Funcs[k]; isPinned {
					continue
				}
				sig := fn.Type().(*types.Signature)
				switch {
				case parts[1] == "" && sig.Recv() != nil:
					// pinned function, newcomer method: recv + params == pinned params
					if flatKey(sig) == inv.Funcs[mk] {
						cands = append(cands, fn)
					} else if fn.Name() == parts[2] && strings.TrimPrefix(sigKey(sig), "*") == inv.Funcs[mk] {
						// ... or the function was hung on a type it did not take before (same name, same
						// parameters, a receiver in addition): analysed as the function with the receiver
						// as an extra last parameter, so that the pinned parameters keep their positions
						cands = append(cands, fn)
						trailing[fn] = true
					}
				case parts[1] != "" && sig.Recv() == nil && sig.Params().Len() > 0:
					// pinned method, newcomer function
					rt := sig.Params().At(0).Type()
					ptr := ""
					if pt, ok := rt.(*types.Pointer); ok {
						rt = pt.Elem()
						ptr = "*"
					}
					if nt, ok := rt.(*types.Named); ok && nt.Obj().Name() == parts[1] && ptr+restKey(sig) == inv.Funcs[mk] {
						cands = append(cands, fn)
					}
				}
			}
			if len(cands) > 1 {
				// several newcomers of that shape: the one that kept the name
				var same []*types.Func
				for _, c := range cands {
					if c.Name() == parts[2] {
						same = append(same, c)
					}
				}
				cands = same
			}
			if len(cands) != 1 {
				continue
			}
			fn := cands[0]
			fd := decls[fn]
			if fd == nil || fd.Body == nil {
				continue
			}
			n.recvLast = trailing[fn]
			converted := n.convertKind(p, fn, fd, parts[2])
			n.recvLast = false
			if converted {
				n.notes = append(n.notes, fmt.Sprintf("normalise: %s is the pinned %s%s turned %s; analysed in its pinned form", short(fn.FullName()), map[bool]string{true: "function ", false: "method " + parts[1] + "."}[parts[1] == ""], parts[2], map[bool]string{true: "into a method", false: "into a function"}[parts[1] == ""]))
			}
		}
		// struct fields
		sc := p.Types.Scope()
		for _, tname := range sc.Names() {
			tn, ok := sc.Lookup(tname).(*types.TypeName)
			if !ok {
				continue
			}
			st, ok := tn.Type().Underlying().(*types.Struct)
			if !ok {
				continue
			}
			prefix := p.PkgPath + "|" + tname + "|"
			have := map[string]*types.Var{}
			for i := 0; i < st.NumFields(); i++ {
				have[st.Field(i).Name()] = st.Field(i)
			}
			var miss []string
			for k := range inv.Fields {
				if strings.HasPrefix(k, prefix) && have[strings.TrimPrefix(k, prefix)] == nil {
					miss = append(miss, k)
				}
			}
			sort.Strings(miss)
			fclaimed := map[*types.Var][]string{}
			for _, mk := range miss {
				var cands []*types.Var
				for name, f := range have {
					if _, isPinned := inv.Fields[prefix+name]; isPinned || f.Embedded() {
						continue
					}
					if typeKey(f.Type()) == inv.Fields[mk] {
						cands = append(cands, f)
					}
				}
				if len(cands) == 1 {
					fclaimed[cands[0]] = append(fclaimed[cands[0]], strings.TrimPrefix(mk, prefix))
				}
			}
			for f, names := range fclaimed {
				if len(names) == 1 {
					renames[f] = names[0]
					n.notes = append(n.notes, fmt.Sprintf("normalise: field %s.%s.%s is the pinned field %s under a new name (same type, pinned name gone); analysed as %s", short(p.PkgPath), tname, f.Name(), names[0], names[0]))
				}
			}
		}
	}
	if len(renames) == 0 {
		return
	}
	for _, p := range modulePkgs(n.pkgs) {
		for id, o := range p.TypesInfo.Defs {
			if nn, ok := renames[o]; ok && o != nil {
				n.addEdit(id.Pos(), id.End(), nn)
			}
		}
		for id, o := range p.TypesInfo.Uses {
			if nn, ok := renames[o]; ok {
				n.addEdit(id.Pos(), id.End(), nn)
			}
		}
	}
}

// flatKey is sigKey of the signature with the receiver as first parameter.
func flatKey(sig *types.Signature) string {
	var b strings.Builder
	b.WriteString("(")
	b.WriteString(typeKey(sig.Recv().Type()))
	for i := 0; i < sig.Params().Len(); i++ {
		b.WriteString(",")
		b.WriteString(typeKey(sig.Params().At(i).Type()))
	}
	if sig.Variadic() {
		b.WriteString("...")
	}
	b.WriteString(")(")
	for i := 0; i < sig.Results().Len(); i++ {
		if i > 0 {
			b.WriteString(",")
		}
		b.WriteString(typeKey(sig.Results().At(i).Type()))
	}
	b.WriteString(")")
	return b.String()
}

// restKey is sigKey of the signature without its first parameter (and without
// the receiver marker).
func restKey(sig *types.Signature) string {
	var b strings.Builder
	b.WriteString("(")
	for i := 1; i < sig.Params().Len(); i++ {
		if i > 1 {
			b.WriteString(",")
		}
		b.WriteString(typeKey(sig.Params().At(i).Type()))
	}
	if sig.Variadic() {
		b.WriteString("...")
	}
	b.WriteString(")(")
	for i := 0; i < sig.Results().Len(); i++ {
		if i > 0 {
			b.WriteString(",")
		}
		b.WriteString(typeKey(sig.Results().At(i).Type()))
	}
	b.WriteString(")")
	return b.String()
}

// convertKind rewrites a method into the pinned function (receiver first) or a
// function into the pinned method (first parameter as receiver): declaration
// header and every call in the package. It gives up (false, no edits) when the
// function is referred to in any other way.
func (n *normalizer) convertKind(p *packages.Package, fn *types.Func, fd *ast.FuncDecl, pinnedName string) bool {
	type ed struct {
		s, e token.Pos
		text string
	}
	var eds []ed
	toFunc := fd.Recv != nil
	inner := func(fl *ast.FieldList) string {
		if fl == nil || len(fl.List) == 0 {
			return ""
		}
		name, s, e := n.offsets(fl.Opening+1, fl.Closing)
		return strings.TrimSpace(string(n.src(name)[s:e]))
	}
	if toFunc {
		if len(fd.Recv.List) != 1 {
			return false
		}
		recv := inner(fd.Recv)
		if len(fd.Recv.List[0].Names) == 0 {
			recv = "_ " + recv
		}
		params := inner(fd.Type.Params)
		hdr := "func " + pinnedName + "(" + recv
		if params != "" {
			hdr += ", " + params
		}
		hdr += ")"
		if n.recvLast {
			if fd.Type.Params != nil && len(fd.Type.Params.List) > 0 {
				if _, isV := fd.Type.Params.List[len(fd.Type.Params.List)-1].Type.(*ast.Ellipsis); isV {
					return false
				}
			}
			hdr = "func " + pinnedName + "("
			if params != "" {
				hdr += params + ", "
			}
			hdr += recv + ")"
		}
		eds = append(eds, ed{fd.Pos(), fd.Type.Params.End(), hdr})
	} else {
		if fd.Type.Params == nil || len(fd.Type.Params.List) == 0 || len(fd.Type.Params.List[0].Names) > 1 {
			return false
		}
		first := fd.Type.Params.List[0]
		fname, fs, fe := n.offsets(first.Pos(), first.End())
		firstTxt := string(n.src(fname)[fs:fe])
		if len(first.Names) == 0 {
			firstTxt = "_ " + firstTxt
		}
		rest := ""
		if len(fd.Type.Params.List) > 1 {
			_, rs, re := n.offsets(fd.Type.Params.List[1].Pos(), fd.Type.Params.Closing)
			rest = strings.TrimSpace(string(n.src(fname)[rs:re]))
		}
		eds = append(eds, ed{fd.Pos(), fd.Type.Params.End(), "func (" + firstTxt + ") " + pinnedName + "(" + rest + ")"})
	}
	for _, q := range modulePkgs(n.pkgs) {
		for id, o := range q.TypesInfo.Uses {
			if o != fn {
				continue
			}
			if q != p {
				return false
			}
			f := fileOf(q, id.Pos())
			path, _ := astutil.PathEnclosingInterval(f, id.Pos(), id.End())
			if toFunc {
				// x.m(args) -> F(x, args)
				if len(path) < 3 {
					return false
				}
				sel, ok := path[1].(*ast.SelectorExpr)
				call, ok2 := path[2].(*ast.CallExpr)
				if !ok || !ok2 || sel.Sel != id || ast.Node(call.Fun) != ast.Node(sel) {
					return false
				}
				selection := q.TypesInfo.Selections[sel]
				if selection == nil || len(selection.Index()) != 1 {
					return false
				}
				rt := fn.Type().(*types.Signature).Recv().Type()
				at := q.TypesInfo.TypeOf(sel.X)
				x := n.exprText(sel.X)
				switch {
				case types.Identical(at, rt):
				case types.Identical(types.NewPointer(at), rt):
					x = "&" + x
				default:
					if pt, isP := at.(*types.Pointer); isP && types.Identical(pt.Elem(), rt) {
						x = "*" + x
					} else {
						return false
					}
				}
				args := ""
				if len(call.Args) > 0 {
					name, s, e := n.offsets(call.Lparen+1, call.Rparen)
					args = ", " + strings.TrimSpace(string(n.src(name)[s:e]))
				}
				if n.recvLast {
					if !isPureExpr(sel.X) {
						return false // the receiver expression would be evaluated after the arguments
					}
					sep := ""
					if args != "" {
						sep = ", "
					}
					eds = append(eds, ed{call.Pos(), call.End(), pinnedName + "(" + strings.TrimPrefix(args, ", ") + sep + x + ")"})
					continue
				}
				eds = append(eds, ed{call.Pos(), call.End(), pinnedName + "(" + x + args + ")"})
			} else {
				// f(a0, rest) -> (a0).M(rest)
				if len(path) < 2 {
					return false
				}
				call, ok := path[1].(*ast.CallExpr)
				if !ok || ast.Node(call.Fun) != ast.Node(id) || len(call.Args) == 0 || call.Ellipsis.IsValid() && len(call.Args) == 1 {
					return false
				}
				rest := ""
				if len(call.Args) > 1 {
					name, s, e := n.offsets(call.Args[1].Pos(), call.Rparen)
					rest = strings.TrimSpace(string(n.src(name)[s:e]))
				}
				eds = append(eds, ed{call.Pos(), call.End(), "(" + n.exprText(call.Args[0]) + ")." + pinnedName + "(" + rest + ")"})
			}
		}
	}
	// nested calls of the same function inside each other's arguments would overlap
	for i := range eds {
		for j := range eds {
			if i != j && eds[i].s < eds[j].e && eds[j].s < eds[i].e {
				return false
			}
		}
	}
	for _, e := range eds {
		n.addEdit(e.s, e.e, e.text)
	}
	return true
}

// ---------------------------------------------------------------------------
// inlining of newcomers

type callee struct {
	pkg  *packages.Package
	fn   *types.Func
	decl *ast.FuncDecl
	file *ast.File
	// deferIssue: the body has defers the statement-context inliner cannot replay
	// (conditional, or with arguments); such a helper can still be inlined in tail
	// position or turned into a function literal
	deferIssue bool
}

func fileOf(p *packages.Package, pos token.Pos) *ast.File {
	for _, f := range p.Syntax {
		if f.Pos() <= pos && pos < f.End() {
			return f
		}
	}
	return nil
}

func isPureExpr(e ast.Expr) bool {
	switch x := e.(type) {
	case *ast.Ident, *ast.BasicLit:
		return true
	case *ast.SelectorExpr:
		return isPureExpr(x.X)
	case *ast.ParenExpr:
		return isPureExpr(x.X)
	case *ast.UnaryExpr:
		return (x.Op == token.AND || x.Op == token.NOT || x.Op == token.SUB) && isPureExpr(x.X)
	case *ast.StarExpr:
		return false
	case *ast.BinaryExpr:
		return x.Op != token.QUO && x.Op != token.REM && x.Op != token.SHL && x.Op != token.SHR && isPureExpr(x.X) && isPureExpr(x.Y)
	case *ast.CallExpr:
		if id, ok := x.Fun.(*ast.Ident); ok && (id.Name == "len" || id.Name == "cap") && len(x.Args) == 1 {
			return isPureExpr(x.Args[0])
		}
	}
	return false
}

// inlinable checks the callee's body for constructs the inliner cannot move.
// defers lists the supported top-level defers by index in body.List.
func (n *normalizer) inlinable(c *callee, newcomers map[*types.Func]*callee) (ok bool, why string) {
	fd := c.decl
	if fd.Body == nil {
		return false, "no body"
	}
	if fd.Type.TypeParams != nil {
		return false, "generic"
	}
	if fd.Recv != nil && len(fd.Recv.List) == 1 {
		t := fd.Recv.List[0].Type
		if s, isStar := t.(*ast.StarExpr); isStar {
			t = s.X
		}
		if _, isIdent := t.(*ast.Ident); !isIdent {
			return false, "generic receiver"
		}
	}
	top := map[ast.Stmt]bool{}
	for _, s := range fd.Body.List {
		top[s] = true
	}
	bad := ""
	ast.Inspect(fd.Body, func(nd ast.Node) bool {
		if bad != "" {
			return false
		}
		switch x := nd.(type) {
		case *ast.FuncLit:
			// returns/defers inside a literal belong to the literal; but a
			// reference to the callee itself or a newcomer still matters
			ast.Inspect(x, func(m ast.Node) bool {
				if id, ok := m.(*ast.Ident); ok {
					if fn, ok := c.pkg.TypesInfo.Uses[id].(*types.Func); ok {
						if fn == c.fn {
							bad = "recursive"
						} else if _, isNew := newcomers[fn]; isNew {
							bad = "calls another new function (next round)"
						}
					}
				}
				return true
			})
			return false
		case *ast.LabeledStmt:
			// labels are renamed per inlining site (bodyText)
		case *ast.BranchStmt:
			// a goto to a label of the body itself (left behind by an earlier round of inlining)
			// is renamed with its label; any other goto is refused
			if x.Tok == token.GOTO {
				own := false
				if x.Label != nil {
					ast.Inspect(fd.Body, func(m ast.Node) bool {
						if l, isL := m.(*ast.LabeledStmt); isL && l.Label.Name == x.Label.Name {
							own = true
						}
						return true
					})
				}
				if !own {
					bad = "goto"
				}
			}
		case *ast.DeferStmt:
			if !top[x] || len(x.Call.Args) != 0 || !isPureExpr(x.Call.Fun) {
				c.deferIssue = true
			}
		case *ast.Ident:
			switch o := c.pkg.TypesInfo.Uses[x].(type) {
			case *types.Builtin:
				if o.Name() == "recover" {
					bad = "recover"
				}
			case *types.Func:
				if o == c.fn {
					bad = "recursive"
				} else if _, isNew := newcomers[o]; isNew {
					bad = "calls another new function (next round)"
				}
			}
		}
		return true
	})
	if bad != "" {
		return false, bad
	}
	return true, ""
}

// hygienic reports whether every identifier of the callee that refers to
// something declared outside it means the same thing at the call site.
func (n *normalizer) hygienic(c *callee, at token.Pos) bool {
	inner := c.pkg.Types.Scope().Innermost(at)
	if inner == nil {
		return false
	}
	ok := true
	var check func(root ast.Node)
	check = func(root ast.Node) {
		ast.Inspect(root, func(nd ast.Node) bool {
			if !ok {
				return false
			}
			if sel, isSel := nd.(*ast.SelectorExpr); isSel {
				// only the operand can be a free identifier
				check(sel.X)
				return false
			}
			if kv, isKV := nd.(*ast.KeyValueExpr); isKV {
				if _, isId := kv.Key.(*ast.Ident); isId {
					if v, isVar := c.pkg.TypesInfo.Uses[kv.Key.(*ast.Ident)].(*types.Var); isVar && v.IsField() {
						check(kv.Value)
						return false
					}
				}
			}
			id, isId := nd.(*ast.Ident)
			if !isId || id.Name == "_" {
				return true
			}
			o := c.pkg.TypesInfo.Uses[id]
			if o == nil {
				return true
			}
			if v, isVar := o.(*types.Var); isVar && v.IsField() {
				return true
			}
			// declared inside the callee?
			if o.Pos().IsValid() && c.decl.Pos() <= o.Pos() && o.Pos() < c.decl.End() {
				return true
			}
			_, found := inner.LookupParent(id.Name, at)
			if found == nil {
				ok = false
				return false
			}
			if found == o {
				return true
			}
			pa, isA := found.(*types.PkgName)
			pb, isB := o.(*types.PkgName)
			if isA && isB && pa.Imported() == pb.Imported() {
				return true
			}
			ok = false
			return false
		})
	}
	check(c.decl.Type)
	if c.decl.Recv != nil {
		check(c.decl.Recv)
	}
	check(c.decl.Body)
	return ok
}

func printNode(fset *token.FileSet, nd interface{}) string {
	var b bytes.Buffer
	printer.Fprint(&b, fset, nd)
	return b.String()
}

// freshDecl re-parses the callee's file and returns an unshared copy of its
// declaration, with the file set it was parsed into.
func (n *normalizer) freshDecl(c *callee) (*token.FileSet, *ast.FuncDecl) {
	name := n.fset.File(c.decl.Pos()).Name()
	fs := token.NewFileSet()
	f, err := parser.ParseFile(fs, name, n.src(name), parser.SkipObjectResolution)
	if err != nil {
		return nil, nil
	}
	want := n.fset.Position(c.decl.Name.Pos()).Offset
	for _, d := range f.Decls {
		if fd, ok := d.(*ast.FuncDecl); ok && fs.Position(fd.Name.Pos()).Offset == want {
			return fs, fd
		}
	}
	return nil, nil
}

type paramInfo struct {
	name string
	typ  string // as written in the callee
	T    types.Type
	vari bool
}

func fieldNames(fl *ast.FieldList, fs *token.FileSet) []paramInfo {
	var out []paramInfo
	if fl == nil {
		return nil
	}
	for _, f := range fl.List {
		t := f.Type
		vari := false
		if e, ok := t.(*ast.Ellipsis); ok {
			vari = true
			t = e.Elt
		}
		ts := printNode(fs, t)
		if vari {
			ts = "[]" + ts
		}
		if len(f.Names) == 0 {
			out = append(out, paramInfo{name: "_", typ: ts, vari: vari})
		}
		for _, nm := range f.Names {
			out = append(out, paramInfo{name: nm.Name, typ: ts, vari: vari})
		}
	}
	return out
}

func identsIn(e ast.Node) map[string]bool {
	out := map[string]bool{}
	if e == nil {
		return out
	}
	ast.Inspect(e, func(nd ast.Node) bool {
		if id, ok := nd.(*ast.Ident); ok {
			out[id.Name] = true
		}
		return true
	})
	return out
}

// bodyText renders the callee's body for a statement-context inlining at one
// site: bindings, body with returns turned into assignments + break.
// condMode asks bodyText to render a bool helper for an if condition: every
// `return E` becomes `if E { goto T }; goto F` (labels swapped for a negated
// condition), so that the caller's branch depends directly on E instead of on
// a result variable merged from several returns.
type condMode struct {
	negated      bool
	usedT, usedF bool
	// tail: the call is the whole operand of a return statement, so the helper's
	// body replaces that statement as it is: its returns and defers stay real
	// returns and defers of the caller (they run at the same moments)
	tail bool
}

func (n *normalizer) bodyText(c *callee, call *ast.CallExpr, tag string, cm ...*condMode) (text string, results []string, ok bool) {
	var cond *condMode
	if len(cm) == 1 {
		cond = cm[0]
	}
	fs, fd := n.freshDecl(c)
	if fd == nil {
		return dbgFail(1)
	}
	info := c.pkg.TypesInfo
	sig := c.fn.Type().(*types.Signature)
	params := fieldNames(fd.Type.Params, fs)
	res := fieldNames(fd.Type.Results, fs)
	for i := range res {
		results = append(results, fmt.Sprintf("_%s_r%d", tag, i))
	}
	var b strings.Builder
	if cond != nil {
		b.WriteString("{\n")
	} else if false {
	} else {
		for i, r := range res {
			fmt.Fprintf(&b, "var %s %s\n_ = %s\n", results[i], r.typ, results[i])
		}
		fmt.Fprintf(&b, "_%s:\nfor {\n", tag)
	}
	// names bound so far must not occur in later argument or type texts
	bound := map[string]bool{}
	// a name bound to itself (`var s *Session = s` for the argument s) still means the
	// same value in later argument texts
	boundSame := map[string]bool{}
	checkFree := func(e ast.Node, typ string) bool {
		for name := range identsIn(e) {
			if bound[name] && !boundSame[name] {
				return false
			}
		}
		for name := range bound {
			if name != "_" && strings.Contains(typ, name) {
				// conservative textual test on the type expression
				for _, tok := range strings.FieldsFunc(typ, func(r rune) bool {
					return !(r == '_' || r >= '0' && r <= '9' || r >= 'a' && r <= 'z' || r >= 'A' && r <= 'Z')
				}) {
					if tok == name {
						return false
					}
				}
			}
		}
		return true
	}
	var used []string
	// receiver
	if fd.Recv != nil && len(fd.Recv.List) == 1 {
		sel, isSel := call.Fun.(*ast.SelectorExpr)
		if !isSel {
			return dbgFail(2)
		}
		selection := info.Selections[sel]
		if selection == nil || selection.Kind() != types.MethodVal || len(selection.Index()) != 1 {
			return dbgFail(3)
		}
		rt := sig.Recv().Type()
		at := info.TypeOf(sel.X)
		expr := n.exprText(sel.X)
		switch {
		case types.Identical(at, rt):
		case types.Identical(types.NewPointer(at), rt):
			expr = "&" + expr
		default:
			if p, isP := at.(*types.Pointer); isP && types.Identical(p.Elem(), rt) {
				expr = "*" + expr
			} else {
				return dbgFail(4)
			}
		}
		rname := "_"
		if len(fd.Recv.List[0].Names) == 1 {
			rname = fd.Recv.List[0].Names[0].Name
		}
		fmt.Fprintf(&b, "var %s %s = %s\n", rname, printNode(fs, fd.Recv.List[0].Type), expr)
		if rname != "_" {
			boundSame[rname] = expr == rname
			bound[rname] = true
			used = append(used, rname)
		}
	}
	// parameters
	for i, p := range params {
		var rhs string
		if p.vari {
			if call.Ellipsis.IsValid() {
				if i >= len(call.Args) || !checkFree(call.Args[i], p.typ) {
					return dbgFail(5)
				}
				rhs = n.exprText(call.Args[i])
			} else if i >= len(call.Args) {
				rhs = "nil"
			} else {
				var parts []string
				for _, a := range call.Args[i:] {
					if !checkFree(a, p.typ) {
						return dbgFail(6)
					}
					parts = append(parts, n.exprText(a))
				}
				rhs = p.typ + "{" + strings.Join(parts, ", ") + "}"
			}
		} else {
			if i >= len(call.Args) {
				return dbgFail(7) // f(g()) multi-value spread
			}
			if !checkFree(call.Args[i], p.typ) {
				return dbgFail(8)
			}
			rhs = n.exprText(call.Args[i])
		}
		fmt.Fprintf(&b, "var %s %s = %s\n", p.name, p.typ, rhs)
		if p.name != "_" {
			bound[p.name] = true
			boundSame[p.name] = rhs == p.name
			used = append(used, p.name)
		}
	}
	if !sig.Variadic() && len(call.Args) != len(params) {
		return dbgFail(9)
	}
	// named results
	named := false
	for _, r := range res {
		if r.name != "_" && fd.Type.Results.List[0].Names != nil {
			named = true
			fmt.Fprintf(&b, "var %s %s\n", r.name, r.typ)
			used = append(used, r.name)
		}
	}
	for _, u := range used {
		fmt.Fprintf(&b, "_ = %s\n", u)
	}
	// body: defers and returns
	type dinfo struct {
		idx  int
		text string
	}
	var defers []dinfo
	for i, s := range fd.Body.List {
		if cond != nil && cond.tail {
			break
		}
		if d, isD := s.(*ast.DeferStmt); isD {
			defers = append(defers, dinfo{i, printNode(fs, d.Call)})
			fd.Body.List[i] = &ast.EmptyStmt{Implicit: false, Semicolon: d.Pos()}
		}
	}
	activeAt := func(idx int) string {
		var out []string
		for k := len(defers) - 1; k >= 0; k-- {
			if defers[k].idx < idx {
				out = append(out, defers[k].text)
			}
		}
		if len(out) == 0 {
			return ""
		}
		return strings.Join(out, "\n") + "\n"
	}
	// labels of the callee get a per-site name, so that a body inlined at several sites
	// (or one that already contains an inlined body) declares no label twice
	{
		own := map[string]bool{}
		ast.Inspect(fd.Body, func(nd ast.Node) bool {
			if _, isLit := nd.(*ast.FuncLit); isLit {
				return false
			}
			if l, isL := nd.(*ast.LabeledStmt); isL {
				own[l.Label.Name] = true
			}
			return true
		})
		if len(own) > 0 {
			ast.Inspect(fd.Body, func(nd ast.Node) bool {
				switch x := nd.(type) {
				case *ast.FuncLit:
					return false
				case *ast.LabeledStmt:
					x.Label.Name += "_" + tag
				case *ast.BranchStmt:
					if x.Label != nil && own[x.Label.Name] {
						x.Label.Name += "_" + tag
					}
				}
				return true
			})
		}
	}
	// replace returns, statement by statement so that the active defers are known
	retSeq := 0
	failed := false
	type repl struct {
		marker string
		text   string
	}
	var repls []repl
	for idx := range fd.Body.List {
		fd.Body.List[idx] = astutil.Apply(fd.Body.List[idx], func(cur *astutil.Cursor) bool {
			switch x := cur.Node().(type) {
			case *ast.FuncLit:
				return false
			case *ast.ReturnStmt:
				if cond != nil && cond.tail {
					if len(x.Results) == 0 && len(res) > 0 {
						failed = true // bare return of named results
					}
					return true
				}
				var t strings.Builder
				t.WriteString("{\n")
				if cond != nil {
					if len(x.Results) != 1 {
						failed = true
						return false
					}
					lt, lf := "_"+tag+"_t", "_"+tag+"_f"
					if cond.negated {
						lt, lf = lf, lt
					}
					mark := func(l string) {
						if l == "_"+tag+"_t" {
							cond.usedT = true
						} else {
							cond.usedF = true
						}
					}
					e := printNode(fs, x.Results[0])
					d := activeAt(idx)
					switch {
					case e == "true":
						t.WriteString(d)
						fmt.Fprintf(&t, "goto %s\n}", lt)
						mark(lt)
					case e == "false":
						t.WriteString(d)
						fmt.Fprintf(&t, "goto %s\n}", lf)
						mark(lf)
					case d == "":
						fmt.Fprintf(&t, "if %s {\ngoto %s\n}\ngoto %s\n}", e, lt, lf)
						mark(lt)
						mark(lf)
					default:
						fmt.Fprintf(&t, "_%s_c := %s\n%sif _%s_c {\ngoto %s\n}\ngoto %s\n}", tag, e, d, tag, lt, lf)
						mark(lt)
						mark(lf)
					}
					retSeq++
					marker := fmt.Sprintf("_%s_ret%d_()", tag, retSeq)
					repls = append(repls, repl{marker, t.String()})
					cur.Replace(&ast.ExprStmt{X: &ast.Ident{Name: marker}})
					return true
				}
				if len(results) > 0 {
					var rhs []string
					for _, e := range x.Results {
						rhs = append(rhs, printNode(fs, e))
					}
					if len(rhs) == 0 {
						if !named {
							failed = true
							return false
						}
						for _, r := range res {
							rhs = append(rhs, r.name)
						}
					}
					fmt.Fprintf(&t, "%s = %s\n", strings.Join(results, ", "), strings.Join(rhs, ", "))
				}
				t.WriteString(activeAt(idx))
				fmt.Fprintf(&t, "break _%s\n}", tag)
				retSeq++
				marker := fmt.Sprintf("_%s_ret%d_()", tag, retSeq)
				repls = append(repls, repl{marker, t.String()})
				cur.Replace(&ast.ExprStmt{X: &ast.Ident{Name: marker[:len(marker)-2] + "()"}})
			}
			return true
		}, nil).(ast.Stmt)
	}
	if failed {
		return dbgFail(10)
	}
	body := printNode(fs, fd.Body.List)
	for _, r := range repls {
		if !strings.Contains(body, r.marker) {
			return dbgFail(11)
		}
		body = strings.Replace(body, r.marker, r.text, 1)
	}
	b.WriteString(body)
	b.WriteString("\n")
	if cond != nil {
		b.WriteString("}\n")
		return b.String(), nil, true
	}
	b.WriteString(activeAt(len(fd.Body.List)))
	fmt.Fprintf(&b, "break _%s\n}\n", tag)
	return b.String(), results, true
}

// condSite recognises `if f(args) {S} else {T}` / `if !f(args) ...` for a
// helper with a single bool result, the if statement standing in a statement
// list or in else position.
func condSite(path []ast.Node, call *ast.CallExpr) (*ast.IfStmt, bool) {
	neg := false
	var child ast.Node = call
	for i := 1; i < len(path); i++ {
		switch p := path[i].(type) {
		case *ast.ParenExpr:
		case *ast.UnaryExpr:
			if p.Op != token.NOT {
				return nil, false
			}
			neg = !neg
		case *ast.IfStmt:
			if ast.Node(p.Cond) != child || p.Init != nil || i+1 >= len(path) {
				return nil, false
			}
			switch up := path[i+1].(type) {
			case *ast.BlockStmt:
			case *ast.CaseClause, *ast.CommClause:
			case *ast.IfStmt:
				if up.Else != ast.Stmt(p) {
					return nil, false
				}
			default:
				return nil, false
			}
			return p, neg
		default:
			return nil, false
		}
		child = path[i]
	}
	return nil, false
}

// litText renders `go f(args)` / `defer f(args)` of a new helper as the call
// of a function literal with the helper's parameters (the receiver first) and
// body: arguments are still evaluated at the go / defer statement.
func (n *normalizer) litText(c *callee, call *ast.CallExpr) (string, bool) {
	fs, fd := n.freshDecl(c)
	if fd == nil {
		return "", false
	}
	info := c.pkg.TypesInfo
	sig := c.fn.Type().(*types.Signature)
	var params, args []string
	if fd.Recv != nil && len(fd.Recv.List) == 1 {
		sel, isSel := call.Fun.(*ast.SelectorExpr)
		if !isSel {
			return "", false
		}
		selection := info.Selections[sel]
		if selection == nil || selection.Kind() != types.MethodVal || len(selection.Index()) != 1 {
			return "", false
		}
		rt := sig.Recv().Type()
		at := info.TypeOf(sel.X)
		expr := n.exprText(sel.X)
		switch {
		case types.Identical(at, rt):
		case types.Identical(types.NewPointer(at), rt):
			expr = "&" + expr
		default:
			if p, isP := at.(*types.Pointer); isP && types.Identical(p.Elem(), rt) {
				expr = "*" + expr
			} else {
				return "", false
			}
		}
		rname := "_"
		if len(fd.Recv.List[0].Names) == 1 {
			rname = fd.Recv.List[0].Names[0].Name
		}
		params = append(params, rname+" "+printNode(fs, fd.Recv.List[0].Type))
		args = append(args, expr)
	}
	for _, f := range fd.Type.Params.List {
		t := printNode(fs, f.Type)
		if len(f.Names) == 0 {
			params = append(params, "_ "+t)
		}
		for _, nm := range f.Names {
			params = append(params, nm.Name+" "+t)
		}
	}
	for _, a := range call.Args {
		args = append(args, n.exprText(a))
	}
	ell := ""
	if call.Ellipsis.IsValid() {
		ell = "..."
	}
	res := ""
	if fd.Type.Results != nil {
		var rs []string
		for _, r := range fieldNames(fd.Type.Results, fs) {
			if r.name == "_" {
				rs = append(rs, r.typ)
			} else {
				rs = append(rs, r.name+" "+r.typ)
			}
		}
		res = " (" + strings.Join(rs, ", ") + ")"
	}
	bodyLine := n.fset.PositionFor(c.decl.Body.Lbrace, false).Line
	calleeFile := n.fset.File(c.decl.Pos()).Name()
	line := n.fset.PositionFor(call.End(), false).Line
	fname := n.fset.File(call.Pos()).Name()
	return fmt.Sprintf("func(%s)%s {\n//line %s:%d\n%s\n//line %s:%d\n}(%s%s)", strings.Join(params, ", "), res, calleeFile, bodyLine+1, strings.TrimSuffix(strings.TrimPrefix(strings.TrimSpace(printNode(fs, fd.Body)), "{"), "}"), fname, line, strings.Join(args, ", "), ell), true
}

// valueLit renders a new helper that is used as a function value (`f`, or the
// method value `x.m` with a pure x) as a function literal with the helper's
// signature and body.
func (n *normalizer) valueLit(c *callee, use ast.Expr) (string, bool) {
	fs, fd := n.freshDecl(c)
	if fd == nil {
		return "", false
	}
	sig := c.fn.Type().(*types.Signature)
	bind := ""
	if sig.Recv() != nil {
		sel, isSel := use.(*ast.SelectorExpr)
		if !isSel || !isPureExpr(sel.X) || len(fd.Recv.List) != 1 {
			return "", false
		}
		selection := c.pkg.TypesInfo.Selections[sel]
		if selection == nil || selection.Kind() != types.MethodVal || len(selection.Index()) != 1 {
			return "", false
		}
		rt := sig.Recv().Type()
		at := c.pkg.TypesInfo.TypeOf(sel.X)
		expr := n.exprText(sel.X)
		switch {
		case types.Identical(at, rt):
		case types.Identical(types.NewPointer(at), rt):
			expr = "&" + expr
		default:
			if p, isP := at.(*types.Pointer); isP && types.Identical(p.Elem(), rt) {
				expr = "*" + expr
			} else {
				return "", false
			}
		}
		if len(fd.Recv.List[0].Names) == 1 && fd.Recv.List[0].Names[0].Name != "_" {
			rname := fd.Recv.List[0].Names[0].Name
			if rname != expr {
				// a parameter of the helper must not hide the receiver expression
				for _, p := range fieldNames(fd.Type.Params, fs) {
					if identsIn(sel.X)[p.name] {
						return "", false
					}
				}
				bind = fmt.Sprintf("var %s %s = %s\n_ = %s\n", rname, printNode(fs, fd.Recv.List[0].Type), expr, rname)
			}
		}
	} else if _, isId := use.(*ast.Ident); !isId {
		return "", false
	}
	var params []string
	for _, f := range fd.Type.Params.List {
		t := printNode(fs, f.Type)
		if len(f.Names) == 0 {
			params = append(params, "_ "+t)
		}
		for _, nm := range f.Names {
			params = append(params, nm.Name+" "+t)
		}
	}
	res := ""
	if fd.Type.Results != nil {
		var rs []string
		for _, r := range fieldNames(fd.Type.Results, fs) {
			if r.name == "_" {
				rs = append(rs, r.typ)
			} else {
				rs = append(rs, r.name+" "+r.typ)
			}
		}
		res = " (" + strings.Join(rs, ", ") + ")"
	}
	calleeFile := n.fset.File(c.decl.Pos()).Name()
	bodyLine := n.fset.PositionFor(c.decl.Body.Lbrace, false).Line
	fname := n.fset.File(use.Pos()).Name()
	line := n.fset.PositionFor(use.End(), false).Line
	body := strings.TrimSuffix(strings.TrimPrefix(strings.TrimSpace(printNode(fs, fd.Body)), "{"), "}")
	return fmt.Sprintf("func(%s)%s {\n//line %s:%d\n%s%s\n//line %s:%d\n}", strings.Join(params, ", "), res, calleeFile, bodyLine+1, bind, body, fname, line), true
}

// exprText returns the source text of an expression of the loaded syntax.
func (n *normalizer) exprText(e ast.Node) string {
	name, s, t := n.offsets(e.Pos(), e.End())
	return string(n.src(name)[s:t])
}

// exprInline renders a single-return callee as an expression for one site,
// or "" when the site does not qualify.
func (n *normalizer) exprInline(c *callee, call *ast.CallExpr) string {
	if len(c.decl.Body.List) != 1 {
		return ""
	}
	ret, ok := c.decl.Body.List[0].(*ast.ReturnStmt)
	if !ok || len(ret.Results) != 1 {
		return ""
	}
	hasLit := false
	ast.Inspect(ret.Results[0], func(nd ast.Node) bool {
		if _, isLit := nd.(*ast.FuncLit); isLit {
			hasLit = true
		}
		return true
	})
	if hasLit {
		return ""
	}
	info := c.pkg.TypesInfo
	sig := c.fn.Type().(*types.Signature)
	if sig.Variadic() || sig.Params().Len() != len(call.Args) {
		return ""
	}
	subst := map[types.Object]string{}
	if sig.Recv() != nil {
		sel, isSel := call.Fun.(*ast.SelectorExpr)
		if !isSel || !isPureExpr(sel.X) {
			return ""
		}
		selection := info.Selections[sel]
		if selection == nil || len(selection.Index()) != 1 {
			return ""
		}
		rt := sig.Recv().Type()
		at := info.TypeOf(sel.X)
		expr := "(" + n.exprText(sel.X) + ")"
		switch {
		case types.Identical(at, rt):
		case types.Identical(types.NewPointer(at), rt):
			expr = "(&" + expr + ")"
		default:
			if p, isP := at.(*types.Pointer); isP && types.Identical(p.Elem(), rt) {
				expr = "(*" + expr + ")"
			} else {
				return ""
			}
		}
		if len(c.decl.Recv.List[0].Names) == 1 {
			if o := info.Defs[c.decl.Recv.List[0].Names[0]]; o != nil {
				subst[o] = expr
			}
		}
	}
	i := 0
	for _, f := range c.decl.Type.Params.List {
		names := f.Names
		if len(names) == 0 {
			i++
			continue
		}
		for _, nm := range names {
			a := call.Args[i]
			i++
			if !isPureExpr(a) {
				return ""
			}
			txt := "(" + n.exprText(a) + ")"
			pt := sig.Params().At(i - 1).Type()
			if !types.Identical(info.TypeOf(a), pt) {
				txt = "(" + n.exprText(f.Type) + ")" + txt
			}
			if o := info.Defs[nm]; o != nil {
				subst[o] = txt
			}
		}
	}
	// splice the substitutions into the text of the result expression
	e := ret.Results[0]
	name, s, t := n.offsets(e.Pos(), e.End())
	src := n.src(name)
	type sub struct {
		s, e int
		text string
	}
	var subs []sub
	ast.Inspect(e, func(nd ast.Node) bool {
		if id, isId := nd.(*ast.Ident); isId {
			if txt, has := subst[info.Uses[id]]; has {
				_, a, b := n.offsets(id.Pos(), id.End())
				subs = append(subs, sub{a, b, txt})
			}
		}
		return true
	})
	sort.Slice(subs, func(i, j int) bool { return subs[i].s < subs[j].s })
	var b strings.Builder
	last := s
	for _, x := range subs {
		b.Write(src[last:x.s])
		b.WriteString(x.text)
		last = x.e
	}
	b.Write(src[last:t])
	out := b.String()
	if strings.Contains(out, "\n") {
		return ""
	}
	// the value has the declared result type
	rt := sig.Results().At(0).Type()
	if !types.Identical(info.TypeOf(e), rt) || isUntyped(info.TypeOf(e)) {
		return "(" + n.exprText(c.decl.Type.Results.List[0].Type) + ")(" + out + ")"
	}
	return "(" + out + ")"
}

func isUntyped(t types.Type) bool {
	b, ok := t.(*types.Basic)
	return ok && b.Info()&types.IsUntyped != 0
}

// stmtContext classifies the call's position. The call may be nested in the
// expressions of its statement as long as hoisting it in front of the
// statement keeps the order of side effects: everything the statement
// evaluates before the call must be pure, and the call must not sit in the
// right operand of && / ||. kind:
//
//	"drop"  expression statement consisting of the call: prelude only
//	"stmt"  prelude, then the statement with the call replaced by its results
//	"wrap"  as "stmt" inside a new block (if / switch / range headers)
//	"lit"   go / defer of the call: the callee becomes a function literal
func stmtContext(path []ast.Node, call *ast.CallExpr) (kind string, stmt ast.Stmt, nested bool) {
	inList := func(s ast.Stmt, parent ast.Node) bool {
		var list []ast.Stmt
		switch p := parent.(type) {
		case *ast.BlockStmt:
			list = p.List
		case *ast.CaseClause:
			list = p.Body
		case *ast.CommClause:
			list = p.Body
		}
		for _, x := range list {
			if x == s {
				return true
			}
		}
		return false
	}
	wrapOK := func(s ast.Stmt, parent ast.Node) bool {
		if inList(s, parent) {
			return true
		}
		pi, ok := parent.(*ast.IfStmt)
		return ok && pi.Else == s
	}
	pureAll := func(es []ast.Expr) bool {
		for _, e := range es {
			if !isPureExpr(e) {
				return false
			}
		}
		return true
	}
	// before reports whether the expressions evaluated before child within
	// the ordered operand list are all pure.
	before := func(list []ast.Expr, child ast.Node) (found, pure bool) {
		for i, e := range list {
			if ast.Node(e) == child {
				return true, pureAll(list[:i])
			}
		}
		return false, false
	}
	var child ast.Node = call
	for i := 1; i < len(path); i++ {
		parent := path[i]
		var up ast.Node
		if i+1 < len(path) {
			up = path[i+1]
		}
		switch p := parent.(type) {
		case *ast.ParenExpr, *ast.StarExpr, *ast.TypeAssertExpr:
		case *ast.UnaryExpr:
			if p.Op == token.ARROW {
				return "", nil, false
			}
		case *ast.SelectorExpr:
		case *ast.BinaryExpr:
			if p.Y == child {
				if p.Op == token.LAND || p.Op == token.LOR || !isPureExpr(p.X) {
					return "", nil, false
				}
			}
		case *ast.CallExpr:
			if p.Fun == child {
				return "", nil, false
			}
			if !isPureExpr(p.Fun) {
				// a method value x.m with pure x is pure; anything else is not
				return "", nil, false
			}
			if found, pure := before(p.Args, child); !found || !pure {
				return "", nil, false
			}
		case *ast.IndexExpr:
			if p.Index == child && !isPureExpr(p.X) {
				return "", nil, false
			}
		case *ast.KeyValueExpr:
			if p.Value == child && !isPureExpr(p.Key) {
				return "", nil, false
			}
		case *ast.CompositeLit:
			if found, pure := before(p.Elts, child); !found {
				return "", nil, false
			} else if !pure {
				// earlier elements may be key: value pairs with pure parts
				for _, e := range p.Elts {
					if ast.Node(e) == child {
						break
					}
					if kv, ok := e.(*ast.KeyValueExpr); ok && isPureExpr(kv.Value) {
						continue
					}
					if !isPureExpr(e) {
						return "", nil, false
					}
				}
			}
		case *ast.ExprStmt:
			if !inList(p, up) {
				return "", nil, false
			}
			if ast.Node(p.X) == ast.Node(call) {
				return "drop", p, false
			}
			return "stmt", p, true
		case *ast.AssignStmt:
			all := append(append([]ast.Expr{}, p.Lhs...), p.Rhs...)
			if p.Tok == token.DEFINE {
				all = p.Rhs
			}
			found, pure := before(all, child)
			if !found || !pure {
				return "", nil, false
			}
			direct := len(p.Rhs) == 1 && ast.Node(p.Rhs[0]) == ast.Node(call)
			if inList(p, up) {
				return "stmt", p, !direct
			}
			// init of an if / switch
			if i+2 < len(path) {
				switch h := up.(type) {
				case *ast.IfStmt:
					if h.Init == ast.Stmt(p) && wrapOK(h, path[i+2]) {
						return "wrap", h, !direct
					}
				case *ast.SwitchStmt:
					if h.Init == ast.Stmt(p) && inList(h, path[i+2]) {
						return "wrap", h, !direct
					}
				}
			}
			return "", nil, false
		case *ast.ReturnStmt:
			found, pure := before(p.Results, child)
			if !found || !pure || !inList(p, up) {
				return "", nil, false
			}
			direct := len(p.Results) == 1 && ast.Node(p.Results[0]) == ast.Node(call)
			return "stmt", p, !direct
		case *ast.ValueSpec:
			found, pure := before(p.Values, child)
			if !found || !pure || i+3 >= len(path) {
				return "", nil, false
			}
			gd, ok := up.(*ast.GenDecl)
			ds, ok2 := path[i+2].(*ast.DeclStmt)
			if !ok || !ok2 || len(gd.Specs) != 1 || !inList(ds, path[i+3]) {
				return "", nil, false
			}
			direct := len(p.Values) == 1 && ast.Node(p.Values[0]) == ast.Node(call)
			return "stmt", ds, !direct
		case *ast.IfStmt:
			if ast.Node(p.Cond) == child && p.Init == nil && wrapOK(p, up) {
				return "wrap", p, true
			}
			return "", nil, false
		case *ast.SwitchStmt:
			if ast.Node(p.Tag) == child && p.Init == nil && inList(p, up) {
				return "wrap", p, true
			}
			return "", nil, false
		case *ast.RangeStmt:
			if ast.Node(p.X) == child && inList(p, up) {
				return "wrap", p, true
			}
			return "", nil, false
		case *ast.GoStmt:
			if p.Call == call && inList(p, up) {
				return "lit", p, false
			}
			if found, pure := before(p.Call.Args, child); found && pure && isPureExpr(p.Call.Fun) && inList(p, up) {
				return "stmt", p, true
			}
			return "", nil, false
		case *ast.DeferStmt:
			if p.Call == call && inList(p, up) {
				return "lit", p, false
			}
			if found, pure := before(p.Call.Args, child); found && pure && isPureExpr(p.Call.Fun) && inList(p, up) {
				return "stmt", p, true
			}
			return "", nil, false
		case *ast.IncDecStmt, *ast.SendStmt:
			return "", nil, false
		default:
			return "", nil, false
		}
		child = parent
	}
	return "", nil, false
}

// splitShortCircuit handles a helper call in the right operand of the top
// level && / || of an if condition, where it cannot be hoisted in front of the
// statement. The if is rewritten so that the operand gets a condition of its
// own, which the next round can hoist from:
//
//	if A || B {S} else {T}   =>   if A {S} else if B {S} else {T}
//	if A && B {S} else {T}   =>   if A { if B {S} else {T} } else {T}
//
// S (or T) is duplicated, which is harmless for behaviour; it is done only
// for small blocks without labels or function literals.
// hoistReceiverCall: for `return CALL.M(args...)` where CALL is the call to be
// inlined and the receiver of the outermost call of the returned expression
// (so it is evaluated before anything else in the statement), returns the
// statement and its replacement `{ _hN := CALL; return _hN.M(args...) }`.
func (n *normalizer) hoistReceiverCall(path []ast.Node, call *ast.CallExpr) (*ast.ReturnStmt, string) {
	if len(path) < 4 {
		return nil, ""
	}
	sel, ok := path[1].(*ast.SelectorExpr)
	if !ok || ast.Node(sel.X) != ast.Node(call) {
		return nil, ""
	}
	outer, ok := path[2].(*ast.CallExpr)
	if !ok || ast.Node(outer.Fun) != ast.Node(sel) {
		return nil, ""
	}
	rs, ok := path[3].(*ast.ReturnStmt)
	if !ok || len(rs.Results) != 1 || ast.Node(rs.Results[0]) != ast.Node(outer) {
		return nil, ""
	}
	n.seq++
	name := fmt.Sprintf("_h%d", n.seq)
	var args []string
	for _, a := range outer.Args {
		args = append(args, n.exprText(a))
	}
	ell := ""
	if outer.Ellipsis.IsValid() {
		ell = "..."
	}
	return rs, fmt.Sprintf("{\n%s := %s\nreturn %s.%s(%s%s)\n}", name, n.exprText(call), name, sel.Sel.Name, strings.Join(args, ", "), ell)
}

func (n *normalizer) splitShortCircuit(path []ast.Node, call *ast.CallExpr) (*ast.IfStmt, string) {
	var child ast.Node = call
	for i := 1; i < len(path); i++ {
		switch p := path[i].(type) {
		case *ast.ParenExpr:
		case *ast.UnaryExpr:
			if p.Op != token.NOT {
				return nil, ""
			}
		case *ast.BinaryExpr:
			if (p.Op == token.LAND || p.Op == token.LOR) && p.Y == child && i+1 < len(path) {
				ifs, ok := path[i+1].(*ast.IfStmt)
				if !ok || ast.Node(ifs.Cond) != ast.Node(p) {
					return nil, ""
				}
				small := func(b ast.Node) bool {
					if b == nil {
						return true
					}
					bad := false
					ast.Inspect(b, func(nd ast.Node) bool {
						switch nd.(type) {
						case *ast.LabeledStmt, *ast.FuncLit:
							bad = true
						}
						return !bad
					})
					_, s, e := n.offsets(b.Pos(), b.End())
					return !bad && e-s < 400
				}
				A, B, S := n.exprText(p.X), n.exprText(p.Y), n.exprText(ifs.Body)
				T := ""
				if ifs.Else != nil {
					T = n.exprText(ifs.Else)
				}
				init := ""
				if ifs.Init != nil {
					init = n.exprText(ifs.Init) + "; "
				}
				if p.Op == token.LOR {
					if !small(ifs.Body) {
						return nil, ""
					}
					out := "if " + init + A + " " + S + " else if " + B + " " + S
					if T != "" {
						out += " else " + T
					}
					return ifs, out
				}
				if !small(ifs.Else) {
					return nil, ""
				}
				out := "if " + init + A + " { if " + B + " " + S
				if T != "" {
					out += " else " + T + " } else " + T
				} else {
					out += " }"
				}
				return ifs, out
			}
			return nil, ""
		default:
			return nil, ""
		}
		child = path[i]
	}
	return nil, ""
}

// inlineRound inlines the leaf newcomers; reports whether anything changed.
func (n *normalizer) inlineRound() bool {
	inv := loadInventory()
	if len(inv.Funcs) == 0 {
		return false
	}
	newcomers := map[*types.Func]*callee{}
	for _, p := range modulePkgs(n.pkgs) {
		for fn, fd := range declaredFuncs(p) {
			if fn.Name() == "init" || fn.Name() == "_" || fn.Name() == "main" {
				continue
			}
			if _, isPinned := inv.Funcs[funcKey(fn)]; isPinned {
				continue
			}
			newcomers[fn] = &callee{pkg: p, fn: fn, decl: fd, file: fileOf(p, fd.Pos())}
		}
	}
	if os.Getenv("VERIF_DEBUG") != "" {
		fmt.Fprintf(os.Stderr, "normalise: %d newcomers, %d pinned\n", len(newcomers), len(inv.Funcs))
	}
	if len(newcomers) == 0 {
		return false
	}
	var order []*callee
	for _, c := range newcomers {
		order = append(order, c)
	}
	sort.Slice(order, func(i, j int) bool { return order[i].fn.FullName() < order[j].fn.FullName() })
	changed := false
	usedStmt := map[ast.Stmt]bool{}
	for _, c := range order {
		if ok, why := n.inlinable(c, newcomers); !ok {
			n.notes = append(n.notes, fmt.Sprintf("normalise: new function %s is analysed as it is (%s)", short(c.fn.FullName()), why))
			continue
		}
		// collect uses
		type site struct {
			id   *ast.Ident
			pkg  *packages.Package
			call *ast.CallExpr
			path []ast.Node
		}
		var sites []site
		other := 0
		valueUses := 0
		for _, p := range modulePkgs(n.pkgs) {
			for id, o := range p.TypesInfo.Uses {
				if o != c.fn {
					continue
				}
				if p != c.pkg {
					other++
					continue
				}
				f := fileOf(p, id.Pos())
				path, _ := astutil.PathEnclosingInterval(f, id.Pos(), id.End())
				k := 1
				if len(path) > 1 {
					if sel, ok := path[1].(*ast.SelectorExpr); ok && sel.Sel == id {
						k = 2
					}
				}
				if len(path) > k {
					if call, ok := path[k].(*ast.CallExpr); ok && ast.Node(call.Fun) == path[k-1] {
						sites = append(sites, site{id, p, call, path[k:]})
						continue
					}
				}
				// the function used as a value (handed to a constructor, stored in a
				// field): it becomes a function literal again
				if expr, isExpr := path[k-1].(ast.Expr); isExpr && len(path) > k {
					if _, isKV := path[k].(*ast.KeyValueExpr); isKV || true {
						if txt, ok := n.valueLit(c, expr); ok && n.hygienic(c, expr.Pos()) && n.tryEdit(expr.Pos(), expr.End(), txt) {
							valueUses++
							changed = true
							continue
						}
					}
				}
				other++
			}
		}
		sort.Slice(sites, func(i, j int) bool { return sites[i].id.Pos() < sites[j].id.Pos() })
		done := 0
		for _, s := range sites {
			if !n.hygienic(c, s.call.Pos()) {
				n.notes = append(n.notes, fmt.Sprintf("normalise: call of new function %s at %s left as it is (an identifier of the helper means something else at the call site)", short(c.fn.FullName()), n.fset.Position(s.call.Pos())))
				other++
				continue
			}
			if txt := n.exprInline(c, s.call); txt != "" {
				// the enclosing statement must not be rewritten by another site
				if !n.tryEdit(s.call.Pos(), s.call.End(), txt) {
					other++
					continue
				}
				done++
				changed = true
				continue
			}
			if len(s.path) > 2 {
				if rs, isRet := s.path[1].(*ast.ReturnStmt); isRet && len(rs.Results) == 1 && !usedStmt[rs] {
					inList := false
					switch up := s.path[2].(type) {
					case *ast.BlockStmt:
						for _, x := range up.List {
							inList = inList || x == ast.Stmt(rs)
						}
					case *ast.CaseClause:
						for _, x := range up.Body {
							inList = inList || x == ast.Stmt(rs)
						}
					case *ast.CommClause:
						for _, x := range up.Body {
							inList = inList || x == ast.Stmt(rs)
						}
					}
					if inList && c.fn.Type().(*types.Signature).Results().Len() > 0 {
						n.seq++
						tag := fmt.Sprintf("inl%d", n.seq)
						if body, _, ok := n.bodyText(c, s.call, tag, &condMode{tail: true}); ok {
							fname := n.fset.File(rs.Pos()).Name()
							calleeFile := n.fset.File(c.decl.Pos()).Name()
							txt := fmt.Sprintf("\n//line %s:%d\n%s//line %s:%d\n", calleeFile, n.fset.PositionFor(c.decl.Body.Lbrace, false).Line, body, fname, n.fset.PositionFor(rs.End(), false).Line)
							if n.tryEdit(rs.Pos(), rs.End(), txt) {
								usedStmt[rs] = true
								done++
								changed = true
								continue
							}
						}
					}
				}
			}
			if c.deferIssue {
				// only tail calls, go/defer statements and uses as a value can keep such defers
				if kind, stmt, _ := stmtContext(s.path, s.call); kind == "lit" && !usedStmt[stmt] {
					if txt, ok := n.litText(c, s.call); ok && n.tryEdit(s.call.Pos(), s.call.End(), txt) {
						usedStmt[stmt] = true
						done++
						changed = true
						continue
					}
				}
				n.notes = append(n.notes, fmt.Sprintf("normalise: call of new function %s at %s left as it is (its defers cannot be replayed in this position)", short(c.fn.FullName()), n.fset.Position(s.call.Pos())))
				other++
				continue
			}
			if ifs, neg := condSite(s.path, s.call); ifs != nil && !usedStmt[ifs] && isBoolResult(c.fn) {
				n.seq++
				tag := fmt.Sprintf("inl%d", n.seq)
				cm := &condMode{negated: neg}
				if body, _, ok := n.bodyText(c, s.call, tag, cm); ok {
					fname := n.fset.File(ifs.Pos()).Name()
					calleeFile := n.fset.File(c.decl.Pos()).Name()
					var b strings.Builder
					fmt.Fprintf(&b, "{\n//line %s:%d\n", calleeFile, n.fset.PositionFor(c.decl.Body.Lbrace, false).Line)
					b.WriteString(body)
					if cm.usedT {
						fmt.Fprintf(&b, "_%s_t:\n", tag)
					}
					fmt.Fprintf(&b, "//line %s:%d\n%s\n", fname, n.fset.PositionFor(ifs.Body.Pos(), false).Line, n.exprText(ifs.Body))
					fmt.Fprintf(&b, "goto _%s_e\n", tag)
					if cm.usedF {
						fmt.Fprintf(&b, "_%s_f:\n", tag)
					}
					if ifs.Else != nil {
						fmt.Fprintf(&b, "//line %s:%d\n%s\n", fname, n.fset.PositionFor(ifs.Else.Pos(), false).Line, n.exprText(ifs.Else))
					}
					fmt.Fprintf(&b, "_%s_e:\n//line %s:%d\n}", tag, fname, n.fset.PositionFor(ifs.End(), false).Line)
					if n.tryEdit(ifs.Pos(), ifs.End(), b.String()) {
						usedStmt[ifs] = true
						done++
						changed = true
						continue
					}
				}
			}
			kind, stmt, nested := stmtContext(s.path, s.call)
			if kind == "" {
				// `return NEW(args).Method(more)`: the call is the first thing the statement
				// evaluates; give its result a name first, the call is inlined in the next round
				if rs, txt := n.hoistReceiverCall(s.path, s.call); rs != nil && !usedStmt[rs] {
					if n.tryEdit(rs.Pos(), rs.End(), txt) {
						usedStmt[rs] = true
						changed = true
						other++
						continue
					}
				}
			}
			if kind == "" {
				// right operand of && / || in an if condition: split the if first
				if ifs, txt := n.splitShortCircuit(s.path, s.call); ifs != nil && !usedStmt[ifs] {
					if n.tryEdit(ifs.Pos(), ifs.End(), txt) {
						usedStmt[ifs] = true
						changed = true
						other++ // the call is still there; it is inlined in the next round
						continue
					}
				}
			}
			if kind == "" || usedStmt[stmt] || (nested && c.fn.Type().(*types.Signature).Results().Len() != 1) {
				n.notes = append(n.notes, fmt.Sprintf("normalise: call of new function %s at %s left as it is (unsupported statement context)", short(c.fn.FullName()), n.fset.Position(s.call.Pos())))
				other++
				continue
			}
			if kind == "lit" {
				txt, ok := n.litText(c, s.call)
				if !ok || !n.tryEdit(s.call.Pos(), s.call.End(), txt) {
					other++
					continue
				}
				usedStmt[stmt] = true
				done++
				changed = true
				continue
			}
			n.seq++
			tag := fmt.Sprintf("inl%d", n.seq)
			body, results, ok := n.bodyText(c, s.call, tag)
			if !ok {
				n.notes = append(n.notes, fmt.Sprintf("normalise: call of new function %s at %s left as it is (arguments or results cannot be bound)", short(c.fn.FullName()), n.fset.Position(s.call.Pos())))
				other++
				continue
			}
			fname, ss, se := n.offsets(stmt.Pos(), stmt.End())
			src := n.src(fname)
			_, cs, ce := n.offsets(s.call.Pos(), s.call.End())
			line := n.fset.PositionFor(stmt.Pos(), false).Line
			bodyLine := n.fset.PositionFor(c.decl.Body.Lbrace, false).Line
			calleeFile := n.fset.File(c.decl.Pos()).Name()
			var b strings.Builder
			wrap := kind == "wrap"
			if wrap {
				b.WriteString("{\n")
			} else {
				b.WriteString("\n")
			}
			fmt.Fprintf(&b, "//line %s:%d\n", calleeFile, bodyLine)
			b.WriteString(body)
			fmt.Fprintf(&b, "//line %s:%d\n", fname, line)
			if kind != "drop" {
				b.Write(src[ss:cs])
				b.WriteString(strings.Join(results, ", "))
				b.Write(src[ce:se])
			}
			if wrap {
				b.WriteString(" }")
			}
			if !n.tryEdit(stmt.Pos(), stmt.End(), b.String()) {
				other++
				continue
			}
			usedStmt[stmt] = true
			done++
			changed = true
		}
		if done > 0 || valueUses > 0 {
			n.notes = append(n.notes, fmt.Sprintf("normalise: new function %s (not in the pinned inventory) inlined at %d call site(s), turned back into a function literal at %d use(s) as a value, %d other reference(s) left", short(c.fn.FullName()), done, valueUses, other))
		}
		if (done > 0 || valueUses > 0) && other == 0 && n.droppable(c) {
			// drop the declaration, keeping the line structure
			start := c.decl.Pos()
			if c.decl.Doc != nil {
				start = c.decl.Doc.Pos()
			}
			fname, ds, de := n.offsets(start, c.decl.End())
			nl := bytes.Count(n.src(fname)[ds:de], []byte("\n"))
			n.tryEdit(start, c.decl.End(), strings.Repeat("\n", nl))
			_, _ = ds, de
		}
	}
	return changed
}

// droppable: the declaration can go when the function cannot be reached except
// through the (now inlined) call sites: unexported, all its callers live in its
// own file (so no import becomes unused elsewhere), and no interface of its
// package has a method of that name.
func (n *normalizer) droppable(c *callee) bool {
	if c.fn.Exported() {
		return false
	}
	if c.fn.Type().(*types.Signature).Recv() != nil {
		sc := c.pkg.Types.Scope()
		for _, name := range sc.Names() {
			if tn, ok := sc.Lookup(name).(*types.TypeName); ok {
				if it, ok := tn.Type().Underlying().(*types.Interface); ok {
					for i := 0; i < it.NumMethods(); i++ {
						if it.Method(i).Name() == c.fn.Name() {
							return false
						}
					}
				}
			}
		}
		// anonymous interfaces in the package (assertions, parameters)
		for _, f := range c.pkg.Syntax {
			found := false
			ast.Inspect(f, func(nd ast.Node) bool {
				if it, ok := nd.(*ast.InterfaceType); ok && it.Methods != nil {
					for _, m := range it.Methods.List {
						for _, nm := range m.Names {
							if nm.Name == c.fn.Name() {
								found = true
							}
						}
					}
				}
				return !found
			})
			if found {
				return false
			}
		}
	}
	cf := n.fset.File(c.decl.Pos()).Name()
	for id, o := range c.pkg.TypesInfo.Uses {
		if o == c.fn && n.fset.File(id.Pos()).Name() != cf {
			return false
		}
	}
	return true
}

// normalize computes the next overlay; changed is false at the fixpoint.
func normalizeStep(pkgs []*packages.Package, overlay map[string][]byte, phase int, seq *int) (next map[string][]byte, notes []string, changed bool) {
	if len(pkgs) == 0 {
		return nil, nil, false
	}
	defer func() {
		if e := recover(); e != nil {
			next, changed = nil, false
			notes = append(notes, fmt.Sprintf("normalise: internal error (%v); this step is abandoned and the rules see the source as it is", e))
		}
	}()
	n := &normalizer{pkgs: pkgs, fset: pkgs[0].Fset, overlay: overlay, edits: map[string][]textEdit{}, seq: *seq}
	switch phase {
	case -1:
		n.renameTypesBack()
	case 0:
		n.renameBack()
	default:
		n.inlineRound()
	}
	*seq = n.seq
	if os.Getenv("VERIF_DEBUG") != "" {
		for _, x := range n.notes {
			fmt.Fprintln(os.Stderr, x)
		}
	}
	if len(n.edits) == 0 {
		return nil, n.notes, false
	}
	out, ok := n.apply()
	if !ok {
		return nil, append(n.notes, "normalise: overlapping edits; abandoned"), false
	}
	return out, n.notes, true
}

func dbgFail(k int) (string, []string, bool) {
	if os.Getenv("VERIF_DEBUG") != "" {
		fmt.Fprintf(os.Stderr, "normalise: bodyText gave up at point %d\n", k)
	}
	return "", nil, false
}

func isBoolResult(fn *types.Func) bool {
	sig := fn.Type().(*types.Signature)
	if sig.Results().Len() != 1 {
		return false
	}
	b, ok := sig.Results().At(0).Type().Underlying().(*types.Basic)
	return ok && b.Kind() == types.Bool
}
