package main

import (
	"fmt"
	"go/token"
	"go/types"

	"golang.org/x/tools/go/ssa"
)

func init() {
	props["C06"] = func(r *Report) {
		c06(r)
		r.Guard("C06.R8", "every lock taken is released on every exit: the certificate cache lock", func() { lockPairRule(r, "mitm") })
	}
	floors["C06"] = map[string]int{"C06.R1": 4, "C06.R2": 3, "C06.R3": 3, "C06.R4": 6, "C06.R5": 5, "C06.R6": 2, "C06.R7": 4, "C06.R8": 1}
}

// litFieldStores returns, for a struct allocated in fn (composite literal or
// new), the values stored into each of its fields by name.
func litFieldStores(alloc ssa.Value) map[string][]*ssa.Store {
	out := map[string][]*ssa.Store{}
	if alloc.Referrers() == nil {
		return out
	}
	for _, u := range *alloc.Referrers() {
		fa, ok := u.(*ssa.FieldAddr)
		if !ok || fa.Referrers() == nil {
			continue
		}
		for _, uu := range *fa.Referrers() {
			if st, ok := uu.(*ssa.Store); ok && st.Addr == ssa.Value(fa) {
				out[fieldObj(fa).Name()] = append(out[fieldObj(fa).Name()], st)
			}
		}
	}
	return out
}

// allocsOf lists the allocations of the named struct type in fn.
func allocsOf(fn *ssa.Function, typ string) []*ssa.Alloc {
	var out []*ssa.Alloc
	for _, in := range instrs(fn) {
		if a, ok := in.(*ssa.Alloc); ok && a.Type().String() == "*"+typ {
			out = append(out, a)
		}
	}
	return out
}

func c06(r *Report) {
	w := r.W
	r.Decline("that the chain verifies (x509 semantics), case-insensitive matching, IPv6 spellings, expiry timing")
	r.Decline("two racing cache misses for one name both issue (each certificate is correct for its name)")
	cert := r.Use("mitm", "Config.cert")
	if cert == nil {
		return
	}
	g := G(cert)
	cfgField := func(v ssa.Value, field string) bool {
		return anyIn(w.backSlice(v, flowOpt{Through: map[string]bool{"(*crypto/rsa.PrivateKey).Public": true}}), func(x ssa.Value) bool { return isFieldRef(x, P("mitm"), "Config", field) })
	}
	creates := plainCalls(cert, "crypto/x509.CreateCertificate")
	if len(creates) != 1 {
		r.Rule("C06.R1", "")
		r.Undecided("(*M/mitm.Config).cert: CreateCertificate", fmt.Sprintf("UNRESOLVED: %d calls", len(creates)))
		return
	}
	create := creates[0]
	raw := resultOf(create, 0)
	tcs := allocsOf(cert, "crypto/tls.Certificate")
	tmpls := allocsOf(cert, "crypto/x509.Certificate")
	if len(tcs) != 1 || len(tmpls) != 1 {
		r.Rule("C06.R4", "one host name end to end: stripped of its port, it is the cache key (lookup and store), the subject and the SAN")
		r.Fail("flow", "(*M/mitm.Config).cert: the template and the tls.Certificate are built afresh for each issuance", fmt.Sprintf("found %d x509.Certificate and %d tls.Certificate values allocated in cert(), want 1 and 1: a template shared between calls keeps fields of an earlier host (its SANs) and is mutated by concurrent handshakes without a lock", len(tmpls), len(tcs)), nil, cert.Pos())
		return
	}
	tc := litFieldStores(tcs[0])
	tmpl := litFieldStores(tmpls[0])

	// the host name: the value used as cache lookup key
	var lookup *ssa.Lookup
	var update *ssa.MapUpdate
	for _, in := range instrs(cert) {
		switch x := in.(type) {
		case *ssa.Lookup:
			if cfgField(x.X, "certs") {
				lookup = x
			}
		case *ssa.MapUpdate:
			if cfgField(x.Map, "certs") {
				update = x
			}
		}
	}

	r.Guard("C06.R1", "the leaf is signed by the CA key under the CA certificate and carries the public half of the key the proxy presents", func() {
		// a certificate that could not be made is an error, not a nil certificate
		errorsReturnedRule(r, cert, false)

		// the key pair is fixed when the Config is built: the certified key and the
		// presented key are two reads of c.priv, which only agree if nothing replaces it later
		fieldWritersRule(r, "mitm", "Config", "priv", map[string]bool{"M/mitm.NewConfig": true}, "the leaf key is replaced after construction: concurrent handshakes can pair a certificate over one key with the private half of another")

		a := create.Call.Args
		r.Decide("flow", "(*M/mitm.Config).cert: parent certificate is c.ca", cfgField(a[2], "ca"), "CreateCertificate parent derives from c.ca", "the leaf is not issued under the configured CA certificate", create.Pos())
		r.Decide("flow", "(*M/mitm.Config).cert: signer is c.capriv", cfgField(a[4], "capriv"), "signed with the CA private key", "the leaf is not signed with the configured CA key", create.Pos())
		r.Decide("flow", "(*M/mitm.Config).cert: subject public key is c.priv.Public()", cfgField(a[3], "priv") && !cfgField(a[3], "capriv"), "public key derives from c.priv", "the certified public key is not the proxy's own key", create.Pos())
		okp := len(tc["PrivateKey"]) == 1 && cfgField(tc["PrivateKey"][0].Val, "priv") && !cfgField(tc["PrivateKey"][0].Val, "capriv")
		r.Decide("flow", "(*M/mitm.Config).cert: tls.Certificate.PrivateKey is c.priv", okp, "the handshake key is the certified key", "the private key presented in the handshake is not the one whose public half was certified: handshakes fail", create.Pos())
		r.Decide("flow", "(*M/mitm.Config).cert: template is the literal built here", unwrapIface(a[1]) == ssa.Value(tmpls[0]), "CreateCertificate template is the x509.Certificate literal", "CreateCertificate is given a different template", create.Pos())
	})

	r.Guard("C06.R2", "the presented chain is [leaf, CA] and Leaf is the parse of the same DER", func() {
		ok0, ok1 := false, false
		if len(tc["Certificate"]) == 1 {
			// stores into the backing array of the slice literal
			for v := range w.backSlice(tc["Certificate"][0].Val, flowOpt{}) {
				ia, ok := v.(*ssa.IndexAddr)
				if !ok || ia.Referrers() == nil {
					continue
				}
				idx, _ := constInt(ia.Index)
				for _, u := range *ia.Referrers() {
					if st, ok := u.(*ssa.Store); ok && st.Addr == ssa.Value(ia) {
						if idx == 0 && st.Val == raw {
							ok0 = true
						}
						if idx >= 1 && anyIn(w.backSlice(st.Val, flowOpt{}), func(x ssa.Value) bool {
							fa, ok := x.(*ssa.FieldAddr)
							return ok && fieldObj(fa).Name() == "Raw" && cfgField(fa.X, "ca")
						}) {
							ok1 = true
						}
					}
				}
			}
			// the slice literal's array is reached through the Slice instruction
			if sl, ok := tc["Certificate"][0].Val.(*ssa.Slice); ok {
				if arr, ok := sl.X.(*ssa.Alloc); ok && arr.Referrers() != nil {
					for _, u := range *arr.Referrers() {
						ia, ok := u.(*ssa.IndexAddr)
						if !ok || ia.Referrers() == nil {
							continue
						}
						idx, _ := constInt(ia.Index)
						for _, uu := range *ia.Referrers() {
							if st, ok := uu.(*ssa.Store); ok && st.Addr == ssa.Value(ia) {
								if idx == 0 && st.Val == raw {
									ok0 = true
								}
								if idx >= 1 && anyIn(w.backSlice(st.Val, flowOpt{}), func(x ssa.Value) bool {
									fa, ok := x.(*ssa.FieldAddr)
									return ok && fieldObj(fa).Name() == "Raw" && cfgField(fa.X, "ca")
								}) {
									ok1 = true
								}
							}
						}
					}
				}
			}
		}
		r.Decide("flow", "(*M/mitm.Config).cert: chain[0] is the DER just created", ok0, "Certificate[0] = raw", "the first chain element is not the certificate created for this host", create.Pos())
		r.Decide("flow", "(*M/mitm.Config).cert: chain continues with c.ca.Raw", ok1, "Certificate[1] = c.ca.Raw", "the CA certificate is not part of the presented chain", create.Pos())
		okl := false
		if len(tc["Leaf"]) == 1 {
			okl = anyIn(w.backSlice(tc["Leaf"][0].Val, flowOpt{}), func(x ssa.Value) bool {
				c, ok := x.(*ssa.Call)
				return ok && calleeName(c) == "crypto/x509.ParseCertificate" && c.Call.Args[0] == raw
			})
		}
		r.Decide("flow", "(*M/mitm.Config).cert: Leaf is ParseCertificate(raw)", okl, "Leaf parsed from the same DER", "Leaf does not describe the certificate in the chain (cache re-verification would check the wrong certificate)", create.Pos())
	})

	r.Guard("C06.R3", "a cached certificate is returned only after it verified again for the requested host under the configured roots", func() {
		if lookup == nil {
			r.Undecided("(*M/mitm.Config).cert: cache lookup", "UNRESOLVED: no lookup in c.certs")
			return
		}
		cached := resultOfLookup(lookup)
		verifies := plainCalls(cert, "(*crypto/x509.Certificate).Verify")
		if len(verifies) != 1 {
			r.Fail("path", "(*M/mitm.Config).cert: cached entry re-verified", fmt.Sprintf("found %d Leaf.Verify calls, want 1", len(verifies)), nil, lookup.Pos())
			return
		}
		v := verifies[0]
		// receiver is the cached entry's Leaf
		okRecv := anyIn(w.backSlice(v.Call.Args[0], flowOpt{}), func(x ssa.Value) bool { return x == cached })
		r.Decide("flow", "(*M/mitm.Config).cert: Verify is called on the cached entry's Leaf", okRecv, "receiver derives from the cache lookup", "the certificate verified is not the cached one", v.Pos())
		// options: DNSName = lookup key, Roots = c.roots
		okOpts := false
		if opt, ok := v.Call.Args[1].(*ssa.UnOp); ok {
			if a, ok := opt.X.(*ssa.Alloc); ok {
				st := litFieldStores(a)
				okOpts = len(st["DNSName"]) == 1 && st["DNSName"][0].Val == lookup.Index && len(st["Roots"]) == 1 && cfgField(st["Roots"][0].Val, "roots")
			}
		}
		r.Decide("flow", "(*M/mitm.Config).cert: Verify options name the requested host and the configured roots", okOpts, "DNSName is the lookup key, Roots is c.roots", "the cached certificate is re-verified for a different name or against different roots", v.Pos())
		// every return of the cached value is dominated by Verify's err == nil edge
		ok := true
		n := 0
		tests := errTests(v)
		for _, ret := range returns(cert) {
			for _, val := range retVals(ret, 0) {
				mayBeCached := false
				for _, leaf := range resolveAll(val) {
					if leaf == cached {
						mayBeCached = true
					}
				}
				if !mayBeCached {
					continue
				}
				// every feasible path on which this return yields the cached value took
				// Verify's err == nil edge
				paths, okp := blockPathsUntil(cert.Blocks[0], ret.Block(), 20000)
				if !okp {
					ok = false
					continue
				}
				for _, p := range paths {
					isCached := false
					for _, leaf := range resolveOnPath(val, p) {
						if leaf == cached {
							isCached = true
						}
					}
					if !isCached {
						continue
					}
					n++
					verified := false
					for i := 0; i+1 < len(p); i++ {
						for _, t := range tests {
							if p[i] == t.If.Block() && p[i+1] == t.Nil {
								verified = true
							}
						}
					}
					if !verified {
						ok = false
					}
				}
			}
		}
		r.Paths += n
		r.Decide("path", "(*M/mitm.Config).cert: cached entry returned only on Verify()==nil", ok && n > 0, fmt.Sprintf("%d return(s) of the cached value, all dominated by the successful verification", n), "a cached certificate can be returned without having verified (expired or foreign entries are served)", lookup.Pos())
	})

	r.Guard("C06.R4", "one host name end to end: stripped of its port, it is the cache key (lookup and store), the subject and the SAN", func() {
		if lookup == nil || update == nil {
			r.Undecided("(*M/mitm.Config).cert: cache key", "UNRESOLVED")
			return
		}
		name := lookup.Index
		r.Decide("flow", "(*M/mitm.Config).cert: cache store key equals lookup key", update.Key == name, "same SSA value", "the certificate is cached under a different name than it is looked up by", update.Pos())
		r.Decide("flow", "(*M/mitm.Config).cert: cached value is the certificate built here", unwrapIface(update.Value) == ssa.Value(tcs[0]), "certs[name] = the new tls.Certificate", "a different value is stored in the cache", update.Pos())
		// port stripping: the name is a phi/choice between SplitHostPort's host and the parameter
		sl := w.backSlice(name, flowOpt{})
		strip := anyIn(sl, func(x ssa.Value) bool {
			e, ok := x.(*ssa.Extract)
			return ok && e.Index == 0 && isCallValue(e.Tuple, "net.SplitHostPort")
		}) && anyIn(sl, func(x ssa.Value) bool { return isParamVal(x, cert.Params[1]) })
		// exactly that: every value the name can take is the parameter itself or the host part
		// SplitHostPort returned (no truncation, no other transformation), and the split is
		// attempted for every name (a shortcut that decides by the look of the text whether there
		// can be a port gets some ports wrong)
		exact := true
		for _, l := range resolveAll(name) {
			e, isE := l.(*ssa.Extract)
			if isParamVal(l, cert.Params[1]) || (isE && e.Index == 0 && isCallValue(e.Tuple, "net.SplitHostPort")) {
				continue
			}
			exact = false
		}
		always := false
		if sp := plainCalls(cert, "net.SplitHostPort"); len(sp) > 0 {
			always = g.PathTo([]ssa.Instruction{g.Entry()}, true, func(i ssa.Instruction) bool { _, y := isCall(i, "net.SplitHostPort"); return y }, func(i ssa.Instruction) bool { return i == ssa.Instruction(lookup) }) == nil
		}
		r.Decide("flow", "(*M/mitm.Config).cert: the name is the requested host, whole, with any port removed by net.SplitHostPort", exact && always, "name in {hostname, SplitHostPort(hostname).host}; the split lies on every path to the cache lookup", "the name the certificate is issued for is cut, transformed, or stripped of its port only for some inputs: the certificate does not verify for exactly the requested host (long names, five-digit ports)", lookup.Pos())
		r.Decide("flow", "(*M/mitm.Config).cert: name is the parameter with its port stripped", strip, "SplitHostPort host or the original parameter", "the certificate name is not derived from the requested host with the port removed", lookup.Pos())
		// subject CN
		okCN := false
		if s := nestedFieldStores(tmpls[0], "Subject"); len(s["CommonName"]) == 1 && s["CommonName"][0].Val == name {
			okCN = true
		}
		r.Decide("flow", "(*M/mitm.Config).cert: CommonName is the name", okCN, "Subject.CommonName = name", "the subject names something other than the requested host", create.Pos())
		// SAN on both arms of ParseIP
		ips := plainCalls(cert, "net.ParseIP")
		okSAN := false
		if len(ips) == 1 && ips[0].Call.Args[0] == name {
			dns := tmpl["DNSNames"]
			ipa := tmpl["IPAddresses"]
			if len(dns) == 1 && len(ipa) == 1 {
				dnsOK := sliceLitContains(w, dns[0].Val, func(v ssa.Value) bool { return v == name })
				ipOK := sliceLitContains(w, ipa[0].Val, func(v ssa.Value) bool { return v == ssa.Value(ips[0]) })
				// the two stores sit on opposite arms of the nil test of the ParseIP result
				arms := false
				for _, t := range nilTestsLen(ips[0]) {
					if t.NonNil != nil && blockDominates(t.NonNil, ipa[0].Block()) && blockDominates(t.Nil, dns[0].Block()) {
						arms = true
					}
				}
				okSAN = dnsOK && ipOK && arms
				// both arms reach CreateCertificate
				if okSAN {
					for _, st := range []*ssa.Store{dns[0], ipa[0]} {
						if g.PathTo([]ssa.Instruction{st}, false, nil, func(i ssa.Instruction) bool { return i == ssa.Instruction(create) }) == nil {
							okSAN = false
						}
					}
				}
			}
		}
		r.Decide("path", "(*M/mitm.Config).cert: SAN is set from the name on both arms of ParseIP", okSAN, "IPAddresses=[ParseIP(name)] on the IP arm, DNSNames=[name] on the other", "the subject alternative name is missing or wrong on one arm: the certificate does not verify for that kind of host", create.Pos())
		// the name that is certified is decided before the cache is consulted
		r.Decide("path", "(*M/mitm.Config).cert: the lookup precedes issuance", g.Before(lookup, create), "cache consulted first", "a certificate is issued before the cache is consulted", create.Pos())
	})

	r.Guard("C06.R5", "the template carries the configured organization, a validity window around now and server-auth usage", func() {
		// "the configured organization" / validity: the public setters really configure the
		// fields the template is filled from (a setter that drops its argument leaves the
		// default in force whatever the user configures)
		if cfgT := w.Named("mitm", "Config"); cfgT != nil {
			for _, sf := range []struct{ method, field string }{{"SetOrganization", "org"}, {"SetValidity", "validity"}} {
				fn := w.method(cfgT, sf.method)
				if fn == nil || fn.Blocks == nil {
					r.Undecided("(*M/mitm.Config)."+sf.method, "UNRESOLVED")
					continue
				}
				r.Touch(fn)
				ok := false
				for _, sts := range fieldsWritten(fn) {
					for _, st := range sts {
						if fa, isFa := st.Addr.(*ssa.FieldAddr); isFa && fieldObj(fa).Name() == sf.field && len(fn.Params) > 1 && anyIn(w.backSlice(st.Val, flowOpt{}), func(v ssa.Value) bool { return isParamVal(v, fn.Params[1]) }) {
							ok = true
						}
					}
				}
				r.Decide("flow", "(*M/mitm.Config)."+sf.method+" stores its argument in "+sf.field, ok, "the parameter reaches the field the certificate template reads", "the setter does not store its argument in c."+sf.field+": issued certificates carry the default instead of the configured value", fn.Pos())
				// ... whatever the argument is (an "ignored when empty" clause keeps the previous value)
				setterStoresRule(r, "mitm", "Config", sf.method, sf.field, "issued certificates carry the previous value instead of the configured one")
			}
		}

		okOrg := false
		if s := nestedFieldStores(tmpls[0], "Subject"); len(s["Organization"]) == 1 {
			okOrg = sliceLitContains(w, s["Organization"][0].Val, func(v ssa.Value) bool { return cfgField(v, "org") })
		}
		r.Decide("flow", "(*M/mitm.Config).cert: Organization is c.org", okOrg, "Subject.Organization = [c.org]", "the certificate does not carry the configured organization", create.Pos())
		for _, f := range []struct {
			name string
			neg  bool
		}{{"NotBefore", true}, {"NotAfter", false}} {
			ok := false
			if len(tmpl[f.name]) == 1 {
				if c, isC := tmpl[f.name][0].Val.(*ssa.Call); isC && calleeName(c) == "(time.Time).Add" {
					recvNow := isCallValue(c.Call.Args[0], "time.Now")
					d := c.Call.Args[1]
					neg := false
					if u, isU := d.(*ssa.UnOp); isU && u.Op == token.SUB {
						neg = true
						d = u.X
					}
					ok = recvNow && neg == f.neg && cfgField(d, "validity")
				}
			}
			sign := "+"
			if f.neg {
				sign = "-"
			}
			r.Decide("flow", "(*M/mitm.Config).cert: "+f.name+" is time.Now() "+sign+" c.validity", ok, "window bound derives from now and the configured validity with the right sign", f.name+" is not now "+sign+" validity: the certificate is not valid at the time of the handshake", create.Pos())
		}
		// "valid at the time of the handshake": the instant is read per handshake. No
		// callback captures an instant taken when the tls.Config was built, and a
		// verification that names its own time names the current one.
		stale := 0
		for _, f := range w.Funcs("mitm") {
			for _, fv := range f.FreeVars {
				t := fv.Type()
				if p, ok := t.(*types.Pointer); ok {
					t = p.Elem()
				}
				if t.String() == "time.Time" {
					stale++
					r.Fail("flow", fnName(f)+": captures the instant "+fv.Name(), "a callback uses an instant captured when its tls.Config was created instead of the time of the handshake: once the proxy has run longer than the validity window every cached certificate looks valid (or every new one is issued already expired)", nil, f.Pos())
				}
			}
			for _, in := range instrs(f) {
				st, ok := in.(*ssa.Store)
				if !ok {
					continue
				}
				fa, ok := st.Addr.(*ssa.FieldAddr)
				if !ok || fieldObj(fa).Name() != "CurrentTime" || namedOf(fa.X.Type()) != "VerifyOptions" {
					continue
				}
				r.Touch(f)
				if !isCallValue(st.Val, "time.Now") {
					stale++
					r.Fail("flow", fnName(f)+": VerifyOptions.CurrentTime is not time.Now()", "the cached certificate is verified against an instant other than the present one", nil, st.Pos())
				}
			}
		}
		r.Decide("flow", "M/mitm: validity is judged and issued at the time of the handshake", stale == 0, "no callback captures a time.Time; no verification names a time other than time.Now()", "see the individual constructs")
		okEKU := len(tmpl["ExtKeyUsage"]) == 1 && sliceLitContains(w, tmpl["ExtKeyUsage"][0].Val, func(v ssa.Value) bool { n, ok := constInt(v); return ok && n == 1 })
		r.Decide("table", "(*M/mitm.Config).cert: ExtKeyUsage includes server authentication", okEKU, "x509.ExtKeyUsageServerAuth present", "the leaf is not usable for TLS server authentication", create.Pos())
		okSer := len(tmpl["SerialNumber"]) == 1 && anyIn(w.backSlice(tmpl["SerialNumber"][0].Val, flowOpt{}), func(v ssa.Value) bool { return isCallValue(v, "crypto/rand.Int") })
		r.Decide("flow", "(*M/mitm.Config).cert: serial number is random per certificate", okSer, "rand.Int", "the serial number is not freshly random", create.Pos())
	})

	r.Guard("C06.R6", "the certificate cache is accessed only under its lock", func() {
		fo := structField(w.Named("mitm", "Config"), "certs")
		if fo == nil {
			r.Undecided("M/mitm.Config.certs", "UNRESOLVED")
			return
		}
		st := map[*ssa.Function]map[ssa.Instruction]lockset{}
		for _, a := range w.fieldAccesses(fo) {
			if freshBase(a.Addr) {
				continue
			}
			if st[a.Fn] == nil {
				st[a.Fn] = lockStates(a.Fn, nil)
			}
			// the access of interest is the map operation using the loaded map
			ld, isLd := a.Instr.(*ssa.UnOp)
			if !isLd || ld.Referrers() == nil {
				continue
			}
			for _, u := range *ld.Referrers() {
				ls := st[a.Fn][u]
				switch u.(type) {
				case *ssa.MapUpdate:
					r.Sites++
					r.Decide("lockset", "certs write in "+fnName(a.Fn), ls.heldW(a.Base+".certmu"), "under certmu "+ls.String(), "the certificate cache is written without its write lock "+ls.String(), u.Pos())
				case *ssa.Lookup:
					r.Sites++
					r.Decide("lockset", "certs read in "+fnName(a.Fn), ls.held(a.Base+".certmu"), "under certmu "+ls.String(), "the certificate cache is read without its lock "+ls.String(), u.Pos())
				}
			}
		}
	})

	r.Guard("C06.R7", "without a host name the handshake is refused: every GetCertificate callback tests the name for emptiness before issuing", func() {
		tlsConfigFreshRule(r)
		connectAuthorityKeptRule(r)
		// the mobile wiring configures MITM from the authority it was just given: the Config handed
		// to SetMITM is the one NewConfig made in this Start (a Config kept from an earlier Start still
		// signs with the previous CA after the authority was changed)
		if st := r.W.Fn("mobile", "Martian.Start"); st != nil && st.Blocks != nil {
			r.Touch(st)
			n, fresh := 0, true
			for _, c := range plainCalls(st, "(*M.Proxy).SetMITM") {
				n++
				for _, l := range resolveAll(c.Call.Args[1]) {
					if !isExtractOfCall(l, "M/mitm.NewConfig") && !isCallValue(l, "M/mitm.NewConfig") {
						fresh = false
					}
				}
			}
			if n > 0 {
				r.Decide("flow", "(*M/mobile.Martian).Start configures MITM with a Config made from the current authority", fresh, "SetMITM(<result of mitm.NewConfig in this call>)", "the MITM configuration survives from an earlier Start: after the authority is changed, forged certificates still chain to the previous CA while the new one is what clients are told to trust", st.Pos())
			}
		}
		// the configuration a tunnel is served with is built from the MITM config in force at
		// that moment: tls.Server takes the direct result of p.mitm.TLSForHost(...), not a
		// config remembered from an earlier tunnel (which SetMITM would not replace)
		if hcr := r.Use("", "Proxy.handleConnectRequest"); hcr != nil {
			n := 0
			for _, c := range plainCalls(hcr, "crypto/tls.Server") {
				n++
				direct := true
				for _, l := range resolveAll(c.Call.Args[1]) {
					cc, isC := l.(*ssa.Call)
					if !isC || calleeName(cc) != "(*M/mitm.Config).TLSForHost" {
						direct = false
						continue
					}
					ld, isLd := cc.Call.Args[0].(*ssa.UnOp)
					if !isLd || !isFieldRef(ld.X, M, "Proxy", "mitm") {
						direct = false
					}
				}
				r.Decide("flow", "(*M.Proxy).handleConnectRequest: the tunnel is served with p.mitm's configuration of this moment", direct, "tls.Server(conn, p.mitm.TLSForHost(host))", "the TLS configuration of a tunnel does not come straight from the current MITM config (a per-host cache in the proxy): after SetMITM installs another CA, hosts seen before are still answered with certificates of the old one", c.Pos())
			}
			if n == 0 {
				r.Undecided("(*M.Proxy).handleConnectRequest: tls.Server", "UNRESOLVED")
			}
		}
		for _, f := range w.Funcs("mitm") {
			for _, c := range plainCalls(f, "(*M/mitm.Config).cert") {
				if f.Parent() == nil {
					continue // direct callers other than GetCertificate closures are not part of this rule
				}
				r.Touch(f)
				h := c.Call.Args[1]
				key := "host tested non-empty before issuing in " + fnName(f)
				// on every path from the entry to the call, the value the name
				// resolves to on that path was compared with "" and the path
				// took the non-empty edge
				paths, okp := blockPathsUntil(f.Blocks[0], c.Block(), 4000)
				if !okp || len(paths) == 0 {
					r.Undecided(key, "cannot enumerate the paths to the cert() call")
					continue
				}
				ok := true
				for _, p := range paths {
					for _, leaf := range resolveOnPath(h, p) {
						tested := false
						for i := 0; i+1 < len(p); i++ {
							blk := p[i]
							iff, isIf := blk.Instrs[len(blk.Instrs)-1].(*ssa.If)
							if !isIf {
								continue
							}
							b, isB := iff.Cond.(*ssa.BinOp)
							if !isB || (b.Op != token.EQL && b.Op != token.NEQ) {
								continue
							}
							s1, c1 := constString(b.X)
							s2, c2 := constString(b.Y)
							other := b.X
							if c1 && s1 == "" {
								other = b.Y
							} else if !(c2 && s2 == "") {
								continue
							}
							same := other == leaf || (pathOf(other) != "" && pathOf(other) == pathOf(leaf))
							if !same {
								for _, ol := range resolveOnPath(other, p[:i+1]) {
									if ol == leaf || (pathOf(ol) != "" && pathOf(ol) == pathOf(leaf)) {
										same = true
									}
								}
							}
							if !same {
								continue
							}
							nonEmpty := blk.Succs[1]
							if b.Op == token.NEQ {
								nonEmpty = blk.Succs[0]
							}
							if p[i+1] == nonEmpty {
								tested = true
							}
						}
						if !tested {
							ok = false
						}
					}
				}
				r.Paths += len(paths)
				// the fallback host stands in only for an absent SNI: a path on which cert()
				// receives the enclosing function's host took the `ServerName == ""` edge
				okFallback := true
				for _, p := range paths {
					for _, leaf := range resolveOnPath(h, p) {
						par, isPar := resolveFree(leaf).(*ssa.Parameter)
						if !isPar || par.Parent() != f.Parent() {
							continue
						}
						sniEmpty := false
						for i := 0; i+1 < len(p); i++ {
							blk := p[i]
							iff, isIf := blk.Instrs[len(blk.Instrs)-1].(*ssa.If)
							if !isIf {
								continue
							}
							b, isB := iff.Cond.(*ssa.BinOp)
							if !isB || (b.Op != token.EQL && b.Op != token.NEQ) {
								continue
							}
							s1, c1 := constString(b.X)
							s2, c2 := constString(b.Y)
							other := b.X
							if c1 && s1 == "" {
								other = b.Y
							} else if !(c2 && s2 == "") {
								continue
							}
							isSNI := false
							for _, ol := range append(resolveOnPath(other, p[:i+1]), other) {
								if ld, isLd := ol.(*ssa.UnOp); isLd && ld.Op == token.MUL {
									if fa, isFa := ld.X.(*ssa.FieldAddr); isFa && fieldObj(fa).Name() == "ServerName" {
										isSNI = true
									}
								}
							}
							if !isSNI {
								continue
							}
							empty := blk.Succs[0]
							if b.Op == token.NEQ {
								empty = blk.Succs[1]
							}
							if p[i+1] == empty {
								sniEmpty = true
							}
						}
						if !sniEmpty {
							okFallback = false
						}
					}
				}
				if f.Parent() != nil && len(f.FreeVars) > 1 {
					r.Decide("path", "fallback host used only without SNI in "+fnName(f), okFallback, "every path that hands the enclosing function's host to cert() took the ServerName == \"\" edge", "the fallback host replaces a name the client did send (e.g. an IP literal in SNI): the certificate presented is not for the host the client named", c.Pos())
				}
				// and the name is the client's SNI or the configured fallback host, nothing else
				srcBad := ""
				for _, leaf := range resolveAll(h) {
					if ld, isLd := leaf.(*ssa.UnOp); isLd && ld.Op == token.MUL {
						if fa, isFa := ld.X.(*ssa.FieldAddr); isFa && fieldObj(fa).Name() == "ServerName" && fa.X.Type().String() == "*crypto/tls.ClientHelloInfo" {
							if _, isPar := fa.X.(*ssa.Parameter); isPar {
								continue
							}
						}
					}
					if par, isPar := resolveFree(leaf).(*ssa.Parameter); isPar && par.Parent() == f.Parent() {
						continue
					}
					srcBad = describeVal(leaf)
				}
				r.Decide("flow", "name passed to cert() in "+fnName(f)+" is the SNI or the caller's fallback host", srcBad == "", "every value reaching cert() is clientHello.ServerName or the host the enclosing function was given", "the certificate name can come from "+srcBad+": when the client names no host the handshake is answered with a certificate for something else instead of being refused", c.Pos())
				r.Decide("path", key, ok, "the name passed to cert() was compared with \"\" and the empty edge does not issue", "a certificate can be issued for an empty host name (no SNI and no fallback host): an arbitrary certificate instead of a refusal", c.Pos())
			}
		}
	})
}

// nestedFieldStores returns the stores into the fields of the struct-valued
// field `field` of the allocated struct.
func nestedFieldStores(alloc ssa.Value, field string) map[string][]*ssa.Store {
	out := map[string][]*ssa.Store{}
	if alloc.Referrers() == nil {
		return out
	}
	for _, u := range *alloc.Referrers() {
		fa, ok := u.(*ssa.FieldAddr)
		if !ok || fieldObj(fa).Name() != field {
			continue
		}
		for k, v := range litFieldStores(fa) {
			out[k] = append(out[k], v...)
		}
	}
	return out
}

func resultOfLookup(l *ssa.Lookup) ssa.Value {
	if !l.CommaOk {
		return l
	}
	if l.Referrers() != nil {
		for _, u := range *l.Referrers() {
			if e, ok := u.(*ssa.Extract); ok && e.Index == 0 {
				return e
			}
		}
	}
	return l
}

// sliceLitContains reports whether the slice literal v has an element
// satisfying pred.
func sliceLitContains(w *World, v ssa.Value, pred func(ssa.Value) bool) bool {
	sl, ok := v.(*ssa.Slice)
	if !ok {
		return false
	}
	arr, ok := sl.X.(*ssa.Alloc)
	if !ok || arr.Referrers() == nil {
		return false
	}
	for _, u := range *arr.Referrers() {
		ia, ok := u.(*ssa.IndexAddr)
		if !ok || ia.Referrers() == nil {
			continue
		}
		for _, uu := range *ia.Referrers() {
			if st, ok := uu.(*ssa.Store); ok && st.Addr == ssa.Value(ia) && pred(st.Val) {
				return true
			}
		}
	}
	return false
}

// nilTestsLen: nil tests of a slice-typed value (ip != nil).
func nilTestsLen(v ssa.Value) []nilTest { return nilTests(v) }

func blockDominates(a, b *ssa.BasicBlock) bool { return a == b || a.Dominates(b) }

// tlsConfigFreshRule: every tunnel gets a TLS configuration of its own: the
// GetCertificate callback closes over the call's fallback host, so a
// configuration kept from an earlier call answers with the earlier tunnel's
// host when SNI is absent. Shared by C06.R7 and C05.R6.
func tlsConfigFreshRule(r *Report) {
	for _, fname := range []string{"Config.TLSForHost", "Config.TLS"} {
		tf := r.W.Fn("mitm", fname)
		if tf == nil || tf.Blocks == nil {
			continue
		}
		r.Touch(tf)
		freshCfg := len(returns(tf)) > 0
		for _, ret := range returns(tf) {
			for _, l := range resolveAll(ret.Results[0]) {
				if a, isA := l.(*ssa.Alloc); !isA || a.Parent() != tf {
					freshCfg = false
				}
			}
		}
		r.Decide("flow", "(*M/mitm."+fname+"): returns a configuration built in this call", freshCfg, "return &tls.Config{...}", "the TLS configuration is taken from a cache: its GetCertificate callback closes over the fallback host of the call that built it, so a later tunnel to another authority, whose client sends no SNI, is answered with a certificate for the earlier tunnel's host", tf.Pos())
	}
}

// connectAuthorityKeptRule: the authority the client named in its CONNECT is
// what certificates are forged for when there is no SNI: the CONNECT handler
// does not overwrite Request.Host (for instance with a URL host that a request
// modifier rewrote to retarget the tunnel). Shared by C06.R7 and C05.R6.
func connectAuthorityKeptRule(r *Report) {
	hcr := r.W.Fn("", "Proxy.handleConnectRequest")
	if hcr == nil || hcr.Blocks == nil {
		r.Undecided("M.Proxy.handleConnectRequest", "UNRESOLVED")
		return
	}
	r.Touch(hcr)
	var bad ssa.Instruction
	fs := append([]*ssa.Function{hcr}, hcr.AnonFuncs...)
	// ... nor does the exchange function invent one for a request that names none (a nested
	// CONNECT without authority must be refused, not answered under the outer session's name)
	if h := r.W.Fn("", "Proxy.handle"); h != nil && h.Blocks != nil {
		r.Touch(h)
		fs = append(fs, h)
		fs = append(fs, h.AnonFuncs...)
	}
	for _, f := range fs {
		for _, in := range instrs(f) {
			if st, isSt := in.(*ssa.Store); isSt {
				if fa, isFa := st.Addr.(*ssa.FieldAddr); isFa && fieldObj(fa).Name() == "Host" && namedOf(fa.X.Type()) == "Request" {
					bad = in
				}
			}
		}
	}
	pos := hcr.Pos()
	if bad != nil {
		pos = bad.Pos()
	}
	r.Decide("flow", "(*M.Proxy).handle / handleConnectRequest leave the request's authority as the client sent it", bad == nil, "no store to Request.Host", "the proxy core overwrites or fills in req.Host (with the URL host a modifier rewrote, with the outer session's server name): without SNI a certificate is forged for a name the client did not ask for, where the handshake must be refused or made for the authority the client named", pos)
}
