package main

func init() {
	mut("C03", "no-502-reassignment", "proxy.go",
		"\t\tres = proxyutil.NewResponse(502, nil, req)\n\t\tproxyutil.Warning(res.Header, err)\n\t}\n\tdefer res.Body.Close()",
		"\t\tproxyutil.Warning(res.Header, err)\n\t}\n\tdefer res.Body.Close()", "C03.R1", "synthesises a 502")
	mut("C03", "return-upstream-error", "proxy.go",
		"\t\tres = proxyutil.NewResponse(502, nil, req)\n\t\tproxyutil.Warning(res.Header, err)\n\t}\n\tdefer res.Body.Close()",
		"\t\treturn err\n\t}\n\tdefer res.Body.Close()", "C03.R1", "")
	mut("C03", "drop-warning-on-502", "proxy.go",
		"\t\tres = proxyutil.NewResponse(502, nil, req)\n\t\tproxyutil.Warning(res.Header, err)\n\t}\n\tdefer res.Body.Close()",
		"\t\tres = proxyutil.NewResponse(502, nil, req)\n\t}\n\tdefer res.Body.Close()", "C03.R1", "adds the Warning")
	mut("C03", "wrong-status", "proxy.go",
		"\t\tres = proxyutil.NewResponse(502, nil, req)\n\t\tproxyutil.Warning(res.Header, err)\n\t}\n\tdefer res.Body.Close()",
		"\t\tres = proxyutil.NewResponse(200, nil, req)\n\t\tproxyutil.Warning(res.Header, err)\n\t}\n\tdefer res.Body.Close()", "C03.R1", "synthesises a 502")
	mut("C03", "revert-write-error-close", "proxy.go",
		"\t\t// the connection cannot carry another response.\n\t\tclosing = errClose\n",
		"\t\t// the connection cannot carry another response.\n\t\tif _, ok := err.(*trafficshape.ErrForceClose); ok {\n\t\t\tclosing = errClose\n\t\t}\n", "C03.R2", "Write#1")
	mut("C03", "flush-error-ignored", "proxy.go",
		"\t\tlog.Errorf(\"martian: got error while flushing response back to client: %v\", err)\n\t\tclosing = errClose\n",
		"\t\tlog.Errorf(\"martian: got error while flushing response back to client: %v\", err)\n", "C03.R2", "Flush#1")
	mut("C03", "read-error-not-close", "proxy.go",
		"\t\t// TODO: TCPConn.WriteClose() to avoid sending an RST to the client.\n\n\t\treturn nil, errClose",
		"\t\t// TODO: TCPConn.WriteClose() to avoid sending an RST to the client.\n\n\t\treturn nil, err", "C03.R3", "readRequest")
	mut("C03", "read-error-swallowed", "proxy.go",
		"\treq, err := p.readRequest(ctx, conn, brw)\n\tif err != nil {\n\t\treturn err\n\t}",
		"\treq, err := p.readRequest(ctx, conn, brw)\n\tif err != nil {\n\t\treturn nil\n\t}", "C03.R3", "returned unchanged")
	twin("C03", "write-error-switch-form", "proxy.go",
		"\terr = res.Write(brw)\n\tif err != nil {\n\t\tlog.Errorf(\"martian: got error while writing response back to client: %v\", err)",
		"\terr = res.Write(brw)\n\tswitch {\n\tcase err != nil:\n\t\tlog.Errorf(\"martian: got error while writing response back to client: %v\", err)")
	mut("C03", "half-close-skipped-on-error", "proxy.go", "\t\t\tlog.Errorf(\"martian: failed to copy CONNECT tunnel: %v\", err)\n\t\t}\n", "\t\t\tlog.Errorf(\"martian: failed to copy CONNECT tunnel: %v\", err)\n\t\t\tdonec <- true\n\t\t\treturn\n\t\t}\n", "C03.R5", "")
	mut("C03", "panic-on-read-error", "proxy.go",
		"\t\t// TODO: TCPConn.WriteClose() to avoid sending an RST to the client.\n\n\t\treturn nil, errClose",
		"\t\t// TODO: TCPConn.WriteClose() to avoid sending an RST to the client.\n\tif req != nil {\n\t\tpanic(\"martian: request without error\")\n\t}\n\t\treturn nil, errClose", "C03.R6", "panic")
	mut("C03", "fatal-in-warning", "proxyutil/proxyutil.go",
		"func Warning(header http.Header, err error) {\n", "func Warning(header http.Header, err error) {\n\tif header == nil {\n\t\tpanic(\"nil header\")\n\t}\n", "C03.R6", "Warning")
	mut("C03", "nilable-operror-addr-dereferenced", "proxy.go",
		"\t\tlog.Errorf(\"martian: failed to round trip: %v\", err)\n",
		"\t\tlog.Errorf(\"martian: failed to round trip: %v\", err)\n\t\tif oe, ok := err.(*net.OpError); ok {\n\t\t\tlog.Errorf(\"martian: peer %s\", oe.Addr.String())\n\t\t}\n", "C03.R6", "dereference of")
	twin("C03", "nilable-operror-addr-tested", "proxy.go",
		"\t\tlog.Errorf(\"martian: failed to round trip: %v\", err)\n",
		"\t\tlog.Errorf(\"martian: failed to round trip: %v\", err)\n\t\tif oe, ok := err.(*net.OpError); ok && oe.Addr != nil {\n\t\t\tlog.Errorf(\"martian: peer %s\", oe.Addr.String())\n\t\t}\n")
	mut("C03", "enum-gains-unhandled-constant", "h2/processor.go",
		"\tServerToClient\n)", "\tServerToClient\n\t// Both is for diagnostics.\n\tBoth\n)", "C03.R6", "ForDirection")
	twin("C03", "enum-switch-as-if-chain", "h2/processor.go",
		"\tswitch dir {\n\tcase ClientToServer:\n\t\treturn s.cToS\n\tcase ServerToClient:\n\t\treturn s.sToC\n\t}\n",
		"\tif dir == ClientToServer {\n\t\treturn s.cToS\n\t}\n\tif ServerToClient == dir {\n\t\treturn s.sToC\n\t}\n")
	mut("C03", "connect-502-close-delimited", "proxy.go", "\t\tres = proxyutil.NewResponse(502, nil, req)\n\t\tproxyutil.Warning(res.Header, cerr)\n", "\t\tres = proxyutil.NewResponse(502, nil, req)\n\t\tres.ContentLength = -1\n\t\tproxyutil.Warning(res.Header, cerr)\n", "C03.R7", "ContentLength override")
	mut("C03", "handshake-callback-unguarded", "mitm/mitm.go", "\tif c.handshakeErrorCallback != nil {\n\t\tc.handshakeErrorCallback(r, err)\n\t}", "\tc.handshakeErrorCallback(r, err)", "C03.R6", "call through c.handshakeErrorCallback")
}
