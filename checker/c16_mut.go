package main

func init() {
	mut("C16", "revert-dechunk", "har/har.go", "\tif te := req.TransferEncoding; len(te) > 0 && te[len(te)-1] == \"chunked\" {\n\t\tbr = httputil.NewChunkedReader(mbr)\n\t}\n", "\t_ = httputil.NewChunkedReader\n", "C16.R1", "postData")
	mut("C16", "multipart-reads-raw", "har/har.go", "mpr := multipart.NewReader(br, ps[\"boundary\"])", "mpr := multipart.NewReader(mbr, ps[\"boundary\"])", "C16.R1", "postData")
	mut("C16", "response-body-not-decoded", "har/har.go", "br, err := mv.BodyReader(messageview.Decode())", "br, err := mv.BodyReader()", "C16.R1", "NewResponse")
	mut("C16", "headers-from-raw-map", "har/har.go", "Headers:     headers(proxyutil.RequestHeader(req).Map()),", "Headers:     headers(req.Header),", "C16.R2", "Request.Headers")
	mut("C16", "version-hardcoded", "har/har.go", "\t\tHTTPVersion: res.Proto,\n", "\t\tHTTPVersion: \"HTTP/1.1\",\n", "C16.R2", "Response.HTTPVersion")
	mut("C16", "size-from-content-length", "har/har.go", "r.Content.Size = int64(len(body))", "r.Content.Size = res.ContentLength", "C16.R2", "Content.Size")
	mut("C16", "map-omits-transfer-encoding", "proxyutil/header.go", "\t\t\"Content-Length\",\n\t\t\"Transfer-Encoding\",\n\t} {", "\t\t\"Content-Length\",\n\t} {", "C16.R3", "Map")
	mut("C16", "del-forgets-host", "proxyutil/header.go", "func (h *Header) Del(name string) {\n\tswitch http.CanonicalHeaderKey(name) {\n\tcase \"Host\":\n\t\th.setHost(\"\")\n", "func (h *Header) Del(name string) {\n\tswitch http.CanonicalHeaderKey(name) {\n", "C16.R3", "Del")
	mut("C16", "content-unmarshal-other-alphabet", "har/har.go", "txt, err = base64.StdEncoding.DecodeString(cj.Text)", "txt, err = base64.URLEncoding.DecodeString(cj.Text)", "C16.R4", "alphabet")
	mut("C16", "postdata-marker-mismatch", "har/har.go", "\t\tText:     []byte(p.Text),\n\t\tEncoding: \"base64\",\n", "\t\tText:     []byte(p.Text),\n\t\tEncoding: \"binary\",\n", "C16.R4", "PostData")
	mut("C16", "capture-flag-ignored", "har/har.go", "hres, err := NewResponse(res, l.bodyLogging(res))", "hres, err := NewResponse(res, true)", "C16.R5", "RecordResponse")
	mut("C16", "snapshot-regardless-of-flag", "har/har.go", "\tif !logBody {\n\t\treturn pd, nil\n\t}\n", "", "C16.R5", "postData")
	mut("C16", "pooled-message-view", "har/har.go", "\ttail    *Entry\n}\n\x00\tmv := messageview.New()\n\tif err := mv.SnapshotRequest(req); err != nil {", "\ttail    *Entry\n}\n\nvar viewPool = sync.Pool{New: func() interface{} { return messageview.New() }}\n\x00\tmv := viewPool.Get().(*messageview.MessageView)\n\tdefer viewPool.Put(mv)\n\tif err := mv.SnapshotRequest(req); err != nil {", "C16.R7", "postData")
	twin("C16", "view-through-local-constructor-phi", "har/har.go", "\tmv := messageview.New()\n\tif err := mv.SnapshotRequest(req); err != nil {", "\tvar mv *messageview.MessageView\n\tif logBody {\n\t\tmv = messageview.New()\n\t} else {\n\t\tmv = messageview.New()\n\t}\n\tif err := mv.SnapshotRequest(req); err != nil {")
	mut("C16", "gzip-first-member-only", "messageview/messageview.go", "\t\treturn gr, nil\n", "\t\tgr.Multistream(false)\n\t\treturn gr, nil\n", "C16.R1", "Multistream")
	mut("C16", "skip-body-option-case-sensitive", "har/har.go", "l.bodyLogging = func(res *http.Response) bool {\n\t\t\trct := res.Header.Get(\"Content-Type\")\n\n\t\t\tfor _, ct := range cts {\n\t\t\t\tif strings.HasPrefix(strings.ToLower(rct), strings.ToLower(ct)) {\n\t\t\t\t\treturn false", "l.bodyLogging = func(res *http.Response) bool {\n\t\t\trct := res.Header.Get(\"Content-Type\")\n\n\t\t\tfor _, ct := range cts {\n\t\t\t\tif strings.HasPrefix(rct, strings.ToLower(ct)) {\n\t\t\t\t\treturn false", "C16.R5", "case-insensitively")
	mut("C16", "snapshot-folds-chunked", "messageview/messageview.go", "\t\tmv.chunked = req.TransferEncoding[tec-1] == \"chunked\"", "\t\tmv.chunked = strings.EqualFold(req.TransferEncoding[tec-1], \"chunked\")", "C16.R1", "test for the chunked coding in the same way")
}
