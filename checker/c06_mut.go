package main

func init() {
	mut("C06", "revert-empty-host-refusal", "mitm/mitm.go", "\t\t\tif host == \"\" {\n\t\t\t\treturn nil, errors.New(\"mitm: neither SNI nor a fallback host provided, failed to build certificate\")\n\t\t\t}\n", "", "C06.R7", "TLSForHost")
	mut("C06", "cache-hit-before-verify", "mitm/mitm.go", "\tif ok {\n\t\tlog.Debugf(\"mitm: cache hit for %s\", hostname)\n", "\tif ok {\n\t\tlog.Debugf(\"mitm: cache hit for %s\", hostname)\n\t\tif time.Now().Before(tlsc.Leaf.NotAfter) {\n\t\t\treturn tlsc, nil\n\t\t}\n", "C06.R3", "returned only on Verify")
	mut("C06", "verify-wrong-name", "mitm/mitm.go", "\t\t\tDNSName: hostname,\n", "\t\t\tDNSName: tlsc.Leaf.Subject.CommonName,\n", "C06.R3", "Verify options")
	mut("C06", "cache-under-unstripped-name", "mitm/mitm.go", "\thost, _, err := net.SplitHostPort(hostname)\n\tif err == nil {\n\t\thostname = host\n\t}\n\n\tc.certmu.RLock()\n\ttlsc, ok := c.certs[hostname]", "\torig := hostname\n\thost, _, err := net.SplitHostPort(hostname)\n\tif err == nil {\n\t\thostname = host\n\t}\n\n\tc.certmu.RLock()\n\ttlsc, ok := c.certs[orig]", "C06.R4", "")
	mut("C06", "wrong-signer", "mitm/mitm.go", "x509.CreateCertificate(rand.Reader, tmpl, c.ca, c.priv.Public(), c.capriv)", "x509.CreateCertificate(rand.Reader, tmpl, c.ca, c.priv.Public(), c.priv)", "C06.R1", "signer")
	mut("C06", "presented-key-is-ca-key", "mitm/mitm.go", "\t\tPrivateKey:  c.priv,\n", "\t\tPrivateKey:  c.capriv,\n", "C06.R1", "PrivateKey")
	mut("C06", "chain-without-ca", "mitm/mitm.go", "Certificate: [][]byte{raw, c.ca.Raw},", "Certificate: [][]byte{raw},", "C06.R2", "c.ca.Raw")
	mut("C06", "notbefore-in-future", "mitm/mitm.go", "\t\tNotBefore:             time.Now().Add(-c.validity),\n\t\tNotAfter:              time.Now().Add(c.validity),\n\t}\n\n\tif ip", "\t\tNotBefore:             time.Now().Add(c.validity),\n\t\tNotAfter:              time.Now().Add(c.validity),\n\t}\n\n\tif ip", "C06.R5", "NotBefore")
	mut("C06", "dns-san-for-ips", "mitm/mitm.go", "\tif ip := net.ParseIP(hostname); ip != nil {\n\t\ttmpl.IPAddresses = []net.IP{ip}\n\t} else {\n\t\ttmpl.DNSNames = []string{hostname}\n\t}\n", "\ttmpl.DNSNames = []string{hostname}\n", "C06.R4", "SAN")
	mut("C06", "cache-write-under-rlock", "mitm/mitm.go", "\tc.certmu.Lock()\n\tc.certs[hostname] = tlsc\n\tc.certmu.Unlock()\n", "\tc.certmu.RLock()\n\tc.certs[hostname] = tlsc\n\tc.certmu.RUnlock()\n", "C06.R6", "certs write")
	mut("C06", "org-hardcoded", "mitm/mitm.go", "\t\t\tCommonName:   hostname,\n\t\t\tOrganization: []string{c.org},\n", "\t\t\tCommonName:   hostname,\n\t\t\tOrganization: []string{\"Martian Proxy\"},\n", "C06.R5", "Organization")
	mut("C06", "tls-without-sni-check", "mitm/mitm.go", "\t\t\tif clientHello.ServerName == \"\" {\n\t\t\t\treturn nil, errors.New(\"mitm: SNI not provided, failed to build certificate\")\n\t\t\t}\n", "", "C06.R7", "TLS$1")
	twin("C06", "empty-test-via-len", "mitm/mitm.go", "\t\t\tif clientHello.ServerName == \"\" {\n\t\t\t\treturn nil, errors.New(\"mitm: SNI not provided, failed to build certificate\")\n\t\t\t}\n\n\t\t\treturn c.cert(clientHello.ServerName)", "\t\t\tsni := clientHello.ServerName\n\t\t\tif \"\" != sni {\n\t\t\t\treturn c.cert(sni)\n\t\t\t}\n\t\t\treturn nil, errors.New(\"mitm: SNI not provided, failed to build certificate\")")
	mut("C06", "cert-for-local-address", "mitm/mitm.go", "\t\t\treturn c.cert(clientHello.ServerName)", "\t\t\treturn c.cert(clientHello.Conn.LocalAddr().String())", "C06.R7", "SNI or")
	mut("C06", "set-organization-noop", "mitm/mitm.go", "\tc.org = org\n", "\t_ = org\n", "C06.R5", "SetOrganization")
	mut("C06", "set-validity-noop", "mitm/mitm.go", "\tc.validity = validity\n", "\t_ = validity\n", "C06.R5", "SetValidity")
}
