package main

import (
	"fmt"
	"go/token"
	"strings"

	"golang.org/x/tools/go/ssa"
)

func init() {
	props["C03"] = c03
	floors["C03"] = map[string]int{"C03.R1": 4, "C03.R2": 2, "C03.R3": 4, "C03.R5": 1, "C03.R6": 1, "C03.R7": 1, "C03.R8": 1}
}

// synth502 checks, for an upstream-contact call whose error is tested, that
// the error edge synthesises NewResponse(502, _, req), adds Warning(res.Header,
// err), and reaches the response modifier with that response without leaving.
func synth502(r *Report, f *ssa.Function, contact *ssa.Call, resIdx int, label string) {
	w := r.W
	g := G(f)
	req := requestValue(f)
	tests := errTests(contact)
	key := fmt.Sprintf("%s: %s error edge", fnName(f), label)
	if len(tests) != 1 {
		r.Fail("path", key+" is tested", fmt.Sprintf("the error of %s is tested %d times (want 1): an upstream failure is not turned into a 502", label, len(tests)), nil, contact.Pos())
		return
	}
	t := tests[0]
	var errv ssa.Value
	for _, e := range errOf(contact) {
		errv = e
	}
	// the value the test looks at (the error itself, or a variable it was merged into)
	var tested ssa.Value
	if b, ok := t.If.Cond.(*ssa.BinOp); ok {
		tested = b.X
		if isNilConst(b.X) {
			tested = b.Y
		}
	}
	// nearest response-modifier call reachable from the error edge
	var mod ssa.CallInstruction
	path := g.PathTo(blockStart(t.NonNil), true, nil, func(i ssa.Instruction) bool { return isResMod(i) })
	if path != nil {
		mod = path[len(path)-1].(ssa.CallInstruction)
	}
	if mod == nil {
		r.Fail("path", key+" reaches the response modifier", "no ModifyResponse call is reachable from the error edge", nil, contact.Pos())
		return
	}
	r.Paths++
	// no exit before the modifier
	if p := g.PathTo(blockStart(t.NonNil), true, func(i ssa.Instruction) bool { return i == ssa.Instruction(mod) }, isExit); p != nil {
		r.Fail("path", key+" reaches the response modifier", "the error edge can leave the exchange before the response modifier runs (the client gets no 502)", witness(w, p), contact.Pos())
	} else {
		r.Hold("path", key+" reaches the response modifier", "every path from the error edge reaches ModifyResponse", contact.Pos())
	}
	// the response given to the modifier on those paths is NewResponse(502,_,req)
	paths, ok := blockPathsUntil(t.NonNil, mod.Block(), 4000)
	if !ok || len(paths) == 0 {
		r.Undecided(key+" synthesises a 502", "cannot enumerate the paths from the error edge to the modifier")
		return
	}
	r.Paths += len(paths)
	resArg := mod.Common().Args[0]
	good := true
	why := ""
	var resv ssa.Value
	for _, p := range paths {
		for _, leaf := range resolveOnPath(resArg, p) {
			c, isC := leaf.(*ssa.Call)
			if !isC || calleeName(c) != nNewResp {
				good, why = false, fmt.Sprintf("the response on the error path is %s, not a synthesised one (the failed call's result is used)", describeVal(leaf))
				continue
			}
			code, _ := constInt(c.Call.Args[0])
			if code != 502 || !sameAs(c.Call.Args[2], req) {
				good, why = false, fmt.Sprintf("synthesised response has status %d or is not bound to this request", code)
			}
			resv = c
		}
	}
	r.Decide("flow", key+" synthesises a 502", good, fmt.Sprintf("on all %d paths the modifier receives NewResponse(502, _, req)", len(paths)), why, contact.Pos())
	// Warning(res.Header, err) on every path
	isWarn := func(i ssa.Instruction) bool {
		wc, ok := isCall(i, nWarning)
		if !ok {
			return false
		}
		a := wc.Common().Args
		return messageOfHeader(a[0]) == resv && (a[1] == errv || (tested != nil && a[1] == tested))
	}
	p := g.PathTo(blockStart(t.NonNil), true, isWarn, func(i ssa.Instruction) bool { return i == ssa.Instruction(mod) })
	r.Decide("path", key+" adds the Warning", p == nil && resv != nil, "Warning(res.Header, err) with the 502 and the upstream error on every path", "a path from the error edge reaches the response modifier without Warning(<502>.Header, <upstream error>)", contact.Pos())
	// the failed call's response value is not used on the error edge
	if rv := resultOf(contact, resIdx); rv != nil && rv.Referrers() != nil {
		reach := g.Reach(blockStart(t.NonNil), true, func(i ssa.Instruction) bool { return i == ssa.Instruction(mod) })
		used := false
		for _, u := range *rv.Referrers() {
			if _, isPhi := u.(*ssa.Phi); isPhi {
				continue
			}
			if reach[u] && edgeDominatesNonNil(t, u.Block()) {
				used = true
			}
		}
		r.Decide("path", key+" does not use the failed result", !used, "the result of the failed call is not touched on the error edge", "the response value of the failed call is used on its error edge (nil dereference)", contact.Pos())
	}
}

func edgeDominatesNonNil(t nilTest, b *ssa.BasicBlock) bool {
	for k, s := range t.If.Block().Succs {
		if s == t.NonNil {
			return edgeDominates(t.If.Block(), k, b)
		}
	}
	return false
}

func describeVal(v ssa.Value) string {
	switch x := v.(type) {
	case *ssa.Extract:
		if c, ok := x.Tuple.(*ssa.Call); ok {
			return fmt.Sprintf("result #%d of %s", x.Index, calleeName(c))
		}
	case *ssa.Call:
		return "result of " + calleeName(x)
	}
	return v.String()
}

// blockPathsUntil enumerates acyclic block paths from b that end at block
// `until` (inclusive).
func blockPathsUntil(b, until *ssa.BasicBlock, limit int) (paths [][]*ssa.BasicBlock, ok bool) {
	ok = true
	var cur []*ssa.BasicBlock
	on := map[*ssa.BasicBlock]bool{}
	var walk func(x *ssa.BasicBlock)
	walk = func(x *ssa.BasicBlock) {
		if !ok || on[x] {
			return
		}
		cur = append(cur, x)
		on[x] = true
		if x == until {
			if len(paths) >= limit {
				ok = false
			} else if pathFeasible(cur) {
				paths = append(paths, append([]*ssa.BasicBlock(nil), cur...))
			}
		} else {
			for _, s := range x.Succs {
				walk(s)
			}
		}
		on[x] = false
		cur = cur[:len(cur)-1]
	}
	walk(b)
	return
}

func c03(r *Report) {
	r.Decline("absence of panics in general (no recover around the connection goroutine; includes user modifiers)")
	r.Decline("truncation at arbitrary byte offsets and non-HTTP origin bytes (runtime values; parsing is net/http's)")
	r.Decline("write errors on the CONNECT 502 / MITM 200 paths: their bodies are empty, so a failure there is a dead client connection, which the next read turns into a close")
	handle := r.Use("", "Proxy.handle")
	hcr := r.Use("", "Proxy.handleConnectRequest")
	rd := r.Use("", "Proxy.readRequest")
	if handle == nil || hcr == nil || rd == nil {
		return
	}

	r.Guard("C03.R1", "an upstream failure is turned into a 502 with a Warning that passes through the response modifier", func() {
		// the synthesised response is a well-formed one for this client: it speaks the
		// request's protocol version (Response.Write prints ProtoMajor.ProtoMinor) and
		// inherits the request's close wish
		newResponseCopiesRule(r)
		if wf := r.Use("proxyutil", "Warning"); wf != nil {
			warningQuoted(r, wf)
		}
		rts := plainCalls(handle, "(*M.Proxy).roundTrip")
		if len(rts) == 0 && r.W.Fn("", "Proxy.roundTrip") == nil {
			// the helper has been inlined: the upstream contact is the transport call itself
			for _, c := range calls(handle, "(net/http.RoundTripper).RoundTrip") {
				if cc, ok := c.(*ssa.Call); ok {
					rts = append(rts, cc)
				}
			}
		}
		if len(rts) != 1 {
			r.Undecided("(*M.Proxy).handle: roundTrip", fmt.Sprintf("UNRESOLVED: %d roundTrip calls", len(rts)))
		} else {
			synth502(r, handle, rts[0], 0, "roundTrip")
		}
	})

	r.Guard("C03.R2", "a failed or partial response write ends the connection", func() {
		// a response cut short by the origin stays detectably incomplete when a logger looks at it
		snapshotBodyAfterCheckRule(r)
		// ... and when the spec stack strips hop-by-hop headers: those are deleted from the header
		// map only - the message's framing fields (Content-Length, Transfer-Encoding) are not
		// reachable through the Connection header
		hopByHopMapOnlyRule(r)
		// once the response has been handed to the client connection the exchange tells
		// the loop only "go on" (nil) or "close" (errClose): an upstream error that was
		// already answered with a 502 must not reach the loop, where a closeable one
		// (EOF, timeout) would end a connection that is still in step
		{
			gh := G(handle)
			ws := plainCalls(handle, nResWrite)
			for k, ret := range returns(handle) {
				after := false
				for _, wc := range ws {
					if gh.Before(wc, ret) {
						after = true
					}
				}
				if !after {
					continue
				}
				bad := ""
				for _, v := range retVals(ret, 0) {
					for _, l := range resolveAll(v) {
						if c := errClass(l); c != "nil" && c != "global:errClose" {
							bad = c
						}
					}
				}
				r.Decide("flow", fmt.Sprintf("(*M.Proxy).handle: exit #%d after the response write reports nil or errClose only", k+1), bad == "", "the value returned after the write resolves to nil / errClose", "after the response has been written the exchange can return "+bad+": an upstream failure already answered with a 502 reaches the connection loop, and if it is closeable (EOF, timeout) the client connection is dropped", ret.Pos())
			}
		}

		for _, name := range []string{nResWrite, nFlush} {
			cs := plainCalls(handle, name)
			if len(cs) == 0 {
				r.Undecided("(*M.Proxy).handle: "+name, "UNRESOLVED: call not found")
			}
			for _, c := range cs {
				key := "write error closes: " + site(handle, c)
				tests := errTests(c)
				if len(tests) == 0 {
					r.Fail("path", key, "the error of the response write is never tested", nil, c.Pos())
					continue
				}
				for _, t := range tests {
					classes, n, ok := returnClassesFromEdge(t.If.Block(), t.NonNil, 0, 4000)
					r.Paths += n
					good := ok && len(classes) > 0
					for cl := range classes {
						if cl != "global:errClose" {
							good = false
						}
					}
					r.Decide("path", key, good, fmt.Sprintf("all %d paths from the error edge return errClose", n), fmt.Sprintf("after a write error the exchange can return %v: the connection is reused although the client is mid-response", keys(classes)), c.Pos())
				}
			}
		}
	})

	c03R4(r)
	c03R6(r)
	c03R7(r)
	r.Guard("C03.R8", "after the 502 for a failed CONNECT the client connection continues: the exit does not hand the dial error to the connection loop", func() {
		cc := plainCalls(hcr, "(*M.Proxy).connect")
		if len(cc) != 1 {
			r.Undecided("(*M.Proxy).handleConnectRequest: connect", "UNRESOLVED")
			return
		}
		tests := errTests(cc[0])
		if len(tests) != 1 {
			r.Undecided("(*M.Proxy).handleConnectRequest: connect error", "UNRESOLVED: not tested exactly once")
			return
		}
		for k, ret := range returns(hcr) {
			if !edgeDominatesNonNil(tests[0], ret.Block()) {
				continue
			}
			if kind, _ := exitKind(hcr, ret); kind == "hijack" {
				continue
			}
			connectFailureReturn(r, hcr, cc[0], ret, k)
		}
	})

	r.Guard("C03.R8", "after a 502 the connection keeps serving: the deadline is pushed forward for every exchange", func() {
		if lp := r.Use("", "Proxy.handleLoop"); lp != nil {
			deadlineSitesRule(r, lp)
		}
	})

	r.Guard("C03.R5", "an origin that aborts a blind tunnel does not leave the client hanging: the end of a copy direction is passed on however the copy ended", func() {
		tunnelEOSRule(r, hcr, tunnelCopiers(hcr))
	})

	r.Guard("C03.R3", "any failure to read a request closes the connection", func() {
		// every return of the reader with a nil request returns errClose
		for k, ret := range returns(rd) {
			for _, v := range retVals(ret, 0) {
				for _, leaf := range resolveAll(v) {
					if !isNilConst(leaf) {
						continue
					}
					bad := ""
					for _, ev := range retVals(ret, 1) {
						for _, el := range resolveAll(ev) {
							if c := errClass(el); c != "global:errClose" {
								bad = c
							}
						}
					}
					r.Decide("path", fmt.Sprintf("(*M.Proxy).readRequest: nil-request return #%d", k+1), bad == "", "returns errClose", "a failed read returns "+bad+" instead of errClose: the loop keeps reading a broken connection", ret.Pos())
				}
			}
		}
		// the exchange function returns the reader's error unchanged
		rc := plainCalls(handle, "(*M.Proxy).readRequest")
		if len(rc) != 1 {
			r.Undecided("(*M.Proxy).handle: readRequest", "UNRESOLVED")
			return
		}
		tests := errTests(rc[0])
		ok := len(tests) == 1
		if ok {
			vals, _, _ := returnValuesFrom(tests[0].NonNil, 0)
			ok = len(vals) > 0
			for _, v := range vals {
				if v != errOf(rc[0])[0] {
					ok = false
				}
			}
		}
		r.Decide("path", "(*M.Proxy).handle: read error is returned unchanged", ok, "the reader's errClose reaches the connection loop", "the exchange function swallows or replaces the reader's error", rc[0].Pos())
		// the read error branch logs and returns; no response is attempted on a broken connection
		if len(tests) == 1 {
			g := G(handle)
			p := g.PathTo(blockStart(tests[0].NonNil), true, nil, func(i ssa.Instruction) bool {
				_, a := isCall(i, nResWrite, "(*M.Proxy).roundTrip", "(net/http.RoundTripper).RoundTrip")
				return a || isReqMod(i)
			})
			r.Decide("path", "(*M.Proxy).handle: no processing after a failed read", p == nil, "the error edge only returns", "the exchange continues after a failed request read", rc[0].Pos())
		}
	})
}

// newResponseCopiesRule: a synthesised response speaks the request's protocol
// version and inherits exactly the request's close wish. Shared by C03.R1 and
// C01.R3 (a synthesised response that says close although nobody asked ends a
// connection that must stay usable).
func newResponseCopiesRule(r *Report) {
	if nr := r.Use("proxyutil", "NewResponse"); nr != nil && len(nr.Params) >= 3 {
		for _, fld := range []string{"Proto", "ProtoMajor", "ProtoMinor", "Close"} {
			ok := false
			for _, in := range instrs(nr) {
				st, isSt := in.(*ssa.Store)
				if !isSt {
					continue
				}
				fa, isFa := st.Addr.(*ssa.FieldAddr)
				if !isFa || fieldObj(fa).Name() != fld || fa.X.Type().String() != "*net/http.Response" {
					continue
				}
				if ld, isLd := st.Val.(*ssa.UnOp); isLd {
					if fa2, isFa2 := ld.X.(*ssa.FieldAddr); isFa2 && fieldObj(fa2).Name() == fld && isParamVal(fa2.X, nr.Params[2]) {
						ok = true
					}
				}
			}
			r.Decide("flow", "M/proxyutil.NewResponse copies "+fld+" from the request", ok, "res."+fld+" = req."+fld, "a synthesised response (502, skipped round trip) does not carry the request's "+fld+": an HTTP/1.0 client is answered as 1.1 (or with the literal default), or its close wish is forgotten", nr.Pos())
		}
	}
}

// hopByHopMapOnlyRule: the hop-by-hop modifier removes fields from the header
// map and never through proxyutil.Header (which also clears ContentLength and
// TransferEncoding): an origin that sends `Connection: Content-Length` would
// otherwise lose its response framing, and a body cut short could no longer be
// told from a complete one. Shared by C03.R2 and C14.R2.
func hopByHopMapOnlyRule(r *Report) {
	w := r.W
	n := 0
	for _, f := range w.Funcs("header") {
		if !strings.Contains(strings.ToLower(fnName(f)), "hopbyhop") {
			continue
		}
		n++
		r.Touch(f)
		for _, g := range w.staticReach(f) {
			for _, c := range calls(g, "(*M/proxyutil.Header).Del", "(*M/proxyutil.Header).Set") {
				r.Fail("callgraph", fnName(g)+": "+site(g, c)+" edits the message's framing fields", "hop-by-hop removal goes through proxyutil.Header, which also clears Content-Length / Transfer-Encoding on the message: a Connection header that names them strips the framing, and a truncated body is forwarded as a complete one", nil, c.Pos())
			}
		}
	}
	r.Decide("callgraph", "the hop-by-hop modifier works on the header map", n >= 2, fmt.Sprintf("%d functions", n), "hop-by-hop functions not found", token.NoPos)
}
