package main

import (
	"fmt"
	"go/token"
	"go/types"
	"strings"

	"golang.org/x/tools/go/ssa"
)

// failedUse is a use of the non-error result of a call on a path where the
// call's error was non-nil and the error branch did not leave the function.
type failedUse struct {
	Call *ssa.Call
	Use  ssa.Instruction
	Idx  int
}

func pointerLike(t types.Type) bool {
	switch t.Underlying().(type) {
	case *types.Pointer, *types.Slice, *types.Map, *types.Interface, *types.Chan, *types.Signature:
		return true
	}
	return false
}

// failedResultUses implements the "result used on the error path" rule
// (Engler et al.): for every call returning (T..., error) with a pointer-like
// T whose error is tested, a dereferencing use of T reachable from the
// error != nil edge is reported.
func failedResultUses(fn *ssa.Function) (uses []failedUse, calls int) {
	g := G(fn)
	for _, in := range instrs(fn) {
		c, ok := in.(*ssa.Call)
		if !ok {
			continue
		}
		res := c.Call.Signature().Results()
		if res.Len() < 2 || !isErrorType(res.At(res.Len()-1).Type()) {
			continue
		}
		tests := errTests(c)
		if len(tests) == 0 {
			continue
		}
		calls++
		for idx := 0; idx < res.Len()-1; idx++ {
			if !pointerLike(res.At(idx).Type()) {
				continue
			}
			rv := resultOf(c, idx)
			if rv == nil || rv.Referrers() == nil {
				continue
			}
			for _, t := range tests {
				reach := g.Reach(blockStart(t.NonNil), true, nil)
				// the error edge must be able to reach the use without the use also being
				// reachable only through the ok edge: uses dominated by the ok edge are fine
				for _, u := range *rv.Referrers() {
					if !reach[u] || !derefUse(u, rv) {
						continue
					}
					if edgeDominatesNil(t, u.Block()) {
						continue
					}
					uses = append(uses, failedUse{c, u, idx})
				}
			}
		}
	}
	return
}

func edgeDominatesNil(t nilTest, b *ssa.BasicBlock) bool {
	for k, s := range t.If.Block().Succs {
		if s == t.Nil {
			return edgeDominates(t.If.Block(), k, b)
		}
	}
	return false
}

// derefUse reports whether instruction u dereferences / indexes / calls
// through value v.
func derefUse(u ssa.Instruction, v ssa.Value) bool {
	switch x := u.(type) {
	case *ssa.FieldAddr:
		return x.X == v
	case *ssa.IndexAddr:
		return x.X == v
	case *ssa.Index:
		return x.X == v
	case *ssa.Lookup:
		return false // nil map lookup is legal
	case *ssa.UnOp:
		return x.Op == token.MUL && x.X == v
	case *ssa.Slice:
		return false // slicing a nil slice is legal for in-range bounds only; not judged
	case ssa.CallInstruction:
		cc := x.Common()
		if cc.IsInvoke() && cc.Value == v {
			return true
		}
		if !cc.IsInvoke() && len(cc.Args) > 0 && cc.Args[0] == v && cc.Signature().Recv() != nil {
			// method call with v as receiver: dereferences unless the method tolerates nil; not knowable -> report
			return true
		}
	}
	return false
}

func init() {
	floors["C03"]["C03.R4"] = 20
}

func c03R4(r *Report) {
	w := r.W
	r.Guard("C03.R4", "the result of a failed call is never dereferenced (a crash of the connection goroutine terminates the process: there is no recover)", func() {
		var fns []*ssa.Function
		fns = append(fns, w.Funcs("")...)
		fns = append(fns, w.Funcs("mitm")...)
		if f := w.Fn("h2", "Config.Proxy"); f != nil {
			fns = append(fns, f)
		}
		seen := map[*ssa.Call]bool{}
		total := 0
		for _, f := range fns {
			uses, n := failedResultUses(f)
			total += n
			r.Touch(f)
			bad := map[*ssa.Call]failedUse{}
			for _, u := range uses {
				bad[u.Call] = u
			}
			for _, in := range instrs(f) {
				c, ok := in.(*ssa.Call)
				if !ok || seen[c] {
					continue
				}
				res := c.Call.Signature().Results()
				if res.Len() < 2 || !isErrorType(res.At(res.Len()-1).Type()) || len(errTests(c)) == 0 {
					continue
				}
				hasPtr := false
				for i := 0; i < res.Len()-1; i++ {
					if pointerLike(res.At(i).Type()) {
						hasPtr = true
					}
				}
				if !hasPtr {
					continue
				}
				seen[c] = true
				name := calleeName(c)
				if name == "" {
					name = "dynamic call"
				}
				key := fmt.Sprintf("%s: result of %s#%d not used when it failed", fnName(f), name, ordinalAny(f, c))
				r.Sites++
				if u, isBad := bad[c]; isBad {
					r.Fail("path", key, fmt.Sprintf("the error branch does not leave, and result #%d is dereferenced afterwards (nil dereference / index out of range on the failure path)", u.Idx), nil, c.Pos(), u.Use.Pos())
				} else {
					r.Hold("path", key, "no dereferencing use is reachable from the error edge", c.Pos())
				}
			}
		}
	})
}

func ordinalAny(f *ssa.Function, c *ssa.Call) int {
	n := calleeName(c)
	k := 0
	for _, in := range instrs(f) {
		x, ok := in.(*ssa.Call)
		if !ok || calleeName(x) != n {
			continue
		}
		k++
		if x == c {
			return k
		}
	}
	return 0
}

// staticReach returns the module functions reachable from the roots through
// resolved static callees, closures created (MakeClosure) and functions
// started with go / registered with defer. Interface invokes and calls of
// function values are not followed (user modifiers are outside the program).
func (w *World) staticReach(roots ...*ssa.Function) []*ssa.Function {
	seen := map[*ssa.Function]bool{}
	var order []*ssa.Function
	var visit func(f *ssa.Function)
	visit = func(f *ssa.Function) {
		if f == nil || seen[f] || f.Blocks == nil {
			return
		}
		// bound-method closures and thunks (c.sleepLatency as a value) are synthetic and
		// belong to no package: they are walked through, not listed
		synthetic := f.Pkg == nil && f.Synthetic != ""
		if !synthetic && (f.Pkg == nil || !strings.HasPrefix(f.Pkg.Pkg.Path(), M)) {
			return
		}
		seen[f] = true
		if !synthetic {
			order = append(order, f)
		}
		for _, i := range instrs(f) {
			if c, ok := i.(ssa.CallInstruction); ok {
				visit(c.Common().StaticCallee())
			}
			// functions used as values (handed to sync.Once.Do, stored, passed on)
			var ops []*ssa.Value
			for _, op := range i.Operands(ops) {
				if fn, ok := (*op).(*ssa.Function); ok {
					visit(fn)
				}
			}
			if mc, ok := i.(*ssa.MakeClosure); ok {
				if fn, ok := mc.Fn.(*ssa.Function); ok {
					visit(fn)
				}
			}
		}
	}
	for _, f := range roots {
		visit(f)
	}
	return order
}

// terminators lists the constructs in f that end the whole process (or, for
// an uncaught panic in a connection goroutine, do so because nothing recovers).
func terminators(f *ssa.Function) []ssa.Instruction {
	var out []ssa.Instruction
	for _, i := range instrs(f) {
		switch x := i.(type) {
		case *ssa.Panic:
			// go/ssa emits a position-less Panic after a default-less select
			// ("blocking select matched no case"): unreachable, not source.
			if x.Pos().IsValid() {
				out = append(out, x)
			}
		case ssa.CallInstruction:
			switch calleeName(x) {
			case "os.Exit", "log.Fatal", "log.Fatalf", "log.Fatalln", "log.Panic", "log.Panicf", "log.Panicln",
				"(*log.Logger).Fatal", "(*log.Logger).Fatalf", "(*log.Logger).Fatalln", "(*log.Logger).Panic", "(*log.Logger).Panicf", "(*log.Logger).Panicln",
				"runtime.Goexit", "syscall.Exit":
				out = append(out, x)
			}
		}
	}
	return out
}

// c03R6: "no such failure, and no byte sequence sent by a client, terminates
// the proxy process". The connection goroutine has no recover, so an explicit
// panic / os.Exit / log.Fatal on any statically reachable path of the module's
// own code is a way for traffic to end the process. Decides the explicit
// constructs only; run-time panics (index, nil) are C03.R4 and declined.
func c03R6(r *Report) {
	r.Guard("C03.R6", "no explicit panic, os.Exit or log.Fatal is statically reachable from the connection goroutine in the module's own code", func() {
		loop := r.Use("", "Proxy.handleLoop")
		serve := r.Use("", "Proxy.Serve")
		if loop == nil || serve == nil {
			return
		}
		fs := r.W.staticReach(loop, serve)
		n := 0
		for _, f := range fs {
			r.Touch(f)
			for _, t := range terminators(f) {
				if pn, ok := t.(*ssa.Panic); ok {
					if why := r.W.unreachableEnumDefault(pn); why != "" {
						r.Hold("table", fmt.Sprintf("%s: panic after an exhaustive switch", fnName(f)), why, pn.Pos())
						continue
					}
				}
				n++
				what := "panic"
				if c, ok := t.(ssa.CallInstruction); ok {
					what = calleeName(c)
				}
				r.Fail("callgraph", fmt.Sprintf("%s: %s#%d reachable from the connection goroutine", fnName(f), what, n), "a process-terminating construct is reachable from (*Proxy).handleLoop / Serve through static calls: traffic that steers execution there ends the proxy (nothing recovers)", nil, t.Pos())
			}
		}
		r.Decide("callgraph", "(*M.Proxy).handleLoop: no process-terminating construct in the static call closure", n == 0, fmt.Sprintf("%d module functions reachable through static calls, closures, go and defer; none contains panic, os.Exit, log.Fatal*, log.Panic*, runtime.Goexit", len(fs)), "see the individual constructs")
		// the "last element" idiom on a value that may be empty is the commonest way for
		// input to raise a run-time panic here (host names, header values)
		lastIndexRule(r, "", "mitm", "proxyutil")
		// the other one is a field the standard library documents as nil in ordinary
		// operation (net.OpError.Addr, Request.TLS, URL.User ...) dereferenced untested;
		// the pinned tree has no such dereference, the self-test keeps a positive example
		nilableFieldRule(r, "", "mitm", "proxyutil", "header", "httpspec", "har", "martianlog", "marbl")
		funcFieldCallsRule(r, "", "mitm", "proxyutil", "header", "httpspec", "har", "martianlog", "marbl")
		tlsConfigFreshRule(r)
		// no recover exists, which is why the rule matters; note if one appears
		for _, f := range fs {
			for _, c := range calls(f, "builtin.recover") {
				r.Note("recover() at %s: run-time panics below it no longer end the process", r.W.Pos(c.Pos()))
			}
		}
	})
}

// unreachableEnumDefault accepts one idiom of an explicit panic that no input
// can reach: the fall-through of a switch over a parameter of a named integer
// type T whose cases cover every constant of T declared in T's package, where
// nothing in the module converts a non-constant to T (so a T only ever holds a
// declared constant). Returns the argument, or "" when the idiom is not met.
func (w *World) unreachableEnumDefault(pn *ssa.Panic) string {
	var subject ssa.Value
	covered := map[string]bool{}
	for _, e := range ctrlEdges(pn.Block()) {
		b, ok := e.If.Cond.(*ssa.BinOp)
		if !ok || b.Op != token.EQL || e.Taken {
			return ""
		}
		x, c := b.X, b.Y
		if _, isC := x.(*ssa.Const); isC {
			x, c = c, x
		}
		k, isC := c.(*ssa.Const)
		if !isC || k.Value == nil {
			return ""
		}
		if subject != nil && subject != x {
			return ""
		}
		subject = x
		covered[k.Value.ExactString()] = true
	}
	par, ok := subject.(*ssa.Parameter)
	if !ok {
		return ""
	}
	named, ok := par.Type().(*types.Named)
	if !ok || named.Obj().Pkg() == nil {
		return ""
	}
	if b, ok := named.Underlying().(*types.Basic); !ok || b.Info()&types.IsInteger == 0 {
		return ""
	}
	scope := named.Obj().Pkg().Scope()
	nconst := 0
	for _, name := range scope.Names() {
		if c, ok := scope.Lookup(name).(*types.Const); ok && types.Identical(c.Type(), named) {
			nconst++
			if !covered[c.Val().ExactString()] {
				return ""
			}
		}
	}
	if nconst == 0 || !covered["0"] {
		return "" // the zero value of T must be a covered constant too
	}
	// no value of T is manufactured from a non-constant anywhere in the module
	for _, f := range w.fns {
		for _, i := range instrs(f) {
			var to types.Type
			var from ssa.Value
			switch x := i.(type) {
			case *ssa.Convert:
				to, from = x.Type(), x.X
			case *ssa.ChangeType:
				to, from = x.Type(), x.X
			case *ssa.BinOp:
				if types.Identical(x.Type(), named) {
					return "" // arithmetic on the enum
				}
			case *ssa.UnOp:
				if x.Op != token.MUL && x.Op != token.ARROW && types.Identical(x.Type(), named) {
					return ""
				}
			}
			if to != nil && types.Identical(to, named) {
				if _, isC := from.(*ssa.Const); !isC {
					return ""
				}
			}
		}
	}
	return fmt.Sprintf("the panic is the fall-through of a switch over parameter %s of type %s whose cases cover all %d declared constants; the module never converts a non-constant to that type or computes with it, so no input reaches it", par.Name(), short(named.String()), nconst)
}

// c03R7: the 502 synthesised for a failed upstream contact must reach the
// client as a well-formed, self-delimiting response, because the connection
// goes on serving requests afterwards. The only place where the core changes
// the framing of a response is the tunnel's 200 (ContentLength = -1: the
// tunnel bytes follow); that store must never apply to a synthesised error.
func c03R7(r *Report) {
	r.Guard("C03.R7", "a synthesised error response keeps its own framing: the core overrides ContentLength only on a response that cannot be a synthesised 4xx/5xx", func() {
		n := 0
		for _, f := range r.W.Funcs("") {
			for _, in := range instrs(f) {
				st, ok := in.(*ssa.Store)
				if !ok {
					continue
				}
				fa, ok := st.Addr.(*ssa.FieldAddr)
				if !ok || fa.X.Type().String() != "*net/http.Response" {
					continue
				}
				switch fieldObj(fa).Name() {
				case "ContentLength", "TransferEncoding", "Uncompressed":
				default:
					continue
				}
				n++
				r.Touch(f)
				bad := ""
				for _, leaf := range resolveAll(fa.X) {
					if c, isC := leaf.(*ssa.Call); isC && calleeName(c) == nNewResp {
						if code, isK := constInt(c.Call.Args[0]); isK && code >= 400 {
							bad = fmt.Sprintf("NewResponse(%d, ...)", code)
						}
					}
				}
				r.Decide("flow", fmt.Sprintf("%s: %s override #%d applies to tunnel/relayed responses only", fnName(f), fieldObj(fa).Name(), n), bad == "", "the response whose framing is overridden never resolves to a synthesised error response", "the framing override also reaches "+bad+": the error response goes out without a length on a connection that stays open, so the client hangs on its body or takes the next response for it", st.Pos())
			}
		}
		if n == 0 {
			r.Note("C03.R7: the core no longer overrides the framing of any response")
			r.Hold("flow", "core framing overrides", "none present")
		}
	})
}
