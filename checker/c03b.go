package main

import (
	"fmt"
	"go/token"
	"go/types"

	"golang.org/x/tools/go/ssa"
)

// failedUse is a use of the non-error result of a call on a path where the
// call's error was non-nil and the error branch did not leave the function.
type failedUse struct {
	Call *ssa.Call
	Use  ssa.Instruction
	Idx  int
}

func pointerLike(t types.Type) bool {
	switch t.Underlying().(type) {
	case *types.Pointer, *types.Slice, *types.Map, *types.Interface, *types.Chan, *types.Signature:
		return true
	}
	return false
}

// failedResultUses implements the "result used on the error path" rule
// (Engler et al.): for every call returning (T..., error) with a pointer-like
// T whose error is tested, a dereferencing use of T reachable from the
// error != nil edge is reported.
func failedResultUses(fn *ssa.Function) (uses []failedUse, calls int) {
	g := G(fn)
	for _, in := range instrs(fn) {
		c, ok := in.(*ssa.Call)
		if !ok {
			continue
		}
		res := c.Call.Signature().Results()
		if res.Len() < 2 || !isErrorType(res.At(res.Len()-1).Type()) {
			continue
		}
		tests := errTests(c)
		if len(tests) == 0 {
			continue
		}
		calls++
		for idx := 0; idx < res.Len()-1; idx++ {
			if !pointerLike(res.At(idx).Type()) {
				continue
			}
			rv := resultOf(c, idx)
			if rv == nil || rv.Referrers() == nil {
				continue
			}
			for _, t := range tests {
				reach := g.Reach(blockStart(t.NonNil), true, nil)
				// the error edge must be able to reach the use without the use also being
				// reachable only through the ok edge: uses dominated by the ok edge are fine
				for _, u := range *rv.Referrers() {
					if !reach[u] || !derefUse(u, rv) {
						continue
					}
					if edgeDominatesNil(t, u.Block()) {
						continue
					}
					uses = append(uses, failedUse{c, u, idx})
				}
			}
		}
	}
	return
}

func edgeDominatesNil(t nilTest, b *ssa.BasicBlock) bool {
	for k, s := range t.If.Block().Succs {
		if s == t.Nil {
			return edgeDominates(t.If.Block(), k, b)
		}
	}
	return false
}

// derefUse reports whether instruction u dereferences / indexes / calls
// through value v.
func derefUse(u ssa.Instruction, v ssa.Value) bool {
	switch x := u.(type) {
	case *ssa.FieldAddr:
		return x.X == v
	case *ssa.IndexAddr:
		return x.X == v
	case *ssa.Index:
		return x.X == v
	case *ssa.Lookup:
		return false // nil map lookup is legal
	case *ssa.UnOp:
		return x.Op == token.MUL && x.X == v
	case *ssa.Slice:
		return false // slicing a nil slice is legal for in-range bounds only; not judged
	case ssa.CallInstruction:
		cc := x.Common()
		if cc.IsInvoke() && cc.Value == v {
			return true
		}
		if !cc.IsInvoke() && len(cc.Args) > 0 && cc.Args[0] == v && cc.Signature().Recv() != nil {
			// method call with v as receiver: dereferences unless the method tolerates nil; not knowable -> report
			return true
		}
	}
	return false
}

func init() {
	floors["C03"]["C03.R4"] = 20
}

func c03R4(r *Report) {
	w := r.W
	r.Guard("C03.R4", "the result of a failed call is never dereferenced (a crash of the connection goroutine terminates the process: there is no recover)", func() {
		var fns []*ssa.Function
		fns = append(fns, w.Funcs("")...)
		fns = append(fns, w.Funcs("mitm")...)
		if f := w.Fn("h2", "Config.Proxy"); f != nil {
			fns = append(fns, f)
		}
		seen := map[*ssa.Call]bool{}
		total := 0
		for _, f := range fns {
			uses, n := failedResultUses(f)
			total += n
			r.Touch(f)
			bad := map[*ssa.Call]failedUse{}
			for _, u := range uses {
				bad[u.Call] = u
			}
			for _, in := range instrs(f) {
				c, ok := in.(*ssa.Call)
				if !ok || seen[c] {
					continue
				}
				res := c.Call.Signature().Results()
				if res.Len() < 2 || !isErrorType(res.At(res.Len()-1).Type()) || len(errTests(c)) == 0 {
					continue
				}
				hasPtr := false
				for i := 0; i < res.Len()-1; i++ {
					if pointerLike(res.At(i).Type()) {
						hasPtr = true
					}
				}
				if !hasPtr {
					continue
				}
				seen[c] = true
				name := calleeName(c)
				if name == "" {
					name = "dynamic call"
				}
				key := fmt.Sprintf("%s: result of %s#%d not used when it failed", fnName(f), name, ordinalAny(f, c))
				r.Sites++
				if u, isBad := bad[c]; isBad {
					r.Fail("path", key, fmt.Sprintf("the error branch does not leave, and result #%d is dereferenced afterwards (nil dereference / index out of range on the failure path)", u.Idx), nil, c.Pos(), u.Use.Pos())
				} else {
					r.Hold("path", key, "no dereferencing use is reachable from the error edge", c.Pos())
				}
			}
		}
	})
}

func ordinalAny(f *ssa.Function, c *ssa.Call) int {
	n := calleeName(c)
	k := 0
	for _, in := range instrs(f) {
		x, ok := in.(*ssa.Call)
		if !ok || calleeName(x) != n {
			continue
		}
		k++
		if x == c {
			return k
		}
	}
	return 0
}
