package main

import (
	"fmt"
	"go/token"
	"go/types"
	"sort"
	"strings"

	"golang.org/x/tools/go/ssa"
)

func init() {
	props["C16"] = c16
	floors["C16"] = map[string]int{"C16.R1": 2, "C16.R2": 13, "C16.R3": 6, "C16.R4": 5, "C16.R5": 5, "C16.R6": 1, "C16.R7": 2}
}

// caseStrings collects, for a function, the string constants compared (==)
// with a tag value satisfying isTag (a switch over strings).
func caseStrings(f *ssa.Function, isTag func(ssa.Value) bool) []string {
	m := map[string]bool{}
	for _, in := range instrs(f) {
		b, ok := in.(*ssa.BinOp)
		if !ok || (b.Op != token.EQL && b.Op != token.NEQ) {
			continue
		}
		if s, isC := constString(b.Y); isC && isTag(b.X) {
			m[s] = true
		}
		if s, isC := constString(b.X); isC && isTag(b.Y) {
			m[s] = true
		}
	}
	return keys(m)
}

func c16(r *Report) {
	w := r.W
	r.Decline("value equality of bodies, multipart parsing, base64 fidelity, the JSON encoder itself")
	r.Decline("time stamps and timings")
	nreq := r.Use("har", "NewRequest")
	nres := r.Use("har", "NewResponse")
	pd := r.Use("har", "postData")
	if nreq == nil || nres == nil || pd == nil {
		return
	}

	r.Guard("C16.R1", "whoever reads the snapshot body in har removes the transfer coding the snapshot keeps", func() {
		// the body kept in a snapshot is the whole body that was read: what the view's writers
		// are given is the ReadAll result itself, not a slice of it
		if mvT := w.Named("messageview", "MessageView"); mvT != nil {
			for _, mn := range []string{"SnapshotRequest", "SnapshotResponse"} {
				sf := w.method(mvT, mn)
				if sf == nil || sf.Blocks == nil {
					continue
				}
				r.Touch(sf)
				n, whole := 0, true
				for _, c := range calls(sf) {
					cc := c.Common()
					nm := calleeName(c)
					var arg ssa.Value
					switch {
					case nm == "(*bytes.Buffer).Write":
						arg = cc.Args[1]
					case cc.IsInvoke() && cc.Method.Name() == "Write" && len(cc.Args) == 1:
						arg = cc.Args[0]
					default:
						continue
					}
					fromRead := anyIn(w.backSlice(arg, flowOpt{}), func(v ssa.Value) bool {
						return isExtractOfCall(v, "io/ioutil.ReadAll") || isExtractOfCall(v, "io.ReadAll")
					})
					if !fromRead {
						continue
					}
					n++
					for _, l := range resolveAll(arg) {
						if _, isSl := l.(*ssa.Slice); isSl {
							whole = false
						}
					}
				}
				r.Decide("flow", "(*M/messageview.MessageView)."+mn+": the view holds the whole body that was read", n > 0 && whole, "the bytes ReadAll returned are written to the view as they are", "the body written into the snapshot is a slice of what was read (cut to a declared length): the logged content is shorter than the body the client receives", sf.Pos())
			}
		}
		// (the index of the last transfer coding is in range)
		lastIndexRule(r, "har")
		for _, n := range []string{"NewRequest", "NewResponse", "postData", "Logger.RecordRequest", "Logger.RecordResponse", "PostData.UnmarshalJSON", "Content.UnmarshalJSON"} {
			errorsReturnedRule(r, r.W.Fn("har", n), false)
		}

		// the snapshot and its readers decide "is the body chunk-framed" with one predicate: every test
		// against the coding name "chunked" in messageview and har is of the same kind (exact or folded)
		{
			kinds := map[string][]string{}
			var first token.Pos
			for _, pk := range []string{"messageview", "har"} {
				for _, f := range w.Funcs(pk) {
					for _, in := range instrs(f) {
						kind := ""
						switch x := in.(type) {
						case *ssa.BinOp:
							if x.Op != token.EQL && x.Op != token.NEQ {
								continue
							}
							for _, side := range []ssa.Value{x.X, x.Y} {
								if k, isK := constString(side); isK && strings.EqualFold(k, "chunked") {
									kind = "exact(" + k + ")"
								}
							}
						case *ssa.Call:
							for _, a := range x.Call.Args {
								if k, isK := constString(a); isK && strings.EqualFold(k, "chunked") {
									switch calleeName(x) {
									case "strings.EqualFold":
										kind = "folded"
									case "fmt.Fprintf", "fmt.Sprintf", "fmt.Fprint", "fmt.Fprintln", "M/log.Debugf", "M/log.Errorf", "M/log.Infof":
									default:
										kind = "call " + calleeName(x) + "(" + k + ")"
									}
								}
							}
						}
						if kind == "" {
							continue
						}
						kinds[kind] = append(kinds[kind], fnName(f))
						if first == token.NoPos {
							first = in.Pos()
						}
						r.Touch(f)
					}
				}
			}
			var desc []string
			total := 0
			for k, fs := range kinds {
				sort.Strings(fs)
				desc = append(desc, fmt.Sprintf("%s in %v", k, fs))
				total += len(fs)
			}
			sort.Strings(desc)
			r.Sites += total
			r.Decide("sibling", "the snapshot and its readers test for the chunked coding in the same way", len(kinds) == 1 && total >= 3, strings.Join(desc, "; "), "the tests for the chunked coding disagree ("+strings.Join(desc, "; ")+"): a message one site frames in chunks is read as unframed by another, and chunk sizes end up in the logged body (or a plain body is de-chunked)", first)
		}

		for _, f := range w.Funcs("har") {
			for _, c := range plainCalls(f, "(*M/messageview.MessageView).BodyReader") {
				r.Touch(f)
				key := fmt.Sprintf("%s: the snapshot body is de-chunked before it is interpreted", fnName(f))
				// (a) Decode() option
				decoded := anyIn(w.backSlice(c.Call.Args[1], flowOpt{}), func(v ssa.Value) bool { return isCallValue(v, "M/messageview.Decode") })
				// (b) a chunked reader over the result, on the chunked edge, feeding every consumer
				body := resultOf(c, 0)
				dech := false
				for _, cr := range plainCalls(f, "net/http/httputil.NewChunkedReader") {
					if !anyIn(w.backSlice(cr.Call.Args[0], flowOpt{}), func(v ssa.Value) bool { return v == body }) {
						continue
					}
					guarded := false
					lenOK := true
					for _, ce := range ctrlEdges(cr.Block()) {
						b, isB := ce.If.Cond.(*ssa.BinOp)
						if !isB {
							continue
						}
						for _, side := range []ssa.Value{b.X, b.Y} {
							if k, isK := constString(side); isK && k == "chunked" && ((b.Op == token.EQL && ce.Taken) || (b.Op == token.NEQ && !ce.Taken)) {
								guarded = true
							}
						}
						// a guard on the number of transfer codings admits a single one
						isLenV := func(v ssa.Value) bool {
							c, y := unwrapConv(v).(*ssa.Call)
							if !y {
								return false
							}
							bi, y := c.Call.Value.(*ssa.Builtin)
							return y && bi.Name() == "len"
						}
						if rel, adm := constCmpAdmits(ce, isLenV, 1); rel && !adm {
							lenOK = false
						}
					}
					if !guarded || !lenOK {
						continue
					}
					// every consumer of the body reads through a value that can be the chunked reader
					all := true
					for _, cons := range plainCalls(f, "io/ioutil.ReadAll", "io.ReadAll", "mime/multipart.NewReader") {
						if !anyIn(w.backSlice(cons.Call.Args[0], flowOpt{}), func(v ssa.Value) bool { return v == body }) {
							continue
						}
						if !anyIn(w.backSlice(cons.Call.Args[0], flowOpt{}), func(v ssa.Value) bool { return v == ssa.Value(cr) }) {
							all = false
						}
					}
					dech = all
				}
				r.Sites++
				r.Decide("flow", key, decoded || dech, map[bool]string{true: "BodyReader(Decode())", false: "httputil.NewChunkedReader on the chunked edge feeds every consumer"}[decoded], "the snapshot body (which keeps chunk framing) is parsed as if it were the plain body: chunk sizes end up in the HAR entry", c.Pos())
				// post data is the request body as the origin receives it: the transfer
				// coding is removed, a Content-Encoding is not; response content is the
				// fully decoded body
				isReq := false
				for _, sc := range calls(f, "(*M/messageview.MessageView).SnapshotRequest") {
					if sc.Common().Args[0] == c.Call.Args[0] {
						isReq = true
					}
				}
				if isReq {
					r.Decide("flow", fmt.Sprintf("%s: request post data keeps its content encoding", fnName(f)), !decoded, "the request body is de-chunked only", "the request body is read with Decode(): a compressed upload is logged decompressed (or not at all when it does not decompress) instead of as the bytes the origin receives", c.Pos())
				} else {
					r.Decide("flow", fmt.Sprintf("%s: response content is the decoded body", fnName(f)), decoded, "BodyReader(Decode())", "the response body is logged without removing its content encoding", c.Pos())
				}
			}
		}
		// the content decoders are used whole: a gzip body may consist of several
		// members (RFC 1952), which gzip.Reader reads through unless told not to;
		// nothing bounds the decoded stream either
		for _, pkg := range []string{"messageview", "har"} {
			n := 0
			for _, f := range w.Funcs(pkg) {
				for _, c := range calls(f, "(*compress/gzip.Reader).Multistream", "io.LimitReader", "io.CopyN") {
					cut := true
					if calleeName(c) == "(*compress/gzip.Reader).Multistream" {
						if b, isB := constBool(c.Common().Args[1]); isB && b {
							cut = false
						}
					}
					if cut {
						n++
						r.Fail("callgraph", fmt.Sprintf("%s: %s", fnName(f), site(f, c)), "the decoded body is cut short (multistream disabled or a length limit on the reader): content text and size no longer equal the fully decoded body", nil, c.Pos())
					}
				}
			}
			if n == 0 {
				r.Hold("callgraph", "package "+pkg+": decoded bodies are read to their end", "no Multistream(false), LimitReader or CopyN on a body reader")
			}
		}
	})

	r.Guard("C16.R7", "a view that is snapshotted into is new, unless the snapshot re-initialises everything it later reads", func() {
		mvT := w.Named("messageview", "MessageView")
		if mvT == nil {
			r.Undecided("messageview.MessageView", "UNRESOLVED")
			return
		}
		for _, name := range []string{"MessageView.SnapshotRequest", "MessageView.SnapshotResponse"} {
			sn := r.Use("messageview", name)
			if sn == nil {
				continue
			}
			// fields of the view this snapshot writes on some paths only
			stores := map[string][]ssa.Instruction{}
			for _, in := range instrs(sn) {
				if st, ok := in.(*ssa.Store); ok {
					if fa, isFa := st.Addr.(*ssa.FieldAddr); isFa && isParamVal(fa.X, sn.Params[0]) {
						stores[fieldObj(fa).Name()] = append(stores[fieldObj(fa).Name()], in)
					}
				}
			}
			var partial []string
			for fname, sts := range stores {
				set := map[ssa.Instruction]bool{}
				for _, s := range sts {
					set[s] = true
				}
				cb := countBefore(sn, func(i ssa.Instruction) bool { return set[i] })
				for _, ret := range returns(sn) {
					okRet := false
					for _, v := range retVals(ret, 0) {
						if isNilConst(v) {
							okRet = true
						}
					}
					if okRet && cb[ret].Min == 0 {
						partial = append(partial, fname)
						break
					}
				}
			}
			sort.Strings(partial)
			// callers in the module
			for _, site := range w.staticCallers(sn) {
				f := site.Parent()
				if !strings.HasSuffix(f.Pkg.Pkg.Path(), "/har") {
					continue // other loggers are not HAR entries
				}
				r.Touch(f)
				recv := site.Common().Args[0]
				fresh := true
				var visit func(v ssa.Value, d int)
				visit = func(v ssa.Value, d int) {
					switch x := v.(type) {
					case *ssa.Call:
						if calleeName(x) != "M/messageview.New" {
							fresh = false
						}
					case *ssa.Alloc:
					case *ssa.Phi:
						if d > 4 {
							fresh = false
							return
						}
						for _, e := range x.Edges {
							visit(e, d+1)
						}
					default:
						fresh = false
					}
				}
				visit(recv, 0)
				key := fmt.Sprintf("%s: the view handed to %s is new or fully re-initialised", fnName(f), strings.TrimPrefix(name, "MessageView."))
				r.Decide("flow", key, fresh || len(partial) == 0,
					map[bool]string{true: "receiver is the result of messageview.New() in this function", false: "the snapshot stores every field on every successful path"}[fresh],
					fmt.Sprintf("the view is recycled (pooled, cached or shared) and %s leaves field(s) %v untouched for some messages: a flag of the previous message (e.g. chunked) decides how this body is interpreted", name, partial), site.Pos())
			}
		}
	})

	r.Guard("C16.R2", "every logged exchange has an entry with its request, and its response reaches the log it is served from", func() {
		harEntryCompleteRule(r)
		harExportResetRule(r)
		partialStatusRule(r)
	})

	r.Guard("C16.R2", "the entry's fields are taken from the corresponding parts of the message", func() {
		// the logged body is exactly what was read from the decoded body reader: text
		// and size come from the slice ReadAll returned (a buffer sized from a header and
		// filled by a read whose count is ignored invents bytes)
		if nr := r.W.Fn("har", "NewResponse"); nr != nil {
			for _, in := range instrs(nr) {
				st, ok := in.(*ssa.Store)
				if !ok {
					continue
				}
				fa, ok := st.Addr.(*ssa.FieldAddr)
				if !ok || (fieldObj(fa).Name() != "Text" && fieldObj(fa).Name() != "Size") || !strings.HasSuffix(fa.X.Type().String(), "har.Content") {
					continue
				}
				okSrc := true
				n := 0
				for _, l := range resolveAll(st.Val) {
					n++
					if cv, isCv := l.(*ssa.Convert); isCv {
						l = cv.X
					}
					if lc, isC := l.(*ssa.Call); isC {
						if bi, isB := lc.Call.Value.(*ssa.Builtin); isB && bi.Name() == "len" {
							l = lc.Call.Args[0]
						}
					}
					sl := w.backSlice(l, flowOpt{})
					if !anyIn(sl, func(v ssa.Value) bool {
						return isExtractOfCall(v, "io/ioutil.ReadAll") || isExtractOfCall(v, "io.ReadAll")
					}) {
						okSrc = false
					}
					if anyIn(sl, func(v ssa.Value) bool { _, isMk := v.(*ssa.MakeSlice); return isMk }) {
						okSrc = false
					}
				}
				r.Decide("flow", "M/har.NewResponse: Content."+fieldObj(fa).Name()+" is what ReadAll returned", okSrc && n > 0, "derived from the result of ReadAll on the body reader", "the logged content does not come from the bytes actually read (a pre-sized buffer, a header value): text and size can differ from the decoded body", st.Pos())
			}
		}

		type fm struct {
			fn    *ssa.Function
			typ   string
			field string
			pred  func(ssa.Value) bool
			what  string
		}
		fieldLoad := func(typ, name string) func(ssa.Value) bool {
			return func(v ssa.Value) bool {
				fa, ok := v.(*ssa.FieldAddr)
				return ok && fieldObj(fa).Name() == name && strings.HasSuffix(fa.X.Type().String(), typ)
			}
		}
		call := func(name string) func(ssa.Value) bool {
			return func(v ssa.Value) bool { return isCallValue(v, name) }
		}
		hdrGet := func(key string) func(ssa.Value) bool {
			return func(v ssa.Value) bool {
				c, ok := v.(*ssa.Call)
				if !ok || calleeName(c) != "(net/http.Header).Get" {
					return false
				}
				k, isC := constString(c.Call.Args[1])
				return isC && k == key
			}
		}
		maps := []fm{
			{nreq, "M/har.Request", "Method", fieldLoad("net/http.Request", "Method"), "req.Method"},
			{nreq, "M/har.Request", "URL", call("(*net/url.URL).String"), "req.URL.String()"},
			{nreq, "M/har.Request", "HTTPVersion", fieldLoad("net/http.Request", "Proto"), "req.Proto"},
			{nreq, "M/har.Request", "BodySize", fieldLoad("net/http.Request", "ContentLength"), "req.ContentLength"},
			{nreq, "M/har.Request", "Headers", call("(*M/proxyutil.Header).Map"), "proxyutil.RequestHeader(req).Map()"},
			{nreq, "M/har.Request", "Cookies", call("(*net/http.Request).Cookies"), "req.Cookies()"},
			{nres, "M/har.Response", "Status", fieldLoad("net/http.Response", "StatusCode"), "res.StatusCode"},
			{nres, "M/har.Response", "HTTPVersion", fieldLoad("net/http.Response", "Proto"), "res.Proto"},
			{nres, "M/har.Response", "Headers", call("(*M/proxyutil.Header).Map"), "proxyutil.ResponseHeader(res).Map()"},
			{nres, "M/har.Response", "RedirectURL", hdrGet("Location"), "res.Header.Get(\"Location\")"},
			{nres, "M/har.Content", "MimeType", hdrGet("Content-Type"), "res.Header.Get(\"Content-Type\")"},
		}
		thr := map[string]bool{"M/har.headers": true, "M/har.cookies": true}
		for _, m := range maps {
			ok := false
			for _, a := range allocsOf(m.fn, strings.Replace(m.typ, "M/", M+"/", 1)) {
				for _, st := range litFieldStores(a)[m.field] {
					if anyIn(w.backSlice(st.Val, flowOpt{Through: thr}), m.pred) {
						ok = true
					}
				}
			}
			r.Sites++
			r.Decide("flow", fmt.Sprintf("%s: %s.%s <- %s", fnName(m.fn), strings.TrimPrefix(m.typ, "M/har."), m.field, m.what), ok, "def-use path from the message accessor to the entry field", "the entry field is not filled from "+m.what, m.fn.Pos())
		}
		// query string: every (name, value) of req.URL.Query()
		okQ := false
		for _, in := range instrs(nreq) {
			st, ok := in.(*ssa.Store)
			if !ok {
				continue
			}
			if fa, ok := st.Addr.(*ssa.FieldAddr); ok && fieldObj(fa).Name() == "QueryString" {
				if anyIn(w.backSlice(st.Val, flowOpt{}), call("(*net/url.URL).Query")) || anyIn(w.backSlice(st.Val, flowOpt{}), func(v ssa.Value) bool {
					n, isN := v.(*ssa.Next)
					if !isN {
						return false
					}
					rg, isR := n.Iter.(*ssa.Range)
					return isR && isCallValue(rg.X, "(*net/url.URL).Query")
				}) {
					okQ = true
				}
			}
		}
		r.Decide("flow", "M/har.NewRequest: QueryString <- req.URL.Query()", okQ, "appended in a loop over the parsed query", "query parameters are not taken from the request URL", nreq.Pos())
		// content: Size is len of the very slice stored in Text
		okSize := false
		for _, in := range instrs(nres) {
			st, ok := in.(*ssa.Store)
			if !ok {
				continue
			}
			fa, ok := st.Addr.(*ssa.FieldAddr)
			if !ok || fieldObj(fa).Name() != "Size" {
				continue
			}
			for v := range w.backSlice(st.Val, flowOpt{}) {
				c, isC := v.(*ssa.Call)
				if !isC {
					continue
				}
				if b, isB := c.Call.Value.(*ssa.Builtin); isB && b.Name() == "len" {
					for _, in2 := range instrs(nres) {
						st2, ok := in2.(*ssa.Store)
						if !ok {
							continue
						}
						if fa2, ok := st2.Addr.(*ssa.FieldAddr); ok && fieldObj(fa2).Name() == "Text" && st2.Val == c.Call.Args[0] {
							okSize = true
						}
					}
				}
			}
		}
		r.Decide("flow", "M/har.NewResponse: Content.Size is the length of Content.Text", okSize, "len of the same slice", "the recorded size is not the size of the recorded (decoded) body", nres.Pos())
	})

	r.Guard("C16.R3", "Host, Content-Length and Transfer-Encoding are handled specially by every accessor of proxyutil.Header, and listed by Map", func() {
		// a length that is not positive is "no Content-Length header" for All (and so for Map): the
		// test on cl() admits 0 and -1 as absent and 1 as present
		if all := w.method(w.Named("proxyutil", "Header"), "All"); all != nil && all.Blocks != nil {
			isCL := func(v ssa.Value) bool {
				c, isC := v.(*ssa.Call)
				if !isC {
					return false
				}
				if c.Call.IsInvoke() {
					return c.Call.Method.Name() == "cl"
				}
				if ld, isLd := c.Call.Value.(*ssa.UnOp); isLd {
					if fa, isFa := ld.X.(*ssa.FieldAddr); isFa && fieldObj(fa).Name() == "cl" {
						return true
					}
				}
				return false
			}
			ncl, okCL := 0, true
			for _, in := range instrs(all) {
				b, isB := in.(*ssa.BinOp)
				if !isB || !(isCL(b.X) || isCL(b.Y)) {
					continue
				}
				for _, e := range branchesOn(b) {
					ncl++
					absent := func(n int64) bool {
						_, adm := constCmpAdmits(ctrlEdge{If: e.If, Taken: true}, isCL, n)
						// which edge returns (nil, false)?
						vals, _, _ := returnValuesFrom(e.True, 1)
						trueIsAbsent := false
						for _, v := range vals {
							if k, isK := constBool(v); isK && !k {
								trueIsAbsent = true
							}
						}
						return adm == trueIsAbsent
					}
					if !(absent(0) && absent(-1) && !absent(1)) {
						okCL = false
					}
				}
			}
			r.Decide("table", "(*M/proxyutil.Header).All: a Content-Length of 0 or -1 is absent, 1 is present", ncl >= 1 && okCL, "evaluated for -1, 0, 1", "All reports a Content-Length header for a length of 0: every body-less response (204, 304, a response whose length was never set) is logged with a Content-Length: 0 it does not carry", all.Pos())
		}
		hdr := w.Named("proxyutil", "Header")
		want := []string{"Content-Length", "Host", "Transfer-Encoding"}
		isCanon := func(v ssa.Value) bool { return isCallValue(v, "net/http.CanonicalHeaderKey") }
		for _, mn := range []string{"Set", "Add", "Get", "All", "Del"} {
			f := w.method(hdr, mn)
			if f == nil {
				r.Undecided("M/proxyutil.Header."+mn, "UNRESOLVED")
				continue
			}
			r.Touch(f)
			got := caseStrings(f, isCanon)
			r.Sites++
			r.Decide("sibling", "(*M/proxyutil.Header)."+mn+" special-cases Host, Content-Length and Transfer-Encoding", strings.Join(got, ",") == strings.Join(want, ","), "cases "+strings.Join(got, ", "), fmt.Sprintf("cases %v differ from its siblings' %v: one of the synthetic headers is read, written or deleted in the wrong place", got, want), f.Pos())
		}
		if mp := w.method(hdr, "Map"); mp != nil {
			r.Touch(mp)
			var lits []string
			for _, in := range instrs(mp) {
				if st, ok := in.(*ssa.Store); ok {
					if s, isC := constString(st.Val); isC {
						lits = append(lits, s)
					}
				}
				// or a package-level list that is ranged over
				if ld, ok := in.(*ssa.UnOp); ok {
					if g, isG := ld.X.(*ssa.Global); isG {
						if vals, _ := w.stringSliceVar("proxyutil", g.Name()); len(vals) > 0 {
							lits = append(lits, vals...)
						}
					}
				}
			}
			lits = uniq(lits)
			sort.Strings(lits)
			r.Decide("table", "(*M/proxyutil.Header).Map lists the three synthetic headers", strings.Join(lits, ",") == strings.Join(want, ","), strings.Join(lits, ", "), fmt.Sprintf("Map adds %v, want %v: a HAR entry misses Host / Content-Length / Transfer-Encoding", lits, want), mp.Pos())
		}
	})

	r.Guard("C16.R6", "the values of the synthetic headers win over stale entries of the raw header map", func() {
		hdr := w.Named("proxyutil", "Header")
		mp := w.method(hdr, "Map")
		if mp == nil {
			r.Undecided("M/proxyutil.Header.Map", "UNRESOLVED")
			return
		}
		var syn, raw []ssa.Instruction
		for _, in := range instrs(mp) {
			mu, ok := in.(*ssa.MapUpdate)
			if !ok {
				continue
			}
			if anyIn(w.backSlice(mu.Value, flowOpt{}), func(v ssa.Value) bool {
				return isCallValue(v, "(*M/proxyutil.Header).All") || isExtractOfCall(v, "(*M/proxyutil.Header).All")
			}) {
				syn = append(syn, mu)
			} else {
				raw = append(raw, mu)
			}
		}
		ok := len(syn) == 1 && len(raw) == 1
		if ok {
			g := G(mp)
			// once a synthetic value is stored, the raw copy loop does not run again
			ok = g.PathTo([]ssa.Instruction{syn[0]}, false, nil, func(i ssa.Instruction) bool { return i == raw[0] }) == nil
		}
		headerMapKeysRule(r)
		r.Decide("path", "(*M/proxyutil.Header).Map: synthetic Host / Content-Length / Transfer-Encoding are written after the raw header copy", ok, "raw copy first, synthetic values last", "the raw header map is copied over the synthetic values: a stale Content-Length entry of a wire-parsed message wins over the true length in HAR entries", mp.Pos())
	})

	r.Guard("C16.R4", "the JSON forms of post data and content are written and read with the same encoding vocabulary", func() {
		marshalThroughJSONRule(r)
		cnt := w.Named("har", "Content")
		pdT := w.Named("har", "PostData")
		isEnc := func(v ssa.Value) bool {
			switch x := v.(type) {
			case *ssa.UnOp:
				fa, ok := x.X.(*ssa.FieldAddr)
				return ok && fieldObj(fa).Name() == "Encoding"
			case *ssa.Field:
				return fieldObjV(x).Name() == "Encoding"
			}
			return false
		}
		m, u := w.method(cnt, "MarshalJSON"), w.method(cnt, "UnmarshalJSON")
		if m == nil || u == nil {
			r.Undecided("M/har.Content JSON methods", "UNRESOLVED")
		} else {
			r.Touch(m)
			r.Touch(u)
			a, b := caseStrings(m, isEnc), caseStrings(u, isEnc)
			r.Decide("sibling", "M/har.Content: MarshalJSON and UnmarshalJSON accept the same encodings", len(a) > 0 && strings.Join(a, ",") == strings.Join(b, ","), fmt.Sprintf("%q", a), fmt.Sprintf("marshal handles %q, unmarshal handles %q", a, b), m.Pos())
			enc := len(plainCalls(m, "(*encoding/base64.Encoding).EncodeToString")) == 1
			dec := len(plainCalls(u, "(*encoding/base64.Encoding).DecodeString")) == 1
			r.Decide("sibling", "M/har.Content: base64 text is encoded and decoded with the same alphabet", enc && dec && sameBase64(m, u), "StdEncoding on both sides", "the two directions use different base64 variants (or one does not transcode)", m.Pos())
		}
		// response content is arbitrary bytes: it is marked base64 unless the bytes were checked to be UTF-8
		okEnc := false
		for _, a := range allocsOf(nres, M+"/har.Content") {
			for _, st := range litFieldStores(a)["Encoding"] {
				if s, isC := constString(st.Val); isC && s == "base64" {
					okEnc = true
				} else if anyIn(w.backSlice(st.Val, flowOpt{Calls: true}), func(v ssa.Value) bool {
					return isCallValue(v, "unicode/utf8.Valid") || isCallValue(v, "unicode/utf8.ValidString")
				}) {
					okEnc = true
				}
			}
		}
		r.Decide("flow", "M/har.NewResponse: response text is marked base64 (or checked to be valid UTF-8)", okEnc, "Encoding: \"base64\"", "the content encoding is chosen without looking at the bytes (for instance from the declared Content-Type): non-UTF-8 bodies are mangled by the JSON round trip", nres.Pos())
		m, u = w.method(pdT, "MarshalJSON"), w.method(pdT, "UnmarshalJSON")
		if m == nil || u == nil {
			r.Undecided("M/har.PostData JSON methods", "UNRESOLVED")
		} else {
			r.Touch(m)
			r.Touch(u)
			// marshal stores Encoding "base64" in the binary form; unmarshal compares with the same literal
			var stored []string
			for _, in := range instrs(m) {
				if st, ok := in.(*ssa.Store); ok {
					if fa, ok := st.Addr.(*ssa.FieldAddr); ok && fieldObj(fa).Name() == "Encoding" {
						if s, isC := constString(st.Val); isC {
							stored = append(stored, s)
						}
					}
				}
			}
			cmp := caseStrings(u, isEnc)
			r.Decide("sibling", "M/har.PostData: the encoding marker written for binary text is the one UnmarshalJSON recognises", len(stored) == 1 && len(cmp) == 1 && stored[0] == cmp[0], fmt.Sprintf("%q", stored), fmt.Sprintf("marshal writes %q, unmarshal tests %q", stored, cmp), m.Pos())
			// non-UTF-8 text takes the binary form
			okU := false
			for _, c := range plainCalls(m, "unicode/utf8.ValidString") {
				if len(branchesOn(c)) == 1 {
					okU = true
				}
			}
			// the whole text is validated, not a prefix of it
			for _, f := range w.Funcs("har") {
				for _, c := range plainCalls(f, "unicode/utf8.ValidString", "unicode/utf8.Valid") {
					whole := true
					for _, l := range resolveAll(c.Call.Args[0]) {
						l = unwrapConv(l)
						if _, isSl := l.(*ssa.Slice); isSl {
							whole = false
						}
					}
					r.Decide("flow", fnName(f)+": the UTF-8 test covers the whole text", whole, "utf8.ValidString(<the text>)", "only a slice (prefix) of the text is validated: a body whose first bytes are valid UTF-8 and whose later bytes are not is written as a JSON string, and the invalid bytes come back as U+FFFD", c.Pos())
				}
			}
			r.Decide("path", "M/har.PostData.MarshalJSON: text that is not valid UTF-8 is written in the binary (base64) form", okU, "branches on utf8.ValidString", "non-UTF-8 bodies are written as JSON strings and mangled", m.Pos())
		}
	})

	r.Guard("C16.R2", "derived fields: redirect URL for 3xx only, cookie expiry when set, post data exactly for requests with a body", func() {
		// RedirectURL is filled for status 300..399 and for no other
		okRed := false
		for _, in := range instrs(nres) {
			st, ok := in.(*ssa.Store)
			if !ok {
				continue
			}
			fa, ok := st.Addr.(*ssa.FieldAddr)
			if !ok || fieldObj(fa).Name() != "RedirectURL" {
				continue
			}
			okRed = true
			for _, sc := range []int64{200, 299, 300, 302, 399, 400, 404} {
				reach := true
				n := 0
				for _, ce := range ctrlEdges(st.Block()) {
					ev := &miniEval{leaf: func(v ssa.Value) (int64, bool) {
						if ld, isLd := v.(*ssa.UnOp); isLd {
							if f2, isFa := ld.X.(*ssa.FieldAddr); isFa && fieldObj(f2).Name() == "StatusCode" {
								return sc, true
							}
						}
						return 0, false
					}}
					c, okc := ev.Bool(ce.If.Cond)
					if !okc {
						continue
					}
					n++
					if c != ce.Taken {
						reach = false
					}
				}
				if n == 0 || reach != (sc >= 300 && sc < 400) {
					okRed = false
				}
			}
		}
		r.Decide("path", "M/har.NewResponse: RedirectURL is filled for 3xx responses and for no other", okRed, "the guards evaluate to 300 <= status < 400 on {200, 299, 300, 302, 399, 400, 404}", "the redirect URL is recorded for the wrong range of status codes", nres.Pos())
		// a cookie's expiry is recorded when, and only when, the cookie has one
		if ck := w.Fn("har", "cookies"); ck != nil {
			okExp := false
			for _, a := range allocsOf(ck, P("har")+".Cookie") {
				for _, st := range litFieldStores(a)["Expires8601"] {
					for _, l := range resolveAll(st.Val) {
						c, isC := l.(*ssa.Call)
						if !isC || calleeName(c) != "(time.Time).Format" {
							continue
						}
						for _, ce := range ctrlEdges(c.Block()) {
							cond, taken := ce.If.Cond, ce.Taken
							if u, isU := cond.(*ssa.UnOp); isU && u.Op == token.NOT {
								cond, taken = u.X, !taken
							}
							if isCallValue(cond, "(time.Time).IsZero") && !taken {
								okExp = true
							}
						}
					}
				}
			}
			r.Decide("path", "M/har.cookies: Expires8601 is the formatted expiry of a cookie that has one", okExp, "Expires.Format(RFC3339) on the !IsZero() edge", "the expiry of a cookie is not recorded (or recorded for cookies without one, as year 1)", ck.Pos())
		}
		postDataPresenceRule(r, pd)
	})

	r.Guard("C16.R2", "list conversions carry nothing from one element to the next", func() {
		// in the converters that turn a list of the message (cookies, headers, query and form
		// parameters) into HAR records, a field of a record is computed from the element of
		// this iteration: its value does not pass through a variable that lives across
		// iterations (a loop-header phi), which would leak the previous element's value
		n := 0
		for _, f := range w.Funcs("har") {
			for _, in := range instrs(f) {
				st, ok := in.(*ssa.Store)
				if !ok || !inLoop(st.Block()) {
					continue
				}
				fa, ok := st.Addr.(*ssa.FieldAddr)
				if !ok {
					continue
				}
				if _, isAlloc := fa.X.(*ssa.Alloc); !isAlloc {
					if _, isIdx := fa.X.(*ssa.IndexAddr); !isIdx {
						continue
					}
				}
				if bt, isB := st.Val.Type().Underlying().(*types.Basic); !isB || bt.Info()&(types.IsString|types.IsNumeric|types.IsBoolean) == 0 {
					continue
				}
				n++
				carried := false
				seen := map[ssa.Value]bool{}
				var walk func(v ssa.Value)
				walk = func(v ssa.Value) {
					ph, isPhi := v.(*ssa.Phi)
					if !isPhi || seen[v] {
						return
					}
					seen[v] = true
					for k, e := range ph.Edges {
						// an edge coming from a block the phi's block dominates is a back edge
						if ph.Block().Dominates(ph.Block().Preds[k]) {
							carried = true
						}
						walk(e)
					}
				}
				walk(st.Val)
				r.Decide("flow", fmt.Sprintf("%s: %s.%s is computed from this iteration's element (#%d)", fnName(f), namedOf(fa.X.Type()), fieldObj(fa).Name(), n), !carried, "no loop-carried variable on the way to the field", "the value stored in the record passes through a variable that survives from one loop iteration to the next: an element for which it is not set anew is logged with its predecessor's value", st.Pos())
			}
		}
		if n == 0 {
			r.Note("C16.R2: no scalar record field is stored inside a loop in package har")
		}
	})

	r.Guard("C16.R5", "body capture follows the configured content-type options", func() {
		// the capture decision handed to NewRequest / NewResponse is the configured predicate's
		// answer for this message and nothing else (no length test in front of it: a response the
		// proxy built itself has a body and a ContentLength of 0)
		for _, pr := range [][2]string{{"M/har.NewRequest", "postDataLogging"}, {"M/har.NewResponse", "bodyLogging"}} {
			for _, f := range w.Funcs("har") {
				for _, c := range plainCalls(f, pr[0]) {
					ok := true
					for _, l := range resolveAll(c.Call.Args[1]) {
						cc, isC := l.(*ssa.Call)
						viaField := false
						if isC && !cc.Call.IsInvoke() {
							if ld, isLd := cc.Call.Value.(*ssa.UnOp); isLd {
								if fa, isFa := ld.X.(*ssa.FieldAddr); isFa && fieldObj(fa).Name() == pr[1] {
									viaField = true
								}
							}
						}
						if !viaField {
							ok = false
						}
					}
					r.Touch(f)
					r.Decide("flow", fnName(f)+": "+site(f, c)+" is told to capture exactly when "+pr[1]+" says so", ok, "the argument is the predicate's result", "the capture flag handed on is the predicate's answer combined with something else (a Content-Length test): a body the options ask for is not captured - content of size 0 for a response that has one", c.Pos())
				}
			}
		}
		// the four content-type options: an opt-in list captures exactly the listed types, a
		// skip list everything but them
		for _, oc := range []struct {
			ctor string
			hit  bool
		}{{"PostDataLoggingForContentTypes", true}, {"SkipPostDataLoggingForContentTypes", false}, {"BodyLoggingForContentTypes", true}, {"SkipBodyLoggingForContentTypes", false}} {
			cf := w.Fn("har", oc.ctor)
			if cf == nil {
				r.Undecided("M/har."+oc.ctor, "UNRESOLVED")
				continue
			}
			// the predicate is the innermost function literal that returns a bool
			var pred *ssa.Function
			var find func(f *ssa.Function)
			find = func(f *ssa.Function) {
				for _, a := range f.AnonFuncs {
					if res := a.Signature.Results(); res.Len() == 1 && res.At(0).Type().String() == "bool" {
						pred = a
					}
					find(a)
				}
			}
			find(cf)
			if pred == nil {
				r.Undecided("M/har."+oc.ctor+": predicate", "UNRESOLVED")
				continue
			}
			r.Touch(pred)
			okPol := true
			nret := 0
			// `return helper(...)` / `return !helper(...)`: judge the helper, with the polarity flipped per `!`
			want := oc.hit
			for hops := 0; hops < 3; hops++ {
				rets := returns(pred)
				if len(rets) != 1 {
					break
				}
				v := rets[0].Results[0]
				flip := false
				for {
					u, isU := v.(*ssa.UnOp)
					if !isU || u.Op != token.NOT {
						break
					}
					v, flip = u.X, !flip
				}
				c, isC := v.(*ssa.Call)
				if !isC || c.Call.StaticCallee() == nil || c.Call.StaticCallee().Blocks == nil || !strings.HasPrefix(c.Call.StaticCallee().Pkg.Pkg.Path(), M) {
					break
				}
				pred = c.Call.StaticCallee()
				if flip {
					want = !want
				}
				r.Touch(pred)
			}
			// the constant answers and the blocks they are decided in: a plain `return true`, or the
			// inputs of a merged result (`return !found` after an inlined helper)
			type answer struct {
				k  bool
				at *ssa.BasicBlock
			}
			var answers []answer
			for _, ret := range returns(pred) {
				v := ret.Results[0]
				flip := false
				for {
					u, isU := v.(*ssa.UnOp)
					if !isU || u.Op != token.NOT {
						break
					}
					v, flip = u.X, !flip
				}
				if k, isK := constBool(v); isK {
					answers = append(answers, answer{k != flip, ret.Block()})
				} else if ph, isPhi := v.(*ssa.Phi); isPhi {
					for i, e := range ph.Edges {
						if k, isK := constBool(e); isK {
							answers = append(answers, answer{k != flip, ph.Block().Preds[i]})
						} else {
							okPol = false
						}
					}
				} else {
					okPol = false
				}
			}
			for _, an := range answers {
				k := an.k
				nret++
				onMatch := false
				for _, ce := range ctrlEdges(an.at) {
					if isCallValue(ce.If.Cond, "strings.HasPrefix") && ce.Taken {
						onMatch = true
					}
					if u, isU := ce.If.Cond.(*ssa.UnOp); isU && u.Op == token.NOT && isCallValue(u.X, "strings.HasPrefix") && !ce.Taken {
						onMatch = true
					}
				}
				if onMatch != (k == want) {
					okPol = false
				}
			}
			// what is compared is the Content-Type header as the message carries it (a parser in
			// between turns a header it rejects into the empty string, which matches nothing)
			rawCT := false
			parsed := false
			for _, g := range r.W.staticReach(pred) {
				for _, c := range plainCalls(g, "strings.HasPrefix") {
					sl := w.backSlice(c.Call.Args[0], flowOpt{Through: map[string]bool{"strings.ToLower": true, "strings.TrimSpace": true}, CallArg: true, Calls: true})
					if anyIn(sl, func(v ssa.Value) bool {
						hc, y := v.(*ssa.Call)
						if !y || calleeName(hc) != "(net/http.Header).Get" {
							return false
						}
						k, isK := constString(hc.Call.Args[1])
						return isK && k == "Content-Type"
					}) {
						rawCT = true
					}
					if anyIn(sl, func(v ssa.Value) bool {
						return isExtractOfCall(v, "mime.ParseMediaType") || isCallValue(v, "mime.ParseMediaType")
					}) {
						parsed = true
					}
				}
			}
			r.Decide("flow", "M/har."+oc.ctor+": the prefix is matched against the Content-Type header itself", rawCT && !parsed, "HasPrefix(lower(Header.Get(\"Content-Type\")), ...)", "the content type is run through a parser first: a header the parser rejects (duplicate parameters, a list) becomes empty and matches no prefix, so opt-in lists drop bodies they should capture and skip lists log bodies they should skip", pred.Pos())
			r.Decide("path", "M/har."+oc.ctor+": the predicate answers "+fmt.Sprint(oc.hit)+" for a listed content type and "+fmt.Sprint(!oc.hit)+" otherwise", okPol && nret >= 2, "the return behind the prefix match is "+fmt.Sprint(oc.hit)+", the other one "+fmt.Sprint(!oc.hit), "the option's predicate is inverted (or constant): bodies of the listed types are skipped and the others captured, or the list is ignored", pred.Pos())
		}
		lg := w.Named("har", "Logger")
		for _, s := range []struct{ rec, ctor, opt string }{{"RecordRequest", "M/har.NewRequest", "postDataLogging"}, {"RecordResponse", "M/har.NewResponse", "bodyLogging"}} {
			f := w.method(lg, s.rec)
			if f == nil {
				r.Undecided("M/har.Logger."+s.rec, "UNRESOLVED")
				continue
			}
			r.Touch(f)
			ok := false
			for _, c := range plainCalls(f, s.ctor) {
				// the flag argument is the result of calling the configured option function with this message
				for v := range w.backSlice(c.Call.Args[1], flowOpt{}) {
					cc, isC := v.(*ssa.Call)
					if !isC || cc.Call.StaticCallee() != nil || cc.Call.IsInvoke() {
						continue
					}
					if ld, isLd := cc.Call.Value.(*ssa.UnOp); isLd {
						if fa, isFa := ld.X.(*ssa.FieldAddr); isFa && fieldObj(fa).Name() == s.opt && len(cc.Call.Args) == 1 && cc.Call.Args[0] == c.Call.Args[0] {
							ok = true
						}
					}
				}
			}
			r.Decide("flow", "(*M/har.Logger)."+s.rec+": the capture flag is l."+s.opt+"(message)", ok, "option evaluated on this message", "body capture does not follow the configured option for this message", f.Pos())
		}
		// inside, the snapshot (the only body read) is control dependent on the flag
		for _, s := range []struct {
			f    *ssa.Function
			flag ssa.Value
			snap string
		}{{pd, pd.Params[1], "(*M/messageview.MessageView).SnapshotRequest"}, {nres, nres.Params[1], "(*M/messageview.MessageView).SnapshotResponse"}} {
			ok := false
			for _, c := range plainCalls(s.f, s.snap) {
				for _, e := range branchesOn(s.flag) {
					if edgeDominatesTrue(e, c.Block()) {
						ok = true
					}
				}
			}
			r.Decide("path", fnName(s.f)+": the body is snapshotted only when capture is enabled", ok, "snapshot dominated by the flag's true edge", "the body is read (or not read) regardless of the capture option", s.f.Pos())
		}
		// NewRequest hands its flag to postData
		okF := false
		for _, c := range plainCalls(nreq, "M/har.postData") {
			if isParamVal(c.Call.Args[0], nreq.Params[0]) && isParamVal(c.Call.Args[1], nreq.Params[1]) {
				okF = true
			}
		}
		r.Decide("flow", "M/har.NewRequest: passes its request and capture flag to postData", okF, "postData(req, withBody)", "the capture flag is not the one handed to the post-data reader", nreq.Pos())
		// the content-type options compare case-insensitively, all of them: in
		// every function installed as postDataLogging / bodyLogging both
		// operands of the prefix test are lower-cased
		nsib := 0
		for _, f := range w.Funcs("har") {
			installed := false
			if f.Parent() != nil && f.Parent().Parent() != nil {
				for _, in := range instrs(f.Parent()) {
					st, ok := in.(*ssa.Store)
					if !ok {
						continue
					}
					fa, ok := st.Addr.(*ssa.FieldAddr)
					if !ok || (fieldObj(fa).Name() != "postDataLogging" && fieldObj(fa).Name() != "bodyLogging") {
						continue
					}
					if mc, isMC := st.Val.(*ssa.MakeClosure); isMC && mc.Fn == ssa.Value(f) {
						installed = true
					}
					if fn, isFn := st.Val.(*ssa.Function); isFn && fn == f {
						installed = true
					}
				}
			}
			if !installed {
				continue
			}
			for _, c := range plainCalls(f, "strings.HasPrefix") {
				nsib++
				r.Touch(f)
				bad := ""
				for k, a := range c.Call.Args {
					if !isLowered(a, 0) {
						bad = []string{"the message's content type", "the configured content type"}[k]
					}
				}
				r.Decide("sibling", fmt.Sprintf("%s: content types are compared case-insensitively", fnName(f)), bad == "", "both operands of the prefix test are lower-cased", bad+" is compared without being lower-cased (its sibling options do lower-case it): a Content-Type in another letter case escapes this option", c.Pos())
			}
		}
		if nsib < 4 {
			r.Undecided("content-type options", fmt.Sprintf("UNRESOLVED: %d prefix tests found in installed option functions, 4 confirmed on the pinned tree", nsib))
		}
	})
}

// isLowered: on every way back to its sources, v passes through
// strings.ToLower (or is a constant without upper-case letters).
func isLowered(v ssa.Value, depth int) bool {
	if depth > 12 || v == nil {
		return false
	}
	allStores := func(slice ssa.Value) bool {
		// every element stored into a freshly made slice is lowered
		found := false
		if slice.Referrers() == nil {
			return false
		}
		for _, u := range *slice.Referrers() {
			ia, ok := u.(*ssa.IndexAddr)
			if !ok || ia.Referrers() == nil {
				continue
			}
			for _, uu := range *ia.Referrers() {
				if st, ok := uu.(*ssa.Store); ok && st.Addr == ssa.Value(ia) {
					found = true
					if !isLowered(st.Val, depth+1) {
						return false
					}
				}
			}
		}
		return found
	}
	switch x := v.(type) {
	case *ssa.Const:
		s, ok := constString(x)
		return ok && s == strings.ToLower(s)
	case *ssa.Call:
		if calleeName(x) == "strings.ToLower" {
			return true
		}
		if fn := x.Call.StaticCallee(); fn != nil && fn.Blocks != nil && fn.Pkg != nil && strings.HasPrefix(fn.Pkg.Pkg.Path(), M) {
			rets := returns(fn)
			for _, ret := range rets {
				if len(ret.Results) != 1 || !isLowered(ret.Results[0], depth+1) {
					return false
				}
			}
			return len(rets) > 0
		}
		return false
	case *ssa.Phi:
		for _, e := range x.Edges {
			if !isLowered(e, depth+1) {
				return false
			}
		}
		return true
	case *ssa.Extract:
		if nx, ok := x.Tuple.(*ssa.Next); ok {
			if rg, ok := nx.Iter.(*ssa.Range); ok {
				return isLowered(rg.X, depth+1)
			}
		}
		return false
	case *ssa.MakeSlice:
		return allStores(x)
	case *ssa.Slice:
		return isLowered(x.X, depth+1)
	case *ssa.Alloc:
		return allStores(x)
	case *ssa.UnOp:
		if x.Op != token.MUL {
			return false
		}
		switch a := x.X.(type) {
		case *ssa.IndexAddr:
			return isLowered(a.X, depth+1)
		case *ssa.Alloc:
			sts := storesTo(a)
			for _, st := range sts {
				if !isLowered(st.Val, depth+1) {
					return false
				}
			}
			return len(sts) > 0
		case *ssa.FreeVar:
			b := resolveFree(a)
			if b == ssa.Value(a) {
				return false
			}
			if al, ok := b.(*ssa.Alloc); ok {
				if v := capturedValue(al); v != nil {
					return isLowered(v, depth+1)
				}
				sts := storesTo(al)
				for _, st := range sts {
					if !isLowered(st.Val, depth+1) {
						return false
					}
				}
				return len(sts) > 0
			}
			return isLowered(b, depth+1)
		}
		return false
	case *ssa.FreeVar:
		b := resolveFree(x)
		if b == ssa.Value(x) {
			return false
		}
		return isLowered(b, depth+1)
	}
	return false
}

func sameBase64(m, u *ssa.Function) bool {
	enc := func(f *ssa.Function, name string) string {
		for _, c := range plainCalls(f, name) {
			for v := range (&World{}).backSliceLocal(c.Call.Args[0]) {
				if g, ok := v.(*ssa.Global); ok {
					return g.Name()
				}
			}
		}
		return ""
	}
	a := enc(m, "(*encoding/base64.Encoding).EncodeToString")
	b := enc(u, "(*encoding/base64.Encoding).DecodeString")
	return a != "" && a == b
}

// backSliceLocal is backSlice without any module-wide lookups (usable without
// a loaded World).
func (w *World) backSliceLocal(v ssa.Value) map[ssa.Value]bool {
	seen := map[ssa.Value]bool{}
	var visit func(v ssa.Value)
	visit = func(v ssa.Value) {
		if v == nil || seen[v] {
			return
		}
		seen[v] = true
		switch x := v.(type) {
		case *ssa.UnOp:
			visit(x.X)
		case *ssa.Phi:
			for _, e := range x.Edges {
				visit(e)
			}
		case *ssa.ChangeType:
			visit(x.X)
		}
	}
	visit(v)
	return seen
}

// capturedValue: the value a captured variable cell holds when the closure
// capturing it is created, if the stores to the cell in its function are
// totally ordered and all precede the capture; nil otherwise.
func capturedValue(cell *ssa.Alloc) ssa.Value {
	f := cell.Parent()
	var capture ssa.Instruction
	for _, in := range instrs(f) {
		if mc, ok := in.(*ssa.MakeClosure); ok {
			for _, b := range mc.Bindings {
				if b == ssa.Value(cell) && capture == nil {
					capture = mc
				}
			}
		}
	}
	if capture == nil {
		return nil
	}
	g := G(f)
	var last *ssa.Store
	for _, st := range storesTo(cell) {
		if st.Parent() != f || !(g.Before(st, capture)) {
			return nil
		}
		if last == nil || g.Before(last, st) {
			last = st
		} else if !g.Before(st, last) {
			return nil
		}
	}
	if last == nil {
		return nil
	}
	return last.Val
}

// headerMapKeysRule: (*proxyutil.Header).Map copies the message's own header
// entries under the names they have in the message: the key of the raw copy is
// the range key itself, not a function of it (canonicalising merges entries
// that differ in case and renames what is logged). Shared by C16.R6 and C19.R4.
func headerMapKeysRule(r *Report) {
	w := r.W
	// the list of transfer codings is reported whole: the Transfer-Encoding arm of All hands out
	// the message's own list (all of its elements), not a list made of one joined or first value
	if all := w.method(w.Named("proxyutil", "Header"), "All"); all != nil && all.Blocks != nil {
		r.Touch(all)
		whole := false
		for _, ret := range returns(all) {
			for _, rv := range retVals(ret, 0) {
				for v := range w.backSlice(rv, flowOpt{CallArg: true}) {
					if c, isC := v.(*ssa.Call); isC {
						if sc := c.Call.StaticCallee(); sc != nil && sc.Name() == "te" {
							whole = true
						}
						if c.Call.IsInvoke() && c.Call.Method.Name() == "te" {
							whole = true
						}
						if ld, isLd := c.Call.Value.(*ssa.UnOp); isLd && !c.Call.IsInvoke() {
							if fa, isFa := ld.X.(*ssa.FieldAddr); isFa && fieldObj(fa).Name() == "te" {
								whole = true
							}
						}
					}
					if ld, isLd := v.(*ssa.UnOp); isLd && ld.Op == token.MUL {
						if fa, isFa := ld.X.(*ssa.FieldAddr); isFa && fieldObj(fa).Name() == "TransferEncoding" {
							whole = true
						}
					}
				}
			}
		}
		r.Decide("flow", "(*M/proxyutil.Header).All reports every transfer coding of the message", whole, "a return value is the message's TransferEncoding list", "All answers Transfer-Encoding with a list built from a single value (the first coding): the second and later codings of the message are missing wherever the header list is taken from Map - the HAR entry, the marbl frames", all.Pos())
	}
	mp := w.method(w.Named("proxyutil", "Header"), "Map")
	if mp == nil || mp.Blocks == nil {
		r.Undecided("M/proxyutil.Header.Map", "UNRESOLVED")
		return
	}
	r.Touch(mp)
	n, okKeys := 0, true
	for _, in := range instrs(mp) {
		mu, ok := in.(*ssa.MapUpdate)
		if !ok {
			continue
		}
		if anyIn(w.backSlice(mu.Value, flowOpt{}), func(v ssa.Value) bool {
			return isCallValue(v, "(*M/proxyutil.Header).All") || isExtractOfCall(v, "(*M/proxyutil.Header).All")
		}) {
			continue
		}
		n++
		for _, k := range resolveAll(mu.Key) {
			ex, isEx := k.(*ssa.Extract)
			if !isEx {
				okKeys = false
				continue
			}
			if _, isNext := ex.Tuple.(*ssa.Next); !isNext {
				okKeys = false
			}
		}
	}
	ndel := 0
	for _, in := range instrs(mp) {
		if _, isD := isBuiltinCall(in, "delete"); isD {
			ndel++
		}
	}
	r.Decide("flow", "(*M/proxyutil.Header).Map removes nothing from the copy", ndel == 0, "no delete in Map", "Map deletes entries of the copied header map (for instance a raw Content-Length: 0 when the message field says zero): a header the message carries is missing from the log", mp.Pos())
	r.Decide("flow", "(*M/proxyutil.Header).Map copies the message's header entries under their own names", n > 0 && okKeys, "the raw copy stores under the range key itself", "the raw header copy stores under a transformed key (canonicalised, lower-cased): entries whose names differ only in case collapse into one and lose values, and names are logged in a spelling the message does not have", mp.Pos())
}

// postDataPresenceRule: post data is omitted exactly for a request without a
// body (truth table over ContentLength and the number of transfer codings). A
// body-less request must not be snapshotted either: the snapshot replaces
// http.NoBody by a reader and the request goes out chunked (C15). Shared by
// C16.R2 and C15.R1.
func postDataPresenceRule(r *Report, pd *ssa.Function) {
	okPD := false
	var first *ssa.BinOp
	for _, in := range instrs(pd) {
		b, ok := in.(*ssa.BinOp)
		if !ok || first != nil {
			continue
		}
		if ld, isLd := b.X.(*ssa.UnOp); isLd {
			if fa, isFa := ld.X.(*ssa.FieldAddr); isFa && fieldObj(fa).Name() == "ContentLength" {
				first = b
			}
		}
	}
	if first != nil {
		okPD = true
		for _, cl := range []int64{-1, 0, 1, 9} {
			for _, nte := range []int64{0, 1} {
				out, okD := decide(first.Block(), func(v ssa.Value) (bool, bool) {
					b, isB := v.(*ssa.BinOp)
					if !isB {
						return false, false
					}
					k, isK := constInt(b.Y)
					if !isK {
						return false, false
					}
					if ld, isLd := b.X.(*ssa.UnOp); isLd {
						if fa, isFa := ld.X.(*ssa.FieldAddr); isFa && fieldObj(fa).Name() == "ContentLength" {
							return cmpHolds(b.Op, cl, k), true
						}
					}
					if c, isC := b.X.(*ssa.Call); isC {
						if bi, isBi := c.Call.Value.(*ssa.Builtin); isBi && bi.Name() == "len" {
							return cmpHolds(b.Op, nte, k), true
						}
					}
					return false, false
				})
				if !okD || out == nil {
					okPD = false
					continue
				}
				_, skipped := out.Instrs[len(out.Instrs)-1].(*ssa.Return)
				if skipped != (cl <= 0 && nte == 0) {
					okPD = false
				}
			}
		}
	}
	r.Decide("path", "M/har.postData: post data is omitted exactly for a request without a body", okPD, "truth table over ContentLength {-1,0,1,9} x len(TransferEncoding) {0,1}: skip iff length <= 0 and no transfer coding", "the no-body test has another truth table: a chunked upload (length -1) or a body with a known length is logged without post data, or an empty request gets one", pd.Pos())
}
