package main

import (
	"fmt"
	"go/token"

	"golang.org/x/tools/go/ssa"
)

const (
	nModReq  = "(M.RequestModifier).ModifyRequest"
	nModRes  = "(M.ResponseModifier).ModifyResponse"
	nWarning = "M/proxyutil.Warning"
	nNewResp = "M/proxyutil.NewResponse"
	nHijcked = "(*M.Session).Hijacked"
)

// proxyFieldInvoke reports whether c is an invoke on a value loaded from the
// given field of *Proxy.
func proxyFieldInvoke(c ssa.CallInstruction, field string) bool {
	cc := c.Common()
	if !cc.IsInvoke() {
		return false
	}
	ld, ok := cc.Value.(*ssa.UnOp)
	if !ok {
		return false
	}
	return isFieldRef(ld.X, M, "Proxy", field)
}

func isReqMod(i ssa.Instruction) bool {
	c, ok := isCall(i, nModReq)
	return ok && proxyFieldInvoke(c, "reqmod")
}
func isResMod(i ssa.Instruction) bool {
	c, ok := isCall(i, nModRes)
	return ok && proxyFieldInvoke(c, "resmod")
}

// messageOfHeader: for a value `X.Header` loaded from a request/response,
// return X.
func messageOfHeader(v ssa.Value) ssa.Value {
	ld, ok := v.(*ssa.UnOp)
	if !ok {
		return nil
	}
	fa, ok := ld.X.(*ssa.FieldAddr)
	if !ok || fieldObj(fa).Name() != "Header" {
		return nil
	}
	return fa.X
}

func init() {
	props["C02"] = func(r *Report) {
		c02(r)
		r.Guard("C02.R7", "every lock taken is released on every exit: the context table and session locks", func() { lockPairRule(r, "") })
	}
	floors["C02"] = map[string]int{"C02.R1": 14, "C02.R2": 4, "C02.R3": 9, "C02.R4": 6, "C02.R5": 4, "C02.R6": 12, "C02.R7": 1}
}

func c02(r *Report) {
	w := r.W
	r.Decline("uniqueness of random context IDs (probabilistic)")
	r.Decline("a user modifier that retains the context object after the exchange")
	r.Decline("behaviour of user-supplied modifiers")
	r.Decline("the deferred req.Body.Close() that runs after a hijack return is not judged")
	handle := r.Use("", "Proxy.handle")
	hcr := r.Use("", "Proxy.handleConnectRequest")
	loop := r.Use("", "Proxy.handleLoop")
	// the helper that performs the upstream round trip; when it has been inlined
	// into the exchange function the rules about it are evaluated there
	rt := r.W.Fn("", "Proxy.roundTrip")
	if handle == nil || hcr == nil || loop == nil {
		return
	}
	rtHost := handle
	contact := "(net/http.RoundTripper).RoundTrip"
	if rt != nil {
		r.Touch(rt)
		rtHost = rt
		contact = "(*M.Proxy).roundTrip"
	} else {
		r.Note("(*M.Proxy).roundTrip is not a function of its own; the skip test and the transport call are looked for in (*M.Proxy).handle")
	}

	r.Guard("C02.R1", "request modifier exactly once before upstream contact, response modifier exactly once before the client write; p.reqmod/p.resmod invoked nowhere else", func() {
		setterStoresRule(r, "", "Proxy", "SetRequestModifier", "reqmod", "the configured request modifier never runs")
		setterStoresRule(r, "", "Proxy", "SetResponseModifier", "resmod", "the configured response modifier never runs")
		// who-may-call
		for _, f := range w.Funcs() {
			for _, c := range calls(f) {
				if !(isReqMod(c) || isResMod(c)) {
					continue
				}
				r.Sites++
				ok := f == handle || f == hcr
				r.Decide("callgraph", "invoker of Proxy modifier field: "+site(f, c), ok, "invoked from an exchange function", "p.reqmod/p.resmod invoked outside the exchange functions: the exactly-once count no longer covers it", c.Pos())
			}
		}
		type want struct {
			callee   string
			req, res cnt
		}
		check := func(f *ssa.Function, wants []want) {
			reqN := countBefore(f, isReqMod)
			resN := countBefore(f, isResMod)
			for _, wnt := range wants {
				sites := calls(f, wnt.callee)
				if len(sites) == 0 {
					r.Undecided(fnName(f)+": "+wnt.callee, "UNRESOLVED: expected call site not found")
				}
				for _, c := range sites {
					if _, isDefer := c.(*ssa.Defer); isDefer {
						continue
					}
					r.Sites++
					r.Paths++
					gotq, gots := reqN[c], resN[c]
					ok := gotq == wnt.req && gots == wnt.res
					r.Decide("path", "modifier counts at "+site(f, c), ok,
						fmt.Sprintf("ModifyRequest %v, ModifyResponse %v on every path to this site", gotq, gots),
						fmt.Sprintf("ModifyRequest count (min,max)=%v want %v; ModifyResponse %v want %v on paths to this site", gotq, wnt.req, gots, wnt.res), c.Pos())
				}
			}
		}
		one, zero := cnt{1, 1}, cnt{0, 0}
		check(handle, []want{
			{contact, one, zero},
			{"(*M.Proxy).handleConnectRequest", zero, zero},
			{"(*net/http.Response).Write", one, one},
		})
		check(hcr, []want{
			{"(*M.Proxy).connect", one, zero},
			{"(*M.Proxy).handle", one, one},
			{"(*M/h2.Config).Proxy", one, one},
			{"(*net/http.Response).Write", one, one},
		})
	})

	r.Guard("C02.R2", "the response handed to the response modifier is bound to this exchange's request", func() {
		for _, f := range []*ssa.Function{handle, hcr} {
			req := requestValue(f)
			if req == nil {
				r.Undecided(fnName(f)+": request value", "UNRESOLVED: cannot identify the exchange's *http.Request")
				continue
			}
			for _, c := range calls(f) {
				if !isResMod(c) {
					continue
				}
				r.Sites++
				res := c.Common().Args[0]
				ok, why := w.resBound(res, req, c, 0)
				r.Decide("flow", "response bound to request at "+site(f, c), ok, why, "response passed to ModifyResponse is not provably linked to this request: "+why, c.Pos())
			}
		}
	})

	r.Guard("C02.R3", "context lifecycle: link/unlink paired, fresh context per exchange, one session per connection, ctxs guarded by ctxmu", func() {
		// the session of a connection is made for it: newSession returns a struct it has
		// just allocated, never an object that served another connection
		if ns := r.Use("", "newSession"); ns != nil {
			fresh := true
			n := 0
			for _, ret := range returns(ns) {
				for _, v := range retVals(ret, 0) {
					for _, l := range resolveAll(v) {
						if isNilConst(l) {
							continue
						}
						n++
						if a, ok := l.(*ssa.Alloc); !ok || a.Parent() != ns {
							fresh = false
						}
					}
				}
			}
			r.Decide("flow", "M.newSession returns a freshly allocated Session", fresh && n > 0, "every non-nil result is a composite literal of this call", "a session can be an object taken from a pool / free list: state left by the connection it served before (hijacked, values) is visible to the new connection", ns.Pos())
		}

		// link followed by defer unlink on the same request
		links := calls(handle, "M.link")
		if len(links) != 1 {
			r.Undecided("(*M.Proxy).handle: link", fmt.Sprintf("expected exactly one link call, found %d", len(links)))
		}
		for _, l := range links {
			g := G(handle)
			var unl ssa.CallInstruction
			for _, d := range calls(handle, "M.unlink") {
				if _, ok := d.(*ssa.Defer); ok && d.Common().Args[0] == l.Common().Args[0] {
					unl = d
				}
			}
			ok := unl != nil
			why := "no `defer unlink(req)` on the linked request"
			if ok {
				reach := g.Reach([]ssa.Instruction{l}, false, func(i ssa.Instruction) bool { return i == unl })
				for i := range reach {
					if isExit(i) {
						ok = false
						why = "an exit is reachable between link and the deferred unlink"
					}
				}
			}
			r.Decide("path", "(*M.Proxy).handle: link(req, ctx) paired with defer unlink(req)", ok, "defer unlink on the same request follows link with no exit in between", why, l.Pos())
			// ctx is fresh: result of withSession(session), session from the ctx parameter
			ctxv := l.Common().Args[1]
			fresh := false
			if e, ok := ctxv.(*ssa.Extract); ok {
				if c, ok := e.Tuple.(*ssa.Call); ok && calleeName(c) == "M.withSession" {
					sl := w.backSlice(c.Call.Args[0], flowOpt{})
					fresh = anyIn(sl, func(v ssa.Value) bool {
						cc, ok := v.(*ssa.Call)
						return ok && calleeName(cc) == "(*M.Context).Session" && isParamVal(cc.Call.Args[0], handle.Params[1])
					})
				}
			}
			r.Decide("flow", "(*M.Proxy).handle: linked context is withSession(ctx.Session())", fresh, "the linked context is a fresh withSession of the connection's session", "the context linked to the request is not a fresh withSession(ctx.Session()) result", l.Pos())
			n := countBefore(handle, func(i ssa.Instruction) bool { _, ok := isCall(i, "M.withSession"); return ok })[l]
			r.Decide("path", "(*M.Proxy).handle: withSession count before link", n == cnt{1, 1}, "exactly one withSession per exchange", "withSession count before link is "+n.String()+", want (1,1)", l.Pos())
		}
		// one session per connection loop, created outside the loop
		ns := plainCalls(loop, "M.newSession")
		okSess := len(ns) == 1 && !inLoop(ns[0].Block())
		var p = loop.Pos()
		if len(ns) > 0 {
			p = ns[0].Pos()
		}
		r.Decide("path", "(*M.Proxy).handleLoop: one newSession, outside the request loop", okSess, "single newSession call, not on a cycle", fmt.Sprintf("found %d newSession calls or the call lies inside the loop", len(ns)), p)
		// the loop hands the same context (from that session) to every handle call
		for _, c := range plainCalls(loop, "(*M.Proxy).handle") {
			ctxArg := c.Call.Args[1]
			sl := w.backSlice(ctxArg, flowOpt{})
			okc := anyIn(sl, func(v ssa.Value) bool { return isCallValue(v, "M.withSession") }) && !anyIn(sl, func(v ssa.Value) bool {
				cc, ok := v.(*ssa.Call)
				return ok && calleeName(cc) == "M.withSession" && inLoop(cc.Block())
			})
			r.Decide("flow", "(*M.Proxy).handleLoop: handle receives the loop-invariant connection context", okc, "context argument derives from the single withSession(newSession) outside the loop", "context argument of handle does not derive from the connection's one session context", c.Pos())
		}
		// ctxs: writers and lock
		ctxs := w.SPkg[M].Var("ctxs")
		if ctxs == nil {
			r.Undecided("M.ctxs", "UNRESOLVED: package variable ctxs not found")
			return
		}
		allowed := map[string]bool{"M.link": true, "M.unlink": true, "M.TestContext": true, "M.NewContext": true, "M.init": true}
		for _, f := range w.Funcs() {
			var states map[ssa.Instruction]lockset
			for _, in := range instrs(f) {
				ld, ok := in.(*ssa.UnOp)
				if !ok || ld.X != ssa.Value(ctxs) {
					if st, ok := in.(*ssa.Store); ok && st.Addr == ssa.Value(ctxs) && fnName(f) != "M.init" {
						r.Fail("callgraph", "ctxs reassigned in "+fnName(f), "the context table is replaced outside package initialisation", nil, st.Pos())
					}
					continue
				}
				if fnName(f) == "M.init" {
					continue
				}
				if states == nil {
					states = lockStates(f, nil)
				}
				write := false
				if ld.Referrers() != nil {
					for _, u := range *ld.Referrers() {
						switch x := u.(type) {
						case *ssa.MapUpdate:
							write = true
						case *ssa.Call:
							if b, ok := x.Call.Value.(*ssa.Builtin); ok && b.Name() == "delete" {
								write = true
							}
						}
					}
				}
				ls := states[in]
				ok2 := allowed[fnName(f)]
				if write {
					ok2 = ok2 && ls.heldW("M.ctxmu") && fnName(f) != "M.NewContext"
				} else {
					ok2 = ok2 && ls.held("M.ctxmu")
				}
				kind := "read"
				if write {
					kind = "write"
				}
				r.Sites++
				r.Decide("lockset", fmt.Sprintf("ctxs %s in %s", kind, fnName(f)), ok2, "in the allowed set and under ctxmu "+ls.String(), "context table accessed outside link/unlink/NewContext/TestContext or without ctxmu; lockset "+ls.String(), in.Pos())
			}
		}
		// the table is the only place a context can be found: the lookup keeps nothing of its
		// own (a memo of the last hit survives unlink)
		statelessRule(r, r.W.Fn("", "NewContext"), map[string]bool{"ctxs": true, "ctxmu": true}, "a context remains retrievable through it after unlink removed it from the table")
		// a failure to produce an ID is reported (a nil session or context would be
		// dereferenced by the connection loop)
		for _, n := range []string{"newID", "newSession", "withSession"} {
			errorsReturnedRule(r, r.W.Fn("", n), false)
		}
		statelessRule(r, r.W.Fn("", "newID"), map[string]bool{}, "IDs repeat once the kept state wraps: two exchanges share a context ID")
		contextIDFreshRule(r)
		// unlink really removes the entry
		if ul := r.W.Fn("", "unlink"); ul != nil && ul.Blocks != nil {
			isDel := func(in ssa.Instruction) bool {
				c, isD := isBuiltinCall(in, "delete")
				if !isD {
					return false
				}
				g, isG := unwrapLoad(c.Common().Args[0]).(*ssa.Global)
				return isG && g.Name() == "ctxs" && isParamVal(c.Common().Args[1], ul.Params[0])
			}
			gu := G(ul)
			nd := 0
			if gu.PathTo([]ssa.Instruction{gu.Entry()}, true, isDel, isReturn) == nil {
				nd = 1
			}
			r.Decide("path", "M.unlink removes the request's entry from the table", nd == 1, "delete(ctxs, req), unconditionally", "unlink does not remove the context: it stays retrievable after the exchange ended, and the table grows by one entry per request", ul.Pos())
		}
		// the per-connection and per-exchange state is guarded by its mutex (modifiers run on
		// the connection goroutine, hijackers and API handlers on others)
		guardedFieldsRule(r, "", "Session", "mu", nil, "a hijack or a secure mark made on one goroutine is not reliably seen by the connection loop")
		guardedFieldsRule(r, "", "Context", "mu", nil, "a skip mark set by a modifier is not reliably seen by the proxy")
	})

	r.Guard("C02.R4", "a modifier error becomes a Warning on the message just modified and processing continues", func() {
		// turning a modifier's error into a Warning cannot fail itself: no last-element indexing or
		// slicing of a possibly empty value on that path (MultiError.Error of an empty collection)
		lastIndexRule(r, "", "proxyutil")
		if wf := r.Use("proxyutil", "Warning"); wf != nil {
			warningQuoted(r, wf)
		}

		for _, f := range []*ssa.Function{handle, hcr} {
			g := G(f)
			for _, ci := range calls(f) {
				if !(isReqMod(ci) || isResMod(ci)) {
					continue
				}
				c, ok := ci.(*ssa.Call)
				if !ok {
					continue
				}
				r.Sites++
				r.Paths++
				key := "modifier error handling at " + site(f, c)
				tests := errTests(c)
				if len(tests) != 1 {
					r.Fail("path", key, fmt.Sprintf("expected exactly one nil test of the modifier's error, found %d (error dropped or tested twice)", len(tests)), nil, c.Pos())
					continue
				}
				t := tests[0]
				msg := c.Call.Args[0]
				isWarn := func(i ssa.Instruction) bool {
					wc, ok := isCall(i, nWarning)
					if !ok {
						return false
					}
					a := wc.Common().Args
					return sameAs(messageOfHeader(a[0]), msg) && a[1] == ssa.Value(c)
				}
				join := t.Nil
				// no exit before rejoining
				bad := g.PathTo(blockStart(t.NonNil), true, func(i ssa.Instruction) bool { return len(join.Instrs) > 0 && i == join.Instrs[0] }, isExit)
				if bad != nil {
					r.Fail("path", key, "the error branch leaves the exchange (return/panic) instead of continuing", witness(w, bad), c.Pos())
					continue
				}
				skip := g.PathTo(blockStart(t.NonNil), true, isWarn, func(i ssa.Instruction) bool { return i == join.Instrs[0] })
				if skip != nil {
					r.Fail("path", key, "a path through the error branch rejoins without proxyutil.Warning(<this message>.Header, <this error>)", witness(w, skip), c.Pos())
					continue
				}
				r.Hold("path", key, "error branch calls Warning(msg.Header, err) on every path and rejoins the main path", c.Pos())
			}
		}
	})

	r.Guard("C02.R5", "skip-round-trip causes zero upstream contact and a 200 bound to the request", func() {
		contextFlagRules(r, "SkipRoundTrip", "SkippingRoundTrip")
		skipDecisionRule(r)
		rts := calls(rtHost, "(net/http.RoundTripper).RoundTrip")
		skips := plainCalls(rtHost, "(*M.Context).SkippingRoundTrip")
		if len(rts) != 1 || len(skips) != 1 {
			r.Undecided("(*M.Proxy).roundTrip", fmt.Sprintf("UNRESOLVED: expected one RoundTrip and one SkippingRoundTrip call, found %d and %d", len(rts), len(skips)))
			return
		}
		es := branchesOn(skips[0])
		ownCtx := false
		if rt != nil {
			ownCtx = isParamVal(skips[0].Call.Args[0], rt.Params[1])
		} else {
			// in the exchange function: the context linked to this request
			for _, lc := range plainCalls(handle, "M.link") {
				if lc.Call.Args[1] == skips[0].Call.Args[0] {
					ownCtx = true
				}
			}
		}
		// nothing decides the fate of the exchange before the skip test: in the helper no
		// return precedes it (a routing check that fails first turns a skipped exchange into a 502)
		if rt != nil {
			grt := G(rt)
			early := grt.PathTo([]ssa.Instruction{grt.Entry()}, true, func(i ssa.Instruction) bool { return i == ssa.Instruction(skips[0]) }, isReturn)
			r.Decide("path", "(*M.Proxy).roundTrip: the skip test comes first", early == nil, "no return is reachable before SkippingRoundTrip() is consulted", "the helper can return (an error, i.e. a 502) before it looks at the skip mark: an exchange whose modifier asked to skip the round trip does not get its 200", rt.Pos())
		}
		ok := len(es) == 1 && edgeDominates(es[0].If.Block(), 1, rts[0].Block()) && ownCtx
		r.Decide("path", "(*M.Proxy).roundTrip: RoundTrip only on the not-skipping edge", ok, "upstream call dominated by SkippingRoundTrip()==false on this exchange's context", "upstream RoundTrip is not guarded by the false edge of ctx.SkippingRoundTrip()", rts[0].Pos())
		if len(es) == 1 && rt == nil {
			// the response the skipping edge produces is NewResponse(200, _, req) and is the one
			// the response modifier gets on that edge
			req := requestValue(handle)
			ok2 := false
			for _, c := range plainCalls(handle, nNewResp) {
				code, _ := constInt(c.Call.Args[0])
				if code != 200 || c.Call.Args[2] != req || !edgeDominatesTrue(es[0], c.Block()) {
					continue
				}
				for _, m := range calls(handle) {
					if isResMod(m) {
						for _, l := range resolveAll(m.Common().Args[0]) {
							if l == ssa.Value(c) {
								ok2 = true
							}
						}
					}
				}
			}
			r.Decide("flow", "(*M.Proxy).roundTrip: skipping edge returns NewResponse(200, _, req)", ok2, "synthetic 200 bound to this request reaches the response modifier", "the skipping branch does not produce NewResponse(200, …, req) for the response modifier", skips[0].Pos())
		}
		if len(es) == 1 && rt != nil {
			cl, _, _ := returnValuesFrom(es[0].True, 0)
			ok2 := len(cl) > 0
			for _, v := range cl {
				c, isC := v.(*ssa.Call)
				if !isC || calleeName(c) != nNewResp {
					ok2 = false
					continue
				}
				code, _ := constInt(c.Call.Args[0])
				if code != 200 || c.Call.Args[2] != ssa.Value(rt.Params[2]) {
					ok2 = false
				}
			}
			r.Decide("flow", "(*M.Proxy).roundTrip: skipping edge returns NewResponse(200, _, req)", ok2, "synthetic 200 bound to this request", "the skipping branch does not return NewResponse(200, …, req)", skips[0].Pos())
		}
		// the transport is used nowhere else
		n := 0
		for _, f := range w.Funcs() {
			for _, c := range calls(f, "(net/http.RoundTripper).RoundTrip") {
				ld, isLd := c.Common().Value.(*ssa.UnOp)
				if isLd && isFieldRef(ld.X, M, "Proxy", "roundTripper") {
					n++
					r.Decide("callgraph", "user of Proxy.roundTripper: "+site(f, c), f == rtHost, "only roundTrip uses the transport", "the proxy's transport is invoked outside roundTrip, bypassing the skip test", c.Pos())
				}
			}
		}
		if rt != nil {
			r.dynamicCallerRule(rt, "upstream contact outside the exchange function")
			// roundTrip is called from the exchange function only
			for _, c := range w.staticCallers(rt) {
				r.Decide("callgraph", "caller of roundTrip: "+site(c.Parent(), c), c.Parent() == handle, "called from the exchange function", "roundTrip called from an unexpected function", c.Pos())
			}
		}
	})

	r.Guard("C02.R6", "after a hijack the proxy stops serving the connection: hijack returns terminate the connection loop", func() {
		flagRules(r, "Session", "Hijack", "Hijacked")

		// every modifier call is followed by a Hijacked() test before the proxy touches the connection again
		for _, f := range []*ssa.Function{handle, hcr} {
			g := G(f)
			for _, c := range calls(f) {
				if !(isReqMod(c) || isResMod(c)) {
					continue
				}
				isHj := func(i ssa.Instruction) bool { _, ok := isCall(i, nHijcked); return ok }
				isIO := func(i ssa.Instruction) bool {
					cc, ok := i.(*ssa.Call)
					if !ok {
						return false
					}
					switch calleeName(cc) {
					case "(*net/http.Response).Write", "(*bufio.Writer).Flush", "(*bufio.Reader).Read", "(*M.Proxy).handle", "(*M.Proxy).roundTrip", "(net/http.RoundTripper).RoundTrip", "(*M.Proxy).connect", "io.Copy", "(*M/h2.Config).Proxy":
						return true
					}
					return isReqMod(cc) || isResMod(cc)
				}
				p := g.PathTo([]ssa.Instruction{c}, false, isHj, isIO)
				r.Paths++
				if p != nil {
					r.Fail("path", "hijack tested after "+site(f, c), "the proxy can perform I/O or further processing after this modifier call without testing Session.Hijacked(): it writes on a connection the modifier may have taken over", witness(w, p), c.Pos())
				} else {
					r.Hold("path", "hijack tested after "+site(f, c), "every path from the modifier call to the next proxy I/O passes a Hijacked() test", c.Pos())
				}
			}
		}
		// (A) loop-level guard in handleLoop
		loopGuard := false
		hcalls := plainCalls(loop, "(*M.Proxy).handle")
		if len(hcalls) == 1 {
			g := G(loop)
			for _, h := range plainCalls(loop, nHijcked) {
				es := branchesOn(h)
				if len(es) != 1 {
					continue
				}
				// every path from the handle call back to it passes the test
				back := g.PathTo([]ssa.Instruction{hcalls[0]}, false, func(i ssa.Instruction) bool { return i == ssa.Instruction(h) }, func(i ssa.Instruction) bool { return i == ssa.Instruction(hcalls[0]) })
				// and the true edge cannot reach the handle call again
				again := g.PathTo(blockStart(es[0].True), true, nil, func(i ssa.Instruction) bool { return i == ssa.Instruction(hcalls[0]) })
				if back == nil && again == nil {
					loopGuard = true
				}
			}
		}
		// the guard belongs to every loop that serves exchanges, not to handleLoop alone: wherever
		// (*Proxy).handle is called round a loop, each round re-tests Hijacked() and leaves on true
		for _, f := range w.Funcs("") {
			if f.Blocks == nil {
				continue
			}
			loops := natLoops(f)
			for _, hc := range plainCalls(f, "(*M.Proxy).handle") {
				inLoop := false
				for _, l := range loops {
					if l.Blocks[hc.Block()] {
						inLoop = true
					}
				}
				if !inLoop {
					continue
				}
				g := G(f)
				guarded := false
				for _, h := range plainCalls(f, nHijcked) {
					es := branchesOn(h)
					if len(es) != 1 {
						continue
					}
					back := g.PathTo([]ssa.Instruction{hc}, false, func(i ssa.Instruction) bool { return i == ssa.Instruction(h) }, func(i ssa.Instruction) bool { return i == ssa.Instruction(hc) })
					again := g.PathTo(blockStart(es[0].True), true, nil, func(i ssa.Instruction) bool { return i == ssa.Instruction(hc) })
					if back == nil && again == nil {
						guarded = true
					}
				}
				r.Sites++
				r.Decide("path", "exchange loop around "+site(f, hc)+" leaves when the session was hijacked", guarded, "every way round the loop passes a Hijacked() test whose true edge leaves it", "a loop serves exchange after exchange without testing Session.Hijacked(): after a modifier hijacked the connection (inside a MITM tunnel served by this loop) the proxy reads the next request from it, runs modifiers on it and never hands the connection over", hc.Pos())
			}
		}
		for _, f := range []*ssa.Function{handle, hcr} {
			for _, h := range plainCalls(f, nHijcked) {
				r.Sites++
				r.Paths++
				key := "hijack exit at " + site(f, h)
				es := branchesOn(h)
				if len(es) != 1 {
					r.Fail("path", key, "Hijacked() result is not branched on exactly once", nil, h.Pos())
					continue
				}
				// no proxy I/O on the client connection after the hijack is observed
				g := G(f)
				io := g.PathTo(blockStart(es[0].True), true, nil, func(i ssa.Instruction) bool {
					c, ok := i.(*ssa.Call)
					if !ok {
						return false
					}
					switch calleeName(c) {
					case "(*net/http.Response).Write", "(*bufio.Writer).Flush", "(*bufio.Reader).Read", "(*M.Proxy).handle", "(*M.Proxy).roundTrip", "(net/http.RoundTripper).RoundTrip", "(*M.Proxy).connect", "io.Copy":
						return true
					}
					return false
				})
				if io != nil {
					r.Fail("path", key, "the proxy performs I/O or further processing after observing the hijack", witness(w, io), h.Pos())
					continue
				}
				if loopGuard {
					r.Hold("path", key, "connection loop re-tests Hijacked() after every exchange and leaves the loop", h.Pos())
					continue
				}
				classes, n, ok := returnClassesFrom(es[0].True, 0, 2000)
				r.Paths += n
				good := ok && len(classes) > 0
				for c := range classes {
					if c != "global:errClose" {
						good = false
					}
				}
				r.Decide("path", key, good, "hijack exit returns errClose", fmt.Sprintf("hijack exit returns %v and the connection loop has no Hijacked() guard: the loop reads the hijacked connection again and never closes it", keys(classes)), h.Pos())
			}
		}
	})
}

// requestValue identifies the *http.Request an exchange function works on: a
// parameter of that type, or the first result of the request reader.
func requestValue(f *ssa.Function) ssa.Value {
	for _, p := range f.Params {
		if p.Type().String() == "*net/http.Request" {
			return p
		}
	}
	for _, c := range plainCalls(f, "(*M.Proxy).readRequest") {
		return resultOf(c, 0)
	}
	return nil
}

// resBound decides whether response value res is bound to request req at the
// ModifyResponse site `at`.
func (w *World) resBound(res, req ssa.Value, at ssa.Instruction, depth int) (bool, string) {
	if depth > 3 {
		return false, "call chain too deep"
	}
	// (i) dominated by a store res.Request = req on the same SSA value
	if at != nil && res.Referrers() != nil {
		g := G(at.Parent())
		for _, u := range *res.Referrers() {
			fa, ok := u.(*ssa.FieldAddr)
			if !ok || fieldObj(fa).Name() != "Request" || fa.Referrers() == nil {
				continue
			}
			for _, uu := range *fa.Referrers() {
				if st, ok := uu.(*ssa.Store); ok && st.Addr == ssa.Value(fa) && sameAs(st.Val, req) && g.Before(st, at) {
					return true, "dominated by the store res.Request = req"
				}
			}
		}
	}
	switch x := res.(type) {
	case *ssa.Phi:
		for _, e := range x.Edges {
			if ok, why := w.resBound(e, req, nil, depth); !ok {
				return false, why
			}
		}
		return true, "every incoming response value is constructed for this request"
	case *ssa.Const:
		if x.IsNil() {
			return true, "nil"
		}
	case *ssa.Call:
		switch calleeName(x) {
		case nNewResp:
			if sameAs(x.Call.Args[2], req) {
				return true, "proxyutil.NewResponse(_, _, req)"
			}
			return false, "NewResponse built for a different request"
		case "net/http.ReadResponse":
			if sameAs(x.Call.Args[1], req) {
				return true, "http.ReadResponse(_, req)"
			}
			return false, "ReadResponse for a different request"
		}
	case *ssa.Extract:
		c, ok := x.Tuple.(*ssa.Call)
		if !ok {
			break
		}
		if calleeName(c) == "net/http.ReadResponse" && x.Index == 0 {
			if sameAs(c.Call.Args[1], req) {
				return true, "http.ReadResponse(_, req)"
			}
			return false, "ReadResponse for a different request"
		}
		f := c.Call.StaticCallee()
		if f == nil || f.Blocks == nil {
			break
		}
		// map req to the callee's parameter
		var preq ssa.Value
		for i, a := range c.Call.Args {
			if sameAs(a, req) {
				preq = f.Params[i]
			}
		}
		if preq == nil {
			return false, "callee " + fnName(f) + " does not receive the request"
		}
		for _, ret := range returns(f) {
			for _, v := range retVals(ret, x.Index) {
				if ok, why := w.resBound(v, preq, nil, depth+1); !ok {
					return false, fnName(f) + " returns a response not bound to its request: " + why
				}
			}
		}
		return true, "every response returned by " + fnName(f) + " is constructed for the request"
	}
	return false, fmt.Sprintf("unrecognised response origin %T", res)
}

// returnValuesFrom enumerates paths from b to a return and collects the leaf
// values of result idx.
func returnValuesFrom(b *ssa.BasicBlock, idx int) ([]ssa.Value, int, bool) {
	paths, ok := blockPaths(b, 2000)
	if !ok {
		return nil, 0, false
	}
	var out []ssa.Value
	for _, p := range paths {
		last := p[len(p)-1]
		r, isRet := last.Instrs[len(last.Instrs)-1].(*ssa.Return)
		if !isRet {
			continue
		}
		for _, v := range retVals(r, idx) {
			out = append(out, resolveOnPath(v, p)...)
		}
	}
	return out, len(paths), true
}

// returnValuesFromEdge is returnValuesFrom for the paths that start with the
// CFG edge from -> to: the branch taken at the end of `from` is part of each
// path, so what it establishes (this error is non-nil) prunes the paths that
// contradict it later (the `if err != nil` after an inlined helper).
func returnValuesFromEdge(from, to *ssa.BasicBlock, idx int) ([]ssa.Value, int, bool) {
	paths, ok := blockPathsE(from, to, 2000)
	if !ok {
		return nil, 0, false
	}
	var out []ssa.Value
	for _, p := range paths {
		last := p[len(p)-1]
		r, isRet := last.Instrs[len(last.Instrs)-1].(*ssa.Return)
		if !isRet {
			continue
		}
		for _, v := range retVals(r, idx) {
			out = append(out, resolveOnPath(v, p)...)
		}
	}
	return out, len(paths), true
}

// skipDecisionRule: the upstream round trip is reached only on the false edge
// of a value that is, on every path, the result of SkippingRoundTrip() - also
// when the exchange function reads the mark and hands it to a helper. A skip
// decision that can take another value (a default used when the request
// modifier returned an error) sends a request upstream whose modifier asked
// for it to be answered locally. Shared by C02.R5 and C14.R5 (the Via-loop
// request sets the mark and returns an error).
func skipDecisionRule(r *Report) {
	w := r.W
	var site ssa.CallInstruction
	var host *ssa.Function
	for _, f := range w.Funcs("") {
		for _, c := range calls(f, "(net/http.RoundTripper).RoundTrip") {
			if recv, isLd := c.Common().Value.(*ssa.UnOp); isLd {
				if fa, isFa := recv.X.(*ssa.FieldAddr); isFa && fieldObj(fa).Name() == "roundTripper" {
					site, host = c, f
				}
			}
		}
	}
	if site == nil {
		r.Undecided("upstream round trip: p.roundTripper.RoundTrip", "UNRESOLVED")
		return
	}
	r.Touch(host)
	var sources func(v ssa.Value, in *ssa.Function, depth int) (ok bool, why string)
	sources = func(v ssa.Value, in *ssa.Function, depth int) (bool, string) {
		if depth > 4 {
			return false, "too deep"
		}
		for _, l := range resolveAll(v) {
			for {
				u, isU := l.(*ssa.UnOp)
				if !isU || u.Op != token.NOT {
					break
				}
				l = u.X
			}
			switch x := l.(type) {
			case *ssa.Call:
				if calleeName(x) != "(*M.Context).SkippingRoundTrip" {
					return false, "a value of " + calleeName(x)
				}
			case *ssa.Parameter:
				callers := w.staticCallers(in)
				if len(callers) == 0 {
					return false, "parameter " + x.Name() + " of a function without static callers"
				}
				idx := -1
				for k, p := range in.Params {
					if p == x {
						idx = k
					}
				}
				for _, c := range callers {
					if ok, why := sources(c.Common().Args[idx], c.Parent(), depth+1); !ok {
						return false, why + " (argument at " + fnName(c.Parent()) + ")"
					}
				}
			case *ssa.Const:
				return false, "the constant " + x.String()
			default:
				return false, "a value that is not the context's mark (" + l.String() + ")"
			}
		}
		return true, ""
	}
	guarded, why := false, "no branch on the skip mark dominates the round trip"
	for _, ce := range ctrlEdges(site.Block()) {
		cond, taken := ce.If.Cond, ce.Taken
		for {
			u, isU := cond.(*ssa.UnOp)
			if !isU || u.Op != token.NOT {
				break
			}
			cond, taken = u.X, !taken
		}
		if _, isB := cond.(*ssa.BinOp); isB {
			continue
		}
		if taken {
			continue
		}
		if ok, y := sources(cond, host, 0); ok {
			guarded = true
		} else if !guarded {
			why = "the branch that guards the round trip is decided by " + y
		}
	}
	r.Decide("flow", "the upstream round trip is guarded by the context's skip mark and nothing else", guarded, "RoundTrip lies on the false edge of a value that is SkippingRoundTrip() on every path", why+": a request whose modifier asked to skip the round trip (the Via-loop request, which also returns an error) can still be sent upstream", site.Pos())
}

// responseBoundToRequestRule: every response handed to the response modifier
// carries this exchange's request: `res.Request = req` lies on every path from
// the round trip to ModifyResponse, unconditionally (a round tripper may hand
// back a response whose Request is a clone, for which no context is
// registered: verifiers and loggers then find no context, or the wrong one).
// Shared by C02.R2 and C13.R5.
func responseBoundToRequestRule(r *Report) {
	h := r.W.Fn("", "Proxy.handle")
	if h == nil || h.Blocks == nil {
		r.Undecided("M.Proxy.handle", "UNRESOLVED")
		return
	}
	r.Touch(h)
	g := G(h)
	req := requestValue(h)
	isBind := func(i ssa.Instruction) bool {
		st, ok := i.(*ssa.Store)
		if !ok {
			return false
		}
		fa, isFa := st.Addr.(*ssa.FieldAddr)
		if !isFa || fieldObj(fa).Name() != "Request" || namedOf(fa.X.Type()) != "Response" {
			return false
		}
		for _, l := range resolveAll(st.Val) {
			if l == req {
				return true
			}
		}
		return false
	}
	n, ok := 0, true
	for _, c := range calls(h) {
		if !isResMod(c) {
			continue
		}
		n++
		if p := g.PathTo([]ssa.Instruction{g.Entry()}, true, isBind, func(i ssa.Instruction) bool { return i == ssa.Instruction(c) }); p != nil {
			ok = false
		}
	}
	r.Decide("path", "(*M.Proxy).handle: the response given to the response modifier is bound to this exchange's request", n >= 1 && ok, "res.Request = req lies on every path to ModifyResponse", "the binding is skipped on some path (when the round tripper already set a request): response-side modifiers look the context up through a request that is not the one the context was registered for - an API exchange is counted by verifiers, a skip-logging mark is not seen", h.Pos())
}

// contextIDFreshRule: every context gets a fresh random ID: the id of each
// Context built in the core is the result of newID(), whole. Shared by
// C02.R3, C17.R5 (HAR entries are keyed by it) and C19.R1 (marbl frames carry
// its first eight characters).
func contextIDFreshRule(r *Report) {
	n := 0
	for _, f := range r.W.Funcs("") {
		for _, a := range allocsOf(f, M+".Context") {
			for _, st := range litFieldStores(a)["id"] {
				n++
				fresh := true
				for _, l := range resolveAll(st.Val) {
					if !isExtractOfCall(l, "M.newID") && !isCallValue(l, "M.newID") {
						fresh = false
					}
				}
				r.Decide("flow", fnName(f)+": the context ID is a fresh newID()", fresh, "id: <result of newID()>", "a context ID is built from something else than a fresh random ID (a per-session counter, a truncated session ID): IDs repeat across exchanges, and everything keyed by them (HAR entries, marbl frames) is mixed up", st.Pos())
			}
		}
	}
	if n == 0 {
		r.Undecided("M.Context.id", "UNRESOLVED: no Context literal with an id")
	}
}
