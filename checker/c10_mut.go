package main

func init() {
	mut("C10", "revert-upstream-close", "h2/h2.go", "\tdefer sc.Close()\n", "", "C10.R1", "")
	mut("C10", "close-only-on-success", "h2/h2.go", "\tdefer sc.Close()\n\tif err := forwardPreface(sc, cc); err != nil {\n\t\treturn fmt.Errorf(\"initializing h2 with %v: %w\", url, err)\n\t}\n", "\tif err := forwardPreface(sc, cc); err != nil {\n\t\treturn fmt.Errorf(\"initializing h2 with %v: %w\", url, err)\n\t}\n\tdefer sc.Close()\n", "C10.R1", "")
	mut("C10", "revert-termination-propagation", "h2/h2.go", "\t\tdefer finish()\n\t\tif err := cToS.relayFrames(stop); err != nil {", "\t\tif err := cToS.relayFrames(stop); err != nil {", "C10.R2", "stops the other")
	mut("C10", "direction-watches-only-shutdown", "h2/h2.go", "\t\tif err := sToC.relayFrames(stop); err != nil {", "\t\tif err := sToC.relayFrames(closing); err != nil {", "C10.R2", "stops the other")
	mut("C10", "shutdown-not-forwarded", "h2/h2.go", "\tgo func() {\n\t\tselect {\n\t\tcase <-closing:\n\t\t\tfinish()\n\t\tcase <-stop:\n\t\t}\n\t}()\n", "", "C10.R2", "proxy shutdown")
	mut("C10", "wait-for-one-direction", "h2/h2.go", "\twg.Add(2)\n", "\twg.Add(1)\n", "C10.R2", "waits for both")
	mut("C10", "writer-stops-on-error", "h2/relay.go", "\t\t\t\t\tif err != nil {\n\t\t\t\t\t\twriterErr <- err\n\t\t\t\t\t}\n", "\t\t\t\t\tif err != nil {\n\t\t\t\t\t\twriterErr <- err\n\t\t\t\t\t\treturn\n\t\t\t\t\t}\n", "C10.R4", "writer goroutine ends only")
	mut("C10", "revert-emit-escape", "h2/relay.go", "\t\tselect {\n\t\tcase output <- f:\n\t\tcase <-w.done:\n\t\t\t// The relay has ended and its writer is gone. The peer may still get here (a\n\t\t\t// WINDOW_UPDATE it is processing); blocking on the full channel would park it\n\t\t\t// forever with flowMu held.\n\t\t\treturn\n\t\t}\n", "\t\toutput <- f\n", "C10.R3", "")
	mut("C10", "done-never-closed", "h2/relay.go", "\tdefer close(r.done)\n", "", "C10.R3", "")
	mut("C10", "unbuffered-writer-err", "h2/relay.go", "writerErr := make(chan error, 1)", "writerErr := make(chan error)", "C10.R4", "writerErr is buffered")
	mut("C10", "unbuffered-frame-ready", "h2/relay.go", "frameReady := make(chan struct{}, 1)", "frameReady := make(chan struct{})", "C10.R4", "")
	mut("C10", "reader-ignores-closing", "h2/relay.go", "\t\tcase <-closing:\n\t\t\t// The ReadFrame goroutine is abandoned at this point. It completes as soon as the blocking\n\t\t\t// ReadFrame call completes, but could potentially leak for an unspecified duration.\n\t\t\treturn nil\n", "", "C10.R4", "select watches")
	mut("C10", "readerdone-not-deferred", "h2/relay.go", "\tdefer func() { readerDone <- struct{}{} }()\n", "\tsignal := func() { readerDone <- struct{}{} }\n\t_ = signal\n", "C10.R4", "readerDone is signalled")
	mut("C10", "wake-only-on-error", "h2/h2.go", "\t\tdefer finish()\n\t\tif err := sToC.relayFrames(stop); err != nil {\n\t\t\tlog.Errorf(\"relaying frame from %v to client: %v\", url, err)\n\t\t}\n", "\t\tif err := sToC.relayFrames(stop); err != nil {\n\t\t\tlog.Errorf(\"relaying frame from %v to client: %v\", url, err)\n\t\t\tfinish()\n\t\t}\n", "C10.R2", "")
	twin("C10", "wake-inline-all-paths", "h2/h2.go", "\t\tdefer finish()\n\t\tif err := sToC.relayFrames(stop); err != nil {\n\t\t\tlog.Errorf(\"relaying frame from %v to client: %v\", url, err)\n\t\t}\n", "\t\tif err := sToC.relayFrames(stop); err != nil {\n\t\t\tlog.Errorf(\"relaying frame from %v to client: %v\", url, err)\n\t\t}\n\t\tfinish()\n")
	mut("C10", "escape-arm-breaks-select-only", "h2/relay.go", "\t\t\t// forever with flowMu held.\n\t\t\treturn\n", "\t\t\t// forever with flowMu held.\n\t\t\tbreak\n", "C10.R3", "leaves the emission loop")
}
