package main

func init() {
	mut("C19", "revert-length-bound", "marbl/reader.go", "\t\tif uint64(nl)+uint64(vl) > math.MaxInt32 {\n\t\t\treturn nil, fmt.Errorf(\"marbl: header frame too large: name %d + value %d bytes\", nl, vl)\n\t\t}\n\n\t\tnv := make([]byte, int(nl)+int(vl))", "\t\t_ = math.MaxInt32\n\t\tnv := make([]byte, int(nl+vl))", "C19.R3", "")
	mut("C19", "data-length-unbounded", "marbl/reader.go", "\t\tif dl > math.MaxInt32 {\n\t\t\treturn nil, fmt.Errorf(\"marbl: data frame too large: %d bytes\", dl)\n\t\t}\n", "", "C19.R3", "allocation")
	mut("C19", "terminal-on-any-error", "marbl/marbl.go", "\tif err == io.EOF {\n\t\tterminal = true\n\t}\n", "\tif err != nil {\n\t\tterminal = true\n\t}\n", "C19.R2", "terminal")
	mut("C19", "no-frame-for-empty-read", "marbl/marbl.go", "\tbl.s.sendData(bl.id, bl.mt, atomic.AddUint32(&bl.index, 1)-1, terminal, b, n)\n", "\tif n > 0 {\n\t\tbl.s.sendData(bl.id, bl.mt, atomic.AddUint32(&bl.index, 1)-1, terminal, b, n)\n\t}\n", "C19.R2", "exactly one data frame")
	mut("C19", "index-from-one", "marbl/marbl.go", "atomic.AddUint32(&bl.index, 1)-1, terminal, b, n)", "atomic.AddUint32(&bl.index, 1), terminal, b, n)", "C19.R2", "indices")
	mut("C19", "descriptor-width-mismatch", "marbl/marbl.go", "\tf = append(f, byte(ti))\n", "\tf = append(f, byte(ti), 0)\n", "C19.R4", "sendData")
	mut("C19", "header-sent-in-two-pieces", "marbl/marbl.go", "\tf = append(f, key[:kl]...)\n\tf = append(f, value[:vl]...)\n\n\ts.framec <- f\n", "\tf = append(f, key[:kl]...)\n\ts.framec <- f\n\ts.framec <- append([]byte(nil), value[:vl]...)\n", "C19.R1", "sendHeader")
	mut("C19", "second-writer", "marbl/marbl.go", "func (s *Stream) Close() error {\n", "func (s *Stream) Flush() error {\n\t_, err := s.w.Write(nil)\n\treturn err\n}\n\nfunc (s *Stream) Close() error {\n", "C19.R1", "written only by")
	mut("C19", "unknown-frame-skipped", "marbl/reader.go", "\t\treturn nil, fmt.Errorf(\"marbl: unknown type of frame\")\n", "\t\treturn nil, nil\n", "C19.R3", "unknown frame type")
}
