package main

import (
	"fmt"
	"go/constant"
	"go/token"
	"go/types"
	"sort"
	"strings"

	"golang.org/x/tools/go/ssa"
)

func init() {
	props["C13"] = func(r *Report) {
		c13(r)
		r.Guard("C13.R7", "every lock taken is released on every exit: MultiError and container locks", func() {
			lockPairRule(r, "", "verify", "fifo", "filter", "martianhttp")
			guardedFieldsRule(r, "fifo", "Group", "reqmu", []string{"reqmods"}, "a verification query or reset walks the child list while it is being changed")
			guardedFieldsRule(r, "fifo", "Group", "resmu", []string{"resmods"}, "a verification query or reset walks the child list while it is being changed")
		})
	}
	floors["C13"] = map[string]int{"C13.R1": 40, "C13.R2": 12, "C13.R3": 5, "C13.R4": 8, "C13.R5": 8, "C13.R6": 16, "C13.R7": 1}
}

// moduleStructs lists the named struct types declared in module packages.
func (w *World) moduleStructs() []*types.Named {
	var out []*types.Named
	var paths []string
	for p := range w.Pkgs {
		paths = append(paths, p)
	}
	sort.Strings(paths)
	for _, p := range paths {
		sc := w.Pkgs[p].Types.Scope()
		for _, n := range sc.Names() {
			tn, ok := sc.Lookup(n).(*types.TypeName)
			if !ok || tn.IsAlias() {
				continue
			}
			nt, ok := tn.Type().(*types.Named)
			if !ok {
				continue
			}
			if _, ok := nt.Underlying().(*types.Struct); ok {
				out = append(out, nt)
			}
		}
	}
	return out
}

func (w *World) iface(rel, name string) *types.Interface {
	n := w.Named(rel, name)
	if n == nil {
		return nil
	}
	i, _ := n.Underlying().(*types.Interface)
	return i
}

func typeName(n *types.Named) string {
	return short(n.Obj().Pkg().Path()) + "." + n.Obj().Name()
}

// method returns the declared (not promoted) method of *T or T.
func (w *World) method(n *types.Named, name string) *ssa.Function {
	for i := 0; i < n.NumMethods(); i++ {
		if n.Method(i).Name() == name {
			return w.Prog.FuncValue(n.Method(i))
		}
	}
	return nil
}

// fieldsRead returns the direct fields of the receiver's struct that fn loads.
func fieldsRead(fn *ssa.Function) map[*types.Var]*ssa.FieldAddr {
	out := map[*types.Var]*ssa.FieldAddr{}
	if fn == nil || len(fn.Params) == 0 {
		return out
	}
	recv := fn.Params[0]
	for _, in := range instrs(fn) {
		fa, ok := in.(*ssa.FieldAddr)
		if !ok || fa.X != ssa.Value(recv) || fa.Referrers() == nil {
			continue
		}
		for _, u := range *fa.Referrers() {
			if ld, ok := u.(*ssa.UnOp); ok && ld.Op == token.MUL {
				out[fieldObj(fa)] = fa
			}
		}
	}
	return out
}

// fieldsWritten returns the direct receiver fields fn stores to, with the stores.
func fieldsWritten(fn *ssa.Function) map[*types.Var][]*ssa.Store {
	out := map[*types.Var][]*ssa.Store{}
	if fn == nil || len(fn.Params) == 0 {
		return out
	}
	recv := fn.Params[0]
	for _, in := range instrs(fn) {
		st, ok := in.(*ssa.Store)
		if !ok {
			continue
		}
		if fa, ok := st.Addr.(*ssa.FieldAddr); ok && fa.X == ssa.Value(recv) {
			out[fieldObj(fa)] = append(out[fieldObj(fa)], st)
		}
	}
	return out
}

// invokesOn reports whether fn invokes method `name` on a value derived from
// a load of the given receiver field (through range, index, type assertion).
func (w *World) invokesOn(fn *ssa.Function, fo *types.Var, name string) bool {
	for _, c := range calls(fn) {
		cc := c.Common()
		if !cc.IsInvoke() || cc.Method.Name() != name {
			continue
		}
		sl := w.backSlice(cc.Value, flowOpt{})
		for v := range sl {
			if fa, ok := v.(*ssa.FieldAddr); ok && fieldObj(fa) == fo {
				return true
			}
			// range over a slice field: Next/Range of the loaded field
			if n, ok := v.(*ssa.Next); ok {
				if rg, ok := n.Iter.(*ssa.Range); ok {
					for x := range w.backSlice(rg.X, flowOpt{}) {
						if fa, ok := x.(*ssa.FieldAddr); ok && fieldObj(fa) == fo {
							return true
						}
					}
				}
			}
		}
	}
	return false
}

type side struct {
	name                         string // "request" | "response"
	modIface, verIface           *types.Interface
	modify, verifyM, reset, modT string
}

func c13(r *Report) {
	w := r.W
	r.Decline("the number of errors as a number (one per unmet evaluation): only that every recording/combining step is present and lossless in structure")
	r.Decline("failures recorded concurrently with a query beyond lock discipline")
	r.Decline("containers that hold children but implement no verifier interface (header.ValueRegexFilter, port.Filter, priority.Group): verifiers below them are unreachable by design of those types; listed as observations")
	sides := []side{
		{"request", w.iface("", "RequestModifier"), w.iface("verify", "RequestVerifier"), "ModifyRequest", "VerifyRequests", "ResetRequestVerifications", "RequestModifier"},
		{"response", w.iface("", "ResponseModifier"), w.iface("verify", "ResponseVerifier"), "ModifyResponse", "VerifyResponses", "ResetResponseVerifications", "ResponseModifier"},
	}
	for _, s := range sides {
		if s.modIface == nil || s.verIface == nil {
			r.Rule("C13.R1", "")
			r.Undecided("interfaces", "UNRESOLVED: martian.RequestModifier / verify.RequestVerifier not found")
			return
		}
	}
	isModField := func(f *types.Var, s side) bool {
		t := f.Type()
		if sl, ok := t.(*types.Slice); ok {
			t = sl.Elem()
		}
		n, ok := t.(*types.Named)
		return ok && n.Obj().Pkg() != nil && n.Obj().Pkg().Path() == M && n.Obj().Name() == s.modT
	}
	structs := w.moduleStructs()

	type container struct {
		T      *types.Named
		S      side
		Fields []*types.Var
	}
	var containers []container
	type leaf struct {
		T     *types.Named
		S     side
		State []*types.Var // fields stored by the Reset method
	}
	var leaves []leaf
	for _, T := range structs {
		if strings.HasSuffix(T.Obj().Pkg().Path(), "/verify") || strings.HasSuffix(T.Obj().Pkg().Path(), "martiantest") {
			continue // the interfaces' own package (handlers, TestVerifier) and test doubles
		}
		st := T.Underlying().(*types.Struct)
		for _, s := range sides {
			if !types.Implements(types.NewPointer(T), s.verIface) {
				continue
			}
			if w.method(T, s.verifyM) == nil {
				continue // promoted from an embedded type: judged there
			}
			var fs []*types.Var
			for i := 0; i < st.NumFields(); i++ {
				if isModField(st.Field(i), s) && !st.Field(i).Embedded() {
					fs = append(fs, st.Field(i))
				}
			}
			if len(fs) > 0 {
				containers = append(containers, container{T, s, fs})
				continue
			}
			var state []*types.Var
			for f := range fieldsWritten(w.method(T, s.reset)) {
				state = append(state, f)
			}
			sort.Slice(state, func(i, j int) bool { return state[i].Name() < state[j].Name() })
			leaves = append(leaves, leaf{T, s, state})
		}
	}

	r.Guard("C13.R1", "every container visits the same children when modifying, verifying and resetting", func() {
		for _, c := range containers {
			for _, mn := range []string{c.S.modify, c.S.verifyM, c.S.reset} {
				fn := w.method(c.T, mn)
				r.Touch(fn)
				for _, f := range c.Fields {
					key := fmt.Sprintf("%s.%s visits %s", typeName(c.T), mn, f.Name())
					if fn == nil {
						r.Fail("sibling", key, "method missing", nil, c.T.Obj().Pos())
						continue
					}
					ok := w.invokesOn(fn, f, mn)
					r.Sites++
					r.Decide("sibling", key, ok, "invokes "+mn+" on the child held in this field", "this method does not reach the child held in field "+f.Name()+" although its siblings do: verifiers below it are not modified/queried/reset", fn.Pos())
				}
			}
		}
		// a child that is not a verifier is skipped, it does not end the walk
		for _, c := range containers {
			for _, mn := range []string{c.S.verifyM, c.S.reset} {
				fn := w.method(c.T, mn)
				if fn == nil {
					continue
				}
				g := G(fn)
				var tas []*ssa.TypeAssert
				for _, in := range instrs(fn) {
					if ta, ok := in.(*ssa.TypeAssert); ok && ta.CommaOk && types.IsInterface(ta.AssertedType) && strings.Contains(ta.AssertedType.String(), "/verify.") {
						tas = append(tas, ta)
					}
				}
				for k, ta := range tas {
					okv := extractOf(ta, 1)
					if okv == nil {
						continue
					}
					for _, e := range branchesOn(okv) {
						reach := func(b *ssa.BasicBlock) map[*ssa.TypeAssert]bool {
							out := map[*ssa.TypeAssert]bool{}
							rs := g.Reach(blockStart(b), true, nil)
							for _, t := range tas {
								if rs[t] {
									out[t] = true
								}
							}
							return out
						}
						ro, rn := reach(e.True), reach(e.False)
						good := true
						for t := range ro {
							if !rn[t] {
								good = false
							}
						}
						r.Paths++
						r.Decide("path", fmt.Sprintf("%s.%s: a non-verifier child (assertion #%d) is skipped without ending the walk", typeName(c.T), mn, k+1), good, "the not-a-verifier edge reaches every child the verifier edge reaches", "when this child is not a verifier the remaining children are not visited (break / return instead of continue): verifiers behind it are never queried or reset", ta.Pos())
					}
				}
			}
		}
		// observation: types that hold children but implement no verifier interface
		for _, T := range structs {
			st := T.Underlying().(*types.Struct)
			for _, s := range sides {
				if types.Implements(types.NewPointer(T), s.verIface) || !types.Implements(types.NewPointer(T), s.modIface) {
					continue
				}
				for i := 0; i < st.NumFields(); i++ {
					if isModField(st.Field(i), s) {
						r.Note("observation: %s holds %s children in field %s but implements no %s verifier interface", typeName(T), s.name, st.Field(i).Name(), s.name)
					}
				}
			}
		}
	})

	r.Guard("C13.R2", "child errors are combined only through MultiError.Add, which flattens nested MultiErrors; the handler lists every error", func() {
		for _, c := range containers {
			fn := w.method(c.T, c.S.verifyM)
			if fn == nil {
				continue
			}
			for _, ci := range calls(fn) {
				cc, ok := ci.(*ssa.Call)
				if !ok || !cc.Call.IsInvoke() || cc.Call.Method.Name() != c.S.verifyM {
					continue
				}
				key := fmt.Sprintf("%s: result of child %s #%d", fnName(fn), c.S.verifyM, ordinal(fn, cc))
				bad := ""
				added := false
				returned := false
				var visit func(v ssa.Value, depth int)
				visit = func(v ssa.Value, depth int) {
					if v.Referrers() == nil || depth > 3 {
						return
					}
					for _, u := range *v.Referrers() {
						switch x := u.(type) {
						case *ssa.BinOp:
						case *ssa.Phi:
							visit(x, depth+1)
						case *ssa.Return:
							returned = true
						case *ssa.Store:
							if _, isAlloc := x.Addr.(*ssa.Alloc); isAlloc {
								returned = true // defer-spilled result
							} else {
								bad = "stored to " + x.Addr.String()
							}
						case ssa.CallInstruction:
							if calleeName(x) == "(*M.MultiError).Add" {
								added = true
							} else {
								bad = "passed to " + calleeName(x)
							}
						case *ssa.DebugRef:
						default:
							bad = fmt.Sprintf("used by %T", u)
						}
					}
				}
				visit(cc, 0)
				// ... exactly when it is an error: Add on the non-nil edge of its test, on every
				// path, and never on the nil edge (Add(nil) makes the report non-empty and the
				// handler dereferences the nil entry)
				if added {
					gfn := G(fn)
					isAdd := func(i ssa.Instruction) bool {
						a, y := isCall(i, "(*M.MultiError).Add")
						return y && len(a.Common().Args) > 1 && a.Common().Args[1] == ssa.Value(cc)
					}
					okPol := true
					nt := 0
					_ = gfn
					nt = len(nilTests(cc))
					if nt == 0 {
						okPol = false
					}
					for _, in := range instrs(fn) {
						if isAdd(in) {
							dominated := false
							for _, t := range nilTests(cc) {
								if blockDominates(t.NonNil, in.Block()) {
									dominated = true
								}
							}
							if !dominated {
								okPol = false
							}
						}
					}
					r.Decide("path", key+" is added when, and only when, it is non-nil", okPol, "Add lies behind the non-nil edge of the result's test", "the test of a child's verification result is inverted or missing: real failures are not reported and a nil is added to the report", cc.Pos())
				}
				ok2 := bad == "" && (added || returned)
				r.Sites++
				r.Decide("flow", key, ok2, "tested and handed to MultiError.Add (or returned as is)", "a child's verification error is "+bad+" instead of being added to the MultiError: nested failures are wrapped, dropped or duplicated", cc.Pos())
			}
		}
		// MultiError.Add unwraps a *MultiError argument
		add := r.Use("", "MultiError.Add")
		if add != nil {
			ok := false
			for _, in := range instrs(add) {
				ta, isTA := in.(*ssa.TypeAssert)
				if !isTA || !ta.CommaOk || ta.AssertedType.String() != "*"+M+".MultiError" {
					continue
				}
				val := extractOf(ta, 0)
				for _, c := range plainCalls(add, "(*M.MultiError).Errors") {
					if c.Call.Args[0] == val && okEdgeDominatesTA(ta, c.Block()) {
						// and the result is appended to errs
						for _, st := range fieldsWritten(add) {
							for _, s := range st {
								if anyIn(w.backSlice(s.Val, flowOpt{}), func(v ssa.Value) bool { return v == ssa.Value(c) }) {
									ok = true
								}
							}
						}
					}
				}
			}
			r.Decide("flow", "(*M.MultiError).Add flattens a *MultiError argument", ok, "appends the argument's Errors() on the ok edge of the assertion", "Add no longer unwraps nested MultiErrors: nested groups are reported as one combined error", add.Pos())
		}
		multiErrorAddAlwaysAppends(r)
		// the error list is never aliased with another MultiError's list
		if me := w.Named("", "MultiError"); me != nil {
			if fo := structField(me, "errs"); fo != nil {
				for _, st := range w.fieldStores(fo) {
					fa := st.Addr.(*ssa.FieldAddr)
					own := false
					if c, isC := st.Val.(*ssa.Call); isC {
						if b, isB := c.Call.Value.(*ssa.Builtin); isB && b.Name() == "append" {
							if ld, isLd := c.Call.Args[0].(*ssa.UnOp); isLd {
								if fa2, isFa := ld.X.(*ssa.FieldAddr); isFa && fieldObj(fa2) == fo && fa2.X == fa.X {
									own = true
								}
							}
						}
					}
					if isNilConst(st.Val) {
						own = true
					}
					r.Sites++
					r.Decide("flow", fmt.Sprintf("MultiError.errs store #%d in %s appends to the receiver's own list", ordinalStore(st), fnName(st.Parent())), own, "errs = append(errs, ...)", "the list is replaced by a slice that belongs to (or is shared with) another MultiError: later additions overwrite each other's entries", st.Pos())
				}
			}
		}
		multiErrorOnlyGrows(r)
		ap := r.Use("verify", "appendError")
		if ap != nil {
			ok := false
			for _, c := range plainCalls(ap, "(*M.MultiError).Errors") {
				// ranged over
				if c.Referrers() != nil {
					for _, u := range *c.Referrers() {
						switch u.(type) {
						case *ssa.Range, *ssa.Index, *ssa.IndexAddr, *ssa.Call:
							ok = true
						}
					}
				}
			}
			// ... or the list is one of the values of the slice the loop runs over (`errs := []error{err};
			// if merr, ok := ...; ok { errs = merr.Errors() }; for _, e := range errs`)
			for _, in := range instrs(ap) {
				var x ssa.Value
				switch y := in.(type) {
				case *ssa.IndexAddr:
					x = y.X
				case *ssa.Index:
					x = y.X
				case *ssa.Range:
					x = y.X
				}
				if x == nil {
					continue
				}
				for _, l := range resolveAll(x) {
					if c, isC := l.(*ssa.Call); isC && calleeName(c) == "(*M.MultiError).Errors" {
						ok = true
					}
				}
			}
			r.Decide("flow", "M/verify.appendError lists every error of a MultiError", ok, "iterates Errors()", "the verification handler no longer lists the individual errors", ap.Pos())
			// one entry per error: the message of an entry is the error's own text, whole (an
			// error whose text has several lines is still one unmet expectation)
			nMsg, whole := 0, true
			for _, f := range append([]*ssa.Function{ap}, ap.AnonFuncs...) {
				for _, in := range instrs(f) {
					st, isSt := in.(*ssa.Store)
					if !isSt {
						continue
					}
					fa, isFa := st.Addr.(*ssa.FieldAddr)
					if !isFa || fieldObj(fa).Name() != "Message" || namedOf(fa.X.Type()) != "verifyError" {
						continue
					}
					nMsg++
					for _, l := range resolveAll(st.Val) {
						c, isC := l.(*ssa.Call)
						if !isC || !c.Call.IsInvoke() || c.Call.Method.Name() != "Error" {
							whole = false
						}
					}
				}
			}
			// ... and every error of the list gets its entry: no trip round the loop skips the append
			isAppend := func(i ssa.Instruction) bool {
				st, isSt := i.(*ssa.Store)
				if !isSt {
					return false
				}
				fa, isFa := st.Addr.(*ssa.FieldAddr)
				return isFa && fieldObj(fa).Name() == "Errors" && namedOf(fa.X.Type()) == "verifyResponse"
			}
			nl, badHead := everyRoundPasses(ap, isAppend)
			pos := ap.Pos()
			if badHead != nil {
				pos = badHead.Instrs[0].Pos()
			}
			r.Decide("path", "M/verify.appendError appends an entry for every error of the list", nl >= 1 && badHead == nil, "the append lies on every trip round the loop", "the loop over the errors can go round without appending (a filter on the message, a de-duplication): two evaluations that failed with the same text are reported as one", pos)
			r.Decide("flow", "M/verify.appendError reports each error as one entry with its whole text", nMsg > 0 && whole, "Message: err.Error()", "an entry's message is a piece of the error text (split on line breaks, trimmed): one unmet expectation with a multi-line message is reported as several errors", ap.Pos())
		}
	})

	r.Guard("C13.R3", "the MultiError's error list is accessed only under its mutex", func() {
		// the configurable root excludes traffic while it resets: traffic evaluates the
		// tree under the read lock of martianhttp.Modifier, a reset rewrites verifier
		// state, so the reset of the tree runs under the write lock
		if mh := w.Named("martianhttp", "Modifier"); mh != nil {
			for _, mn := range []string{"ResetRequestVerifications", "ResetResponseVerifications"} {
				fn := w.method(mh, mn)
				if fn == nil || fn.Blocks == nil {
					r.Undecided("(*M/martianhttp.Modifier)."+mn, "UNRESOLVED")
					continue
				}
				r.Touch(fn)
				states := lockStates(fn, nil)
				n := 0
				for _, c := range calls(fn) {
					cc := c.Common()
					if !cc.IsInvoke() || cc.Method.Name() != mn {
						continue
					}
					n++
					heldW := false
					for k := range states[c] {
						if strings.HasPrefix(k, "W:") {
							heldW = true
						}
					}
					r.Decide("lockset", fmt.Sprintf("(*M/martianhttp.Modifier).%s resets the tree under its write lock", mn), heldW, "the child's reset is invoked with the write lock held: no message is being evaluated meanwhile", fmt.Sprintf("the tree is reset with lockset %v (no write lock): a message evaluated at the same moment races with the reset, and a failure it records can be lost", states[c]), c.Pos())
				}
				if n == 0 {
					r.Fail("lockset", fmt.Sprintf("(*M/martianhttp.Modifier).%s resets the tree under its write lock", mn), "the method no longer forwards the reset to the configured tree", nil, fn.Pos())
				}
			}
		}
		// the reset endpoint resets unconditionally: nothing but the request method and
		// the presence of the verifier decides whether a side is reset
		if rh := w.Fn("verify", "ResetHandler.ServeHTTP"); rh != nil {
			r.Touch(rh)
			for _, c := range calls(rh) {
				cc := c.Common()
				if !cc.IsInvoke() || (cc.Method.Name() != "ResetRequestVerifications" && cc.Method.Name() != "ResetResponseVerifications") {
					continue
				}
				bad := ""
				for _, ce := range ctrlEdges(c.Block()) {
					b, isB := ce.If.Cond.(*ssa.BinOp)
					if !isB {
						bad = "a condition at " + w.Pos(ce.If.Cond.Pos())
						continue
					}
					okCond := false
					for _, side := range []ssa.Value{b.X, b.Y} {
						if pathOf(side) != "" && pathOf(side) == pathOf(cc.Value) {
							okCond = true // h.reqv != nil
						}
						if anyIn(w.backSlice(side, flowOpt{}), func(x ssa.Value) bool {
							fa, y := x.(*ssa.FieldAddr)
							return y && fieldObj(fa).Name() == "Method"
						}) {
							okCond = true // req.Method
						}
					}
					if !okCond {
						bad = "the comparison at " + w.Pos(b.Pos())
					}
				}
				r.Decide("path", "(*M/verify.ResetHandler).ServeHTTP: "+cc.Method.Name()+" depends only on the request method and the verifier being present", bad == "", "no other condition guards the reset", "the reset is skipped depending on "+bad+" (for instance on what the verifiers currently report): a verifier that reports nothing right now keeps its state", c.Pos())
			}
		} else {
			r.Undecided("(*M/verify.ResetHandler).ServeHTTP", "UNRESOLVED")
		}

		// a reconfiguration replaces both sides, so that no verifier of the previous
		// configuration keeps reporting: from the write-lock acquisition of servePOST every path
		// to the return installs a request side and a response side
		if sp := r.Use("martianhttp", "Modifier.servePOST"); sp != nil {
			gsp := G(sp)
			var lock ssa.Instruction
			for _, c := range calls(sp, "(*sync.RWMutex).Lock", "(*sync.Mutex).Lock") {
				if _, isDefer := c.(*ssa.Defer); !isDefer {
					lock = c
				}
			}
			for _, side := range []string{"setRequestModifier", "setResponseModifier", "SetRequestModifier", "SetResponseModifier"} {
				name := "(*M/martianhttp.Modifier)." + side
				if len(calls(sp, name)) == 0 {
					continue
				}
				okSide := lock != nil && gsp.PathTo([]ssa.Instruction{lock}, false, func(i ssa.Instruction) bool { _, y := isCall(i, name); return y }, isReturn) == nil
				r.Decide("path", "(*M/martianhttp.Modifier).servePOST: "+side+" on every path of an accepted configuration", okSide, "unconditional", "an accepted configuration leaves one side of the previous configuration installed (the side it does not mention): its verifiers go on recording and reporting failures", sp.Pos())
			}
		}
		me := w.Named("", "MultiError")
		fo := structField(me, "errs")
		if fo == nil {
			r.Undecided("M.MultiError.errs", "UNRESOLVED")
			return
		}
		st := map[*ssa.Function]map[ssa.Instruction]lockset{}
		seen := map[string]bool{}
		for _, a := range w.fieldAccesses(fo) {
			if freshBase(a.Addr) {
				continue
			}
			if st[a.Fn] == nil {
				st[a.Fn] = lockStates(a.Fn, nil)
			}
			ls := st[a.Fn][a.Instr]
			kind := "read"
			ok := ls.held(a.Base + ".mu")
			if a.Write {
				kind = "write"
				ok = ls.heldW(a.Base + ".mu")
			}
			key := fmt.Sprintf("MultiError.errs %s in %s", kind, fnName(a.Fn))
			if seen[key] && ok {
				continue
			}
			seen[key] = true
			r.Sites++
			r.Decide("lockset", key, ok, "under mu "+ls.String(), "errs accessed without merr.mu: data race between traffic recording failures and a verification query; lockset "+ls.String(), a.Instr.Pos())
		}
	})

	r.Guard("C13.R4", "one evaluation of an expectation records at most one failure", func() {
		// on every path through a leaf verifier's modify method MultiError.Add runs at most as
		// often as it can on the pinned tree (once for every verifier but the URL verifier, which
		// checks five parts): an evaluation that fails to parse and then fails the comparison
		// too is still one unmet expectation
		for _, l := range leaves {
			fn := w.method(l.T, l.S.modify)
			if fn == nil || fn.Blocks == nil {
				continue
			}
			adds := calls(fn, "(*M.MultiError).Add")
			if len(adds) == 0 {
				continue
			}
			cb := countBefore(fn, func(i ssa.Instruction) bool { _, y := isCall(i, "(*M.MultiError).Add"); return y })
			max := 0
			for _, ret := range returns(fn) {
				if cb[ret].Max > max {
					max = cb[ret].Max
				}
			}
			limit := 1
			if strings.Contains(fnName(fn), "martianurl") {
				limit = 2 // saturating counter: "several" (one per URL part)
			}
			r.Decide("path", fnName(fn)+": at most one failure is recorded per evaluation", max <= limit, fmt.Sprintf("at most %d Add call(s) on any path", max), "a path through the verifier records two failures for one message (for instance after a parse error it goes on to the comparison): a verification query reports one unmet expectation twice", fn.Pos())
		}
	})

	r.Guard("C13.R4", "the pingback expectation is met exactly by a request that agrees with every non-empty part", func() {
		fn := w.Fn("pingback", "Verifier.ModifyRequest")
		if fn == nil || fn.Blocks == nil {
			r.Undecided("M/pingback.Verifier.ModifyRequest", "UNRESOLVED")
			return
		}
		r.Touch(fn)
		// leaves: `v.url.F != ""` (or a length test) and `v.url.F != u.F`, F one of the URL's parts
		fieldOfLoad := func(v ssa.Value) string {
			if ld, isLd := v.(*ssa.UnOp); isLd && ld.Op == token.MUL {
				if fa, isFa := ld.X.(*ssa.FieldAddr); isFa {
					return fieldObj(fa).Name()
				}
			}
			return ""
		}
		classify := func(v ssa.Value) (part string, kind int, b *ssa.BinOp) { // kind 1 emptiness, 2 equality, 3 length
			b, isB := v.(*ssa.BinOp)
			if !isB {
				return "", 0, nil
			}
			if fx, fy := fieldOfLoad(b.X), fieldOfLoad(b.Y); fx != "" && fx == fy {
				return fx, 2, b
			}
			for _, pr := range [][2]ssa.Value{{b.X, b.Y}, {b.Y, b.X}} {
				if f := fieldOfLoad(pr[0]); f != "" {
					if k, isK := pr[1].(*ssa.Const); isK && k.Value != nil && k.Value.Kind() == constant.String && constant.StringVal(k.Value) == "" {
						return f, 1, b
					}
				}
			}
			if c, isC := b.X.(*ssa.Call); isC {
				if bi, isBi := c.Call.Value.(*ssa.Builtin); isBi && bi.Name() == "len" && len(c.Call.Args) == 1 {
					if f := fieldOfLoad(c.Call.Args[0]); f != "" {
						if _, isK := constInt(b.Y); isK {
							return f, 3, b
						}
					}
				}
			}
			return "", 0, nil
		}
		var first *ssa.BinOp
		parts := map[string]bool{}
		for _, in := range instrs(fn) {
			if p, k, b := classify(asValue(in)); k != 0 {
				parts[p] = true
				if first == nil {
					first = b
				}
			}
		}
		want := []string{"Scheme", "Host", "Path", "RawQuery"}
		okParts := first != nil
		for _, p := range want {
			if !parts[p] {
				okParts = false
			}
		}
		r.Decide("table", "M/pingback.Verifier.ModifyRequest compares scheme, host, path and query", okParts, "all four parts tested", fmt.Sprintf("the parts compared are %v: a request that differs in an omitted part counts as the pingback", keys(parts)), fn.Pos())
		if !okParts {
			return
		}
		okTable, detail := true, ""
		for m := 0; m < 256 && okTable; m++ {
			empty := func(p string) bool { return m>>(2*indexOf(want, p))&1 == 1 }
			equal := func(p string) bool { return m>>(2*indexOf(want, p)+1)&1 == 1 }
			out, okD := decide(first.Block(), func(v ssa.Value) (bool, bool) {
				p, k, b := classify(v)
				if k == 0 || indexOf(want, p) < 0 {
					return false, false
				}
				switch k {
				case 1:
					return (b.Op == token.EQL) == empty(p), b.Op == token.EQL || b.Op == token.NEQ
				case 2:
					// an empty expectation equals the request's part only if that is empty too: take it as unequal
					return (b.Op == token.EQL) == equal(p), b.Op == token.EQL || b.Op == token.NEQ
				default:
					n := int64(3)
					if empty(p) {
						n = 0
					}
					kk, _ := constInt(b.Y)
					return cmpHolds(b.Op, n, kk), true
				}
			})
			if !okD || out == nil {
				okTable, detail = false, "the decision could not be evaluated"
				continue
			}
			met := false
			for _, in := range out.Instrs {
				if st, isSt := in.(*ssa.Store); isSt {
					if fa, isFa := st.Addr.(*ssa.FieldAddr); isFa && fieldObj(fa).Name() == "err" && isNilConst(st.Val) {
						met = true
					}
				}
			}
			wantMet := true
			for _, p := range want {
				if !empty(p) && !equal(p) {
					wantMet = false
				}
			}
			if met != wantMet {
				okTable = false
				detail = fmt.Sprintf("with empty=%v equal=%v (in the order %v) the expectation is %s", []bool{empty(want[0]), empty(want[1]), empty(want[2]), empty(want[3])}, []bool{equal(want[0]), equal(want[1]), equal(want[2]), equal(want[3])}, want, map[bool]string{true: "recorded as met although a non-empty part differs", false: "not recorded as met although every non-empty part agrees"}[met])
			}
		}
		r.Decide("table", "M/pingback.Verifier.ModifyRequest: truth table of the match (4 parts x empty/equal)", okTable, "256 valuations: met iff every non-empty part agrees", detail+": the verifier reports a pingback that did not occur, or misses one that did", first.Pos())
	})

	r.Guard("C13.R4", "a verifier's recorded state is synchronised between traffic, queries and resets", func() {
		for _, l := range leaves {
			for _, f := range l.State {
				key := fmt.Sprintf("%s.%s (%s state)", typeName(l.T), f.Name(), l.S.name)
				// accesses in Modify*/Verify*/Reset*: a common mutex, or atomics
				var missing []string
				for _, mn := range []string{l.S.modify, l.S.verifyM, l.S.reset} {
					fn := w.method(l.T, mn)
					if fn == nil {
						continue
					}
					r.Touch(fn)
					states := lockStates(fn, nil)
					for _, in := range instrs(fn) {
						fa, ok := in.(*ssa.FieldAddr)
						if !ok || fieldObj(fa) != f || fa.Referrers() == nil {
							continue
						}
						for _, u := range *fa.Referrers() {
							if len(states[u]) == 0 {
								missing = append(missing, mn)
							}
						}
					}
				}
				r.Sites++
				if len(missing) > 0 {
					r.Fail("lockset", key, fmt.Sprintf("field replaced by %s and used by traffic without any common lock (unlocked in %v): data race, and failures recorded during a reset can be lost", l.S.reset, uniq(missing)), nil, f.Pos())
				} else {
					r.Hold("lockset", key, "every access in Modify/Verify/Reset holds a lock", f.Pos())
				}
			}
		}
	})

	r.Guard("C13.R5", "requests addressed to the proxy's own API are never counted by a verifier", func() {
		// response-side verifiers find the API mark through res.Request: it is this exchange's request
		responseBoundToRequestRule(r)
		// the mark itself: the API forwarder marks every request it is given, on every path (a
		// shortcut for requests that already name the API server leaves them unmarked)
		if fw := r.W.Fn("api", "Forwarder.ModifyRequest"); fw != nil && fw.Blocks != nil {
			r.Touch(fw)
			g := G(fw)
			isMark := func(i ssa.Instruction) bool { _, y := isCall(i, "(*M.Context).APIRequest"); return y }
			p := g.PathTo([]ssa.Instruction{g.Entry()}, true, isMark, isReturn)
			r.Decide("path", "(*M/api.Forwarder).ModifyRequest marks the request as an API request on every path", p == nil, "ctx.APIRequest() lies on every path to the return", "the forwarder can return without marking the request: API requests that take that path are counted by every verifier", fw.Pos())
		}
		// both handlers of the command-line proxy get both sides of the configurable modifier
		if mn := r.W.Fn("cmd/proxy", "main"); mn != nil && mn.Blocks != nil {
			r.Touch(mn)
			for _, ctor := range []string{"M/verify.NewHandler", "M/verify.NewResetHandler"} {
				for _, c := range plainCalls(mn, ctor) {
					req, res := false, false
					for _, sc := range calls(mn) {
						callee := sc.Common().StaticCallee()
						if callee == nil || len(sc.Common().Args) == 0 {
							continue
						}
						recv := sc.Common().Args[0]
						same := recv == ssa.Value(c)
						for _, l := range resolveAll(recv) {
							if l == ssa.Value(c) {
								same = true
							}
						}
						if !same {
							continue
						}
						switch callee.Name() {
						case "SetRequestVerifier":
							req = true
						case "SetResponseVerifier":
							res = true
						}
					}
					// ... or it is handed to a local function that calls the setters on its parameter
					for _, sc := range calls(mn) {
						var fn *ssa.Function
						for _, l := range resolveAll(sc.Common().Value) {
							if mc, isMc := l.(*ssa.MakeClosure); isMc {
								fn, _ = mc.Fn.(*ssa.Function)
							}
						}
						if fn == nil || fn.Blocks == nil || fn.Parent() != mn {
							continue
						}
						for k, a := range sc.Common().Args {
							if !w.backSlice(a, flowOpt{})[ssa.Value(c)] || k >= len(fn.Params) {
								continue
							}
							for _, ic := range calls(fn) {
								com := ic.Common()
								var recv ssa.Value
								name := ""
								if com.IsInvoke() {
									recv, name = com.Value, com.Method.Name()
								} else if sf := com.StaticCallee(); sf != nil && len(com.Args) > 0 {
									recv, name = com.Args[0], sf.Name()
								}
								if recv == nil || !w.backSlice(recv, flowOpt{})[ssa.Value(fn.Params[k])] || !postDominatesEntry(ic) {
									continue
								}
								switch name {
								case "SetRequestVerifier":
									req = true
								case "SetResponseVerifier":
									res = true
								}
							}
						}
					}
					r.Decide("flow", "cmd/proxy main: the handler made by "+ctor+" is given the request and the response verifier", req && res, "SetRequestVerifier and SetResponseVerifier are both called on it", "a verification handler is wired to one side only: a reset (or a query) over HTTP leaves the other side's verifiers untouched although it answers 204 / 200", c.Pos())
				}
			}
		}
		contextFlagRules(r, "APIRequest", "IsAPIRequest")
		for _, l := range leaves {
			fn := w.method(l.T, l.S.modify)
			if fn == nil {
				continue
			}
			r.Touch(fn)
			g := G(fn)
			// state mutations: Add on a state field, or a store to it
			var muts []ssa.Instruction
			for _, in := range instrs(fn) {
				switch x := in.(type) {
				case *ssa.Store:
					if fa, ok := x.Addr.(*ssa.FieldAddr); ok && isParamVal(fa.X, fn.Params[0]) && containsVar(l.State, fieldObj(fa)) {
						muts = append(muts, x)
					}
				case *ssa.Call:
					if calleeName(x) == "(*M.MultiError).Add" {
						muts = append(muts, x)
					}
				}
			}
			key := fmt.Sprintf("%s: API requests exempt", fnName(fn))
			if len(muts) == 0 {
				r.Undecided(key, "no state mutation found in the verifier's modify method")
				continue
			}
			apis := plainCalls(fn, "(*M.Context).IsAPIRequest")
			stop := func(i ssa.Instruction) bool {
				for _, a := range apis {
					if i == ssa.Instruction(a) {
						return true
					}
				}
				return false
			}
			// nil-context edges are allowed to bypass the test
			var nilStarts []ssa.Instruction
			for _, a := range apis {
				for _, t := range nilTests(a.Call.Args[0]) {
					nilStarts = append(nilStarts, blockStart(t.Nil)...)
				}
			}
			stop2 := func(i ssa.Instruction) bool {
				if stop(i) {
					return true
				}
				for _, n := range nilStarts {
					if i == n {
						return true
					}
				}
				return false
			}
			isMut := func(i ssa.Instruction) bool {
				for _, m := range muts {
					if m == i {
						return true
					}
				}
				return false
			}
			ok := len(apis) > 0 && g.PathTo([]ssa.Instruction{g.Entry()}, true, stop2, isMut) == nil
			// the context tested is this message's
			for _, a := range apis {
				ctxOK := anyIn(w.backSlice(a.Call.Args[0], flowOpt{}), func(v ssa.Value) bool { return isCallValue(v, "M.NewContext") })
				if !ctxOK {
					ok = false
				}
				for _, e := range branchesOn(a) {
					if g.PathTo(blockStart(e.True), true, nil, isMut) != nil {
						ok = false
					}
				}
			}
			r.Sites++
			r.Paths++
			r.Decide("path", key, ok, "every path to a state mutation passes IsAPIRequest()==false on this message's context", "the verifier records failures for requests addressed to the proxy's own API (no IsAPIRequest guard before the mutation)", fn.Pos())
		}
	})

	r.Guard("C13.R6", "the state a verifier records into is the state it reports and the state its reset restores to the constructor's value", func() {
		for _, l := range leaves {
			reset := w.method(l.T, l.S.reset)
			mod := w.method(l.T, l.S.modify)
			ver := w.method(l.T, l.S.verifyM)
			if reset == nil || mod == nil || ver == nil {
				continue
			}
			if len(l.State) == 0 {
				r.Fail("sibling", fmt.Sprintf("%s.%s resets state", typeName(l.T), l.S.reset), "the reset method stores to no field: nothing is reset", nil, reset.Pos())
				continue
			}
			for _, f := range l.State {
				_, usedByMod := fieldsRead(mod)[f]
				if _, w2 := fieldsWritten(mod)[f]; w2 {
					usedByMod = true
				}
				_, usedByVer := fieldsRead(ver)[f]
				r.Sites++
				r.Decide("sibling", fmt.Sprintf("%s: %s resets the field %s records into and %s reports (%s)", typeName(l.T), l.S.reset, l.S.modify, l.S.verifyM, f.Name()), usedByMod && usedByVer, "same field in all three", fmt.Sprintf("reset stores to %s, which %s uses=%v and %s reads=%v: recorded failures and reset state are different fields", f.Name(), l.S.modify, usedByMod, l.S.verifyM, usedByVer), reset.Pos())
				// reset value has the same origin as the constructor's initial value
				var ctorKinds, resetKinds []string
				for _, st := range fieldsWritten(reset)[f] {
					resetKinds = append(resetKinds, valueKind(st.Val))
				}
				for _, st := range w.fieldStores(f) {
					fa := st.Addr.(*ssa.FieldAddr)
					if freshBase(fa) {
						ctorKinds = append(ctorKinds, valueKind(st.Val))
					}
				}
				same := len(ctorKinds) > 0 && len(resetKinds) > 0
				for _, k := range resetKinds {
					if !contains(ctorKinds, k) {
						same = false
					}
				}
				r.Decide("sibling", fmt.Sprintf("%s: %s restores the constructor's initial value of %s", typeName(l.T), l.S.reset, f.Name()), same, "reset value "+strings.Join(resetKinds, ",")+" matches the constructor", fmt.Sprintf("constructor initialises with %v, reset stores %v", ctorKinds, resetKinds), reset.Pos())
			}
		}
	})
}

func ordinalStore(st *ssa.Store) int {
	k := 0
	for _, in := range instrs(st.Parent()) {
		if s, ok := in.(*ssa.Store); ok {
			if _, isFa := s.Addr.(*ssa.FieldAddr); isFa {
				k++
			}
			if s == st {
				return k
			}
		}
	}
	return 0
}

func okEdgeDominatesTA(ta *ssa.TypeAssert, b *ssa.BasicBlock) bool {
	ok := extractOf(ta, 1)
	if ok == nil {
		return false
	}
	for _, ce := range branchesOn(ok) {
		if edgeDominatesTrue(ce, b) {
			return true
		}
	}
	return false
}

func valueKind(v ssa.Value) string {
	switch x := v.(type) {
	case *ssa.Call:
		return "call:" + calleeName(x)
	case *ssa.Const:
		if x.IsNil() {
			return "nil"
		}
		return "const"
	case *ssa.MakeInterface:
		return valueKind(x.X)
	}
	return fmt.Sprintf("%T", v)
}

func containsVar(s []*types.Var, v *types.Var) bool {
	for _, x := range s {
		if x == v {
			return true
		}
	}
	return false
}
func contains(s []string, v string) bool {
	for _, x := range s {
		if x == v {
			return true
		}
	}
	return false
}
func uniq(s []string) []string {
	m := map[string]bool{}
	for _, x := range s {
		m[x] = true
	}
	return keys(m)
}

// multiErrorAddAlwaysAppends: every call of (*MultiError).Add records its
// argument: no path from the entry of Add to a return avoids a store of an
// append result into the error list (no filtering of "duplicates": two
// children that return the same error value are two failures). Shared by
// C13.R2 and C12.R6.
func multiErrorAddAlwaysAppends(r *Report) {
	add := r.W.Fn("", "MultiError.Add")
	if add == nil || add.Blocks == nil {
		r.Undecided("(*M.MultiError).Add", "UNRESOLVED")
		return
	}
	r.Touch(add)
	g := G(add)
	isAppendStore := func(i ssa.Instruction) bool {
		st, ok := i.(*ssa.Store)
		if !ok {
			return false
		}
		fa, ok := st.Addr.(*ssa.FieldAddr)
		if !ok || fieldObj(fa).Name() != "errs" {
			return false
		}
		for _, l := range resolveAll(st.Val) {
			c, isC := l.(*ssa.Call)
			if !isC {
				return false
			}
			if b, isB := c.Call.Value.(*ssa.Builtin); !isB || b.Name() != "append" {
				return false
			}
		}
		return true
	}
	p := g.PathTo([]ssa.Instruction{g.Entry()}, true, isAppendStore, isReturn)
	r.Decide("path", "(*M.MultiError).Add records every error it is given", p == nil, "errs = append(errs, ...) lies on every path to the return", "Add can return without appending (a duplicate filter, a nil filter): two children failing with the same error value are reported as one, and a verification query loses failures", add.Pos())
}

func indexOf(xs []string, x string) int {
	for i, y := range xs {
		if y == x {
			return i
		}
	}
	return -1
}

func asValue(in ssa.Instruction) ssa.Value {
	v, _ := in.(ssa.Value)
	return v
}

// postDominatesEntry: the instruction lies on every path from the entry of its
// function to a return (no return is reachable from the entry without it).
func postDominatesEntry(i ssa.Instruction) bool {
	g := G(i.Parent())
	return g.PathTo([]ssa.Instruction{g.Entry()}, true, func(x ssa.Instruction) bool { return x == i }, isReturn) == nil
}
