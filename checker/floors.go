package main

// Instance-count floors: for every rule, the number of obligations it
// produced on the pinned tree, each confirmed by reading the code. A run that
// produces fewer fails (the rule would otherwise pass vacuously after a
// rename). Counts may grow.
func init() {
}
