package main

func init() {
	mut("C02", "drop-unlink", "proxy.go", "\tdefer unlink(req)\n", "", "C02.R3", "link(req, ctx) paired")
	mut("C02", "second-resmod-on-502", "proxy.go",
		"\t\tres = proxyutil.NewResponse(502, nil, req)\n\t\tproxyutil.Warning(res.Header, err)\n\t}\n\tdefer res.Body.Close()",
		"\t\tres = proxyutil.NewResponse(502, nil, req)\n\t\tproxyutil.Warning(res.Header, err)\n\t\tp.resmod.ModifyResponse(res)\n\t}\n\tdefer res.Body.Close()",
		"C02.R1", "(*net/http.Response).Write#1")
	mut("C02", "reqmod-error-aborts", "proxy.go",
		"\t\tlog.Errorf(\"martian: error modifying request: %v\", err)\n\t\tproxyutil.Warning(req.Header, err)\n",
		"\t\tlog.Errorf(\"martian: error modifying request: %v\", err)\n\t\tproxyutil.Warning(req.Header, err)\n\t\treturn err\n",
		"C02.R4", "(*M.Proxy).handle: (M.RequestModifier).ModifyRequest#1")
	mut("C02", "warning-on-wrong-message", "proxy.go",
		"\t\tlog.Errorf(\"martian: error modifying response: %v\", err)\n\t\tproxyutil.Warning(res.Header, err)\n",
		"\t\tlog.Errorf(\"martian: error modifying response: %v\", err)\n\t\tproxyutil.Warning(req.Header, err)\n",
		"C02.R4", "(*M.Proxy).handle: (M.ResponseModifier).ModifyResponse#1")
	mut("C02", "drop-res-request-link", "proxy.go", "\tres.Request = req\n", "", "C02.R2", "(*M.Proxy).handle")
	mut("C02", "revert-hijack-loop-exit", "proxy.go", "\t\tif s.Hijacked() {\n", "\t\tif false && s.Hijacked() {\n", "C02.R6", "")
	mut("C02", "skip-check-removed", "proxy.go", "\tif ctx.SkippingRoundTrip() {", "\tif ctx.SkippingRoundTrip() && req.Method == \"OPTIONS\" {", "C02.R5", "")
	mut("C02", "mitm-skips-reqmod", "proxy.go",
		"func (p *Proxy) handleConnectRequest(ctx *Context, req *http.Request, session *Session, brw *bufio.ReadWriter, conn net.Conn) error {\n\tif err := p.reqmod.ModifyRequest(req); err != nil {",
		"func (p *Proxy) handleConnectRequest(ctx *Context, req *http.Request, session *Session, brw *bufio.ReadWriter, conn net.Conn) error {\n\tif p.mitm != nil {\n\t} else if err := p.reqmod.ModifyRequest(req); err != nil {",
		"C02.R1", "")
	mut("C02", "session-per-request", "proxy.go",
		"\tsession := ctx.Session()\n\tctx, err = withSession(session)",
		"\tsession, err := newSession(conn, brw)\n\tif err != nil {\n\t\treturn err\n\t}\n\tctx, err = withSession(session)",
		"C02.R3", "linked context")
	mut("C02", "io-after-hijack", "proxy.go",
		"\tif session.Hijacked() {\n\t\tlog.Infof(\"martian: connection hijacked by response modifier\")\n\t\treturn nil\n\t}\n\n\tvar closing error",
		"\tif session.Hijacked() {\n\t\tlog.Infof(\"martian: connection hijacked by response modifier\")\n\t\tbrw.Flush()\n\t\treturn nil\n\t}\n\n\tvar closing error",
		"C02.R6", "(*M.Proxy).handle: (*M.Session).Hijacked#2")
	twin("C02", "err-test-hoisted", "proxy.go",
		"\tif err := p.resmod.ModifyResponse(res); err != nil {\n\t\tlog.Errorf(\"martian: error modifying response: %v\", err)",
		"\tmerr := p.resmod.ModifyResponse(res)\n\tif nil != merr {\n\t\terr := merr\n\t\tlog.Errorf(\"martian: error modifying response: %v\", err)")
	twin("C02", "hijack-test-negated", "proxy.go",
		"\tif session.Hijacked() {\n\t\treturn nil\n\t}\n\n\t// perform the HTTP roundtrip\n\tres, err := p.roundTrip(ctx, req)",
		"\tif hj := session.Hijacked(); !hj {\n\t} else {\n\t\treturn nil\n\t}\n\n\t// perform the HTTP roundtrip\n\tres, err := p.roundTrip(ctx, req)")
	mut("C02", "api-request-clears-skip", "context.go", "\tctx.apiRequest = true\n", "\tctx.apiRequest = true\n\tctx.skipRoundTrip = false\n", "C02.R5", "does not wipe")
	mut("C02", "session-unlock-not-deferred", "context.go", "func (s *Session) Hijack() (net.Conn, *bufio.ReadWriter, error) {\n\ts.mu.Lock()\n\tdefer s.mu.Unlock()\n", "func (s *Session) Hijack() (net.Conn, *bufio.ReadWriter, error) {\n\ts.mu.Lock()\n\ts.mu.Unlock()\n", "C02.R3", "Session.hijacked")
	mut("C02", "unlink-keeps-entry", "context.go", "\tdelete(ctxs, req)\n", "\t_ = req\n", "C02.R3", "unlink removes")
}
