package main

import (
	"fmt"
	"go/token"
	"strings"

	"golang.org/x/tools/go/ssa"
)

// smallEval evaluates an integer or boolean SSA expression built from
// constants, + and -, comparisons, len(<the chunk list>) and one designated
// loop index, for concrete small values of the two. ok is false when the
// expression contains anything else.
type smallEnv struct {
	isLen func(ssa.Value) bool
	idx   ssa.Value
	n, i  int64
}

func (e smallEnv) int(v ssa.Value) (int64, bool) {
	v = unwrapConv(v)
	if e.idx != nil && v == e.idx {
		return e.i, true
	}
	if e.isLen(v) {
		return e.n, true
	}
	if k, ok := constInt(v); ok {
		return k, true
	}
	if b, ok := v.(*ssa.BinOp); ok {
		x, okx := e.int(b.X)
		y, oky := e.int(b.Y)
		if !okx || !oky {
			return 0, false
		}
		switch b.Op {
		case token.ADD:
			return x + y, true
		case token.SUB:
			return x - y, true
		}
	}
	return 0, false
}

func (e smallEnv) bool(v ssa.Value) (bool, bool) {
	if k, ok := constBool(v); ok {
		return k, true
	}
	if u, ok := v.(*ssa.UnOp); ok && u.Op == token.NOT {
		x, okx := e.bool(u.X)
		return !x, okx
	}
	b, ok := v.(*ssa.BinOp)
	if !ok {
		return false, false
	}
	x, okx := e.int(b.X)
	y, oky := e.int(b.Y)
	if !okx || !oky {
		return false, false
	}
	switch b.Op {
	case token.EQL, token.NEQ, token.LSS, token.LEQ, token.GTR, token.GEQ:
		return cmpHolds(b.Op, x, y), true
	}
	return false, false
}

// continuationSendRule: the send method of a queued header-carrying frame
// writes chunk 0 in the opening frame with END_HEADERS exactly when there is
// one chunk, then chunks 1..n-1 as CONTINUATION frames in order, END_HEADERS
// on the last one only; a failed write ends the method with an error and
// nothing else does. Decided by evaluating the flag and loop expressions for
// every chunk count up to 4 (the expressions only compare the index and the
// count with small constants).
func continuationSendRule(r *Report, send *ssa.Function, opener string) {
	name := fnName(send)
	isChunks := func(v ssa.Value) bool {
		ld, ok := v.(*ssa.UnOp)
		if !ok || ld.Op != token.MUL {
			return false
		}
		fa, ok := ld.X.(*ssa.FieldAddr)
		return ok && fieldObj(fa).Name() == "chunks"
	}
	isLen := func(v ssa.Value) bool {
		c, ok := v.(*ssa.Call)
		if !ok {
			return false
		}
		b, ok := c.Call.Value.(*ssa.Builtin)
		return ok && b.Name() == "len" && isChunks(c.Call.Args[0])
	}
	// opening frame
	ops := plainCalls(send, "(*"+pHTTP2+".Framer)."+opener)
	conts := plainCalls(send, "(*"+pHTTP2+".Framer).WriteContinuation")
	if len(ops) != 1 || len(conts) != 1 {
		r.Undecided(name+": frame writes", fmt.Sprintf("UNRESOLVED: %d %s and %d WriteContinuation calls, want 1 and 1", len(ops), opener, len(conts)))
		return
	}
	var param *ssa.Alloc
	for v := range r.W.backSlice(ops[0].Call.Args[1], flowOpt{}) {
		if a, ok := v.(*ssa.Alloc); ok {
			param = a
		}
	}
	okEH, okFrag, okPad := false, false, true
	if param != nil {
		fs := litFieldStores(param)
		if sts := fs["EndHeaders"]; len(sts) == 1 {
			okEH = true
			for n := int64(1); n <= 4; n++ {
				got, ok := smallEnv{isLen: isLen, n: n}.bool(sts[0].Val)
				if !ok || got != (n <= 1) {
					okEH = false
				}
			}
		}
		if sts := fs["BlockFragment"]; len(sts) == 1 {
			if ld, isLd := sts[0].Val.(*ssa.UnOp); isLd {
				if ia, isIA := ld.X.(*ssa.IndexAddr); isIA && isChunks(ia.X) {
					if k, isK := constInt(ia.Index); isK && k == 0 {
						okFrag = true
					}
				}
			}
		}
		for _, st := range fs["PadLength"] {
			if k, isK := constInt(st.Val); !isK || k != 0 {
				okPad = false
			}
		}
	}
	r.Decide("flow", name+": the opening frame carries chunk 0 and END_HEADERS exactly when it is the only chunk", okEH && okFrag && okPad, "BlockFragment chunks[0], EndHeaders true for one chunk and false for 2, 3, 4, no padding", "the opening frame of a header block has the wrong END_HEADERS flag or fragment: a block that needs CONTINUATION frames is declared complete (the peer decodes half a block), or a complete one is left open", ops[0].Pos())
	// continuation loop
	cc := conts[0]
	if okOrder, okFlag := contLoopBySimulation(cc); okOrder {
		// (decided by running the loop for 1 to 4 chunks: the index expression need not be the loop
		// variable itself, e.g. a loop that counts the frames written and sends chunks[i+1])
		r.Decide("flow", name+": CONTINUATION frames carry chunks 1..n-1 in order", true, "run for 1, 2, 3 and 4 chunks: the fragments are chunks[1], ..., chunks[n-1], one per round", "", cc.Pos())
		r.Decide("flow", name+": END_HEADERS is set on the last CONTINUATION frame only", okFlag, "the flag is true exactly for the last chunk (run for 2, 3 and 4 chunks)", "the END_HEADERS flag of the CONTINUATION frames is wrong: the peer closes the block early and decodes the rest as a new frame, or waits for a CONTINUATION that never comes", cc.Pos())
		return
	}
	var idx *ssa.Phi
	if ld, isLd := cc.Call.Args[3].(*ssa.UnOp); isLd {
		if ia, isIA := ld.X.(*ssa.IndexAddr); isIA && isChunks(ia.X) {
			idx, _ = ia.Index.(*ssa.Phi)
		}
	}
	if idx == nil {
		r.Fail("flow", name+": CONTINUATION frames carry chunks 1..n-1 in order", "the fragment of WriteContinuation is not chunks[i] for a loop index i", nil, cc.Pos())
		return
	}
	okInit, okStep := false, false
	for _, e := range idx.Edges {
		if k, isK := constInt(e); isK {
			okInit = k == 1
		} else if b, isB := e.(*ssa.BinOp); isB && b.Op == token.ADD {
			if k, isK := constInt(b.Y); isK && k == 1 && b.X == ssa.Value(idx) {
				okStep = true
			}
		}
	}
	okCond := false
	if iff, isIf := idx.Block().Instrs[len(idx.Block().Instrs)-1].(*ssa.If); isIf {
		body := idx.Block().Succs[0]
		okCond = blockDominates(body, cc.Block())
		for n := int64(1); n <= 4 && okCond; n++ {
			for i := int64(1); i <= n; i++ {
				got, ok := smallEnv{isLen: isLen, idx: idx, n: n, i: i}.bool(iff.Cond)
				if !ok || got != (i < n) {
					okCond = false
				}
			}
		}
	}
	okFlag := true
	for n := int64(2); n <= 4; n++ {
		for i := int64(1); i < n; i++ {
			got, ok := smallEnv{isLen: isLen, idx: idx, n: n, i: i}.bool(cc.Call.Args[2])
			if !ok || got != (i == n-1) {
				okFlag = false
			}
		}
	}
	r.Decide("flow", name+": CONTINUATION frames carry chunks 1..n-1 in order", okInit && okStep && okCond, "i starts at 1, advances by 1, runs while i < len(chunks); the fragment is chunks[i]", "the continuation loop starts, steps or stops at the wrong index: chunk 0 is sent twice, a chunk is skipped, or the index runs past the list (panic)", cc.Pos())
	r.Decide("flow", name+": END_HEADERS is set on the last CONTINUATION frame only", okFlag, "the flag is true exactly for i == len(chunks)-1 (evaluated for 2, 3 and 4 chunks)", "the END_HEADERS flag of the CONTINUATION frames is wrong: the peer closes the block early and decodes the rest as a new frame, or waits for a CONTINUATION that never comes", cc.Pos())
}

// sendErrorRule: in a send method, a failed framer write ends the method with
// an error, and only a failed write does.
func sendErrorRule(r *Report, send *ssa.Function) {
	name := fnName(send)
	var nonNilBlocks []*ssa.BasicBlock
	n := 0
	okErr := true
	for _, c := range calls(send) {
		cc, isC := c.(*ssa.Call)
		if !isC || !strings.HasPrefix(calleeName(cc), "(*"+pHTTP2+".Framer).Write") {
			continue
		}
		tests := errTests(cc)
		if len(tests) == 0 {
			// `return dest.WriteX(...)` hands the error on directly
			direct := false
			for _, ret := range returns(send) {
				for _, v := range retVals(ret, 0) {
					for _, l := range resolveAll(v) {
						if l == ssa.Value(cc) {
							direct = true
						}
					}
				}
			}
			n++
			if !direct {
				okErr = false
			}
			continue
		}
		n++
		for _, t := range tests {
			nonNilBlocks = append(nonNilBlocks, t.NonNil)
			paths, okp := blockPathsE(t.If.Block(), t.NonNil, 4000)
			nret := 0
			for _, p := range paths {
				last := p[len(p)-1]
				ret, isRet := last.Instrs[len(last.Instrs)-1].(*ssa.Return)
				if !isRet {
					continue
				}
				nret++
				for _, v := range retVals(ret, 0) {
					for _, l := range resolveOnPath(v, p) {
						// this write's error, a wrapping of it, or a fresh error: not nil and not
						// the (nil) outcome of an earlier write held in an outer variable
						mine := false
						for _, e := range errOf(cc) {
							if l == e || anyIn(r.W.backSlice(l, errWrapFlow), func(x ssa.Value) bool { return x == e }) {
								mine = true
							}
						}
						if !mine && !isFreshErr(l) {
							okErr = false
						}
					}
				}
			}
			if !okp || nret == 0 {
				okErr = false
			}
		}
	}
	// every return of a fresh error sits behind the failure edge of some write
	for _, ret := range returns(send) {
		for _, v := range retVals(ret, 0) {
			for _, l := range resolveAll(v) {
				if !isFreshErr(l) {
					continue
				}
				behind := false
				for _, b := range nonNilBlocks {
					if blockDominates(b, ret.Block()) {
						behind = true
					}
				}
				if !behind {
					okErr = false
				}
			}
		}
	}
	if n == 0 {
		r.Undecided(name+": framer writes", "UNRESOLVED")
		return
	}
	r.Decide("path", name+": a failed write, and only a failed write, ends the method with an error", okErr, "each write's error edge returns a non-nil error; every error return lies behind such an edge", "the test of a framer write's error is inverted or missing: a frame that was written ends the relay with an error, or a failed write is taken for success and the relay goes on writing to a broken connection", send.Pos())
}

// contLoopBySimulation runs the loop around the WriteContinuation call cc for 1
// to 4 chunks and reports whether the fragments written are chunks[1] ...
// chunks[n-1] in this order, one per round (okOrder), and whether END_HEADERS
// is set on the last of them only (okFlag).
func contLoopBySimulation(cc *ssa.Call) (okOrder, okFlag bool) {
	isChunks := func(v ssa.Value) bool {
		ld, ok := v.(*ssa.UnOp)
		if !ok || ld.Op != token.MUL {
			return false
		}
		fa, ok := ld.X.(*ssa.FieldAddr)
		return ok && fieldObj(fa).Name() == "chunks"
	}
	if len(cc.Call.Args) < 4 {
		return false, false
	}
	ld, isLd := cc.Call.Args[3].(*ssa.UnOp)
	if !isLd {
		return false, false
	}
	ia, isIA := ld.X.(*ssa.IndexAddr)
	if !isIA || !isChunks(ia.X) {
		return false, false
	}
	okOrder, okFlag = true, true
	for n := int64(1); n <= 4; n++ {
		leaf := func(v ssa.Value) (int64, bool) {
			if c, ok := v.(*ssa.Call); ok {
				if b, isB := c.Call.Value.(*ssa.Builtin); isB && b.Name() == "len" && isChunks(c.Call.Args[0]) {
					return n, true
				}
			}
			return 0, false
		}
		var idxs []int64
		var flags []bool
		flagsOK := true
		done := simulateLoop(cc.Block(), leaf, 8, func(ev *miniEval) bool {
			i, ok := ev.Int(ia.Index)
			if !ok {
				return false
			}
			idxs = append(idxs, i)
			fl, okF := ev.Bool(cc.Call.Args[2])
			if !okF {
				flagsOK = false
			}
			flags = append(flags, fl)
			return true
		})
		if !done || int64(len(idxs)) != n-1 {
			return false, false
		}
		for k, i := range idxs {
			if i != int64(k)+1 {
				return false, false
			}
			if !flagsOK || flags[k] != (i == n-1) {
				okFlag = false
			}
		}
	}
	return okOrder, okFlag
}
