package main

import (
	"fmt"
	"go/token"
	"go/types"

	"golang.org/x/tools/go/ssa"
)

func init() {
	props["C05"] = c05
	floors["C05"] = map[string]int{"C05.R1": 9, "C05.R2": 9, "C05.R3": 1, "C05.R4": 4, "C05.R5": 2, "C05.R6": 2}
}

// schemeStores lists the stores to <x>.URL.Scheme in a function.
func schemeStores(f *ssa.Function) []*ssa.Store {
	var out []*ssa.Store
	for _, in := range instrs(f) {
		st, ok := in.(*ssa.Store)
		if !ok {
			continue
		}
		fa, ok := st.Addr.(*ssa.FieldAddr)
		if !ok || fieldObj(fa).Name() != "Scheme" {
			continue
		}
		if fa.X.Type().String() == "*net/url.URL" {
			out = append(out, st)
		}
	}
	return out
}

func c05(r *Report) {
	w := r.W
	r.Decline("that the upstream leg really uses TLS (follows from URL.Scheme inside http.Transport)")
	r.Decline("modifiers that rewrite the URL (e.g. api.Forwarder sets http for API requests): outside the core")
	r.Decline("the first-byte TLS sniff (value 22) and what the peer actually sends")
	handle := r.Use("", "Proxy.handle")
	hcr := r.Use("", "Proxy.handleConnectRequest")
	loop := r.Use("", "Proxy.handleLoop")
	if handle == nil || hcr == nil || loop == nil {
		return
	}
	g := G(handle)
	req := requestValue(handle)
	connP := ssa.Value(handle.Params[2])

	// isTLSAssertOfConn: v is the value of `X.(*tls.Conn)` where X is the conn
	// parameter or the wrapped conn of conn.(*trafficshape.Conn).
	tlsAssert := func(v ssa.Value) (*ssa.TypeAssert, string) {
		e, ok := v.(*ssa.Extract)
		if !ok {
			return nil, ""
		}
		ta, ok := e.Tuple.(*ssa.TypeAssert)
		if !ok || ta.AssertedType.String() != "*crypto/tls.Conn" {
			return nil, ""
		}
		if ta.X == connP {
			return ta, "bare"
		}
		if c, ok := ta.X.(*ssa.Call); ok && calleeName(c) == "(*M/trafficshape.Conn).GetWrappedConn" {
			if e2, ok := c.Call.Args[0].(*ssa.Extract); ok {
				if ta2, ok := e2.Tuple.(*ssa.TypeAssert); ok && ta2.X == connP {
					return ta, "shaped"
				}
			}
		}
		return nil, ""
	}
	okEdgeDominates := func(ta *ssa.TypeAssert, b *ssa.BasicBlock) bool {
		if ta.Referrers() == nil {
			return false
		}
		for _, u := range *ta.Referrers() {
			e, ok := u.(*ssa.Extract)
			if !ok || e.Index != 1 {
				continue
			}
			for _, ce := range branchesOn(e) {
				if edgeDominatesTrue(ce, b) {
					return true
				}
			}
		}
		return false
	}

	r.Guard("C05.R1", "inside a secure session the request is forced to https before any modifier sees it; the core never marks a session insecure", func() {
		// the secure mark survives whatever else is recorded in the session (a hijack,
		// a new connection value): no other writer of its storage wipes it
		flagRules(r, "Session", "MarkSecure", "IsSecure", "(*M.Session).MarkInsecure")

		// who may write URL.Scheme in the proxy core
		for _, f := range w.Funcs("") {
			for _, st := range schemeStores(f) {
				r.Sites++
				r.Decide("callgraph", fmt.Sprintf("URL.Scheme store in %s", fnName(f)), f == handle, "only the exchange function sets the scheme", "URL.Scheme is written outside the exchange function", st.Pos())
			}
		}
		// the IsSecure() test whose true edge leads to the https store
		var secs []*ssa.Call
		for _, c := range plainCalls(handle, "(*M.Session).IsSecure") {
			for _, e := range branchesOn(c) {
				for _, st := range schemeStores(handle) {
					if s, isC := constString(st.Val); isC && s == "https" && edgeDominatesTrue(e, st.Block()) {
						secs = append(secs, c)
					}
				}
			}
		}
		if len(secs) != 1 {
			r.Fail("path", "(*M.Proxy).handle: IsSecure tested", fmt.Sprintf("found %d IsSecure() tests guarding an https store, want 1", len(secs)), nil, handle.Pos())
			return
		}
		es := branchesOn(secs[0])
		if len(es) != 1 {
			r.Fail("path", "(*M.Proxy).handle: IsSecure tested", "IsSecure() is not branched on", nil, secs[0].Pos())
			return
		}
		isHTTPS := func(i ssa.Instruction) bool {
			st, ok := i.(*ssa.Store)
			if !ok {
				return false
			}
			s, isC := constString(st.Val)
			for _, x := range schemeStores(handle) {
				if x == st && isC && s == "https" {
					return true
				}
			}
			return false
		}
		isOtherScheme := func(i ssa.Instruction) bool {
			st, ok := i.(*ssa.Store)
			if !ok || isHTTPS(i) {
				return false
			}
			for _, x := range schemeStores(handle) {
				if x == st {
					return true
				}
			}
			return false
		}
		consumer := func(i ssa.Instruction) bool {
			_, hc := isCall(i, nHCR)
			return hc || isReqMod(i)
		}
		// secure edge: the https store happens before any modifier / CONNECT hand-off
		p := g.PathTo(blockStart(es[0].True), true, isHTTPS, consumer)
		r.Paths++
		r.Decide("path", "(*M.Proxy).handle: secure edge stores https before the modifier", p == nil, "every path from IsSecure()==true passes URL.Scheme = \"https\"", "a secure session reaches the request modifier without the scheme being forced to https", secs[0].Pos())
		// the test itself is on every path from the request read to the modifier
		if rdc := plainCalls(handle, "(*M.Proxy).readRequest"); len(rdc) == 1 {
			pp := g.PathTo([]ssa.Instruction{rdc[0]}, false, func(i ssa.Instruction) bool { return i == ssa.Instruction(secs[0]) }, consumer)
			r.Paths++
			r.Decide("path", "(*M.Proxy).handle: every request is tested for a secure session before the modifier", pp == nil, "IsSecure() is on every path from the request read to the modifier / CONNECT hand-off", "some requests (a particular target form, method, ...) reach the modifier without the secure-session test: inside a MITM tunnel they keep their own scheme and go upstream in cleartext", secs[0].Pos())
		}
		// and nothing overwrites it afterwards
		var bad []ssa.Instruction
		for _, in := range instrs(handle) {
			if isHTTPS(in) {
				bad = g.PathTo([]ssa.Instruction{in}, false, nil, isOtherScheme)
			}
		}
		// the session is marked secure before it is asked: no MarkSecure() can
		// still run after the IsSecure() test of the same exchange
		for _, c := range calls(handle, "(*M.Session).MarkSecure") {
			late := g.PathTo([]ssa.Instruction{secs[0]}, false, nil, func(i ssa.Instruction) bool { return i == ssa.Instruction(c) })
			r.Paths++
			r.Decide("path", "(*M.Proxy).handle: "+site(handle, c)+" precedes the secure-session test", late == nil, "the IsSecure() test cannot be followed by this MarkSecure()", "the session is marked secure only after IsSecure() was consulted: the first request on such a connection keeps its http scheme and goes upstream in cleartext", c.Pos())
		}
		r.Decide("path", "(*M.Proxy).handle: https is the last scheme store", bad == nil, "no scheme store is reachable after the https store", "the forced https scheme is overwritten later (downgrade)", secs[0].Pos())
		// MarkSecure only where the connection is a *tls.Conn; MarkInsecure never
		for _, f := range w.Funcs("") {
			if fnName(f) == "(*M.Session).MarkSecure" || fnName(f) == "(*M.Session).MarkInsecure" {
				continue
			}
			for _, c := range calls(f, "(*M.Session).MarkInsecure") {
				r.Fail("callgraph", "MarkInsecure called by the core: "+site(f, c), "the proxy core downgrades a session to insecure", nil, c.Pos())
			}
			for _, c := range calls(f, "(*M.Session).MarkSecure") {
				r.Sites++
				ok := false
				if f == handle {
					// dominated by the ok edge of an assertion of conn to *tls.Conn
					for _, in := range instrs(handle) {
						ta, isTA := in.(*ssa.TypeAssert)
						if !isTA || ta.AssertedType.String() != "*crypto/tls.Conn" || !ta.CommaOk {
							continue
						}
						if okEdgeDominates(ta, c.Block()) {
							if e := extractOf(ta, 0); e != nil {
								if t, _ := tlsAssert(e); t != nil {
									ok = true
								}
							}
						}
					}
				}
				r.Decide("path", "MarkSecure guarded by conn.(*tls.Conn): "+site(f, c), ok, "on the ok edge of the TLS assertion of this exchange's connection", "a session is marked secure without its connection being a *tls.Conn", c.Pos())
			}
		}
	})

	r.Guard("C05.R1", "a decrypted request is forwarded upstream over TLS: the proxy leaves the transport's TLS dialling alone", func() {
		// an https request goes out through Transport.Dial + the transport's own TLS handshake (or the
		// DialTLS hook its owner installed); the proxy core may set Dial, never the TLS dial hooks
		n := 0
		for _, f := range w.Funcs("", "mitm") {
			for _, in := range instrs(f) {
				st, isSt := in.(*ssa.Store)
				if !isSt {
					continue
				}
				fa, isFa := st.Addr.(*ssa.FieldAddr)
				if !isFa || namedOf(fa.X.Type()) != "Transport" {
					continue
				}
				n++
				switch fieldObj(fa).Name() {
				case "DialTLS", "DialTLSContext":
					r.Fail("callgraph", fnName(f)+" assigns net/http.Transport."+fieldObj(fa).Name(), "the proxy replaces the transport's TLS dial hook: connections to https origins are opened by a function that performs no TLS handshake, and every decrypted request is written upstream in cleartext while modifiers still see https", nil, st.Pos())
				}
				r.Touch(f)
			}
		}
		r.Decide("callgraph", "the proxy core configures its transport's plain dial only", n >= 2, fmt.Sprintf("%d stores to Transport fields, none to a TLS dial hook", n), "no store to a Transport field found: the anchor moved", token.NoPos)
	})

	r.Guard("C05.R1", "the HTTP/2 relay of a decrypted tunnel reaches its upstream over TLS only", func() {
		n := 0
		for _, f := range w.Funcs("h2") {
			for _, c := range calls(f) {
				switch calleeName(c) {
				case "net.Dial", "net.DialTimeout", "(*net.Dialer).Dial", "(*net.Dialer).DialContext", "net.DialTCP":
					r.Fail("callgraph", fnName(f)+": "+site(f, c)+" opens a plain connection", "the HTTP/2 relay can reach its upstream without TLS (a fallback for servers that do not answer the ClientHello with TLS): the stream decrypted from the tunnel, headers included, goes upstream in cleartext", nil, c.Pos())
				case "crypto/tls.Dial", "crypto/tls.DialWithDialer", "crypto/tls.Client", "(*crypto/tls.Dialer).DialContext":
					n++
					r.Touch(f)
				}
			}
		}
		r.Decide("callgraph", "M/h2: the upstream connection is a TLS connection", n >= 1, fmt.Sprintf("%d tls dial site(s), no plain dial", n), "no TLS dial found in h2: the anchor moved", token.NoPos)
	})

	r.Guard("C05.R2", "every request of a tunnel is read on the upgraded connection: TLS state attached exactly when the connection is TLS, and the loop follows the session's connection", func() {
		// stores to req.TLS
		forms := map[string]bool{}
		for _, in := range instrs(handle) {
			st, ok := in.(*ssa.Store)
			if !ok {
				continue
			}
			fa, ok := st.Addr.(*ssa.FieldAddr)
			if !ok || fa.X != req || fieldObj(fa).Name() != "TLS" {
				continue
			}
			r.Sites++
			// the stored state comes from ConnectionState() of the asserted conn
			var form string
			sl := w.backSlice(st.Val, flowOpt{})
			for v := range sl {
				if c, ok := v.(*ssa.Call); ok && calleeName(c) == "(*crypto/tls.Conn).ConnectionState" {
					if ta, f := tlsAssert(c.Call.Args[0]); ta != nil && okEdgeDominates(ta, st.Block()) {
						form = f
					}
				}
			}
			forms[form] = true
			r.Decide("flow", "(*M.Proxy).handle: req.TLS store ("+form+" connection)", form != "", "ConnectionState() of this exchange's connection asserted to *tls.Conn ("+form+" form), on the ok edge", "req.TLS is set from something other than the TLS state of this exchange's connection", st.Pos())
		}
		// the connection type is examined for every request, and a TLS connection always gets its state attached
		if rdc := plainCalls(handle, "(*M.Proxy).readRequest"); len(rdc) == 1 {
			consumer := func(i ssa.Instruction) bool {
				_, hc := isCall(i, nHCR)
				return hc || isReqMod(i)
			}
			for _, in := range instrs(handle) {
				ta, isTA := in.(*ssa.TypeAssert)
				if !isTA || !ta.CommaOk || ta.X != connP {
					continue
				}
				at := ta.AssertedType.String()
				if at != "*crypto/tls.Conn" && at != "*"+M+"/trafficshape.Conn" {
					continue
				}
				if at != "*crypto/tls.Conn" {
					// only the assertion that leads to a TLS store
					leads := false
					for _, in2 := range instrs(handle) {
						if st, ok := in2.(*ssa.Store); ok {
							if fa, ok := st.Addr.(*ssa.FieldAddr); ok && sameAs(fa.X, req) && fieldObj(fa).Name() == "TLS" && okEdgeDominates(ta, st.Block()) {
								leads = true
							}
						}
					}
					if !leads {
						continue
					}
				}
				pp := g.PathTo([]ssa.Instruction{rdc[0]}, false, func(i ssa.Instruction) bool { return i == ssa.Instruction(ta) }, consumer)
				r.Paths++
				r.Decide("path", "(*M.Proxy).handle: connection examined for TLS on every request (conn.("+at+"))", pp == nil, "the assertion is on every path from the request read to the modifier", "some requests skip the TLS examination of their connection (e.g. once the session is already secure): later requests of a tunnel carry no req.TLS", ta.Pos())
			}
			// from the ok edge of a *tls.Conn assertion every path stores req.TLS before the modifier
			isTLSStore := func(i ssa.Instruction) bool {
				st, ok := i.(*ssa.Store)
				if !ok {
					return false
				}
				fa, ok := st.Addr.(*ssa.FieldAddr)
				return ok && sameAs(fa.X, req) && fieldObj(fa).Name() == "TLS"
			}
			for _, in := range instrs(handle) {
				ta, isTA := in.(*ssa.TypeAssert)
				if !isTA || !ta.CommaOk || ta.AssertedType.String() != "*crypto/tls.Conn" {
					continue
				}
				if okv := extractOf(ta, 1); okv != nil {
					for _, e := range branchesOn(okv) {
						pp := g.PathTo(blockStart(e.True), true, isTLSStore, consumer)
						r.Paths++
						_, form := tlsAssert(extractOf(ta, 0))
						r.Decide("path", "(*M.Proxy).handle: a TLS connection always gets req.TLS ("+form+" form)", pp == nil, "every path from the ok edge stores req.TLS before the modifier", "a request on a TLS connection can reach the modifier without req.TLS", ta.Pos())
						// ... and marks the session secure before the scheme is decided
						isMark := func(i ssa.Instruction) bool { _, y := isCall(i, "(*M.Session).MarkSecure"); return y }
						decided := func(i ssa.Instruction) bool {
							_, y := isCall(i, "(*M.Session).IsSecure")
							return y || consumer(i)
						}
						pm := g.PathTo(blockStart(e.True), true, isMark, decided)
						r.Paths++
						r.Decide("path", "(*M.Proxy).handle: a TLS connection always marks its session secure ("+form+" form)", pm == nil, "every path from the ok edge calls MarkSecure before the IsSecure test", "a request on a TLS connection ("+form+") reaches the scheme decision with the session unmarked: it keeps scheme http and is forwarded in cleartext", ta.Pos())
					}
				}
			}
		}
		r.Decide("sibling", "(*M.Proxy).handle: TLS state attached for bare and traffic-shaped TLS connections", forms["bare"] && forms["shaped"], "both forms present", fmt.Sprintf("forms found: %v; a TLS connection (bare or wrapped by traffic shaping) would be served without req.TLS", forms), handle.Pos())
		// the TLS store precedes the modifier
		for _, in := range instrs(handle) {
			if st, ok := in.(*ssa.Store); ok {
				if fa, ok := st.Addr.(*ssa.FieldAddr); ok && sameAs(fa.X, req) && fieldObj(fa).Name() == "TLS" {
					for _, c := range calls(handle) {
						if isReqMod(c) && g.PathTo([]ssa.Instruction{c}, false, nil, func(i ssa.Instruction) bool { return i == ssa.Instruction(st) }) != nil {
							r.Fail("path", "(*M.Proxy).handle: TLS state attached before the modifier", "req.TLS is stored after the request modifier ran", nil, st.Pos())
						}
					}
				}
			}
		}
		// hand-offs with a connection that is not the handler's own parameter
		upgraded := 0
		for _, c := range plainCalls(hcr, nHandle) {
			arg := c.Call.Args[2]
			if isParamVal(unwrapIface(arg), hcr.Params[5]) {
				continue
			}
			upgraded++
		}
		// the loop takes its connection from session state
		lc := plainCalls(loop, nHandle)
		if len(lc) != 1 {
			r.Undecided("(*M.Proxy).handleLoop: handle call", "UNRESOLVED")
			return
		}
		arg := lc[0].Call.Args[2]
		fromSession := anyIn(w.backSlice(arg, flowOpt{Calls: true}), func(v ssa.Value) bool { return isFieldRef(v, M, "Session", "conn") })
		selfLoop := false // (B) the hand-off serves the upgraded connection itself until closeable
		r.Decide("flow", "(*M.Proxy).handleLoop: connection argument follows the session", upgraded == 0 || fromSession || selfLoop, fmt.Sprintf("%d upgrade hand-offs; the loop reads Session.conn for every request", upgraded), "the CONNECT handler upgrades the connection but the loop keeps passing its accept-time connection: requests 2..N of a MITM tunnel carry no TLS state", lc[0].Pos())
		// the session the loop reads is the one the exchanges use
		if fromSession {
			sessOK := anyIn(w.backSlice(arg, flowOpt{}), func(v ssa.Value) bool {
				c, ok := v.(*ssa.Call)
				if !ok || c.Call.StaticCallee() == nil || len(c.Call.Args) == 0 {
					return false
				}
				return anyIn(w.backSlice(c.Call.Args[0], flowOpt{}), func(x ssa.Value) bool { return isCallValue(x, "M.newSession") })
			})
			r.Decide("flow", "(*M.Proxy).handleLoop: the connection is read from this connection's session", sessOK, "receiver derives from the loop's newSession", "the loop reads the connection of a different session", lc[0].Pos())
		}
	})

	r.Guard("C05.R3", "the session's connection follows the TLS upgrade (a hijacker gets the decrypted connection)", func() {
		sessionConnIsServedConnRule(r)
		// the shaped connection wraps the accepted connection itself: handle recognises a TLS tunnel
		// by GetWrappedConn().(*tls.Conn), which another wrapper in between defeats
		if gt := r.W.Fn("trafficshape", "Listener.GetTrafficShapedConn"); gt != nil && gt.Blocks != nil && len(gt.Params) > 1 {
			r.Touch(gt)
			nc, direct := 0, true
			for _, a := range allocsOf(gt, M+"/trafficshape.Conn") {
				for _, st := range litFieldStores(a)["conn"] {
					nc++
					for _, l := range resolveAll(st.Val) {
						if !isParamVal(l, gt.Params[1]) {
							direct = false
						}
					}
				}
			}
			r.Decide("flow", "(*M/trafficshape.Listener).GetTrafficShapedConn wraps the connection it is given", nc >= 1 && direct, "Conn.conn is the parameter", "the shaped connection wraps another wrapper around the accepted connection: handle no longer finds the *tls.Conn behind it, and every request of a shaped MITM tunnel is served as plain http on an insecure session and forwarded in cleartext", gt.Pos())
		}
		// what setConn records is what Hijack and the connection loop hand out: every field
		// setConn stores is loaded by Hijack and by currentConn, and each of them returns
		// nothing but those fields
		if ST := w.Named("", "Session"); ST != nil {
			sc, hj, cc := w.method(ST, "setConn"), w.method(ST, "Hijack"), w.method(ST, "currentConn")
			if sc == nil || hj == nil || cc == nil {
				r.Undecided("(*M.Session).setConn / Hijack / currentConn", "UNRESOLVED")
			} else {
				for fo := range fieldsWritten(sc) {
					for _, g := range []*ssa.Function{hj, cc} {
						if g == cc && fo.Type().String() != "net.Conn" {
							continue
						}
						_, rd := fieldsRead(g)[fo]
						r.Decide("sibling", fmt.Sprintf("%s hands out Session.%s as recorded by setConn", fnName(g), fo.Name()), rd, "the field setConn stores is the one loaded", fmt.Sprintf("setConn records the upgraded connection in Session.%s, which %s does not read: after the TLS upgrade it still hands out the accept-time (cleartext) connection", fo.Name(), fnName(g)), g.Pos())
					}
				}
			}
		}
		// and the traffic-shaping wrapper hands out the connection directly under it (the
		// exchange function asserts that one to *tls.Conn)
		if gw := w.Fn("trafficshape", "Conn.GetWrappedConn"); gw != nil && gw.Blocks != nil {
			r.Touch(gw)
			direct := len(returns(gw)) > 0
			for _, ret := range returns(gw) {
				for _, v := range resolveAll(ret.Results[0]) {
					ld, ok := v.(*ssa.UnOp)
					if !ok || ld.Op != token.MUL {
						direct = false
						continue
					}
					if fa, ok := ld.X.(*ssa.FieldAddr); !ok || fa.X != ssa.Value(gw.Params[0]) || fieldObj(fa).Name() != "conn" {
						direct = false
					}
				}
			}
			r.Decide("flow", "(*M/trafficshape.Conn).GetWrappedConn returns the connection it wraps", direct, "return c.conn", "GetWrappedConn returns something other than the directly wrapped connection (e.g. the socket under a TLS layer): on a traffic-shaped listener the exchange function's *tls.Conn assertion fails, the session stays insecure and decrypted requests go upstream as http", gw.Pos())
		} else {
			r.Undecided("(*M/trafficshape.Conn).GetWrappedConn", "UNRESOLVED")
		}
		gh := G(hcr)
		n := 0
		for _, c := range plainCalls(hcr, nHandle) {
			arg := c.Call.Args[2]
			if isParamVal(unwrapIface(arg), hcr.Params[5]) {
				continue
			}
			n++
			ok := false
			for _, sc := range plainCalls(hcr, "(*M.Session).setConn") {
				if isParamVal(sc.Call.Args[0], hcr.Params[3]) && sc.Call.Args[1] == arg && sc.Call.Args[2] == c.Call.Args[3] && gh.Before(sc, c) {
					ok = true
				}
			}
			r.Paths++
			// ... and only once the handshake has succeeded (a session that points at a TLS
			// connection whose handshake failed serves the cleartext that follows as if it were
			// decrypted)
			for _, sc := range plainCalls(hcr, "(*M.Session).setConn") {
				afterHS := false
				for _, hs := range plainCalls(hcr, "(*crypto/tls.Conn).Handshake", "(*crypto/tls.Conn).HandshakeContext") {
					for _, t := range errTests(hs) {
						if blockDominates(t.Nil, sc.Block()) {
							afterHS = true
						}
					}
				}
				r.Decide("path", "(*M.Proxy).handleConnectRequest: the session follows the TLS upgrade only after a successful handshake", afterHS, "setConn lies behind the nil edge of Handshake()", "the session's connection is switched to the TLS server before (or regardless of) the handshake: after a failed handshake the cleartext requests that follow are presented as secure, with TLS state attached", sc.Pos())
			}
			r.Decide("path", "(*M.Proxy).handleConnectRequest: session.setConn(nconn, brw) before the upgraded hand-off "+fmt.Sprintf("#%d", n), ok, "setConn with the same connection and reader dominates the hand-off", "the upgraded connection is never recorded in the session: Session.Hijack returns the cleartext-side connection", c.Pos())
			// the upgraded connection derives from tls.Server after a successful handshake
			fromTLS := anyIn(w.backSlice(arg, flowOpt{Through: map[string]bool{"(*M/trafficshape.Listener).GetTrafficShapedConn": true}}), func(v ssa.Value) bool { return isCallValue(v, "crypto/tls.Server") })
			hs := plainCalls(hcr, "(*crypto/tls.Conn).Handshake", "(*crypto/tls.Conn).HandshakeContext")
			hsOK := false
			for _, h := range hs {
				for _, t := range errTests(h) {
					for k, s := range t.If.Block().Succs {
						if s == t.Nil && edgeDominates(t.If.Block(), k, c.Block()) {
							hsOK = true
						}
					}
				}
			}
			r.Decide("flow", "(*M.Proxy).handleConnectRequest: upgraded hand-off "+fmt.Sprintf("#%d", n)+" uses the tls.Server connection after a successful handshake", fromTLS && hsOK, "derives from tls.Server, dominated by Handshake()==nil", "the hand-off connection is not the handshaken TLS server connection", c.Pos())
		}
		if n == 0 {
			r.Fail("path", "(*M.Proxy).handleConnectRequest: upgraded hand-off", "no hand-off on a TLS-upgraded connection found: MITM'd requests are not decrypted", nil, hcr.Pos())
		}
	})

	r.Guard("C05.R4", "the CONNECT request and everything inside its tunnel share one session", func() {
		setterStoresRule(r, "", "Proxy", "SetMITM", "mitm", "CONNECT tunnels are relayed blindly although MITM was configured")
		for _, c := range plainCalls(hcr, nHandle) {
			r.Decide("flow", "hand-off passes the handler's own context: "+site(hcr, c), isParamVal(c.Call.Args[1], hcr.Params[1]), "ctx parameter forwarded", "a different context (hence session) is used inside the tunnel", c.Pos())
		}
		for _, c := range plainCalls(handle, nHCR) {
			sessArg := c.Call.Args[3]
			ok := isCallValue(sessArg, "(*M.Context).Session") && isParamVal(sessArg.(*ssa.Call).Call.Args[0], handle.Params[1])
			r.Decide("flow", "CONNECT handler receives the connection's session: "+site(handle, c), ok, "session is ctx.Session() of the exchange function's context parameter", "the CONNECT handler is given a session other than the connection's", c.Pos())
			r.Decide("flow", "CONNECT handler receives the exchange's connection: "+site(handle, c), unwrapIface(c.Call.Args[5]) == connP && isParamVal(c.Call.Args[4], handle.Params[3]), "conn and brw parameters forwarded", "the CONNECT handler works on a different connection/reader than the exchange", c.Pos())
		}
	})

	r.Guard("C05.R5", "traffic in a tunnel that is not TLS is served as plain HTTP on an insecure session", func() {
		plain := 0
		for _, c := range plainCalls(hcr, nHandle) {
			if unwrapIface(c.Call.Args[2]) != ssa.Value(hcr.Params[5]) {
				continue
			}
			plain++
			r.Hold("flow", "(*M.Proxy).handleConnectRequest: plain hand-off keeps the original connection", "conn parameter forwarded", c.Pos())
		}
		if plain == 0 {
			r.Fail("flow", "(*M.Proxy).handleConnectRequest: plain hand-off keeps the original connection", "no hand-off with the original connection: non-TLS tunnel traffic is not served", nil, hcr.Pos())
		}
		ms := len(calls(hcr, "(*M.Session).MarkSecure"))
		r.Decide("callgraph", "(*M.Proxy).handleConnectRequest: never marks the session secure itself", ms == 0, "security is derived from the connection type in the exchange function only", "the CONNECT handler marks the session secure regardless of what the tunnel carries", hcr.Pos())
	})

	r.Guard("C05.R6", "the tunnel's authority is used: as certificate host when SNI is absent and as URL host when the request has none", func() {
		tlsConfigFreshRule(r)
		connectAuthorityKeptRule(r)
		// the authority reaches the certificate as a host: its port is removed by
		// net.SplitHostPort (which understands bracketed IPv6 literals), not by cutting the text
		if cert := r.W.Fn("mitm", "Config.cert"); cert != nil && cert.Blocks != nil && len(cert.Params) > 1 {
			r.Touch(cert)
			split := false
			for _, c := range plainCalls(cert, "net.SplitHostPort") {
				if isParamVal(c.Call.Args[0], cert.Params[1]) {
					split = true
				}
			}
			cut := false
			for _, in := range instrs(cert) {
				if sl, isSl := in.(*ssa.Slice); isSl {
					if b, isB := sl.X.Type().Underlying().(*types.Basic); isB && b.Kind() == types.String {
						cut = true
					}
				}
			}
			r.Decide("flow", "(*M/mitm.Config).cert: the tunnel authority's port is removed by net.SplitHostPort", split && !cut, "SplitHostPort(hostname); the name is never sliced", "the port is cut off the authority by text (at the last colon): an IPv6 literal keeps its brackets, the certificate carries a DNS name \"[::1]\" instead of the IP, the client refuses it and the tunnel is not decrypted", cert.Pos())
		}
		// TLSForHost(req.Host) of the CONNECT request
		ok := false
		var pos token.Pos = hcr.Pos()
		for _, c := range plainCalls(hcr, "(*M/mitm.Config).TLSForHost") {
			pos = c.Pos()
			if ld, isLd := c.Call.Args[1].(*ssa.UnOp); isLd {
				if fa, isFa := ld.X.(*ssa.FieldAddr); isFa && isParamVal(fa.X, hcr.Params[2]) && fieldObj(fa).Name() == "Host" {
					ok = true
				}
			}
		}
		r.Decide("flow", "(*M.Proxy).handleConnectRequest: TLS config built for the CONNECT authority", ok, "TLSForHost(req.Host) of the CONNECT request", "the MITM TLS config is not built from the CONNECT request's authority", pos)
		// URL.Host defaulting
		ok2 := false
		for _, in := range instrs(handle) {
			st, isSt := in.(*ssa.Store)
			if !isSt {
				continue
			}
			fa, isFa := st.Addr.(*ssa.FieldAddr)
			if !isFa || fieldObj(fa).Name() != "Host" || fa.X.Type().String() != "*net/url.URL" {
				continue
			}
			if ld, isLd := st.Val.(*ssa.UnOp); isLd {
				if fh, isFh := ld.X.(*ssa.FieldAddr); isFh && sameAs(fh.X, req) && fieldObj(fh).Name() == "Host" {
					before := true
					for _, c := range calls(handle) {
						if (isReqMod(c) || calleeName(c) == nHCR) && !G(handle).Before(branchOf(st), c) {
							before = false
						}
					}
					ok2 = before
				}
			}
		}
		r.Decide("flow", "(*M.Proxy).handle: empty URL.Host defaults to the Host header before modifiers run", ok2, "req.URL.Host = req.Host precedes the modifier", "a request without a URL host reaches modifiers without the authority filled in", handle.Pos())
	})
}

func extractOf(ta *ssa.TypeAssert, idx int) ssa.Value {
	if ta.Referrers() == nil {
		return nil
	}
	for _, u := range *ta.Referrers() {
		if e, ok := u.(*ssa.Extract); ok && e.Index == idx {
			return e
		}
	}
	return nil
}

// branchOf returns the If that guards the block of i (its immediate
// dominator's terminator), or i itself.
func branchOf(i ssa.Instruction) ssa.Instruction {
	b := i.Block()
	if d := b.Idom(); d != nil && len(d.Instrs) > 0 {
		return d.Instrs[len(d.Instrs)-1]
	}
	return i
}

func init() {
	prev := props["C05"]
	props["C05"] = func(r *Report) {
		prev(r)
		if !r.W.full {
			return
		}
		r.Guard("C05.R1", r.RuleDoc["C05.R1"], func() {
			for _, n := range []string{"Session.MarkSecure", "Session.MarkInsecure", "Session.setConn"} {
				r.dynamicCallerRule(r.W.Fn("", n), "the session's security state changed outside the exchange functions")
			}
		})
	}
}

// sessionConnIsServedConnRule: the connection recorded on the session after a
// TLS upgrade is the connection the tunnel's requests are then served on (the
// value handed to handle): with a traffic-shaped listener that is the shaping
// wrapper, through which the per-response shaping context is reset. Shared by
// C05.R3 and C18.R5.
func sessionConnIsServedConnRule(r *Report) {
	hcr := r.W.Fn("", "Proxy.handleConnectRequest")
	if hcr == nil || hcr.Blocks == nil {
		r.Undecided("M.Proxy.handleConnectRequest", "UNRESOLVED")
		return
	}
	r.Touch(hcr)
	g := G(hcr)
	n := 0
	for _, sc := range plainCalls(hcr, "(*M.Session).setConn") {
		n++
		ok := false
		for _, hc := range plainCalls(hcr, "(*M.Proxy).handle") {
			if g.PathTo([]ssa.Instruction{sc}, false, nil, func(i ssa.Instruction) bool { return i == ssa.Instruction(hc) }) == nil {
				continue
			}
			a, b := sc.Call.Args[1], hc.Call.Args[2]
			if a == b || sameAs(a, b) {
				ok = true
			}
			for _, la := range resolveAll(a) {
				for _, lb := range resolveAll(b) {
					if la == lb {
						ok = true
					}
				}
			}
		}
		r.Decide("flow", "(*M.Proxy).handleConnectRequest: "+site(hcr, sc)+" records the connection the tunnel is served on", ok, "setConn(c, brw) and handle(ctx, c, brw) name the same connection", "the session records another connection than the one the tunnel's requests are served on (the bare TLS connection instead of the shaping wrapper): later exchanges of the tunnel do not reach the wrapper - their shaping context is never reset, and a hijacker is handed a connection that bypasses it", sc.Pos())
	}
	r.Decide("flow", "(*M.Proxy).handleConnectRequest records the upgraded connection", n >= 1, fmt.Sprintf("%d setConn call(s)", n), "no setConn call", hcr.Pos())
}
