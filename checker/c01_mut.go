package main

func init() {
	mut("C01", "drop-flush", "proxy.go", "\terr = brw.Flush()\n\tif err != nil {\n\t\tlog.Errorf(\"martian: got error while flushing response back to client: %v\", err)\n\t\tclosing = errClose", "\terr = nil\n\tif err != nil {\n\t\tlog.Errorf(\"martian: got error while flushing response back to client: %v\", err)\n\t\tclosing = errClose", "C01.R1", "normal exit")
	mut("C01", "write-twice-on-502", "proxy.go",
		"\t\tres = proxyutil.NewResponse(502, nil, req)\n\t\tproxyutil.Warning(res.Header, err)\n\t}\n\tdefer res.Body.Close()",
		"\t\tres = proxyutil.NewResponse(502, nil, req)\n\t\tproxyutil.Warning(res.Header, err)\n\t\tres.Write(brw)\n\t}\n\tdefer res.Body.Close()",
		"C01.R1", "normal exit")
	mut("C01", "drop-closing-disjunct", "proxy.go", "if req.Close || res.Close || p.Closing() {", "if req.Close || res.Close {", "C01.R3", "p.Closing()")
	mut("C01", "drop-reqclose-disjunct", "proxy.go", "if req.Close || res.Close || p.Closing() {", "if res.Close || p.Closing() {", "C01.R3", "req.Close")
	mut("C01", "mark-close-but-keep-open", "proxy.go", "\t\tres.Close = true\n\t\tclosing = errClose\n", "\t\tres.Close = true\n\t\tclosing = nil\n", "C01.R3", "close requested by")
	mut("C01", "close-not-marked", "proxy.go", "\t\tres.Close = true\n\t\tclosing = errClose\n", "\t\tclosing = errClose\n", "C01.R3", "close requested by")
	mut("C01", "stray-header-del", "proxy.go", "\t// Not a CONNECT request\n", "\t// Not a CONNECT request\n\treq.Header.Del(\"Proxy-Connection\")\n", "C01.R4", "header edit")
	mut("C01", "concurrent-handoff", "proxy.go", "\t\treturn p.handle(ctx, conn, brw)\n\t}\n\n\tlog.Debugf(\"martian: attempting to establish CONNECT tunnel", "\t\tgo p.handle(ctx, conn, brw)\n\t\treturn nil\n\t}\n\n\tlog.Debugf(\"martian: attempting to establish CONNECT tunnel", "C01.R5", "")
	mut("C01", "drop-body-close", "proxy.go", "\tdefer req.Body.Close()\n", "", "C01.R2", "")
	mut("C01", "body-close-after-modifier", "proxy.go", "\tdefer req.Body.Close()\n\n\tsession := ctx.Session()", "\tsession := ctx.Session()", "C01.R2", "")
	mut("C01", "errclose-not-closeable", "proxy.go", "\tcase io.EOF, io.ErrClosedPipe, errClose:", "\tcase io.EOF, io.ErrClosedPipe:", "C01.R3", "isCloseable")
	mut("C01", "return-between-write-and-flush", "proxy.go", "\t\tclosing = errClose\n\t}\n\terr = brw.Flush()", "\t\treturn errClose\n\t}\n\terr = brw.Flush()", "C01.R1", "normal exit")
	twin("C01", "close-disjuncts-reordered", "proxy.go", "if req.Close || res.Close || p.Closing() {", "if p.Closing() || res.Close || req.Close {")
	twin("C01", "errclose-through-local", "proxy.go", "\t\tres.Close = true\n\t\tclosing = errClose\n", "\t\tec := errClose\n\t\tres.Close = true\n\t\tclosing = ec\n")
	twin("C01", "iscloseable-if-chain", "proxy.go", "\tswitch err {\n\tcase io.EOF, io.ErrClosedPipe, errClose:\n\t\treturn true\n\t}\n", "\tif err == io.EOF || err == io.ErrClosedPipe {\n\t\treturn true\n\t}\n\tif errClose == err {\n\t\treturn true\n\t}\n")
	mut("C01", "body-dropped-before-roundtrip", "proxy.go", "\t// Not a CONNECT request\n", "\t// Not a CONNECT request\n\tif req.ContentLength == 0 {\n\t\treq.Body = http.NoBody\n\t}\n", "C01.R4", "Body")
	twin("C01", "remote-addr-via-local", "proxy.go", "\treq.RemoteAddr = conn.RemoteAddr().String()\n", "\tra := conn.RemoteAddr().String()\n\treq.RemoteAddr = ra\n")
	mut("C01", "close-on-unknown-length", "proxy.go", "\tif req.Close || res.Close || p.Closing() {", "\tif req.Close || res.Close || res.ContentLength < 0 || p.Closing() {", "C01.R3", "marked close only")
	mut("C01", "errclose-without-close-request", "proxy.go", "\tvar closing error\n", "\tvar closing error\n\tif res.StatusCode >= 500 {\n\t\tclosing = errClose\n\t}\n", "C01.R3", "ends the connection only")
	mut("C01", "settimeout-drops-argument", "proxy.go", "\tp.timeout = timeout\n", "\t_ = timeout\n", "C01.R5", "SetTimeout stores its argument")
	mut("C01", "deadline-once-per-connection", "proxy.go", "\tfor {\n\t\tdeadline := time.Now().Add(p.timeout)\n\t\tconn.SetDeadline(deadline)\n", "\tdeadline := time.Now().Add(p.timeout)\n\tfor {\n\t\tconn.SetDeadline(deadline)\n", "C01.R5", "is computed for each exchange")
	twin("C01", "deadline-inline", "proxy.go", "\t\tdeadline := time.Now().Add(p.timeout)\n\t\tconn.SetDeadline(deadline)\n", "\t\tconn.SetDeadline(time.Now().Add(p.timeout))\n")
}
