package main

import (
	"fmt"
	"go/token"
	"go/types"
	"sort"
	"strings"

	"golang.org/x/tools/go/ssa"
)

const pHTTP2 = "golang.org/x/net/http2"

func init() {
	props["C08"] = func(r *Report) {
		c08(r)
		r.Guard("C08.R9", "every lock taken is released on every exit: the relay's mutexes", func() { lockPairRule(r, "h2") })
	}
	floors["C08"] = map[string]int{"C08.R1": 10, "C08.R2": 29, "C08.R3": 2, "C08.R4": 20, "C08.R5": 10, "C08.R6": 2, "C08.R7": 1, "C08.R8": 16, "C08.R9": 1}
}

// frameCases maps each asserted frame type name in the dispatcher to the
// value of the asserted frame.
func frameCases(pf *ssa.Function) map[string]ssa.Value {
	out := map[string]ssa.Value{}
	for _, in := range instrs(pf) {
		ta, ok := in.(*ssa.TypeAssert)
		if !ok || !ta.CommaOk || ta.X != ssa.Value(pf.Params[1]) {
			continue
		}
		p, ok := ta.AssertedType.(*types.Pointer)
		if !ok {
			continue
		}
		n, ok := p.Elem().(*types.Named)
		if !ok || n.Obj().Pkg() == nil || n.Obj().Pkg().Path() != pHTTP2 {
			continue
		}
		if v := extractOf(ta, 0); v != nil {
			out[n.Obj().Name()] = v
		}
	}
	return out
}

// srcSpec names where a forwarded value must come from: "call:Method" (a
// method called on the frame), "field:Name" (a field of the frame, possibly
// in its embedded FrameHeader), or "frame" (the frame value itself).
func fromFrame(w *World, v ssa.Value, frame ssa.Value, spec string, through map[string]bool) bool {
	sl := w.backSlice(v, flowOpt{Through: through, Fields: strings.HasPrefix(spec, "viafield:")})
	kind, name, _ := strings.Cut(spec, ":")
	for x := range sl {
		switch kind {
		case "frame":
			if x == frame {
				return true
			}
		case "call":
			if c, ok := x.(*ssa.Call); ok && c.Call.StaticCallee() != nil && c.Call.StaticCallee().Name() == name && len(c.Call.Args) > 0 && c.Call.Args[0] == frame {
				return true
			}
		case "field":
			if fa, ok := x.(*ssa.FieldAddr); ok && fieldObj(fa).Name() == name {
				base := fa.X
				if fa2, ok := base.(*ssa.FieldAddr); ok && fieldObj(fa2).Embedded() {
					base = fa2.X
				}
				if base == frame {
					return true
				}
			}
		}
	}
	return false
}

func c08(r *Report) {
	w := r.W
	r.Decline("HPACK decodability at the receiver and actual per-stream order on the wire (runtime state of two dynamic tables)")
	r.Decline("padding on input beyond window credit (C09.R1), transport segmentation beyond the preface read (C08.R7: Framer.ReadFrame is x/net's)")
	r.Decline("UnknownFrame / MetaHeadersFrame handling (not part of an RFC-valid sequence of the listed kinds)")
	pf := r.Use("h2", "relay.processFrame")
	rf := r.Use("h2", "relay.relayFrames")
	if pf == nil || rf == nil {
		return
	}
	cases := frameCases(pf)
	through := map[string]bool{"(*M/h2.relay).decodeFull": true, "(*bytes.Buffer).Bytes": true}

	r.Guard("C08.R1", "the frame dispatcher has a case for every frame kind the framer can return", func() {
		h2p := w.Pkgs[P("h2")]
		var http2pkg *types.Package
		for _, imp := range h2p.Types.Imports() {
			if imp.Path() == pHTTP2 {
				http2pkg = imp
			}
		}
		if http2pkg == nil {
			r.Undecided("x/net/http2", "UNRESOLVED: package not imported by h2")
			return
		}
		frameI, _ := http2pkg.Scope().Lookup("Frame").Type().Underlying().(*types.Interface)
		var names []string
		for _, n := range http2pkg.Scope().Names() {
			tn, ok := http2pkg.Scope().Lookup(n).(*types.TypeName)
			if !ok || !tn.Exported() {
				continue
			}
			if _, isS := tn.Type().Underlying().(*types.Struct); !isS {
				continue
			}
			if types.Implements(types.NewPointer(tn.Type()), frameI) && strings.HasSuffix(n, "Frame") && n != "MetaHeadersFrame" && n != "UnknownFrame" {
				names = append(names, n)
			}
		}
		sort.Strings(names)
		for _, n := range names {
			_, ok := cases[n]
			r.Sites++
			r.Decide("table", "(*M/h2.relay).processFrame: case *http2."+n, ok, "handled", "the dispatcher has no case for *http2."+n+": such frames end the connection with \"unrecognized frame type\" instead of being relayed", pf.Pos())
		}
	})

	r.Guard("C08.R2", "every semantically relevant part of each frame reaches the processor / the destination framer", func() {
		type ob struct {
			frame, sink string
			arg         int // argument index of the sink call (0 = receiver for methods, as in ssa)
			src         string
		}
		obs := []ob{
			{"DataFrame", "invoke:Data", 0, "call:Data"}, {"DataFrame", "invoke:Data", 1, "call:StreamEnded"}, {"DataFrame", "processor", 1, "field:StreamID"},
			{"DataFrame", "(*M/h2.relay).sendWindowUpdates", 1, "frame"},
			{"HeadersFrame", "invoke:Header", 0, "call:HeaderBlockFragment"}, {"HeadersFrame", "invoke:Header", 1, "call:StreamEnded"}, {"HeadersFrame", "invoke:Header", 2, "field:Priority"}, {"HeadersFrame", "processor", 1, "field:StreamID"},
			{"HeadersFrame", "(*bytes.Buffer).Write", 1, "call:HeaderBlockFragment"},
			{"PriorityFrame", "invoke:Priority", 0, "field:PriorityParam"}, {"PriorityFrame", "processor", 1, "field:StreamID"},
			{"RSTStreamFrame", "invoke:RSTStream", 0, "field:ErrCode"}, {"RSTStreamFrame", "processor", 1, "field:StreamID"},
			{"PushPromiseFrame", "invoke:PushPromise", 0, "field:PromiseID"}, {"PushPromiseFrame", "invoke:PushPromise", 1, "call:HeaderBlockFragment"}, {"PushPromiseFrame", "processor", 1, "field:StreamID"},
			{"PushPromiseFrame", "(*bytes.Buffer).Write", 1, "call:HeaderBlockFragment"},
			{"PingFrame", "(*" + pHTTP2 + ".Framer).WritePing", 1, "call:IsAck"}, {"PingFrame", "(*" + pHTTP2 + ".Framer).WritePing", 2, "field:Data"},
			{"GoAwayFrame", "(*" + pHTTP2 + ".Framer).WriteGoAway", 1, "field:LastStreamID"}, {"GoAwayFrame", "(*" + pHTTP2 + ".Framer).WriteGoAway", 2, "field:ErrCode"}, {"GoAwayFrame", "(*" + pHTTP2 + ".Framer).WriteGoAway", 3, "call:DebugData"},
			{"WindowUpdateFrame", "(*M/h2.relay).updateWindow", 1, "frame"},
			{"ContinuationFrame", "(*bytes.Buffer).Write", 1, "call:HeaderBlockFragment"}, {"ContinuationFrame", "processor", 1, "field:StreamID"},
		}
		for _, o := range obs {
			frame := cases[o.frame]
			key := fmt.Sprintf("*http2.%s: %s reaches %s arg#%d", o.frame, o.src, o.sink, o.arg)
			if frame == nil {
				r.Fail("flow", key, "no case for this frame kind", nil, pf.Pos())
				continue
			}
			ok := false
			for _, c := range calls(pf) {
				cc := c.Common()
				var args []ssa.Value
				match := false
				switch {
				case strings.HasPrefix(o.sink, "invoke:"):
					if cc.IsInvoke() && cc.Method.Name() == o.sink[7:] {
						match = true
						args = cc.Args
					}
				case o.sink == "processor":
					if calleeName(c) == "(*M/h2.relay).processor" {
						match = true
						args = cc.Args
					}
				default:
					if calleeName(c) == o.sink {
						match = true
						args = cc.Args
					}
				}
				if !match || o.arg >= len(args) {
					continue
				}
				if fromFrame(w, args[o.arg], frame, o.src, through) {
					ok = true
				}
			}
			r.Sites++
			r.Decide("flow", key, ok, "def-use path from the frame accessor to the sink argument", "this part of the frame does not reach the sink (constant, dropped or taken from elsewhere): the peer receives a different frame", pf.Pos())
		}
		// the continuation states remember what the opening frame carried
		for _, cs := range []struct{ typ, field, frame, src string }{
			{"headerContinuation", "priority", "HeadersFrame", "field:Priority"},
			{"pushPromiseContinuation", "promiseID", "PushPromiseFrame", "field:PromiseID"},
		} {
			ok := false
			for _, a := range allocsOf(pf, P("h2")+"."+cs.typ) {
				for _, st := range litFieldStores(a)[cs.field] {
					if fromFrame(w, st.Val, cases[cs.frame], cs.src, nil) {
						ok = true
					}
				}
			}
			r.Decide("flow", fmt.Sprintf("*http2.%s (to be continued): %s is remembered in %s.%s", cs.frame, cs.src, cs.typ, cs.field), ok, "stored into the continuation state", "the continuation state does not carry this part of the opening frame", pf.Pos())
		}
		// SETTINGS: every setting is forwarded, and the ack flag is honoured
		sf := cases["SettingsFrame"]
		okAck, okAll := false, false
		if sf != nil {
			for _, c := range plainCalls(pf, "(*"+pHTTP2+".Framer).WriteSettingsAck") {
				for _, a := range plainCalls(pf, "(*"+pHTTP2+".SettingsFrame).IsAck") {
					for _, e := range branchesOn(a) {
						if a.Call.Args[0] == sf && edgeDominatesTrue(e, c.Block()) {
							okAck = true
						}
					}
				}
			}
			for _, c := range plainCalls(pf, "(*"+pHTTP2+".SettingsFrame).ForeachSetting") {
				mc, isMC := c.Call.Args[1].(*ssa.MakeClosure)
				if !isMC || c.Call.Args[0] != sf {
					continue
				}
				cl := mc.Fn.(*ssa.Function)
				r.Touch(cl)
				// on every path through the callback the setting is appended to the captured slice
				g := G(cl)
				isAppendStore := func(i ssa.Instruction) bool {
					st, ok := i.(*ssa.Store)
					if !ok {
						return false
					}
					if _, isFV := st.Addr.(*ssa.FreeVar); !isFV {
						return false
					}
					return anyIn(w.backSlice(st.Val, flowOpt{}), func(v ssa.Value) bool { return isParamVal(v, cl.Params[0]) })
				}
				if g.PathTo([]ssa.Instruction{g.Entry()}, true, isAppendStore, isReturn) == nil {
					// and that slice is what WriteSettings receives
					for _, ws := range plainCalls(pf, "(*"+pHTTP2+".Framer).WriteSettings") {
						for _, b := range mc.Bindings {
							if anyIn(w.backSlice(ws.Call.Args[1], flowOpt{}), func(v ssa.Value) bool { return v == b }) {
								okAll = true
							}
						}
					}
				}
			}
		}
		r.Decide("path", "*http2.SettingsFrame: an ack is forwarded as an ack", okAck, "WriteSettingsAck on the IsAck() edge", "a SETTINGS ack is not forwarded as an ack", pf.Pos())
		r.Decide("flow", "*http2.SettingsFrame: every setting is forwarded", okAll, "each setting is appended unconditionally and the list is written", "some settings are filtered out or the forwarded list is not the collected one", pf.Pos())
	})

	r.Guard("C08.R2", "the default processor hands every call to the relay of the other direction with the stream and all of its arguments", func() {
		processorChainRule(r)
		// relayAdapter is the end of every processor chain (and the whole chain when no processor is
		// configured): each of its Processor methods must, on every path, call a method of its relay
		// with its own stream ID and every one of its parameters
		ad := w.Named("h2", "relayAdapter")
		if ad == nil {
			r.Undecided("M/h2.relayAdapter", "UNRESOLVED")
			return
		}
		for _, mn := range []string{"Data", "Header", "Priority", "RSTStream", "PushPromise"} {
			fn := w.method(ad, mn)
			if fn == nil || fn.Blocks == nil {
				r.Undecided("M/h2.relayAdapter."+mn, "UNRESOLVED")
				continue
			}
			r.Touch(fn)
			fwd := func(i ssa.Instruction) bool {
				c, ok := i.(ssa.CallInstruction)
				if !ok {
					return false
				}
				callee := c.Common().StaticCallee()
				if callee == nil || callee.Signature.Recv() == nil || !strings.HasSuffix(callee.Signature.Recv().Type().String(), "h2.relay") {
					return false
				}
				args := c.Common().Args
				// receiver is a load of the adapter's relay field, the stream ID a load of its id field
				hasID := false
				for _, a := range args[1:] {
					if ld, isLd := a.(*ssa.UnOp); isLd {
						if fa, isFa := ld.X.(*ssa.FieldAddr); isFa && fieldObj(fa).Name() == "id" && isParamVal(fa.X, fn.Params[0]) {
							hasID = true
						}
					}
				}
				if !hasID {
					return false
				}
				for _, p := range fn.Params[1:] {
					found := false
					for _, a := range args[1:] {
						if isParamVal(a, p) {
							found = true
						}
					}
					if !found {
						return false
					}
				}
				return true
			}
			g := G(fn)
			p := g.PathTo([]ssa.Instruction{g.Entry()}, true, fwd, isReturn)
			r.Sites++
			r.Decide("path", "(*M/h2.relayAdapter)."+mn+" forwards to the relay on every path", p == nil, "a relay method receives r.id and every parameter on every path to the return", "the adapter can return without handing the call (with its stream ID and all of its arguments) to the relay: with no processor configured this part of the stream - a priority, a reset code, a data chunk - never reaches the other endpoint", fn.Pos())
		}
	})

	r.Guard("C08.R2", "a header block is assembled from exactly its own fragments and decoded once, when it is complete", func() {
		g := G(pf)
		// the END_HEADERS state a block is dominated by: +1 ended, -1 not ended, 0 unknown
		endedAt := func(b *ssa.BasicBlock) int {
			st := 0
			for _, ce := range ctrlEdges(b) {
				cond := ce.If.Cond
				neg := false
				if u, ok := cond.(*ssa.UnOp); ok && u.Op == token.NOT {
					cond, neg = u.X, true
				}
				c, ok := cond.(*ssa.Call)
				if !ok || c.Call.StaticCallee() == nil || c.Call.StaticCallee().Name() != "HeadersEnded" {
					continue
				}
				if ce.Taken != neg {
					st = 1
				} else {
					st = -1
				}
			}
			return st
		}
		isHB := func(v ssa.Value) bool { return isFieldRef(v, M+"/h2", "relay", "headerBuffer") }
		fragOf := func(v ssa.Value) string {
			for name, fv := range cases {
				if fromFrame(w, v, fv, "call:HeaderBlockFragment", nil) {
					return name
				}
			}
			return ""
		}
		var resets, writes []*ssa.Call
		for _, c := range plainCalls(pf, "(*bytes.Buffer).Reset") {
			if isHB(c.Call.Args[0]) {
				resets = append(resets, c)
			}
		}
		for _, c := range plainCalls(pf, "(*bytes.Buffer).Write") {
			if isHB(c.Call.Args[0]) {
				writes = append(writes, c)
			}
		}
		for _, wc := range writes {
			kind := fragOf(wc.Call.Args[1])
			switch kind {
			case "HeadersFrame", "PushPromiseFrame":
				// opening fragment: only when the block continues, into an emptied buffer, and the
				// continuation state is set
				okOpen := endedAt(wc.Block()) == -1
				okReset := false
				for _, rc := range resets {
					if endedAt(rc.Block()) == -1 && g.Before(rc, wc) {
						okReset = true
					}
				}
				okState := false
				for _, in := range instrs(pf) {
					if st, isSt := in.(*ssa.Store); isSt {
						if fa, isFa := st.Addr.(*ssa.FieldAddr); isFa && fieldObj(fa).Name() == "continuationState" && blockDominates(wc.Block(), st.Block()) || isSt && func() bool {
							fa, isFa := st.Addr.(*ssa.FieldAddr)
							return isFa && fieldObj(fa).Name() == "continuationState" && st.Block() == wc.Block()
						}() {
							okState = true
						}
					}
				}
				r.Decide("path", "*http2."+kind+": an opening fragment is buffered only when END_HEADERS is clear", okOpen, "the buffer write is on the !HeadersEnded() edge", "the opening fragment is buffered on the wrong edge of the END_HEADERS test: complete blocks wait for a CONTINUATION that never comes and continued ones are decoded half", wc.Pos())
				r.Decide("path", "*http2."+kind+": the fragment buffer is emptied before an opening fragment is stored", okReset, "headerBuffer.Reset() dominates the write on the same edge", "the buffer still holds the fragments of the previous continued block: the next continued block is decoded with that prefix and fails (or yields other headers)", wc.Pos())
				r.Decide("path", "*http2."+kind+": a continued block records its continuation state", okState, "continuationState is stored together with the opening fragment", "the continuation state is not set for a continued block: the closing CONTINUATION completes the wrong kind of block", wc.Pos())
			case "ContinuationFrame":
				okAlways := endedAt(wc.Block()) == 0
				noReset := true
				for _, rc := range resets {
					if ta, isTA := cases["ContinuationFrame"].(*ssa.Extract); isTA {
						if tt, isT := ta.Tuple.(*ssa.TypeAssert); isT && okEdgeDominatesTA(tt, rc.Block()) {
							noReset = false
						}
					}
				}
				r.Decide("path", "*http2.ContinuationFrame: every fragment is appended, whatever its END_HEADERS flag", okAlways && noReset, "the buffer write precedes the END_HEADERS test; no Reset in this case", "a CONTINUATION fragment is appended only on one edge of the END_HEADERS test, or the buffer is emptied first: the assembled block misses fragments", wc.Pos())
			default:
				r.Fail("flow", "(*M/h2.relay).processFrame: write to the fragment buffer", "a write to headerBuffer that does not come from a frame's HeaderBlockFragment()", nil, wc.Pos())
			}
		}
		if len(writes) < 3 {
			r.Undecided("(*M/h2.relay).processFrame: fragment buffer writes", fmt.Sprintf("UNRESOLVED: %d writes to headerBuffer found, want 3 (HEADERS, PUSH_PROMISE, CONTINUATION)", len(writes)))
		}
		// decoding: only complete blocks; the error leaves, success reaches the processor with the decoded list
		isSink := func(i ssa.Instruction) bool {
			c, ok := i.(*ssa.Call)
			if !ok || !c.Call.IsInvoke() {
				return false
			}
			switch c.Call.Method.Name() {
			case "Header", "PushPromise", "complete":
				return true
			}
			return false
		}
		decs := plainCalls(pf, "(*M/h2.relay).decodeFull")
		for k, dc := range decs {
			name := fmt.Sprintf("(*M/h2.relay).processFrame: decodeFull#%d", k+1)
			src := fragOf(dc.Call.Args[1])
			fromBuf := anyIn(w.backSlice(dc.Call.Args[1], flowOpt{}), func(v ssa.Value) bool {
				c, y := v.(*ssa.Call)
				return y && calleeName(c) == "(*bytes.Buffer).Bytes" && isHB(c.Call.Args[0])
			})
			r.Decide("path", name+" decodes a complete block", endedAt(dc.Block()) == 1 && (src != "" || fromBuf), "on the HeadersEnded() edge, from the frame's fragment or the assembled buffer", "a header block is decoded although END_HEADERS is clear (or a complete one is not): HPACK state is advanced with half a block and every later block of the connection decodes wrongly", dc.Pos())
			tests := errTests(dc)
			okErr := len(tests) > 0
			for _, t := range tests {
				errs, _, okp := returnValuesFrom(t.NonNil, 0)
				if !okp || len(errs) == 0 {
					okErr = false
				}
				for _, e := range errs {
					if isNilConst(e) {
						okErr = false
					}
				}
				if g.PathTo(blockStart(t.NonNil), true, nil, isSink) != nil {
					okErr = false
				}
				if g.PathTo(blockStart(t.Nil), true, isSink, isReturn) != nil {
					okErr = false
				}
			}
			r.Decide("path", name+": a decoding error ends the relay, success reaches the processor", okErr, "error edge returns a non-nil error without calling the processor; the other edge calls it on every path", "the test of the decoding error is inverted or missing: valid blocks end the connection, or undecodable ones are handed on", dc.Pos())
			// the processor receives the decoded list
			used := false
			for _, in := range instrs(pf) {
				if !isSink(in) {
					continue
				}
				c := in.(*ssa.Call)
				for _, a := range c.Call.Args {
					for _, l := range resolveAll(a) {
						if ex, isEx := l.(*ssa.Extract); isEx && ex.Tuple == ssa.Value(dc) && ex.Index == 0 {
							used = true
						}
					}
				}
			}
			r.Decide("flow", name+": the decoded field list is what the processor receives", used, "an argument of Header / PushPromise / complete is the call's first result", "the processor is handed something other than the decoded header list (nil, a stale list)", dc.Pos())
		}
		if len(decs) < 3 {
			r.Undecided("(*M/h2.relay).processFrame: decodeFull calls", fmt.Sprintf("UNRESOLVED: %d found, want 3", len(decs)))
		}
		// an encoded block is queued exactly when encoding succeeded
		for _, n := range []string{"relay.header", "relay.pushPromise"} {
			f := r.Use("h2", n)
			if f == nil {
				continue
			}
			gf := G(f)
			isQ := func(i ssa.Instruction) bool { _, y := isCall(i, "(*M/h2.relay).enqueueFrame"); return y }
			for _, ec := range plainCalls(f, "(*M/h2.relay).encodeFull") {
				tests := errTests(ec)
				okQ := len(tests) > 0
				for _, t := range tests {
					if gf.PathTo(blockStart(t.Nil), true, isQ, isReturn) != nil {
						okQ = false
					}
					if gf.PathTo(blockStart(t.NonNil), true, nil, isQ) != nil {
						okQ = false
					}
				}
				r.Decide("path", fnName(f)+": the encoded block is queued when, and only when, encoding succeeded", okQ, "enqueueFrame on every path of the nil edge, on none of the error edge", "the test of the encoding error is inverted or missing: successfully encoded HEADERS / PUSH_PROMISE frames are dropped (the encoder's dynamic table has already been advanced), or a failed block is sent", ec.Pos())
			}
		}
		// encoding starts from an empty output buffer
		if ef := r.Use("h2", "relay.encodeFull"); ef != nil {
			ge := G(ef)
			isReset := func(i ssa.Instruction) bool {
				c, ok := isCall(i, "(*bytes.Buffer).Reset")
				return ok && isFieldRef(c.Common().Args[0], M+"/h2", "relay", "reencoded")
			}
			isWF := func(i ssa.Instruction) bool {
				_, ok := isCall(i, "(*golang.org/x/net/http2/hpack.Encoder).WriteField")
				return ok
			}
			p := ge.PathTo([]ssa.Instruction{ge.Entry()}, true, isReset, isWF)
			nwf := len(calls(ef, "(*golang.org/x/net/http2/hpack.Encoder).WriteField"))
			r.Decide("path", "(*M/h2.relay).encodeFull: the output buffer is emptied before a block is encoded", p == nil && nwf > 0, "reencoded.Reset() lies on every path to WriteField", "the encoder's output buffer still holds the previous block: every header block after the first is sent with all earlier blocks in front of it", ef.Pos())
		}
		// SETTINGS_HEADER_TABLE_SIZE reaches both HPACK ends, and the relay accepts any size a
		// peer may announce
		if ut := r.Use("h2", "relay.updateTableSize"); ut != nil {
			for _, n := range []string{"(*golang.org/x/net/http2/hpack.Decoder).SetMaxDynamicTableSize", "(*golang.org/x/net/http2/hpack.Encoder).SetMaxDynamicTableSize"} {
				ok := false
				for _, c := range plainCalls(ut, n) {
					if len(ut.Params) > 1 && isParamVal(c.Call.Args[1], ut.Params[1]) && c.Block() == ut.Blocks[0] {
						ok = true
					}
				}
				r.Decide("flow", "(*M/h2.relay).updateTableSize applies the setting: "+short(n), ok, "called with the announced value, unconditionally", "the announced header table size does not reach this HPACK end: encoder and peer decoder (or decoder and peer encoder) disagree about the dynamic table and header blocks decode to other fields", ut.Pos())
			}
		}
		if nr := r.Use("h2", "newRelay"); nr != nil {
			for _, n := range []string{"(*golang.org/x/net/http2/hpack.Decoder).SetAllowedMaxDynamicTableSize", "(*golang.org/x/net/http2/hpack.Encoder).SetMaxDynamicTableSizeLimit"} {
				ok := false
				for _, c := range plainCalls(nr, n) {
					if k, isK := constInt(c.Call.Args[1]); isK && k >= 1<<32-1 {
						ok = true
					}
				}
				r.Decide("table", "M/h2.newRelay lifts the HPACK table limit: "+short(n), ok, "set to math.MaxUint32", "the relay's HPACK end keeps the 4096-byte default limit: a peer that announced a larger table and uses it makes the relay fail the connection (or encode with a smaller table than announced)", nr.Pos())
			}
		}
	})

	r.Guard("C08.R3", "END_STREAM is never invented: the streamEnded argument of every Header call derives from a StreamEnded() flag or from the caller", func() {
		endStreamOnLastFragmentRule(r)
		for _, f := range w.Funcs("h2") {
			for _, c := range calls(f) {
				cc := c.Common()
				if !cc.IsInvoke() || cc.Method.Name() != "Header" || len(cc.Args) != 3 {
					continue
				}
				r.Touch(f)
				arg := cc.Args[1]
				key := "streamEnded argument at " + site(f, c)
				if _, isConst := arg.(*ssa.Const); isConst {
					r.Fail("flow", key, "constant END_STREAM flag: the flag of the original HEADERS frame is lost", nil, c.Pos())
					continue
				}
				sl := w.backSlice(arg, flowOpt{Fields: true})
				ok := anyIn(sl, func(v ssa.Value) bool {
					if cl, isC := v.(*ssa.Call); isC && cl.Call.StaticCallee() != nil && cl.Call.StaticCallee().Name() == "StreamEnded" {
						return true
					}
					_, isP := v.(*ssa.Parameter)
					return isP && v.Type().String() == "bool"
				}) && !anyIn(sl, func(v ssa.Value) bool { _, isC := constBool(v); return isC })
				r.Sites++
				r.Decide("flow", key, ok, "derives from a StreamEnded() call or the caller's flag, with no constant mixed in", "the END_STREAM flag handed to the processor does not derive (only) from the frame's own flag", c.Pos())
			}
		}
	})

	r.Guard("C08.R4", "every part of a relayed frame is stored in the queued frame and written by its send method", func() {
		// a queued HEADERS / PUSH_PROMISE frame is written when its turn comes: no successful return
		// of its send method without a framer write
		for _, tn := range []string{"queuedHeaderFrame", "queuedPushPromiseFrame", "queuedDataFrame", "queuedRSTStreamFrame", "queuedPriorityFrame"} {
			sm := w.method(w.Named("h2", tn), "send")
			if sm == nil || sm.Blocks == nil {
				continue
			}
			r.Touch(sm)
			g := G(sm)
			isWrite := func(i ssa.Instruction) bool {
				c, ok := i.(ssa.CallInstruction)
				if !ok {
					return false
				}
				sc := c.Common().StaticCallee()
				return sc != nil && strings.HasPrefix(sc.Name(), "Write") && sc.Signature.Recv() != nil && strings.HasSuffix(sc.Signature.Recv().Type().String(), "http2.Framer")
			}
			p := g.PathTo([]ssa.Instruction{g.Entry()}, true, isWrite, func(i ssa.Instruction) bool {
				ret, isR := i.(*ssa.Return)
				if !isR || len(ret.Results) == 0 {
					return false
				}
				for _, v := range retVals(ret, 0) {
					for _, l := range resolveAll(v) {
						if isNilConst(l) {
							return true
						}
					}
				}
				return false
			})
			r.Decide("path", "(*M/h2."+tn+").send writes the frame on every successful path", p == nil, "a Framer.Write* call lies on every path to a nil return", "send can report success without writing anything (a frame with no chunks): the frame, and an END_STREAM on it, silently disappears", sm.Pos())
		}
		writers := map[string]string{
			"queuedDataFrame": "WriteData", "queuedHeaderFrame": "WriteHeaders", "queuedPushPromiseFrame": "WritePushPromise",
			"queuedPriorityFrame": "WritePriority", "queuedRSTStreamFrame": "WriteRSTStream",
		}
		var tnames []string
		for n := range writers {
			tnames = append(tnames, n)
		}
		sort.Strings(tnames)
		thr := map[string]bool{"(*M/h2.relay).encodeFull": true, "M/h2.splitIntoChunks": true}
		for _, tn := range tnames {
			T := w.Named("h2", tn)
			if T == nil {
				r.Undecided("M/h2."+tn, "UNRESOLVED: type not found")
				continue
			}
			st := T.Underlying().(*types.Struct)
			send := w.method(T, "send")
			r.Touch(send)
			for i := 0; i < st.NumFields(); i++ {
				f := st.Field(i)
				// (a) filled from a parameter of the building function
				filled := false
				for _, s := range w.fieldStores(f) {
					fn := s.Parent()
					sl := w.backSlice(s.Val, flowOpt{Through: thr, BinOps: true})
					if anyIn(sl, func(v ssa.Value) bool { p, ok := v.(*ssa.Parameter); return ok && p.Parent() == fn }) {
						filled = true
					}
				}
				r.Sites++
				r.Decide("flow", fmt.Sprintf("M/h2.%s.%s is filled from the relayed frame", tn, f.Name()), filled, "a parameter of the building method flows into the field", "the field is set from a constant or not at all: this part of the frame is lost in the queue", f.Pos())
				// (b) written by send
				written := false
				if send != nil {
					for _, c := range calls(send) {
						if !strings.HasPrefix(calleeName(c), "(*"+pHTTP2+".Framer).Write") {
							continue
						}
						for _, a := range c.Common().Args[1:] {
							if anyIn(w.backSlice(a, flowOpt{}), func(v ssa.Value) bool {
								fa, ok := v.(*ssa.FieldAddr)
								return ok && fieldObj(fa) == f
							}) {
								written = true
							}
						}
					}
				}
				r.Decide("flow", fmt.Sprintf("(*M/h2.%s).send writes %s", tn, f.Name()), written, "the field reaches a Framer.Write* argument", "send does not write this field: the peer receives a frame without it", f.Pos())
			}
			// (c) byte payloads are owned by the queued frame: a frame can wait behind flow
			// control while the reader goes on, and the reader's buffers (the Framer's read
			// buffer, the relay's HPACK output buffer) are reused for the next frame
			for i := 0; i < st.NumFields(); i++ {
				f := st.Field(i)
				ft := f.Type().String()
				if ft != "[]byte" && ft != "[][]byte" {
					continue
				}
				for _, s := range w.fieldStores(f) {
					why := ""
					if ft == "[]byte" {
						why = notOwnedBytes(w, s.Val, 0)
					} else {
						for _, v := range resolveAll(s.Val) {
							c, isC := v.(*ssa.Call)
							if !isC || c.Call.StaticCallee() == nil || c.Call.StaticCallee().Blocks == nil {
								why = "the chunk list does not come from a module function"
								continue
							}
							for _, in := range instrs(c.Call.StaticCallee()) {
								es, isSt := in.(*ssa.Store)
								if !isSt || es.Val.Type().String() != "[]byte" {
									continue
								}
								if _, isIA := es.Addr.(*ssa.IndexAddr); !isIA {
									continue
								}
								if y := notOwnedBytes(w, es.Val, 0); y != "" {
									why = fnName(c.Call.StaticCallee()) + ": " + y
								}
							}
						}
					}
					r.Decide("flow", fmt.Sprintf("M/h2.%s.%s owns its bytes (%s)", tn, f.Name(), fnName(s.Parent())), why == "", "every stored payload is a fresh allocation filled by copy", "the queued frame keeps a slice of a buffer that is reused ("+why+"): a frame that waits behind flow control is overwritten by the next frame read or encoded, and the peer receives corrupted bytes", s.Pos())
				}
			}
			if send != nil && send.Blocks != nil {
				sendErrorRule(r, send)
				switch tn {
				case "queuedHeaderFrame":
					continuationSendRule(r, send, "WriteHeaders")
				case "queuedPushPromiseFrame":
					continuationSendRule(r, send, "WritePushPromise")
				}
			}
			// the expected writer is used
			okW := false
			if send != nil {
				okW = len(calls(send, "(*"+pHTTP2+".Framer)."+writers[tn])) == 1
			}
			r.Decide("table", fmt.Sprintf("(*M/h2.%s).send uses Framer.%s", tn, writers[tn]), okW, "one call", "the queued frame is written with a different frame kind", T.Obj().Pos())
		}
		// header blocks: the first chunk goes into HEADERS / PUSH_PROMISE, every further chunk into CONTINUATION, in index order
		for _, tn := range []string{"queuedHeaderFrame", "queuedPushPromiseFrame"} {
			send := w.method(w.Named("h2", tn), "send")
			if send == nil {
				continue
			}
			cont := plainCalls(send, "(*"+pHTTP2+".Framer).WriteContinuation")
			ok := len(cont) == 1 && inLoop(cont[0].Block())
			if ok {
				// the chunk written is chunks[i] with i the loop variable starting at 1 and incremented by 1
				ok = anyIn(w.backSlice(cont[0].Call.Args[3], flowOpt{}), func(v ssa.Value) bool {
					ia, isIA := v.(*ssa.IndexAddr)
					if !isIA {
						return false
					}
					phi, isPhi := ia.Index.(*ssa.Phi)
					if !isPhi {
						return false
					}
					one, inc := false, false
					for _, e := range phi.Edges {
						if n, isC := constInt(e); isC && n == 1 {
							one = true
						}
						if b, isB := e.(*ssa.BinOp); isB && b.X == ssa.Value(phi) {
							if n, isC := constInt(b.Y); isC && n == 1 {
								inc = true
							}
						}
					}
					return one && inc
				})
			}
			if !ok && len(cont) == 1 {
				ok, _ = contLoopBySimulation(cont[0])
			}
			r.Decide("path", fmt.Sprintf("(*M/h2.%s).send writes chunks 1..n as CONTINUATION frames in order", tn), ok, "loop from 1 by 1 over chunks", "continuation chunks are skipped, repeated or reordered", send.Pos())
		}
	})

	r.Guard("C08.R5", "one ordered writer per direction; framer, encoder and decoder are used only under their locks", func() {
		emit := r.Use("h2", "outputBuffer.emitEligibleFrames")
		qf := w.Named("h2", "queuedFrame")
		for _, f := range w.Funcs("h2") {
			for _, sp := range sendPoints(f) {
				if ch, ok := sp.Chan.Type().Underlying().(*types.Chan); ok && qf != nil && types.Identical(ch.Elem(), qf) {
					r.Sites++
					r.Decide("callgraph", "send on the ordered output channel in "+fnName(f), f == emit, "only the emit step enqueues output", "frames are put on the output channel outside emitEligibleFrames: flow control and per-stream order are bypassed", sp.Instr.Pos())
				}
			}
			for _, in := range instrs(f) {
				switch x := in.(type) {
				case *ssa.Select:
					for _, s := range x.States {
						if ch, ok := s.Chan.Type().Underlying().(*types.Chan); ok && qf != nil && types.Identical(ch.Elem(), qf) && s.Dir == types.RecvOnly {
							r.Sites++
							okp := f.Parent() == rf
							r.Decide("callgraph", "receive from the ordered output channel in "+fnName(f), okp, "only the writer goroutine of relayFrames consumes output", "a second consumer of the output channel can reorder frames", x.Pos())
						}
					}
				}
			}
		}
		// exactly one writer goroutine per relayFrames activation, not in a loop
		nw := 0
		for _, c := range calls(rf) {
			g, ok := c.(*ssa.Go)
			if !ok {
				continue
			}
			fn := g.Call.StaticCallee()
			if fn == nil {
				continue
			}
			for _, in := range instrs(fn) {
				if sel, ok := in.(*ssa.Select); ok {
					for _, s := range sel.States {
						if ch, ok := s.Chan.Type().Underlying().(*types.Chan); ok && qf != nil && types.Identical(ch.Elem(), qf) {
							nw++
							if inLoop(g.Block()) {
								nw += 10
							}
						}
					}
				}
			}
		}
		r.Decide("path", "(*M/h2.relay).relayFrames: starts exactly one writer goroutine", nw == 1, "one go statement outside any loop", fmt.Sprintf("writer goroutines started: %d (or inside a loop)", nw), rf.Pos())
		// guarded fields
		rel := w.Named("h2", "relay")
		for _, gf := range []struct{ field, lock string }{{"dest", "destMu"}, {"decoder", "decoderMu"}, {"encoder", "encoderMu"}, {"reencoded", "encoderMu"}} {
			fo := structField(rel, gf.field)
			if fo == nil {
				r.Undecided("M/h2.relay."+gf.field, "UNRESOLVED")
				continue
			}
			st := map[*ssa.Function]map[ssa.Instruction]lockset{}
			seen := map[string]bool{}
			for _, a := range w.fieldAccesses(fo) {
				if freshBase(a.Addr) || a.Fn.Name() == "newRelay" {
					continue
				}
				if st[a.Fn] == nil {
					st[a.Fn] = lockStates(a.Fn, nil)
				}
				ls := st[a.Fn][a.Instr]
				ok := ls.heldW(a.Base + "." + gf.lock)
				key := fmt.Sprintf("relay.%s used in %s under %s", gf.field, fnName(a.Fn), gf.lock)
				if seen[key] && ok {
					continue
				}
				seen[key] = true
				r.Sites++
				r.Decide("lockset", key, ok, "lockset "+ls.String(), "accessed without "+gf.lock+": frames or HPACK state can be corrupted by the peer direction; lockset "+ls.String(), a.Instr.Pos())
			}
		}
	})

	r.Guard("C08.R6", "header blocks are HPACK-encoded in the order they are put on the wire", func() {
		// who reaches hpack.Encoder.WriteField
		enc := r.Use("h2", "relay.encodeFull")
		if enc == nil {
			return
		}
		if len(calls(enc, "(*golang.org/x/net/http2/hpack.Encoder).WriteField")) == 0 {
			r.Undecided("(*M/h2.relay).encodeFull", "UNRESOLVED: WriteField not called here")
			return
		}
		for _, f := range w.Funcs("h2") {
			for _, c := range calls(f, "(*golang.org/x/net/http2/hpack.Encoder).WriteField") {
				if f != enc {
					r.Fail("callgraph", "WriteField called from "+fnName(f), "the HPACK encoder is driven from an unexpected place", nil, c.Pos())
				}
			}
		}
		r.dynamicCallerRule(enc, "header blocks encoded from an unexpected place")
		for _, c := range w.staticCallers(enc) {
			f := c.Parent()
			ok := f.Name() == "send" || f.Name() == "emitEligibleFrames"
			r.Sites++
			key := fmt.Sprintf("%s -> (*M/h2.relay).encodeFull -> (*hpack.Encoder).WriteField", fnName(f))
			r.Decide("callgraph", key, ok, "encoded at emission time", "the header block is encoded when it is queued, on the reader side; behind blocked DATA a later-encoded block of another stream can be written first, so the receiver's dynamic table sees the blocks in a different order than the encoder did", c.Pos())
		}
	})

	r.Guard("C08.R8", "frames queued behind flow control are still delivered, in frames the receiver accepts: every window credit is applied and wakes the queue; payload sizes respect the receiver's maximum frame size (same obligations as C09.R4/R5)", func() {
		flowWakeRules(r)
		frameSizeRules(r)
		if swu := r.Use("h2", "relay.sendWindowUpdates"); swu != nil {
			creditOnAllPathsRule(r, swu)
		}
		if emit := r.Use("h2", "outputBuffer.emitEligibleFrames"); emit != nil {
			windowFitRules(r, emit)
		}
		initialWindowRules(r)
	})

	r.Guard("C08.R7", "the connection preface is read completely before it is compared", func() {
		fp := r.Use("h2", "forwardPreface")
		if fp == nil {
			return
		}
		eq := plainCalls(fp, "bytes.Equal")
		ok := false
		if len(eq) == 1 {
			for _, c := range plainCalls(fp, "io.ReadFull", "io.ReadAtLeast") {
				same := func(a, b ssa.Value) bool {
					return anyIn(w.backSlice(a, flowOpt{}), func(v ssa.Value) bool {
						_, isMk := v.(*ssa.MakeSlice)
						return isMk && anyIn(w.backSlice(b, flowOpt{}), func(x ssa.Value) bool { return x == v })
					})
				}
				if G(fp).Before(c, eq[0]) && (same(c.Call.Args[1], eq[0].Call.Args[0]) || same(c.Call.Args[1], eq[0].Call.Args[1])) {
					ok = true
				}
			}
		}
		// and no bare Read whose count is ignored
		for _, f := range w.Funcs("h2") {
			for _, c := range plainCalls(f, "(io.Reader).Read") {
				if n := resultOf(c, 0); n == nil || n.Referrers() == nil || len(*n.Referrers()) == 0 {
					ok = false
					r.Fail("flow", "short read ignored at "+site(f, c), "a single Read whose byte count is discarded: the transport may deliver fewer bytes", nil, c.Pos())
				}
			}
		}
		// ... and written completely: either one Write whose error is returned (a Writer that
		// writes short must return an error), or a loop that goes on while octets remain,
		// writing what is left and counting down by what was written
		{
			var wr *ssa.Call
			for _, c := range calls(fp) {
				if cc, isC := c.(*ssa.Call); isC && cc.Call.IsInvoke() && cc.Call.Method.Name() == "Write" {
					wr = cc
				}
			}
			okW := false
			why := "no Write of the preface to the server"
			if wr != nil && !inLoop(wr.Block()) {
				okW, why = true, ""
			} else if wr != nil {
				n := resultOf(wr, 0)
				advanced, counted, goesOn := false, false, false
				for _, in := range instrs(fp) {
					switch x := in.(type) {
					case *ssa.Slice:
						if x.Low != nil && n != nil && unwrapConv(x.Low) == n && x.High == nil && inLoop(x.Block()) {
							for _, l := range resolveAll(wr.Call.Args[0]) {
								_ = l
							}
							advanced = true
						}
					case *ssa.BinOp:
						if x.Op == token.SUB && n != nil && unwrapConv(x.Y) == n && inLoop(x.Block()) {
							counted = true
						}
						if _, isIf := x.Block().Instrs[len(x.Block().Instrs)-1].(*ssa.If); isIf && inLoop(x.Block()) {
							if k, isK := constInt(x.Y); isK {
								if _, isPhi := x.X.(*ssa.Phi); isPhi && cmpHolds(x.Op, 1, k) && cmpHolds(x.Op, 24, k) && !cmpHolds(x.Op, 0, k) {
									goesOn = true
								}
							}
						}
					}
				}
				// the slice written is the advanced one (a phi that includes the re-slice)
				writesRest := false
				for v := range w.backSlice(wr.Call.Args[0], flowOpt{}) {
					if sl, isSl := v.(*ssa.Slice); isSl && sl.Low != nil && n != nil && unwrapConv(sl.Low) == n {
						writesRest = true
					}
				}
				// the other form: the loop runs while the re-sliced remainder is non-empty
				lenLoop := false
				for _, in := range instrs(fp) {
					x, isB := in.(*ssa.BinOp)
					if !isB || !inLoop(x.Block()) {
						continue
					}
					if _, isIf := x.Block().Instrs[len(x.Block().Instrs)-1].(*ssa.If); !isIf {
						continue
					}
					lc, isC := unwrapConv(x.X).(*ssa.Call)
					k, isK := constInt(x.Y)
					if !isC || !isK {
						continue
					}
					if bi, isBi := lc.Call.Value.(*ssa.Builtin); isBi && bi.Name() == "len" {
						if _, isPhi := lc.Call.Args[0].(*ssa.Phi); isPhi && cmpHolds(x.Op, 1, k) && cmpHolds(x.Op, 24, k) && !cmpHolds(x.Op, 0, k) {
							lenLoop = true
						}
					}
				}
				okW = advanced && writesRest && (counted && goesOn || lenLoop)
				why = fmt.Sprintf("advanced=%v counted=%v continues-while-octets-remain=%v writes-the-rest=%v", advanced, counted, goesOn, writesRest)
			}
			r.Decide("flow", "M/h2.forwardPreface: the whole preface is written, also across short writes", okW, "a single checked Write, or a loop that re-slices by n, counts down by n and continues while anything remains", "the write loop of the preface stops early or does not advance ("+why+"): after a short write the server receives a damaged connection preface", fp.Pos())
		}
		r.Decide("flow", "M/h2.forwardPreface: preface filled by io.ReadFull before the comparison", ok, "io.ReadFull into the compared buffer", "the compared buffer is not guaranteed to be completely read", fp.Pos())
	})
}

// notOwnedBytes explains why the []byte value v may alias storage that is not
// freshly allocated where it is built ("" when it is owned): a parameter, a
// slice of one, an append onto one, the Bytes() of a buffer, a field.
func notOwnedBytes(w *World, v ssa.Value, depth int) string {
	if depth > 6 {
		return "too deep"
	}
	for _, l := range resolveAll(v) {
		switch x := l.(type) {
		case *ssa.MakeSlice:
		case *ssa.Alloc:
		case *ssa.Const:
		case *ssa.Slice:
			if y := notOwnedBytes(w, x.X, depth+1); y != "" {
				return y
			}
		case *ssa.Convert:
			// []byte(string) allocates
			if _, isStr := x.X.Type().Underlying().(*types.Basic); !isStr {
				if y := notOwnedBytes(w, x.X, depth+1); y != "" {
					return y
				}
			}
		case *ssa.ChangeType:
			if y := notOwnedBytes(w, x.X, depth+1); y != "" {
				return y
			}
		case *ssa.Call:
			if b, isB := x.Call.Value.(*ssa.Builtin); isB && b.Name() == "append" {
				if y := notOwnedBytes(w, x.Call.Args[0], depth+1); y != "" {
					return y
				}
				continue
			}
			if f := x.Call.StaticCallee(); f != nil && f.Blocks != nil && strings.HasPrefix(f.Pkg.Pkg.Path(), M) {
				for _, ret := range returns(f) {
					for _, rv := range ret.Results {
						if rv.Type().String() == "[]byte" {
							if y := notOwnedBytes(w, rv, depth+1); y != "" {
								return fnName(f) + " returns " + y
							}
						}
					}
				}
				continue
			}
			return "the result of " + calleeName(x)
		case *ssa.Parameter:
			return "parameter " + x.Name()
		default:
			return "value " + l.Name() + " of kind " + fmt.Sprintf("%T", l)
		}
	}
	return ""
}

// endStreamOnLastFragmentRule: when (*relay).data cuts a payload into several
// DATA frames, END_STREAM goes on the fragment after which nothing is left: the
// flag stored in the queued frame is the caller's streamEnded together with an
// emptiness test of the remainder that was sliced off for this fragment (not a
// test made before cutting, which is wrong when the payload is an exact
// multiple of the frame size). Shared by C08.R3 and C11.R5.
func endStreamOnLastFragmentRule(r *Report) {
	w := r.W
	df := r.Use("h2", "relay.data")
	if df == nil {
		return
	}
	n := 0
	for _, a := range allocsOf(df, M+"/h2.queuedDataFrame") {
		for _, st := range litFieldStores(a)["endStream"] {
			n++
			sl := w.backSlice(st.Val, flowOpt{BinOps: true})
			fromParam := anyIn(sl, func(v ssa.Value) bool { p, y := v.(*ssa.Parameter); return y && p.Type().String() == "bool" })
			// an emptiness comparison whose subject is len(<slice expression>)
			onRest := false
			for v := range sl {
				b, y := v.(*ssa.BinOp)
				if !y || (b.Op != token.EQL && b.Op != token.NEQ && b.Op != token.LEQ && b.Op != token.GTR) {
					continue
				}
				for _, side := range []ssa.Value{b.X, b.Y} {
					c, isC := unwrapConv(side).(*ssa.Call)
					if !isC {
						continue
					}
					if bi, isB := c.Call.Value.(*ssa.Builtin); !isB || bi.Name() != "len" {
						continue
					}
					for _, l := range resolveAll(c.Call.Args[0]) {
						if sx, isS := l.(*ssa.Slice); isS && sx.Low != nil {
							onRest = true
						}
					}
				}
			}
			// every boolean leaf is accounted for: no other condition (a test made before the cut)
			other := anyIn(sl, func(v ssa.Value) bool {
				b, y := v.(*ssa.BinOp)
				if !y {
					return false
				}
				switch b.Op {
				case token.LSS, token.GEQ:
					return true
				}
				return false
			})
			r.Decide("flow", "(*M/h2.relay).data: END_STREAM goes on the fragment that leaves nothing behind", fromParam && onRest && !other, "endStream = streamEnded && len(rest) == 0, rest being what remains after this fragment was cut off", "the END_STREAM flag of a fragment is decided by something else than the emptiness of the remainder (a size comparison made before cutting): a payload that fills its last frame exactly is sent without END_STREAM and the stream never ends", st.Pos())
		}
	}
	if n == 0 {
		r.Undecided("(*M/h2.relay).data: endStream of the queued frame", "UNRESOLVED")
	}
}
