package main

import (
	"fmt"
	"go/constant"
	"go/token"
	"go/types"
	"sort"
	"strconv"
	"strings"

	"golang.org/x/tools/go/ssa"
)

func init() {
	props["C11"] = c11
	floors["C11"] = map[string]int{"C11.R1": 9, "C11.R2": 8, "C11.R3": 6, "C11.R4": 2, "C11.R5": 1}
}

// switchCases maps the constant values a function switches on (comparisons of
// tag with a constant) to the block entered for that value.
func switchCases(f *ssa.Function, isTag func(ssa.Value) bool) map[int64]*ssa.BasicBlock {
	out := map[int64]*ssa.BasicBlock{}
	for _, in := range instrs(f) {
		b, ok := in.(*ssa.BinOp)
		if !ok || b.Op != token.EQL {
			continue
		}
		var k int64
		var isC bool
		switch {
		case isTag(b.X):
			k, isC = constInt(b.Y)
		case isTag(b.Y):
			k, isC = constInt(b.X)
		}
		if !isC {
			continue
		}
		for _, e := range branchesOn(b) {
			out[k] = e.True
		}
	}
	return out
}

// calleesIn collects the names of functions called in the region dominated by
// block b (the body of a switch case), looking one level into module helpers.
func calleesIn(w *World, b *ssa.BasicBlock) map[string]bool {
	out := map[string]bool{}
	f := b.Parent()
	for _, blk := range f.Blocks {
		if blk != b && !b.Dominates(blk) {
			continue
		}
		for _, in := range blk.Instrs {
			c, ok := in.(ssa.CallInstruction)
			if !ok {
				continue
			}
			n := calleeName(c)
			out[n] = true
			if callee := c.Common().StaticCallee(); callee != nil && callee.Blocks != nil && callee.Pkg == f.Pkg {
				for _, cc := range calls(callee) {
					out[calleeName(cc)] = true
				}
			}
		}
	}
	return out
}

func c11(r *Report) {
	w := r.W
	r.Decline("invariance under all cut points of the length-prefixed stream (correctness of the two-state reassembly automaton over buffer lengths): only the structural conditions below")
	r.Decline("decompression round-trip equality, message contents, \"exactly once END_STREAM\" as a count over runs")
	ad := r.Use("h2/grpc", "adapter.Data")
	ah := r.Use("h2/grpc", "adapter.Header")
	em := r.Use("h2/grpc", "emitter.Message")
	if ad == nil || ah == nil || em == nil {
		return
	}
	isEncodingLoad := func(v ssa.Value) bool {
		ld, ok := v.(*ssa.UnOp)
		if !ok || ld.Op != token.MUL {
			return false
		}
		fa, ok := ld.X.(*ssa.FieldAddr)
		return ok && fieldObj(fa).Name() == "encoding"
	}
	// Encoding constants
	consts := map[int64]string{}
	gp := w.Pkgs[P("h2/grpc")]
	encT := w.Named("h2/grpc", "Encoding")
	for _, n := range gp.Types.Scope().Names() {
		if c, ok := gp.Types.Scope().Lookup(n).(*types.Const); ok && types.Identical(c.Type(), encT) {
			k, _ := constant.Int64Val(c.Val())
			consts[k] = n
		}
	}
	var ks []int64
	for k := range consts {
		ks = append(ks, k)
	}
	sort.Slice(ks, func(i, j int) bool { return ks[i] < ks[j] })

	r.Guard("C11.R1", "every encoding is decoded and re-encoded by inverse codecs of the same wire format; all switches cover all encodings", func() {
		// a message that cannot be decoded or re-encoded is an error of the stream, not a
		// message passed on undecoded
		// the decoders read a message body to its end, whatever it consists of: no reader is put
		// into a mode that stops early
		for _, f := range w.Funcs("h2/grpc") {
			for _, c := range calls(f, "(*compress/gzip.Reader).Multistream") {
				r.Fail("callgraph", fnName(f)+": gzip reader switched out of multistream mode", "a gzip-compressed message whose body consists of several gzip members is cut after the first member: the processor is shown a truncated message", nil, c.Pos())
			}
		}
		// ... and no reader is capped: a message body is whatever the length prefix said, however far
		// it inflates; a cap cuts the message silently (ReadAll sees a clean end of file)
		nread := 0
		for _, f := range w.Funcs("h2/grpc") {
			for _, c := range calls(f, "io.LimitReader", "io.CopyN", "io.ReadFull", "io.ReadAtLeast", "io.NewSectionReader") {
				r.Fail("callgraph", fnName(f)+": "+site(f, c)+" bounds how much of a message is read", "a message that decompresses to more than the bound is cut without an error: the processor and the destination are given a truncated message", nil, c.Pos())
			}
			for _, in := range instrs(f) {
				if a, isA := in.(*ssa.Alloc); isA && strings.HasSuffix(a.Type().String(), "io.LimitedReader") {
					r.Fail("callgraph", fnName(f)+": an io.LimitedReader bounds how much of a message is read", "a message that decompresses to more than the bound is cut without an error", nil, a.Pos())
				}
			}
			for _, c := range plainCalls(f, "io/ioutil.ReadAll", "io.ReadAll") {
				nread++
				direct := anyIn(w.backSlice(c.Call.Args[0], flowOpt{}), func(l ssa.Value) bool {
					return isCallValue(l, "compress/gzip.NewReader", "compress/flate.NewReader", "github.com/golang/snappy.NewReader", "bytes.NewReader", "bytes.NewBuffer") || isExtractOfCall(l, "compress/gzip.NewReader")
				})
				r.Sites++
				r.Decide("flow", fnName(f)+": "+site(f, c)+" reads the decompressor itself", direct, "the reader derives from the codec's NewReader", "what ReadAll reads does not derive from the codec's reader: the message is not what was decoded", c.Pos())
			}
		}
		r.Decide("callgraph", "the h2/grpc decoders read with ReadAll", nread >= 2, fmt.Sprintf("%d ReadAll sites", nread), "the decoders no longer read a message with ReadAll: the rule about capped readers has nothing to check", ad.Pos())
		for _, n := range []string{"adapter.Data", "adapter.Header", "emitter.Message", "gunzip", "deflate"} {
			errorsReturnedRule(r, r.W.Fn("h2/grpc", n), false)
		}

		in := switchCases(ad, isEncodingLoad)
		out := switchCases(em, isEncodingLoad)
		pairs := [][2]string{
			{"compress/gzip.NewReader", "compress/gzip.NewWriter"},
			{"compress/flate.NewReader", "compress/flate.NewWriter"},
			{"github.com/golang/snappy.NewReader", "github.com/golang/snappy.NewBufferedWriter"},
			{"github.com/golang/snappy.NewReader", "github.com/golang/snappy.NewWriter"},
			{"github.com/golang/snappy.Decode", "github.com/golang/snappy.Encode"},
		}
		codec := func(m map[string]bool) []string {
			var o []string
			for n := range m {
				if strings.HasPrefix(n, "compress/") || strings.HasPrefix(n, "github.com/golang/snappy.") {
					if strings.Contains(n, ".New") || strings.HasSuffix(n, ".Decode") || strings.HasSuffix(n, ".Encode") {
						o = append(o, n)
					}
				}
			}
			sort.Strings(o)
			return o
		}
		for _, k := range ks {
			name := consts[k]
			bi, okI := in[k]
			bo, okO := out[k]
			r.Sites++
			if okI && !okO && len(codec(calleesIn(w, bi))) == 0 {
				// the identity encoding: nothing to undo inbound, so an outbound switch without a
				// default that simply has no (or an empty) case for it re-emits the bytes as they are
				hasPanic := false
				for _, inn := range instrs(em) {
					if p, isP := inn.(*ssa.Panic); isP && p.Pos().IsValid() {
						hasPanic = true
					}
				}
				if !hasPanic {
					r.Hold("table", "codec pair for "+name, "identity: no codec inbound, no case needed outbound (the switch has no panicking default)", ad.Pos())
					continue
				}
			}
			if !okI || !okO {
				r.Fail("table", "codec pair for "+name, fmt.Sprintf("encoding %s has no case in the %s switch: compressed messages panic or pass through undecoded", name, map[bool]string{true: "outbound", false: "inbound"}[okI]), nil, ad.Pos())
				continue
			}
			ci, co := codec(calleesIn(w, bi)), codec(calleesIn(w, bo))
			if len(ci) == 0 && len(co) == 0 {
				r.Hold("table", "codec pair for "+name, "identity: no codec on either side", ad.Pos())
				continue
			}
			ok := false
			for _, p := range pairs {
				if contains(ci, p[0]) && contains(co, p[1]) && len(ci) == 1 && len(co) == 1 {
					ok = true
				}
			}
			r.Decide("table", "codec pair for "+name, ok, fmt.Sprintf("decoder %v, encoder %v are inverse codecs of one format", ci, co), fmt.Sprintf("decoder %v and encoder %v are not an inverse pair of the same wire format: a passed-through message changes its container", ci, co), bi.Instrs[0].Pos())
		}
		// the grpc-encoding header selects every constant (directly, or through a helper's results)
		stored := map[int64]bool{}
		var encStores []*ssa.Store
		for _, inn := range instrs(ah) {
			st, ok := inn.(*ssa.Store)
			if !ok {
				continue
			}
			if fa, ok := st.Addr.(*ssa.FieldAddr); ok && fieldObj(fa).Name() == "encoding" {
				encStores = append(encStores, st)
				for v := range w.backSlice(st.Val, flowOpt{Calls: true}) {
					if k, isC := constInt(v); isC && types.Identical(v.Type(), encT) {
						stored[k] = true
					}
				}
			}
		}
		for _, k := range ks {
			r.Decide("table", "grpc-encoding header can select "+consts[k], stored[k], "a header value stores this constant", "no grpc-encoding value maps to this encoding", ah.Pos())
		}
		// an unknown grpc-encoding is rejected
		rej := false
		for _, ret := range returns(ah) {
			for _, v := range retVals(ret, 0) {
				if anyIn(w.backSlice(v, flowOpt{Calls: true}), func(x ssa.Value) bool { return isCallValue(x, "fmt.Errorf", "errors.New") }) {
					rej = true
				}
			}
		}
		r.Decide("path", "(*M/h2/grpc.adapter).Header: an unknown grpc-encoding is rejected", rej, "error return", "an unknown encoding is silently treated as something else", ah.Pos())
		// each direction reads its own grpc-encoding: the store must not depend on the enabled flag,
		// which both directions of a stream share (the request headers set it before the response
		// headers arrive at the other adapter)
		usesEnabled := func(v ssa.Value) bool {
			return anyIn(w.backSlice(v, flowOpt{BinOps: true, Calls: true}), func(x ssa.Value) bool {
				if isCallValue(x, "(*M/h2/grpc.adapter).isEnabled") {
					return true
				}
				if fa, ok := x.(*ssa.FieldAddr); ok && fieldObj(fa).Name() == "enabled" {
					return true
				}
				return false
			})
		}
		indep := len(encStores) > 0
		for _, st := range encStores {
			for _, ce := range ctrlEdges(st.Block()) {
				if usesEnabled(ce.If.Cond) {
					indep = false
				}
			}
		}
		r.Decide("path", "(*M/h2/grpc.adapter).Header: grpc-encoding is read whether or not the stream was already marked gRPC", indep, "the encoding store is not control dependent on the shared enabled flag", "the encoding is only read while the shared enabled flag is still unset: the direction whose headers arrive second (the response) keeps Identity and its processor is shown compressed bytes", ah.Pos())
	})

	r.Guard("C11.R2", "the 5-byte message prefix is read and written the same way", func() {
		// every message is a container of its own: its encoder is created for it, closed
		// (which writes the container's end and, for snappy, makes the next message start
		// with a stream identifier again) and not kept in the emitter between messages
		for _, c := range plainCalls(em, "compress/gzip.NewWriter", "compress/flate.NewWriter", "github.com/golang/snappy.NewBufferedWriter", "github.com/golang/snappy.NewWriter", "compress/gzip.NewWriterLevel") {
			var wv ssa.Value = c
			if c.Call.Signature().Results().Len() > 1 {
				wv = resultOf(c, 0)
			}
			kept := false
			closed := false
			if wv != nil && wv.Referrers() != nil {
				for _, u := range *wv.Referrers() {
					if st, ok := u.(*ssa.Store); ok && st.Val == wv {
						if _, isFa := st.Addr.(*ssa.FieldAddr); isFa {
							kept = true
						}
					}
					if cc, ok := u.(*ssa.Call); ok && strings.HasSuffix(calleeName(cc), ".Close") && len(cc.Call.Args) > 0 && cc.Call.Args[0] == wv {
						closed = true
					}
				}
			}
			// (closed through an interface it was converted to, e.g. by a write-and-close helper taking
			// an io.WriteCloser)
			if wv != nil && !closed {
				for _, cc := range calls(em) {
					com := cc.Common()
					var recv ssa.Value
					switch {
					case com.IsInvoke() && com.Method.Name() == "Close":
						recv = com.Value
					case !com.IsInvoke() && strings.HasSuffix(calleeName(cc), ".Close") && len(com.Args) > 0:
						recv = com.Args[0]
					}
					if recv != nil && w.backSlice(recv, flowOpt{})[wv] {
						closed = true
					}
				}
			}
			// what the encoder produced is what goes on the wire: the bytes of the buffer the
			// encoder writes into reach the payload write / the sink
			produced := false
			var sinkBuf ssa.Value
			if len(c.Call.Args) > 0 {
				for x := range w.backSlice(c.Call.Args[0], flowOpt{}) {
					if a, isA := x.(*ssa.Alloc); isA && strings.HasSuffix(a.Type().String(), "bytes.Buffer") {
						sinkBuf = a
					}
				}
			}
			if sinkBuf != nil {
				for _, wc := range calls(em) {
					n := calleeName(wc)
					if n != "(*bytes.Buffer).Write" && !(wc.Common().IsInvoke() && wc.Common().Method.Name() == "Data") {
						continue
					}
					args := wc.Common().Args
					payload := args[len(args)-1]
					if n == "(*bytes.Buffer).Write" {
						payload = args[1]
					} else {
						payload = args[0]
					}
					for _, l := range resolveAll(payload) {
						if bc, isC := l.(*ssa.Call); isC && calleeName(bc) == "(*bytes.Buffer).Bytes" && bc.Call.Args[0] == sinkBuf {
							produced = true
						}
					}
				}
			}
			r.Decide("flow", "(*M/h2/grpc.emitter).Message: the output of "+site(em, c)+" is the payload that is framed", produced, "buf.Bytes() of the encoder's buffer is one of the values of the payload", "the encoder's output is dropped: the message goes out uncompressed under a prefix that says compressed", c.Pos())
			r.Decide("flow", "(*M/h2/grpc.emitter).Message: "+site(em, c)+" serves one message", closed && !kept, "the encoder is closed in the call that made it and is not stored in a field", "the encoder outlives the message (kept in a field, flushed instead of closed): later messages on the stream are not complete containers of their own and the receiver rejects them", c.Pos())
		}

		// The prefix codec, in either of the two idioms: binary.Read / binary.Write with an explicit
		// byte order, or the ByteOrder methods (Uint32 / PutUint32 / AppendUint32).
		type prefixIO struct {
			order, width string
			at           ssa.Instruction
			val          ssa.Value // writer: the value encoded; reader form B: the call's slice argument
		}
		order := func(v ssa.Value) string {
			for x := range w.backSlice(v, flowOpt{}) {
				if g, ok := x.(*ssa.Global); ok {
					return g.Pkg.Pkg.Path() + "." + g.Name()
				}
			}
			return "?"
		}
		endianOf := func(c *ssa.Call) (string, string, bool) {
			fn := calleeObj(c)
			if fn == nil {
				return "", "", false
			}
			recv := fn.Type().(*types.Signature).Recv()
			if recv == nil {
				return "", "", false
			}
			switch recv.Type().String() {
			case "encoding/binary.bigEndian":
				return "encoding/binary.BigEndian", fn.Name(), true
			case "encoding/binary.littleEndian":
				return "encoding/binary.LittleEndian", fn.Name(), true
			}
			return "", "", false
		}
		var rds, wrs []prefixIO
		for _, c := range plainCalls(ad, "encoding/binary.Read") {
			if fa, ok := unwrapIface(c.Call.Args[2]).(*ssa.FieldAddr); ok && fieldObj(fa).Name() == "length" {
				rds = append(rds, prefixIO{order(c.Call.Args[1]), strings.TrimPrefix(fa.Type().String(), "*"), c, nil})
			}
		}
		for _, inn := range instrs(ad) {
			st, ok := inn.(*ssa.Store)
			if !ok {
				continue
			}
			if fa, ok := st.Addr.(*ssa.FieldAddr); !ok || fieldObj(fa).Name() != "length" {
				continue
			}
			for v := range w.backSlice(st.Val, flowOpt{}) {
				if c, isC := v.(*ssa.Call); isC {
					if o, m, ok := endianOf(c); ok && strings.HasPrefix(m, "Uint") {
						rds = append(rds, prefixIO{o, strings.ToLower(m), st, c.Call.Args[len(c.Call.Args)-1]})
					}
				}
			}
		}
		for _, c := range plainCalls(em, "encoding/binary.Write") {
			wrs = append(wrs, prefixIO{order(c.Call.Args[1]), unwrapIface(c.Call.Args[2]).Type().String(), c, unwrapIface(c.Call.Args[2])})
		}
		for _, ci := range calls(em) {
			if c, isC := ci.(*ssa.Call); isC {
				if o, m, ok := endianOf(c); ok && (strings.HasPrefix(m, "PutUint") || strings.HasPrefix(m, "AppendUint")) {
					wrs = append(wrs, prefixIO{o, strings.ToLower(strings.TrimPrefix(strings.TrimPrefix(m, "Put"), "Append")), c, c.Call.Args[len(c.Call.Args)-1]})
				}
			}
		}
		if len(rds) != 1 || len(wrs) != 1 {
			r.Fail("table", "length prefix codec", fmt.Sprintf("found %d decodings of the length prefix in the adapter and %d encodings in the emitter, want 1 and 1", len(rds), len(wrs)), nil, ad.Pos())
			return
		}
		rd, wr := rds[0], wrs[0]
		r.Decide("table", "length prefix byte order agrees", rd.order == wr.order && rd.order == "encoding/binary.BigEndian", "both sides use "+rd.order, "reader uses "+rd.order+", writer uses "+wr.order, rd.at.Pos())
		r.Decide("table", "length prefix width agrees", rd.width == "uint32" && wr.width == "uint32", "uint32 on both sides", "reader decodes "+rd.width+", writer encodes "+wr.width, rd.at.Pos())
		// the length written is the length of the payload written
		okLen := anyIn(w.backSlice(wr.val, flowOpt{}), func(v ssa.Value) bool {
			c, ok := v.(*ssa.Call)
			if !ok {
				return false
			}
			b, isB := c.Call.Value.(*ssa.Builtin)
			if !isB || b.Name() != "len" {
				return false
			}
			// the same slice value is written afterwards
			for _, bw := range plainCalls(em, "(*bytes.Buffer).Write") {
				if bw.Call.Args[1] == c.Call.Args[0] {
					return true
				}
			}
			return false
		})
		r.Decide("flow", "the length written is the length of the payload that follows", okLen, "len(data) of the slice written next", "the prefix does not describe the payload written after it", wr.at.Pos())
		// compressed flag: written 1 exactly when the adapter read a non-zero flag
		okFlag := len(plainCalls(em, "(*bytes.Buffer).WriteByte")) > 0
		isCompressedLoad := func(v ssa.Value) bool {
			ld, ok := v.(*ssa.UnOp)
			if !ok || ld.Op != token.MUL {
				return false
			}
			fa, ok := ld.X.(*ssa.FieldAddr)
			return ok && fieldObj(fa).Name() == "compressed"
		}
		for _, c := range plainCalls(em, "(*bytes.Buffer).WriteByte") {
			// the byte written is selected by adapter.compressed: either through the value, or because
			// the call sits on one arm of a branch on it (1 on the true arm, 0 on the false arm)
			byValue := anyIn(w.backSlice(c.Call.Args[1], flowOpt{}), isCompressedLoad)
			byBranch := false
			n, isC := constInt(c.Call.Args[1])
			for _, inn := range instrs(em) {
				if v, ok := inn.(ssa.Value); ok && isCompressedLoad(v) {
					for _, e := range branchesOn(v) {
						if isC && n == 1 && edgeDominatesTrue(e, c.Block()) {
							byBranch = true
						}
						if isC && n == 0 {
							for k, s := range e.If.Block().Succs {
								if s == e.False && edgeDominates(e.If.Block(), k, c.Block()) {
									byBranch = true
								}
							}
						}
					}
				}
			}
			if !byValue && !byBranch {
				okFlag = false
			}
		}
		// a message flagged compressed went through the codec switch
		var flagOne []ssa.Instruction
		for _, c := range plainCalls(em, "(*bytes.Buffer).WriteByte") {
			if n, isC := constInt(c.Call.Args[1]); isC && n == 1 {
				flagOne = append(flagOne, c)
			}
			if phi, isPhi := c.Call.Args[1].(*ssa.Phi); isPhi {
				for i, e := range phi.Edges {
					if n, isC := constInt(e); isC && n == 1 {
						pb := phi.Block().Preds[i]
						flagOne = append(flagOne, pb.Instrs[len(pb.Instrs)-1])
					}
				}
			}
		}
		// (compared as sets of controlling conditions, so that two separate tests of the same,
		// unmodified field are recognised as the same condition)
		okCodec := len(flagOne) > 0
		var encBlock *ssa.BasicBlock
		for _, inn := range instrs(em) {
			if v, ok := inn.(ssa.Value); ok && isEncodingLoad(v) {
				encBlock = inn.Block()
			}
		}
		if encBlock == nil {
			okCodec = false
		} else {
			// on the paths where the compressed flag was read as set (branches on the same,
			// unmodified field are correlated), the flag value 1 is reached only through
			// the switch over adapter.encoding
			g := G(em)
			skip := contradictsField(em, "compressed", true)
			isEnc := func(i ssa.Instruction) bool { v, ok := i.(ssa.Value); return ok && isEncodingLoad(v) }
			for _, fo := range flagOne {
				target := fo
				if p := g.PathToE([]ssa.Instruction{g.Entry()}, true, isEnc, func(i ssa.Instruction) bool { return i == target }, skip); p != nil {
					okCodec = false
				}
			}
		}
		// and the converse: a message whose flag was read as clear is re-emitted as it is; no
		// encoder is reachable on the paths where the compressed field is false
		{
			g := G(em)
			skipF := contradictsField(em, "compressed", false)
			n := 0
			for _, c := range calls(em) {
				nm := calleeName(c)
				if !(strings.HasPrefix(nm, "compress/") || strings.HasPrefix(nm, "github.com/golang/snappy.")) || !(strings.Contains(nm, ".NewWriter") || strings.Contains(nm, ".NewBufferedWriter") || strings.HasSuffix(nm, ".Encode")) {
					continue
				}
				n++
				target := ssa.Instruction(c)
				p := g.PathToE([]ssa.Instruction{g.Entry()}, true, nil, func(i ssa.Instruction) bool { return i == target }, skipF)
				r.Decide("path", "(*M/h2/grpc.emitter).Message: "+site(em, c)+" runs only for a message flagged compressed", p == nil, "unreachable when the compressed flag read was clear", "the encoder also runs for a message whose compressed flag was clear (e.g. selected by the stream's encoding alone): the message goes out compressed but flagged uncompressed, and the peer cannot read it", c.Pos())
			}
			if n == 0 {
				r.Undecided("(*M/h2/grpc.emitter).Message: encoders", "UNRESOLVED: no encoder call found")
			}
		}
		r.Decide("path", "a message is flagged compressed only after passing the codec switch", okCodec, "every path to the flag value 1 passes the switch over adapter.encoding", "some messages (e.g. empty ones) skip the compressor but are still flagged compressed: the peer cannot decode them", em.Pos())
		r.Decide("path", "the compressed flag written is the flag read", okFlag, "WriteByte(1) on the adapter.compressed edge, WriteByte(0) otherwise", "the compressed flag of a re-emitted message does not follow the flag that was read", em.Pos())
		// the flag read: compressed = <first prefix byte> > 0
		okRead := false
		for _, inn := range instrs(ad) {
			st, ok := inn.(*ssa.Store)
			if !ok {
				continue
			}
			fa, ok := st.Addr.(*ssa.FieldAddr)
			if !ok || fieldObj(fa).Name() != "compressed" {
				continue
			}
			sl := w.backSlice(st.Val, flowOpt{BinOps: true})
			// (a) a ReadByte that precedes the decoding of the length
			if anyIn(sl, func(v ssa.Value) bool {
				return isCallValue(v, "(*bytes.Buffer).ReadByte") || isExtractOfCall(v, "(*bytes.Buffer).ReadByte")
			}) {
				okRead = G(ad).Before(st, rd.at) || st.Block() == rd.at.Block()
			}
			// (b) element 0 of the slice whose tail [1:] is decoded as the length
			if tail, isSl := rd.val.(*ssa.Slice); isSl && tail.Low != nil {
				if lo, isC := constInt(tail.Low); isC && lo == 1 {
					if anyIn(sl, func(v ssa.Value) bool {
						ia, ok := v.(*ssa.IndexAddr)
						if !ok || ia.X != tail.X {
							return false
						}
						k, isC := constInt(ia.Index)
						return isC && k == 0
					}) {
						okRead = true
					}
				}
			}
		}
		r.Decide("flow", "the compressed flag is the first prefix byte", okRead, "the first byte (> 0) is stored as the flag, the length is decoded from the bytes after it", "the flag byte is not read first / not stored", ad.Pos())

		// Bytes leave the reassembly buffer only when enough of them are there: a prefix or payload
		// cut by a DATA frame boundary stays buffered until the rest arrives.
		isBuf := func(v ssa.Value) bool {
			fa, ok := unwrapIface(v).(*ssa.FieldAddr)
			return ok && fieldObj(fa).Name() == "buffer" && isParamVal(fa.X, ad.Params[0])
		}
		consuming := map[string]bool{"Next": true, "Read": true, "ReadByte": true, "ReadRune": true, "ReadBytes": true, "ReadString": true, "WriteTo": true, "Truncate": true, "Reset": true}
		nCons := 0
		for _, ci := range calls(ad) {
			c, isC := ci.(*ssa.Call)
			if !isC {
				continue
			}
			fn := calleeObj(c)
			if fn == nil {
				continue
			}
			takes := false
			if recv := fn.Type().(*types.Signature).Recv(); recv != nil && recv.Type().String() == "*bytes.Buffer" {
				takes = consuming[fn.Name()] && len(c.Call.Args) > 0 && isBuf(c.Call.Args[0])
			} else {
				// the buffer handed to a reader-consuming function (binary.Read, io.ReadFull, ...)
				for _, a := range c.Call.Args {
					if _, isIface := a.Type().Underlying().(*types.Interface); isIface && isBuf(a) {
						takes = true
					}
				}
			}
			if !takes {
				continue
			}
			nCons++
			guard := ""
			for _, ce := range ctrlEdges(c.Block()) {
				b, isB := ce.If.Cond.(*ssa.BinOp)
				if !isB {
					continue
				}
				isLen := func(v ssa.Value) bool {
					lc, ok := unwrapConv(v).(*ssa.Call)
					return ok && calleeName(lc) == "(*bytes.Buffer).Len" && isBuf(lc.Call.Args[0])
				}
				var other ssa.Value
				enough := false
				switch {
				case isLen(b.X):
					other = b.Y
					enough = (b.Op == token.LSS && !ce.Taken) || (b.Op == token.GEQ && ce.Taken)
				case isLen(b.Y):
					other = b.X
					enough = (b.Op == token.GTR && !ce.Taken) || (b.Op == token.LEQ && ce.Taken)
				}
				if k, isK := constInt(other); isK && other != nil {
					// a comparison with a constant, in any form: the edge is taken with 5 bytes
					// buffered (1 flag byte + 4 length bytes) and not with 4
					holds := func(n int64) bool {
						if isLen(b.X) {
							return cmpHolds(b.Op, n, k) == ce.Taken
						}
						return cmpHolds(b.Op, k, n) == ce.Taken
					}
					switch b.Op {
					case token.LSS, token.LEQ, token.GTR, token.GEQ:
						if holds(5) && holds(6) && !holds(4) {
							guard = "Len() >= 5"
						}
					}
					continue
				}
				if !enough {
					continue
				}
				if _, isK := constInt(other); isK {
				} else {
					guard = "Len() >= " + short(pathOf(unwrapConv(other)))
				}
			}
			key := fmt.Sprintf("%s takes bytes from the buffer only when enough are buffered", site(ad, c))
			if guard != "" {
				r.Hold("path", key, "dominated by "+guard, c.Pos())
			} else {
				r.Fail("path", key, "bytes are taken out of the reassembly buffer without a preceding test that the whole prefix (5 bytes) or payload is buffered: a prefix or message split across DATA frames is consumed in part and lost", nil, c.Pos())
			}
		}
		if nCons == 0 {
			r.Undecided("(*M/h2/grpc.adapter).Data: consumers of the reassembly buffer", "UNRESOLVED: no call takes bytes out of adapter.buffer")
		}
	})

	r.Guard("C11.R3", "streams that are not gRPC, and frames that are not DATA, pass through with their own arguments", func() {
		// the gRPC mark belongs to one stream: the cell both adapters of a stream point to is
		// allocated in the per-stream factory call, not captured from outside it
		{
			n := 0
			for _, f := range w.Funcs("h2/grpc") {
				for _, in := range instrs(f) {
					st, ok := in.(*ssa.Store)
					if !ok {
						continue
					}
					fa, ok := st.Addr.(*ssa.FieldAddr)
					if !ok || fieldObj(fa).Name() != "enabled" || namedOf(fa.X.Type()) != "adapter" {
						continue
					}
					n++
					perStream := true
					for _, l := range resolveAll(st.Val) {
						a, isA := l.(*ssa.Alloc)
						if !isA || a.Parent() != f || !a.Heap && false {
							perStream = false
						}
					}
					for _, l := range resolveAll(st.Val) {
						if a, isA := l.(*ssa.Alloc); isA {
							for _, ist := range storesTo(a) {
								if k, isK := constInt(ist.Val); ist.Parent() == f && (!isK || k != 0) {
									perStream = false
								}
							}
						}
					}
					r.Decide("flow", fmt.Sprintf("%s: the gRPC mark is allocated per stream (store #%d)", fnName(f), n), perStream, "the address of a variable of the per-stream factory call, initially 0", "the adapters share a gRPC mark that outlives the stream or starts set (captured from the enclosing function, a field, a global): once one stream was gRPC every later stream of the factory is parsed as gRPC and plain streams are buffered for ever", st.Pos())
				}
			}
			if n == 0 {
				r.Undecided("M/h2/grpc.adapter.enabled", "UNRESOLVED: no store")
			}
		}
		passthrough := func(f *ssa.Function, method string, guarded bool) {
			key := fmt.Sprintf("%s forwards to sink.%s unchanged", fnName(f), method)
			ok := false
			for _, c := range calls(f) {
				cc := c.Common()
				if !cc.IsInvoke() || cc.Method.Name() != method {
					continue
				}
				ld, isLd := cc.Value.(*ssa.UnOp)
				if !isLd {
					continue
				}
				fa, isFa := ld.X.(*ssa.FieldAddr)
				if !isFa || fieldObj(fa).Name() != "sink" {
					continue
				}
				same := len(cc.Args) == len(f.Params)-1
				for i, a := range cc.Args {
					if i+1 >= len(f.Params) || a != ssa.Value(f.Params[i+1]) {
						same = false
					}
				}
				if !same {
					continue
				}
				if guarded {
					// on the not-enabled edge
					for _, ie := range plainCalls(f, "(*M/h2/grpc.adapter).isEnabled") {
						for _, e := range branchesOn(ie) {
							for k, s := range e.If.Block().Succs {
								if s == e.False && edgeDominates(e.If.Block(), k, c.Block()) {
									ok = true
								}
							}
						}
					}
				} else {
					// unconditional: the only call, and its result is returned
					ok = len(f.Blocks) == 1
				}
			}
			r.Sites++
			r.Decide("flow", key, ok, "sink invoked with the method's own parameters", "the frame is altered, dropped or not forwarded on the pass-through path", f.Pos())
		}
		passthrough(ah, "Header", true)
		passthrough(ad, "Data", true)
		for _, m := range []string{"Priority", "RSTStream", "PushPromise"} {
			if f := r.Use("h2/grpc", "adapter."+m); f != nil {
				passthrough(f, m, false)
			}
		}
		if f := r.Use("h2/grpc", "emitter.Header"); f != nil {
			passthrough(f, "Header", false)
		}
		// a stream is taken for gRPC only on an exact content-type: every way
		// into the statement that marks the stream is the true edge of
		// `value == "<const>"`, or of a prefix test whose constant ends in the
		// subtype delimiter ("application/grpc+"), never a bare prefix or
		// substring test that "application/grpc-web" also satisfies
		hdrField := func(v ssa.Value, name string) bool {
			return anyIn(w.backSlice(v, flowOpt{}), func(x ssa.Value) bool {
				switch y := x.(type) {
				case *ssa.Field:
					return fieldObjV(y).Name() == name && strings.HasSuffix(y.X.Type().String(), "hpack.HeaderField")
				case *ssa.FieldAddr:
					return fieldObj(y).Name() == name && strings.HasSuffix(y.X.Type().String(), "hpack.HeaderField")
				}
				return false
			})
		}
		var marks []ssa.Instruction
		for _, in := range instrs(ah) {
			if c, ok := in.(*ssa.Call); ok && strings.HasPrefix(calleeName(c), "sync/atomic.Store") && len(c.Call.Args) == 2 {
				if fa, isFa := unwrapLoad(c.Call.Args[0]).(*ssa.FieldAddr); isFa && fieldObj(fa).Name() == "enabled" {
					marks = append(marks, in)
				}
			}
			if st, ok := in.(*ssa.Store); ok {
				if fa, isFa := st.Addr.(*ssa.FieldAddr); isFa && fieldObj(fa).Name() == "enabled" {
					marks = append(marks, in)
				}
			}
		}
		if len(marks) == 0 {
			r.Undecided("(*M/h2/grpc.adapter).Header: marks the stream as gRPC", "UNRESOLVED: no store to the enabled flag")
		}
		for _, m := range marks {
			bad := ""
			seen := map[*ssa.BasicBlock]bool{}
			var walk func(b *ssa.BasicBlock)
			walk = func(b *ssa.BasicBlock) {
				if seen[b] || bad != "" {
					return
				}
				seen[b] = true
				if len(b.Preds) == 0 {
					bad = "without any content-type test"
					return
				}
				for _, p := range b.Preds {
					iff, isIf := p.Instrs[len(p.Instrs)-1].(*ssa.If)
					if !isIf || p.Succs[0] == p.Succs[1] {
						walk(p)
						continue
					}
					taken := p.Succs[0] == b
					switch c := iff.Cond.(type) {
					case *ssa.BinOp:
						k, isK := constString(c.Y)
						other := c.X
						if !isK {
							k, isK = constString(c.X)
							other = c.Y
						}
						if isK && (c.Op == token.EQL || c.Op == token.NEQ) && hdrField(other, "Value") {
							if anyIn(w.backSlice(other, flowOpt{}), func(x ssa.Value) bool { _, isSl := x.(*ssa.Slice); return isSl }) {
								bad = "on a comparison of a part of the content-type with " + strconv.Quote(k)
								return
							}
							if (c.Op == token.EQL) == taken {
								continue // exact value
							}
							bad = "on the edge where the content-type differs from " + strconv.Quote(k)
							return
						}
						if isK && hdrField(other, "Name") {
							if (c.Op == token.EQL) == taken {
								bad = "for any value of the content-type header"
								return
							}
						}
					case *ssa.Call:
						switch calleeName(c) {
						case "strings.HasPrefix":
							if k, isK := constString(c.Call.Args[1]); isK && hdrField(c.Call.Args[0], "Value") {
								if taken && (strings.HasSuffix(k, "+") || strings.HasSuffix(k, ";")) {
									continue
								}
								bad = "for every content-type that merely starts with " + strconv.Quote(k) + " (application/grpc-web... are not gRPC)"
								return
							}
						case "strings.EqualFold":
							if taken {
								continue
							}
						case "strings.Contains", "strings.HasSuffix", "strings.Index", "strings.ContainsAny":
							if hdrField(c.Call.Args[0], "Value") {
								bad = "on a substring test of the content-type"
								return
							}
						}
					}
					walk(p)
				}
			}
			walk(m.Block())
			// both directions recognise gRPC by themselves: a processor may be attached
			// to the response side only
			dirDep := false
			for _, ce := range ctrlEdges(m.Block()) {
				if anyIn(w.backSlice(ce.If.Cond, flowOpt{BinOps: true}), func(x ssa.Value) bool {
					fa, y := x.(*ssa.FieldAddr)
					return y && fieldObj(fa).Name() == "dir"
				}) {
					dirDep = true
				}
			}
			r.Decide("path", "(*M/h2/grpc.adapter).Header: recognising gRPC does not depend on the direction", !dirDep, "the content-type scan runs for request and response headers alike", "the stream is marked gRPC only while handling one direction's headers: an adapter that sees only the other direction (a response-only processor) never shows it a header or a message", m.Pos())
			r.Decide("path", "(*M/h2/grpc.adapter).Header: a stream is marked gRPC only on an exact content-type", bad == "", "every edge into the marking statement is the true edge of an equality (or delimiter-terminated prefix) test of the content-type value", "the stream is treated as gRPC "+bad+": streams that are not gRPC are re-framed or swallowed instead of passing through untouched", m.Pos())
		}
	})

	r.Guard("C11.R4", "an end of stream that carries no message adds no message to the wire", func() {
		// nil is the marker of "no message": a real message, even an empty one, is
		// never handed over as the nil slice (the emitter would take it for a bare end
		// of stream and the message would vanish)
		for _, c := range calls(ad) {
			cc := c.Common()
			if !cc.IsInvoke() || cc.Method.Name() != "Message" || isNilConst(cc.Args[0]) {
				continue
			}
			nilLeaf := false
			for _, l := range resolveAll(cc.Args[0]) {
				if isNilConst(l) {
					nilLeaf = true
				}
			}
			if nilLeaf {
				// a nil among the values may belong to a path that cannot reach the call (the
				// nil result a decoder returns together with its error): decide per path
				if paths, okp := blockPathsUntil(ad.Blocks[0], c.Block(), 20000); okp {
					nilLeaf = false
					for _, p := range paths {
						for _, l := range resolveOnPath(cc.Args[0], p) {
							if isNilConst(l) {
								nilLeaf = true
							}
						}
					}
				}
			}
			r.Decide("flow", "(*M/h2/grpc.adapter).Data: a message handed to the processor is never the nil slice", !nilLeaf, "every value the message can take is an allocated slice or a decoder result", "a message (e.g. a zero-length one) can reach the processor as nil, the marker of a message-less end of stream: it is dropped, and with it the message count the peer sees", c.Pos())
		}
		// adapter: the only nil message is the bare end of stream (empty buffer and streamEnded)
		okA := true
		nNil := 0
		for _, c := range calls(ad) {
			cc := c.Common()
			if !cc.IsInvoke() || cc.Method.Name() != "Message" {
				continue
			}
			if isNilConst(cc.Args[0]) {
				nNil++
				if b, isC := constBool(cc.Args[1]); !isC || !b {
					okA = false
				}
			} else if !anyIn(w.backSlice(cc.Args[0], flowOpt{}), func(v ssa.Value) bool { _, isMk := v.(*ssa.MakeSlice); return isMk }) {
				okA = false
			}
		}
		r.Decide("flow", "(*M/h2/grpc.adapter).Data: messages come from the reassembly buffer; nil only marks a bare end of stream", okA && nNil <= 1, "message data is a slice filled from the buffer", "the adapter reports a message that was never on the wire", ad.Pos())
		// emitter: nil + ended is forwarded as an empty DATA frame before any prefix is written
		g := G(em)
		var bare ssa.Instruction
		for _, c := range calls(em) {
			cc := c.Common()
			if cc.IsInvoke() && cc.Method.Name() == "Data" && isNilConst(cc.Args[0]) {
				bare = c
			}
		}
		ok := bare != nil
		if ok {
			// dominated by the nil edge of the data parameter and the true edge of streamEnded
			dn := false
			for _, t := range nilTests(em.Params[1]) {
				for k, s := range t.If.Block().Succs {
					if s == t.Nil && edgeDominates(t.If.Block(), k, bare.Block()) {
						dn = true
					}
				}
			}
			de := false
			for _, e := range branchesOn(em.Params[2]) {
				if edgeDominatesTrue(e, bare.Block()) {
					de = true
				}
			}
			ok = dn && de
			// after it, no prefix is written
			if g.PathTo([]ssa.Instruction{bare}, false, nil, func(i ssa.Instruction) bool {
				_, y := isCall(i, "(*bytes.Buffer).WriteByte", "encoding/binary.Write")
				return y
			}) != nil {
				ok = false
			}
			// and every path to the prefix writer tested data for nil first
			var nilIfs []ssa.Instruction
			for _, t := range nilTests(em.Params[1]) {
				nilIfs = append(nilIfs, t.If)
			}
			if g.PathTo([]ssa.Instruction{g.Entry()}, true, func(i ssa.Instruction) bool {
				for _, n := range nilIfs {
					if n == i {
						return true
					}
				}
				return false
			}, func(i ssa.Instruction) bool { _, y := isCall(i, "encoding/binary.Write"); return y }) != nil {
				ok = false
			}
		}
		r.Decide("path", "(*M/h2/grpc.emitter).Message: a message-less end of stream is forwarded bare", ok, "nil message with streamEnded goes to sink.Data(nil, true) and never reaches the prefix writer", "a nil (no-message) end of stream is framed as a zero-length gRPC message: the destination receives a message the source never sent", em.Pos())
	})

	r.Guard("C11.R5", "a complete zero-length message is delivered without waiting for further bytes", func() {
		// end-of-stream exactly once and after the last message also depends on the relay
		// putting END_STREAM on the right DATA fragment
		endStreamOnLastFragmentRule(r)
		// ... and on the relay emitting a frame whenever it fits the windows (a last DATA frame that
		// exactly fills the window, END_STREAM with it, must not stay queued)
		if emit := r.Use("h2", "outputBuffer.emitEligibleFrames"); emit != nil {
			windowFitRules(r, emit)
		}
		// ... and on the source getting its credit back for every DATA frame, END_STREAM frames
		// included (a connection whose credit leaks away stalls, and later messages never arrive)
		if swu := r.Use("h2", "relay.sendWindowUpdates"); swu != nil {
			creditOnAllPathsRule(r, swu)
		}
		processorChainRule(r)
		// ... and on every window update being applied, and on frames of any negotiated size being read
		flowWakeRules(r)
		// at the bottom of the reassembly loop, returning on an empty buffer must be excluded for the state
		// "prefix read, length 0": the wait-for-more return must be control dependent on a.length / a.state
		g := G(ad)
		_ = g
		ok := false
		for _, in := range instrs(ad) {
			b, isB := in.(*ssa.BinOp)
			if !isB || b.Op != token.EQL {
				continue
			}
			// comparison a.length == 0
			ld, isLd := b.X.(*ssa.UnOp)
			if !isLd {
				continue
			}
			fa, isFa := ld.X.(*ssa.FieldAddr)
			if !isFa || fieldObj(fa).Name() != "length" {
				continue
			}
			if n, isC := constInt(b.Y); isC && n == 0 {
				for _, e := range branchesOn(b) {
					// the zero-length edge leads back into the loop (reaches the message delivery) rather than returning
					if G(ad).PathTo(blockStart(e.True), true, isReturn, func(i ssa.Instruction) bool {
						c, y := i.(ssa.CallInstruction)
						return y && c.Common().IsInvoke() && c.Common().Method.Name() == "Message"
					}) != nil {
						ok = true
					}
				}
			}
		}
		// the wait-for-more decision at the bottom of the loop, as a truth table: the adapter
		// returns to wait exactly when the buffer is empty and it is not sitting on a complete
		// zero-length message
		tableHolds := false
		{
			var lenTests []*ssa.BinOp
			for _, in := range instrs(ad) {
				b, isB := in.(*ssa.BinOp)
				if !isB || !inLoop(b.Block()) {
					continue
				}
				if c, isC := unwrapConv(b.X).(*ssa.Call); isC && calleeName(c) == "(*bytes.Buffer).Len" {
					if _, isK := constInt(b.Y); isK && len(branchesOn(b)) > 0 {
						// the one that decides a return, not the one feeding the Message call
						if _, isIf := b.Block().Instrs[len(b.Block().Instrs)-1].(*ssa.If); isIf && (*b.Referrers())[0] == b.Block().Instrs[len(b.Block().Instrs)-1] {
							// the bottom of the loop: one successor is the loop head
							for _, sc := range b.Block().Succs {
								if sc != b.Block() && sc.Dominates(b.Block()) {
									lenTests = append(lenTests, b)
								}
							}
						}
					}
				}
			}
			okTable := len(lenTests) > 0
			for _, lt := range lenTests {
				for _, bl := range []int64{0, 1, 7} {
					for _, inData := range []bool{false, true} {
						for _, zero := range []bool{false, true} {
							leaf := func(v ssa.Value) (bool, bool) {
								b, isB := v.(*ssa.BinOp)
								if !isB {
									return false, false
								}
								if c, isC := unwrapConv(b.X).(*ssa.Call); isC && calleeName(c) == "(*bytes.Buffer).Len" {
									if k, isK := constInt(b.Y); isK {
										return cmpHolds(b.Op, bl, k), true
									}
								}
								if ld, isLd := b.X.(*ssa.UnOp); isLd {
									if fa, isFa := ld.X.(*ssa.FieldAddr); isFa {
										switch fieldObj(fa).Name() {
										case "length":
											if k, isK := constInt(b.Y); isK {
												n := int64(5)
												if zero {
													n = 0
												}
												return cmpHolds(b.Op, n, k), true
											}
										case "state":
											if k, isK := constInt(b.Y); isK {
												// readingMessageData is the state whose constant the pinned comparison uses
												st := k
												if !inData {
													st = k + 1
												}
												return cmpHolds(b.Op, st, k), true
											}
										}
									}
								}
								return false, false
							}
							out, okD := decide(lt.Block(), leaf)
							if !okD {
								okTable = false
								continue
							}
							_, returns := out.Instrs[len(out.Instrs)-1].(*ssa.Return)
							want := bl == 0 && !(inData && zero)
							if returns != want {
								okTable = false
							}
						}
					}
				}
			}
			tableHolds = okTable
			r.Decide("path", "(*M/h2/grpc.adapter).Data: the adapter waits for more bytes exactly when the buffer is empty and no zero-length message is pending", okTable, "truth table over buffer length {0,1,7} x state x pending length evaluates to: return iff empty and not (reading data and length 0)", "the wait-for-more test at the bottom of the reassembly loop has another truth table: complete messages already in the buffer are not delivered (the adapter returns although bytes remain), or it spins / waits with a zero-length message pending", ad.Pos())
		}
		// the last message of a frame that ends the stream carries the end-of-stream mark, and
		// only that one: streamEnded && nothing left in the buffer
		for _, c := range calls(ad) {
			cc := c.Common()
			if !cc.IsInvoke() || cc.Method.Name() != "Message" || len(cc.Args) != 2 {
				continue
			}
			if _, isConst := cc.Args[1].(*ssa.Const); isConst {
				continue // the bare end-of-stream notification Message(nil, true)
			}
			sl := w.backSlice(cc.Args[1], flowOpt{BinOps: true})
			fromParam := anyIn(sl, func(v ssa.Value) bool { p, y := v.(*ssa.Parameter); return y && p.Type().String() == "bool" })
			okLen, n := true, 0
			for v := range sl {
				b, isB := v.(*ssa.BinOp)
				if !isB {
					continue
				}
				if lc, isC := unwrapConv(b.X).(*ssa.Call); isC && calleeName(lc) == "(*bytes.Buffer).Len" {
					if k, isK := constInt(b.Y); isK {
						n++
						if !cmpHolds(b.Op, 0, k) || cmpHolds(b.Op, 1, k) || cmpHolds(b.Op, 9, k) {
							okLen = false
						}
					}
				}
			}
			r.Decide("flow", "(*M/h2/grpc.adapter).Data: a message is marked end-of-stream only when the frame ended the stream and nothing is left in the buffer", fromParam && okLen && n == 1, "streamEnded && buffer.Len() == 0", "the end-of-stream mark of a delivered message does not mean \"frame ended the stream and no further message is buffered\": with several messages in the last DATA frame the mark goes on an earlier one (or on none)", c.Pos())
		}
		// the gRPC mark is set exactly when the stored value is positive
		if ie := r.W.Fn("h2/grpc", "adapter.isEnabled"); ie != nil && ie.Blocks != nil {
			okE := false
			for _, ret := range returns(ie) {
				if b, isB := ret.Results[0].(*ssa.BinOp); isB {
					if k, isK := constInt(b.Y); isK && cmpHolds(b.Op, 1, k) && !cmpHolds(b.Op, 0, k) {
						okE = true
					}
				}
			}
			r.Decide("flow", "(*M/h2/grpc.adapter).isEnabled: true for a set mark, false for a clear one", okE, "the comparison holds for 1 and not for 0", "isEnabled is true for a clear mark: every stream, gRPC or not, is parsed as gRPC", ie.Pos())
		}
		// (the control-dependence form of this rule is kept as a second witness; the truth table above
		// decides when the test is written in another equivalent form)
		r.Decide("path", "(*M/h2/grpc.adapter).Data: a zero-length message is delivered without waiting for more bytes", ok || tableHolds, "the empty-buffer return is bypassed when the pending message has length 0", "after reading the prefix of a zero-length message the adapter waits for more data: the message (and an END_STREAM on that frame) is never delivered", ad.Pos())
	})
}

// ctrlConds describes the branch edges that dominate block b: one entry per
// If whose taken edge every path to b must use. A condition that is a load of
// a struct field is named after the field, so that repeated tests of one
// field compare equal.
func ctrlConds(b *ssa.BasicBlock) []string {
	var out []string
	f := b.Parent()
	for _, blk := range f.Blocks {
		if len(blk.Instrs) == 0 {
			continue
		}
		iff, ok := blk.Instrs[len(blk.Instrs)-1].(*ssa.If)
		if !ok {
			continue
		}
		for k := range blk.Succs {
			if blk.Succs[0] == blk.Succs[1] {
				continue
			}
			if edgeDominates(blk, k, b) {
				desc := iff.Cond.String()
				if ld, isLd := iff.Cond.(*ssa.UnOp); isLd && ld.Op == token.MUL {
					if fa, isFa := ld.X.(*ssa.FieldAddr); isFa {
						desc = "field " + fieldObj(fa).Name()
					}
				}
				out = append(out, fmt.Sprintf("%s=%v", desc, k == 0))
			}
		}
	}
	sort.Strings(out)
	return out
}

// ctrlEdge is one branch edge that dominates a block.
type ctrlEdge struct {
	If    *ssa.If
	Taken bool // the true successor
}

func ctrlEdges(b *ssa.BasicBlock) []ctrlEdge {
	var out []ctrlEdge
	for _, blk := range b.Parent().Blocks {
		if len(blk.Instrs) == 0 {
			continue
		}
		iff, ok := blk.Instrs[len(blk.Instrs)-1].(*ssa.If)
		if !ok || blk.Succs[0] == blk.Succs[1] {
			continue
		}
		for k := range blk.Succs {
			if edgeDominates(blk, k, b) {
				out = append(out, ctrlEdge{iff, k == 0})
			}
		}
	}
	return out
}

func isExtractOfCall(v ssa.Value, name string) bool {
	e, ok := v.(*ssa.Extract)
	return ok && isCallValue(e.Tuple, name)
}

// processorChainRule: when a stream processor factory returns nil for a
// direction, that direction is served by the next inner layer of the chain
// (the Processors value handed to the factory), not by the relay itself: the
// receiver of the ForDirection fallback is the factory call's own argument.
// Otherwise every inner processor (the gRPC reassembly among them) is shown
// nothing in that direction. Shared by C11.R5 and C08.R2.
func processorChainRule(r *Report) {
	px := r.W.Fn("h2", "Config.Proxy")
	if px == nil || px.Blocks == nil {
		r.Undecided("M/h2.Config.Proxy", "UNRESOLVED")
		return
	}
	n := 0
	for _, f := range px.AnonFuncs {
		fds := calls(f, "(*M/h2.Processors).ForDirection")
		if len(fds) == 0 {
			continue
		}
		r.Touch(f)
		// the factory call: a dynamic call whose last argument is a *Processors
		var factoryArg ssa.Value
		for _, c := range calls(f) {
			cc := c.Common()
			if cc.IsInvoke() || cc.StaticCallee() != nil || len(cc.Args) == 0 {
				continue
			}
			last := cc.Args[len(cc.Args)-1]
			if strings.HasSuffix(last.Type().String(), "h2.Processors") {
				factoryArg = last
			}
		}
		for _, c := range fds {
			n++
			ok := factoryArg != nil && (c.Common().Args[0] == factoryArg || sameAs(c.Common().Args[0], factoryArg))
			r.Decide("flow", "(*M/h2.Config).Proxy: "+site(f, c)+" falls back to the layer the factory was given", ok, "the receiver of ForDirection is the Processors value passed to the factory", "a direction for which a factory returns no processor is connected to the relay itself instead of the next inner layer: every processor further in (the gRPC reassembly) is shown no message and no end of stream in that direction", c.Pos())
		}
	}
	r.Decide("flow", "(*M/h2.Config).Proxy chains the stream processors", n >= 2, fmt.Sprintf("%d ForDirection fallbacks", n), "the nil-processor fallbacks were not found", px.Pos())
}
