package main

import (
	"fmt"
	"go/token"
	"go/types"
	"os"
	"reflect"
	"sort"
	"strings"

	"golang.org/x/tools/go/ssa"
)

func init() {
	props["C12"] = func(r *Report) {
		c12(r)
		r.Guard("C12.R9", "every lock taken is released on every exit: the group / handler locks", func() {
			lockPairRule(r, "fifo", "priority", "filter", "martianhttp", "parse", "servemux")
			// ... and held while the child lists are read or changed (a group can be reconfigured
			// through its Add/Remove methods while traffic runs through it)
			for _, pkg := range []string{"fifo", "priority"} {
				guardedFieldsRule(r, pkg, "Group", "reqmu", []string{"reqmods"}, "a reconfiguration races with traffic: a child is skipped, run twice, or the slice is read while it is being shifted")
				guardedFieldsRule(r, pkg, "Group", "resmu", []string{"resmods"}, "a reconfiguration races with traffic: a child is skipped, run twice, or the slice is read while it is being shifted")
			}
		})
	}
	floors["C12"] = map[string]int{"C12.R1": 35, "C12.R2": 38, "C12.R3": 58, "C12.R4": 28, "C12.R5": 4, "C12.R6": 8, "C12.R7": 5, "C12.R8": 6, "C12.R9": 1}
}

// registered lists the (name, parse function) pairs passed to parse.Register.
type regEntry struct {
	Name string
	Fn   *ssa.Function
	Call ssa.CallInstruction
	In   *ssa.Function
}

func (w *World) registered() []regEntry {
	var out []regEntry
	for _, f := range w.Funcs() {
		for _, c := range calls(f, "M/parse.Register") {
			e := regEntry{Call: c, In: f}
			e.Name, _ = constString(c.Common().Args[0])
			switch v := c.Common().Args[1].(type) {
			case *ssa.Function:
				e.Fn = v
			case *ssa.MakeClosure:
				e.Fn = v.Fn.(*ssa.Function)
			case *ssa.ChangeType:
				if fn, ok := v.X.(*ssa.Function); ok {
					e.Fn = fn
				}
			}
			out = append(out, e)
		}
	}
	sort.Slice(out, func(i, j int) bool { return out[i].Name < out[j].Name })
	return out
}

// jsonTag returns the json tag name of the field addressed by fa.
func jsonTagOf(fa *ssa.FieldAddr) string {
	st := fa.X.Type().Underlying().(*types.Pointer).Elem().Underlying().(*types.Struct)
	tag := reflect.StructTag(st.Tag(fa.Field)).Get("json")
	if i := strings.Index(tag, ","); i >= 0 {
		tag = tag[:i]
	}
	return tag
}

func c12(r *Report) {
	w := r.W
	r.Decline("evaluation semantics over whole trees (follows from the per-node rules by induction; the induction is stated, not mechanised)")
	r.Decline("priority tie order as a value fact (only that the two sides agree), JSON decoding details, which packages an embedder links")
	regs := w.registered()
	nr := r.Use("parse", "NewResult")
	fj := r.Use("parse", "FromJSON")
	reg := r.Use("parse", "Register")
	if nr == nil || fj == nil || reg == nil {
		return
	}

	r.Guard("C12.R1", "the registry: distinct constant names, registered during package initialisation, table guarded by its lock", func() {
		seen := map[string]bool{}
		for _, e := range regs {
			ok := e.Name != "" && !seen[e.Name] && e.Fn != nil && strings.HasPrefix(e.In.Name(), "init")
			seen[e.Name] = true
			r.Sites++
			r.Decide("table", "registration of "+e.Name, ok, "constant, unique, in "+fnName(e.In), "a modifier is registered under a duplicate / non-constant name or outside package initialisation", e.Call.Pos())
		}
		for _, f := range []*ssa.Function{reg, fj} {
			st := lockStates(f, nil)
			for _, in := range instrs(f) {
				switch x := in.(type) {
				case *ssa.MapUpdate:
					if g, ok := unwrapLoad(x.Map).(*ssa.Global); ok && g.Name() == "parseFuncs" {
						r.Decide("lockset", "parseFuncs written in "+fnName(f), st[in].heldW("M/parse.parseMu"), "under parseMu", "registry written without its lock", x.Pos())
					}
				case *ssa.Lookup:
					if g, ok := unwrapLoad(x.X).(*ssa.Global); ok && g.Name() == "parseFuncs" {
						r.Decide("lockset", "parseFuncs read in "+fnName(f), st[in].held("M/parse.parseMu"), "under parseMu", "registry read without its lock", x.Pos())
					}
				}
			}
		}
	})

	r.Guard("C12.R2", "every node acts only on the message kinds named in its scope", func() {
		for _, e := range regs {
			if e.Fn == nil {
				continue
			}
			r.Touch(e.Fn)
			key := "scope honoured by the parser of " + e.Name
			nrs := plainCalls(e.Fn, "M/parse.NewResult")
			if len(nrs) == 0 {
				r.Fail("flow", key, "the parse function does not build its result with parse.NewResult: the configured scope is ignored", nil, e.Fn.Pos())
				continue
			}
			ok := true
			why := ""
			for _, c := range nrs {
				if !anyIn(w.backSlice(c.Call.Args[1], flowOpt{}), func(v ssa.Value) bool {
					fa, isFa := v.(*ssa.FieldAddr)
					return isFa && jsonTagOf(fa) == "scope"
				}) {
					ok, why = false, "parse.NewResult is not given the value decoded from the JSON \"scope\" field (nil or a constant: the node would act on both kinds)"
				}
			}
			// every successful return hands back a NewResult
			for _, ret := range returns(e.Fn) {
				for _, v := range retVals(ret, 0) {
					for _, l := range resolveAll(v) {
						if isNilConst(l) {
							continue
						}
						ex, isEx := l.(*ssa.Extract)
						if !isEx || !isCallValue(ex.Tuple, "M/parse.NewResult") {
							ok, why = false, "a successful return yields a result not built by parse.NewResult"
						}
					}
				}
			}
			r.Sites++
			r.Decide("flow", key, ok, "NewResult(mod, <json scope>) is the only successful result", why, e.Fn.Pos())
		}
		// NewResult itself
		for _, side := range []struct{ field, lit, iface string }{{"reqmod", "request", "RequestModifier"}, {"resmod", "response", "ResponseModifier"}} {
			okAssign, okReject := false, false
			for _, in := range instrs(nr) {
				st, isSt := in.(*ssa.Store)
				if !isSt {
					continue
				}
				fa, isFa := st.Addr.(*ssa.FieldAddr)
				if !isFa || fieldObj(fa).Name() != side.field {
					continue
				}
				// value: the assertion of mod to this side's interface
				fromAssert := anyIn(w.backSlice(st.Val, flowOpt{}), func(v ssa.Value) bool {
					ta, isTA := v.(*ssa.TypeAssert)
					return isTA && strings.HasSuffix(ta.AssertedType.String(), "."+side.iface)
				})
				if !fromAssert {
					okAssign = false
					r.Fail("flow", "M/parse.NewResult: "+side.field+" holds the "+side.iface+" view of the modifier", "the "+side.field+" slot is filled from something else than mod.("+side.iface+")", nil, st.Pos())
					continue
				}
				// inside the scope loop: dominated by s == "<side>"
				for _, in2 := range instrs(nr) {
					b, isB := in2.(*ssa.BinOp)
					if !isB || b.Op != token.EQL {
						continue
					}
					if s, isC := constString(unwrapConv(b.Y)); isC && s == side.lit {
						for _, e := range branchesOn(b) {
							if edgeDominatesTrue(e, st.Block()) {
								okAssign = true
								// the !ok edge of this side's assertion rejects before the assignment
								if G(nr).PathTo(blockStart(e.True), true, func(i ssa.Instruction) bool {
									iff, isIf := i.(*ssa.If)
									return isIf && anyIn(w.backSlice(iff.Cond, flowOpt{}), func(v ssa.Value) bool {
										ta, isTA := v.(*ssa.TypeAssert)
										return isTA && strings.HasSuffix(ta.AssertedType.String(), "."+side.iface)
									})
								}, func(i ssa.Instruction) bool { return i == ssa.Instruction(st) }) == nil {
									okReject = true
								}
							}
						}
					}
				}
			}
			r.Decide("path", "M/parse.NewResult: scope \""+side.lit+"\" assigns only the "+side.field+" slot", okAssign, "the store sits on the case for this scope", "the scope switch assigns the wrong slot (a request-scoped node would act on responses)", nr.Pos())
			r.Decide("path", "M/parse.NewResult: scope \""+side.lit+"\" is rejected for a modifier that is not a "+side.iface, okReject, "the assertion's ok flag is tested before the assignment", "an unsupported scope is accepted silently", nr.Pos())
		}
		// the arm that installs both sides without looking at the scope is the
		// one for an absent scope (nil), not for an empty one: "scope": [] names no
		// message kind
		for _, in := range instrs(nr) {
			st, isSt := in.(*ssa.Store)
			if !isSt {
				continue
			}
			fa, isFa := st.Addr.(*ssa.FieldAddr)
			if !isFa || (fieldObj(fa).Name() != "reqmod" && fieldObj(fa).Name() != "resmod") {
				continue
			}
			scoped := false
			nilArm := false
			for _, ce := range ctrlEdges(st.Block()) {
				b, isB := ce.If.Cond.(*ssa.BinOp)
				if !isB {
					continue
				}
				if _, isC := constString(unwrapConv(b.Y)); isC && b.Op == token.EQL && ce.Taken {
					scoped = true
				}
				if (isNilConst(b.Y) && isParamVal(b.X, nr.Params[1])) || (isNilConst(b.X) && isParamVal(b.Y, nr.Params[1])) {
					if (b.Op == token.EQL) == ce.Taken {
						nilArm = true
					}
				}
			}
			if scoped {
				continue
			}
			r.Decide("path", "M/parse.NewResult: "+fieldObj(fa).Name()+" installed without a scope test only when the scope is absent", nilArm, "the store is on the scope == nil edge", "both sides are installed whenever the scope is empty (not only when it is absent): a node whose scope names no message kind acts on requests and responses", st.Pos())
		}
		// unknown scope rejected
		rejects := 0
		for _, ret := range returns(nr) {
			for _, v := range retVals(ret, 1) {
				for _, l := range resolveAll(v) {
					if isFreshErr(l) {
						rejects++
					}
				}
			}
		}
		r.Decide("path", "M/parse.NewResult: unknown scope values are rejected", rejects >= 3, fmt.Sprintf("%d rejecting returns", rejects), "fewer than three rejecting returns: an unknown or unsupported scope is accepted", nr.Pos())
	})

	r.Guard("C12.R3", "a configuration is rejected as a whole: every error while parsing a node is propagated and nothing of the failed node is used", func() {
		fns := []*ssa.Function{fj}
		for _, e := range regs {
			if e.Fn != nil {
				fns = append(fns, e.Fn)
			}
		}
		for _, f := range fns {
			for _, in := range instrs(f) {
				c, ok := in.(*ssa.Call)
				if !ok {
					continue
				}
				res := c.Call.Signature().Results()
				if res.Len() == 0 || !isErrorType(res.At(res.Len()-1).Type()) {
					continue
				}
				switch calleeName(c) {
				case "M/parse.NewResult": // its tuple is returned as is
					continue
				case "fmt.Errorf", "errors.New": // error constructors, not fallible steps
					continue
				}
				if infallibleWriters[calleeName(c)] {
					continue // documented to always return a nil error
				}
				r.Sites++
				key := fmt.Sprintf("%s: error of %s#%d propagated", fnName(f), nameOrDyn(c), ordinalAny(f, c))
				tests := errTests(c)
				if len(tests) == 0 {
					// returned directly as the function's own result?
					direct := false
					if c.Referrers() != nil {
						for _, u := range *c.Referrers() {
							if _, isRet := u.(*ssa.Return); isRet {
								direct = true
							}
							if ex, isEx := u.(*ssa.Extract); isEx && ex.Referrers() != nil {
								for _, uu := range *ex.Referrers() {
									if _, isRet := uu.(*ssa.Return); isRet {
										direct = true
									}
									// defer-spilled result: stored into the result cell and returned from there
									if st, isSt := uu.(*ssa.Store); isSt {
										if _, isAlloc := st.Addr.(*ssa.Alloc); isAlloc && isErrorType(ex.Type()) {
											direct = true
										}
									}
								}
							}
						}
					}
					r.Decide("path", key, direct, "returned directly", "the error is dropped: a malformed child or value is accepted", c.Pos())
					continue
				}
				ok2 := true
				for _, t := range tests {
					vals, _, okp := returnValuesFromEdge(t.If.Block(), t.NonNil, 0)
					if !okp || len(vals) == 0 {
						ok2 = false
					}
					for _, v := range vals {
						if !isNilConst(v) {
							ok2 = false
							if os.Getenv("VERIF_DEBUG") != "" {
								fmt.Fprintf(os.Stderr, "C12R3 %s: result0 %s (%T) from test in block %d\n", fnName(f), v, v, t.If.Block().Index)
							}
						}
					}
					// (a test on a variable that merges several errors and nil - the result variable
					// of an inlined helper - is on its non-nil edge by construction: the nil input
					// of the merge is not a value the edge can carry)
					merged := false
					if bin, isBin := t.If.Cond.(*ssa.BinOp); isBin {
						for _, side := range []ssa.Value{bin.X, bin.Y} {
							if ph, isPhi := side.(*ssa.Phi); isPhi && ph.Block() == t.If.Block() {
								merged = true
							}
						}
					}
					errs, _, _ := returnValuesFromEdge(t.If.Block(), t.NonNil, 1)
					for _, v := range errs {
						if isNilConst(v) && !merged {
							ok2 = false
						}
					}
				}
				r.Paths++
				r.Decide("path", key, ok2, "the error edge returns (nil, err)", "after this call fails the parser still returns a modifier (or no error): a broken configuration is partly accepted", c.Pos())
			}
		}
		// the whole input is one JSON document: json.Unmarshal of the complete buffer (a
		// json.Decoder stops after the first value and accepts whatever follows it)
		{
			whole := false
			for _, c := range plainCalls(fj, "encoding/json.Unmarshal") {
				if len(fj.Params) > 0 && isParamVal(c.Call.Args[0], fj.Params[0]) {
					whole = true
				}
			}
			r.Decide("flow", "M/parse.FromJSON: the complete input is validated as one JSON document", whole, "json.Unmarshal(b, ...)", "the configuration is decoded with something that stops after the first value (json.Decoder): a valid node followed by garbage, or by a second document, is accepted and only the first takes effect", fj.Pos())
		}
		// FromJSON: exactly one key; unknown name rejected
		okOne := false
		for _, in := range instrs(fj) {
			b, isB := in.(*ssa.BinOp)
			if !isB || b.Op != token.NEQ && b.Op != token.EQL {
				continue
			}
			if n, isC := constInt(b.Y); isC && n == 1 {
				if c, isLen := b.X.(*ssa.Call); isLen {
					if bi, y := c.Call.Value.(*ssa.Builtin); y && bi.Name() == "len" {
						okOne = true
					}
				}
			}
		}
		r.Decide("path", "M/parse.FromJSON: a node has exactly one key", okOne, "len(msg) compared with 1", "nodes with several modifier names are no longer rejected", fj.Pos())
		okUnknown := false
		for _, in := range instrs(fj) {
			lk, isLk := in.(*ssa.Lookup)
			if !isLk || !lk.CommaOk {
				continue
			}
			okv := extractOfTuple(lk, 1)
			if okv == nil {
				continue
			}
			for _, e := range branchesOn(okv) {
				errs, _, _ := returnValuesFrom(e.False, 1)
				for _, v := range errs {
					if strings.Contains(v.Type().String(), "ErrUnknownModifier") || errClass(v) == "make:"+M+"/parse.ErrUnknownModifier" {
						okUnknown = true
					}
				}
			}
		}
		// ... and nothing is accepted as "no modifier": a nil Result is returned only with an error
		okNil := true
		if paths, okP := blockPaths(fj.Blocks[0], 20000); okP {
			for _, bp := range paths {
				ret, isRet := bp[len(bp)-1].Instrs[len(bp[len(bp)-1].Instrs)-1].(*ssa.Return)
				if !isRet || len(ret.Results) != 2 || !pathFeasible(bp) {
					continue
				}
				nilRes, nilErr := false, false
				for _, v := range retVals(ret, 0) {
					for _, l := range resolveOnPath(v, bp) {
						if isNilConst(l) {
							nilRes = true
						}
					}
				}
				for _, v := range retVals(ret, 1) {
					for _, l := range resolveOnPath(v, bp) {
						if isNilConst(l) {
							nilErr = true
						}
					}
				}
				if nilRes && nilErr {
					okNil = false
				}
			}
		}
		r.Decide("path", "M/parse.FromJSON: a configuration is either parsed or rejected", okNil, "no return of (nil, nil)", "FromJSON can answer (nil, nil) (for a JSON null): a null child, a null filter modifier or a POST of null is accepted as an empty configuration instead of being rejected, and replaces the active one", fj.Pos())
		r.Decide("path", "M/parse.FromJSON: an unknown modifier name is rejected", okUnknown, "ErrUnknownModifier on the not-found edge", "an unknown modifier name is not rejected", fj.Pos())
	})

	r.Guard("C12.R4", "filters are wired as written: the modifier goes to the true branch, the else-modifier to the false branch, request and response sides are not crossed", func() {
		setters := map[string][2]string{ // callee suffix -> (side, branch)
			"RequestWhenTrue": {"request", "true"}, "ResponseWhenTrue": {"response", "true"},
			"RequestWhenFalse": {"request", "false"}, "ResponseWhenFalse": {"response", "false"},
			"SetRequestModifier": {"request", "true"}, "SetResponseModifier": {"response", "true"},
		}
		for _, e := range regs {
			if e.Fn == nil {
				continue
			}
			// completeness: a parser that wires one side of a branch wires the other side too, and the
			// else-branch is wired for every non-empty "else" child (a one-byte child is for parse.FromJSON
			// to reject, not for the parser to ignore)
			wired := map[string]map[string]bool{}
			var firstSetter ssa.CallInstruction
			for _, c := range calls(e.Fn) {
				callee := c.Common().StaticCallee()
				if callee == nil || callee.Signature.Recv() == nil || len(c.Common().Args) != 2 {
					continue
				}
				sb, isSetter := setters[callee.Name()]
				if !isSetter || !strings.Contains(callee.Signature.Recv().Type().String(), "Filter") {
					continue
				}
				if wired[sb[1]] == nil {
					wired[sb[1]] = map[string]bool{}
				}
				wired[sb[1]][sb[0]] = true
				if firstSetter == nil {
					firstSetter = c
				}
				if sb[1] == "false" {
					isLenV := func(v ssa.Value) bool {
						cc, isC := v.(*ssa.Call)
						if !isC {
							return false
						}
						bi, isB := cc.Call.Value.(*ssa.Builtin)
						return isB && bi.Name() == "len"
					}
					for _, ce := range ctrlEdges(c.Block()) {
						if rel, adm := constCmpAdmits(ce, isLenV, 1); rel {
							_, adm0 := constCmpAdmits(ce, isLenV, 0)
							r.Decide("guard", fmt.Sprintf("else-branch guard in the parser of %s: %s", e.Name, site(e.Fn, c)), adm && !adm0, "the length test admits exactly the non-empty children", "the length test before wiring the else-branch excludes a one-byte \"else\" child (a malformed child is ignored instead of rejecting the configuration) or admits an absent one (a filter without an else-branch is rejected)", ce.If.Pos())
						}
					}
				}
			}
			if firstSetter != nil {
				for _, br := range []string{"true", "false"} {
					if wired[br] == nil {
						continue
					}
					r.Decide("sibling", fmt.Sprintf("the parser of %s wires both sides of the %s branch", e.Name, br), wired[br]["request"] && wired[br]["response"], "request and response setters both called", fmt.Sprintf("only %v of the %s branch is wired: the filter's modifier never runs on the other message kind its scope names", keys(wired[br]), br), firstSetter.Pos())
				}
			}
			for _, c := range calls(e.Fn) {
				callee := c.Common().StaticCallee()
				if callee == nil {
					continue
				}
				sb, isSetter := setters[callee.Name()]
				if !isSetter || callee.Signature.Recv() == nil {
					continue
				}
				recvT := callee.Signature.Recv().Type().String()
				if !strings.Contains(recvT, "Filter") {
					continue
				}
				arg := c.Common().Args[1]
				sl := w.backSlice(arg, flowOpt{})
				wantGetter := "(*M/parse.Result).RequestModifier"
				if sb[0] == "response" {
					wantGetter = "(*M/parse.Result).ResponseModifier"
				}
				otherGetter := "(*M/parse.Result).ResponseModifier"
				if sb[0] == "response" {
					otherGetter = "(*M/parse.Result).RequestModifier"
				}
				sideOK := anyIn(sl, func(v ssa.Value) bool { return isCallValue(v, wantGetter) }) && !anyIn(sl, func(v ssa.Value) bool { return isCallValue(v, otherGetter) })
				// the Result comes from FromJSON(<json field>)
				tag := ""
				for v := range sl {
					cc, isC := v.(*ssa.Call)
					if !isC || calleeName(cc) != wantGetter {
						continue
					}
					for x := range w.backSlice(cc.Call.Args[0], flowOpt{}) {
						pc, isP := x.(*ssa.Call)
						if !isP || calleeName(pc) != "M/parse.FromJSON" {
							continue
						}
						for y := range w.backSlice(pc.Call.Args[0], flowOpt{}) {
							if fa, isFa := y.(*ssa.FieldAddr); isFa && jsonTagOf(fa) != "" {
								tag = jsonTagOf(fa)
							}
						}
					}
				}
				wantTag := "modifier"
				if sb[1] == "false" {
					wantTag = "else"
				}
				r.Sites++
				r.Decide("flow", fmt.Sprintf("filter wiring in the parser of %s: %s", e.Name, site(e.Fn, c)), sideOK && tag == wantTag,
					fmt.Sprintf("%s side of the JSON %q child", sb[0], tag),
					fmt.Sprintf("this setter (%s side, %s branch) receives the %s of the JSON %q child (want the %s side of %q): the tree does not mean what it says", sb[0], sb[1], map[bool]string{true: "right side", false: "wrong side"}[sideOK], tag, sb[0], wantTag), c.Pos())
			}
		}
	})

	r.Guard("C12.R5", "a filter applies its modifier when the condition holds and the else-branch otherwise", func() {
		// a condition is evaluated on the message in hand: no matcher keeps or reads anything in the
		// exchange's context (a parsed value remembered from the request side, or from before an
		// earlier sibling rewrote the message, answers for another message)
		for _, pk := range []string{"querystring", "header", "martianurl", "cookie", "method", "port"} {
			for _, f := range w.Funcs(pk) {
				if f.Name() != "MatchRequest" && f.Name() != "MatchResponse" && f.Name() != "matches" {
					continue
				}
				r.Touch(f)
				bad := ""
				for _, g := range w.staticReach(f) {
					for _, c := range calls(g, "(*M.Context).Get", "(*M.Context).Set", "(*M.Session).Get", "(*M.Session).Set") {
						bad = calleeName(c) + " in " + fnName(g)
					}
				}
				r.Decide("callgraph", fnName(f)+" looks at the message only", bad == "", "no context or session value is read or written", "the matcher keeps state in the exchange's context ("+bad+"): a value parsed for the request, or before a sibling modifier rewrote the message, decides the branch for the message in hand", f.Pos())
			}
		}
		// the host condition holds only when the whole pattern was matched: inside the scan of
		// MatchHost a `true` is returned only under a test that the pattern index has reached 0
		if mh := w.Fn("martianurl", "MatchHost"); mh != nil && mh.Blocks != nil && len(mh.Params) == 2 {
			r.Touch(mh)
			isPatIdx := func(v ssa.Value) bool {
				for _, in := range instrs(mh) {
					switch x := in.(type) {
					case *ssa.Lookup:
						if isParamVal(x.X, mh.Params[1]) && (x.Index == v || sameAs(x.Index, v)) {
							return true
						}
					case *ssa.IndexAddr:
						if isParamVal(x.X, mh.Params[1]) && (x.Index == v || sameAs(x.Index, v)) {
							return true
						}
					case *ssa.Index:
						if isParamVal(x.X, mh.Params[1]) && (x.Index == v || sameAs(x.Index, v)) {
							return true
						}
					}
				}
				return false
			}
			// the index expressions into the pattern; usedUp: with x pinned to k, one of them is 0 (the
			// loop may count the characters still to examine, indexing with x-1 and testing x == 1)
			var patIdx []ssa.Value
			for _, in := range instrs(mh) {
				switch x := in.(type) {
				case *ssa.Lookup:
					if isParamVal(x.X, mh.Params[1]) {
						patIdx = append(patIdx, x.Index)
					}
				case *ssa.IndexAddr:
					if isParamVal(x.X, mh.Params[1]) {
						patIdx = append(patIdx, x.Index)
					}
				case *ssa.Index:
					if isParamVal(x.X, mh.Params[1]) {
						patIdx = append(patIdx, x.Index)
					}
				}
			}
			usedUp := func(x ssa.Value, k int64) bool {
				if _, isC := x.(*ssa.Const); isC {
					return false
				}
				for _, idx := range patIdx {
					if _, isC := idx.(*ssa.Const); isC {
						continue
					}
					ev := &miniEval{leaf: func(v ssa.Value) (int64, bool) {
						if v == x || sameAs(v, x) {
							return k, true
						}
						return 0, false
					}}
					if got, okE := ev.Int(idx); okE && got == 0 {
						return true
					}
				}
				return false
			}
			n, ok := 0, true
			loops := natLoops(mh)
			for _, ret := range returns(mh) {
				inScan := false
				for _, l := range loops {
					if l.Head.Dominates(ret.Block()) {
						inScan = true
					}
				}
				if !inScan {
					continue
				}
				for _, l := range resolveAll(ret.Results[0]) {
					k, isK := constBool(l)
					if !isK || !k {
						continue
					}
					n++
					consumed := false
					for _, ce := range ctrlEdges(ret.Block()) {
						b, isB := ce.If.Cond.(*ssa.BinOp)
						if !isB {
							continue
						}
						for _, pr := range [][2]ssa.Value{{b.X, b.Y}, {b.Y, b.X}} {
							if kk, isKK := constInt(pr[1]); isKK && kk == 0 && isPatIdx(pr[0]) {
								if (b.Op == token.EQL && ce.Taken) || (b.Op == token.NEQ && !ce.Taken) || (b.Op == token.LEQ && ce.Taken) || (b.Op == token.GTR && !ce.Taken) {
									consumed = true
								}
							}
							if kk, isKK := constInt(pr[1]); isKK && ((b.Op == token.EQL && ce.Taken) || (b.Op == token.NEQ && !ce.Taken)) && usedUp(pr[0], kk) {
								consumed = true
							}
						}
					}
					if !consumed {
						ok = false
					}
				}
			}
			r.Decide("guard", "M/martianurl.MatchHost: a match is reported inside the scan only when the pattern is used up", n >= 1 && ok, "every `return true` in the loop is guarded by a test that the pattern index is 0", "the scan reports a match while part of the pattern is still unmatched (a wildcard that is not the leftmost label swallows the rest of the host): a host filter takes the modifier branch for hosts its pattern does not cover", mh.Pos())
		}
		// the method condition compares case-insensitively (a configuration may spell the method
		// in any case, and so may a client)
		if mm := w.Fn("method", "Matcher.matches"); mm != nil && mm.Blocks != nil {
			r.Touch(mm)
			fold := false
			for _, ret := range returns(mm) {
				for _, l := range resolveAll(ret.Results[0]) {
					if isCallValue(l, "strings.EqualFold") {
						fold = true
					}
					if b, isB := l.(*ssa.BinOp); isB && b.Op == token.EQL {
						norm := func(v ssa.Value) bool { return isCallValue(v, "strings.ToUpper", "strings.ToLower") }
						if norm(b.X) && norm(b.Y) {
							fold = true
						}
					}
				}
			}
			r.Decide("flow", "(*M/method.Matcher).matches compares the method case-insensitively", fold, "strings.EqualFold (or both sides folded the same way)", "the method condition compares exactly: a request (or a configuration) that spells the method in another case takes the else-branch", mm.Pos())
		}
		// a condition on a multi-valued part of a message holds when any of its values
		// matches: the query-string condition looks at every value of the parameter, not
		// at the first one (url.Values.Get)
		if mt := w.Named("querystring", "Matcher"); mt != nil {
			for _, mn := range []string{"MatchRequest", "MatchResponse"} {
				fn := w.method(mt, mn)
				if fn == nil || fn.Blocks == nil {
					r.Undecided("(*M/querystring.Matcher)."+mn, "UNRESOLVED")
					continue
				}
				first := false
				for _, g := range w.staticReach(fn) {
					r.Touch(g)
					if len(calls(g, "(net/url.Values).Get")) > 0 {
						first = true
					}
				}
				r.Decide("callgraph", "(*M/querystring.Matcher)."+mn+" considers every value of the parameter", !first, "no first-value accessor is used", "the condition is evaluated on url.Values.Get, the first value only: a request whose matching value is a later occurrence of the parameter takes the else-branch", fn.Pos())
			}
		}

		// each of the four branch setters of filter.Filter writes one slot, its own: the
		// same slot on all its paths (nil argument or not), and no two setters share one
		if ft := w.Named("filter", "Filter"); ft != nil {
			target := func(st *ssa.Store) string {
				switch a := st.Addr.(type) {
				case *ssa.FieldAddr:
					return fieldObj(a).Name()
				case *ssa.IndexAddr:
					if fa, ok := a.X.(*ssa.FieldAddr); ok {
						if k, isK := constInt(a.Index); isK {
							return fmt.Sprintf("%s[%d]", fieldObj(fa).Name(), k)
						}
						return fieldObj(fa).Name() + "[?]"
					}
				}
				return ""
			}
			owner := map[string]string{}
			for _, mn := range []string{"RequestWhenTrue", "RequestWhenFalse", "ResponseWhenTrue", "ResponseWhenFalse"} {
				fn := w.method(ft, mn)
				if fn == nil || fn.Blocks == nil {
					r.Undecided("(*M/filter.Filter)."+mn, "UNRESOLVED")
					continue
				}
				r.Touch(fn)
				slots := map[string]bool{}
				for _, in := range instrs(fn) {
					if st, ok := in.(*ssa.Store); ok {
						if t := target(st); t != "" {
							slots[t] = true
						}
					}
				}
				okOne := len(slots) == 1
				clash := ""
				for t := range slots {
					if o, taken := owner[t]; taken {
						clash = o
					} else {
						owner[t] = mn
					}
				}
				r.Decide("sibling", "(*M/filter.Filter)."+mn+" writes exactly one slot, which no other branch setter writes", okOne && clash == "", fmt.Sprintf("slot %v", keys(slots)), fmt.Sprintf("the setter writes %v (shared with %q): configuring one branch overwrites another branch's modifier, which then never runs", keys(slots), clash), fn.Pos())
			}
		}

		filt := w.Named("filter", "Filter")
		for _, side := range []struct{ mod, match, tSetter, fSetter string }{
			{"ModifyRequest", "MatchRequest", "RequestWhenTrue", "RequestWhenFalse"},
			{"ModifyResponse", "MatchResponse", "ResponseWhenTrue", "ResponseWhenFalse"},
		} {
			f := w.method(filt, side.mod)
			ts := w.method(filt, side.tSetter)
			fs := w.method(filt, side.fSetter)
			if f == nil || ts == nil || fs == nil {
				r.Undecided("M/filter.Filter."+side.mod, "UNRESOLVED")
				continue
			}
			r.Touch(f)
			var tField, fField *types.Var
			for fo := range fieldsWritten(ts) {
				tField = fo
			}
			for fo := range fieldsWritten(fs) {
				fField = fo
			}
			var match *ssa.Call
			for _, c := range calls(f) {
				if cc, ok := c.(*ssa.Call); ok && cc.Call.IsInvoke() && cc.Call.Method.Name() == side.match {
					match = cc
				}
			}
			if match == nil || tField == nil || fField == nil {
				r.Fail("path", "(*M/filter.Filter)."+side.mod+": branches on the condition", "condition call or setter fields not found", nil, f.Pos())
				continue
			}
			es := branchesOn(match)
			okT, okF := false, false
			for _, c := range calls(f) {
				cc := c.Common()
				if !cc.IsInvoke() || cc.Method.Name() != side.mod {
					continue
				}
				// the modifier invoked: a load of the branch's field at the call, or - when the branch
				// only selects the modifier and one call follows - a load in each arm merged by a phi
				type use struct {
					fa *ssa.FieldAddr
					at *ssa.BasicBlock
				}
				var uses []use
				if ld, isLd := cc.Value.(*ssa.UnOp); isLd {
					if fa, isFa := ld.X.(*ssa.FieldAddr); isFa {
						uses = append(uses, use{fa, c.Block()})
					}
				}
				if ph, isPhi := cc.Value.(*ssa.Phi); isPhi {
					for _, e := range ph.Edges {
						if ld, isLd := e.(*ssa.UnOp); isLd {
							if fa, isFa := ld.X.(*ssa.FieldAddr); isFa {
								uses = append(uses, use{fa, ld.Block()})
							}
						}
					}
				}
				for _, u := range uses {
					for _, e := range es {
						if fieldObj(u.fa) == tField && edgeDominatesTrue(e, u.at) {
							okT = true
						}
						if fieldObj(u.fa) == fField {
							for k, s := range e.If.Block().Succs {
								if s == e.False && edgeDominates(e.If.Block(), k, u.at) {
									okF = true
								}
							}
						}
					}
				}
			}
			// the branch is decided by the condition evaluated on this message, and by nothing else
			// (not by a decision remembered from the other side of the exchange)
			pure := len(es) > 0
			for _, e := range es {
				for _, l := range resolveAll(e.If.Cond) {
					for {
						u, isU := l.(*ssa.UnOp)
						if !isU || u.Op != token.NOT {
							break
						}
						l = u.X
					}
					if l != ssa.Value(match) {
						pure = false
					}
				}
			}
			r.Decide("flow", "(*M/filter.Filter)."+side.mod+": the branch is chosen by "+side.match+" on this message alone", pure, "every value of the branch condition is the result of "+side.match, "the branch condition can also take a value that does not come from evaluating the condition on this message (a cached or remembered decision): a response is sent down the branch its request selected although its own headers select the other", f.Pos())
			r.Decide("path", "(*M/filter.Filter)."+side.mod+": the modifier set by "+side.tSetter+" runs on the matching edge", okT, "field "+tField.Name()+" invoked on match==true", "the true-branch modifier is not the one invoked when the condition holds", f.Pos())
			r.Decide("path", "(*M/filter.Filter)."+side.mod+": the modifier set by "+side.fSetter+" runs on the non-matching edge", okF, "field "+fField.Name()+" invoked on match==false", "the else-branch modifier is not the one invoked when the condition does not hold", f.Pos())
		}
	})

	r.Guard("C12.R7", "priorities are compared as the 64-bit integers the configuration gives", func() { priorityExactRule(r) })

	r.Guard("C12.R6", "a FIFO group applies children in listed order; the first error stops it unless it aggregates, then all run and every error is added once", func() {
		multiErrorOnlyGrows(r)
		// children enter a group through its Add methods, one node each: a parser that
		// splices another group's children into the list changes whose error policy
		// they run under
		for _, fld := range []string{"reqmods", "resmods"} {
			fieldWritersRule(r, "fifo", "Group", fld, map[string]bool{"(*M/fifo.Group).AddRequestModifier": true, "(*M/fifo.Group).AddResponseModifier": true, "M/fifo.NewGroup": true}, "children are added to (or spliced into) the group without going through AddRequestModifier / AddResponseModifier: a nested group's children end up under the outer group's error policy")
		}

		// the configured policy reaches the group: aggregation is switched on exactly when the
		// node says so
		if gj := r.W.Fn("fifo", "groupFromJSON"); gj != nil && gj.Blocks != nil {
			r.Touch(gj)
			isAgg := func(v ssa.Value) bool {
				ld, ok := v.(*ssa.UnOp)
				if !ok || ld.Op != token.MUL {
					return false
				}
				fa, ok := ld.X.(*ssa.FieldAddr)
				return ok && fieldObj(fa).Name() == "AggregateErrors"
			}
			okAgg := false
			for _, c := range plainCalls(gj, "(*M/fifo.Group).SetAggregateErrors") {
				arg := c.Call.Args[1]
				if isAgg(arg) {
					okAgg = true // SetAggregateErrors(msg.AggregateErrors)
				}
				if k, isK := constBool(arg); isK && k {
					for _, ce := range ctrlEdges(c.Block()) {
						cond := ce.If.Cond
						taken := ce.Taken
						if u, isU := cond.(*ssa.UnOp); isU && u.Op == token.NOT {
							cond, taken = u.X, !taken
						}
						if isAgg(cond) && taken {
							okAgg = true
						}
					}
				}
			}
			r.Decide("path", "M/fifo.groupFromJSON: the group aggregates errors exactly when the node asks for it", okAgg, "SetAggregateErrors(true) on the true edge of msg.AggregateErrors (or SetAggregateErrors(msg.AggregateErrors))", "the aggregateErrors key of a fifo.Group node does not reach the group (or reaches it inverted): a group configured to aggregate stops at the first error, or the other way round", gj.Pos())
			if sa := r.W.Fn("fifo", "Group.SetAggregateErrors"); sa != nil {
				setterStoresRule(r, "fifo", "Group", "SetAggregateErrors", "aggregateErrors", "the error policy of a group cannot be changed")
			}
		} else {
			r.Undecided("M/fifo.groupFromJSON", "UNRESOLVED")
		}

		grp := w.Named("fifo", "Group")
		for _, side := range []struct{ add, mod, field string }{{"AddRequestModifier", "ModifyRequest", "reqmods"}, {"AddResponseModifier", "ModifyResponse", "resmods"}} {
			add := w.method(grp, side.add)
			mod := w.method(grp, side.mod)
			if add == nil || mod == nil {
				r.Undecided("M/fifo.Group."+side.mod, "UNRESOLVED")
				continue
			}
			r.Touch(mod)
			// append at the end
			okApp := false
			for fo, sts := range fieldsWritten(add) {
				if fo.Name() != side.field {
					continue
				}
				for _, st := range sts {
					if c, ok := st.Val.(*ssa.Call); ok {
						if b, ok := c.Call.Value.(*ssa.Builtin); ok && b.Name() == "append" {
							fromField := anyIn(w.backSlice(c.Call.Args[0], flowOpt{}), func(v ssa.Value) bool { fa, y := v.(*ssa.FieldAddr); return y && fieldObj(fa) == fo })
							fromParam := anyIn(w.backSlice(c.Call.Args[1], flowOpt{}), func(v ssa.Value) bool { return isParamVal(v, add.Params[1]) })
							okApp = fromField && fromParam
						}
					}
				}
			}
			r.Decide("flow", "(*M/fifo.Group)."+side.add+": appends the child at the end", okApp, side.field+" = append("+side.field+", child)", "children are not appended in listing order", add.Pos())
			// forward iteration over the same field
			var inv *ssa.Call
			for _, c := range calls(mod) {
				if cc, ok := c.(*ssa.Call); ok && cc.Call.IsInvoke() && cc.Call.Method.Name() == side.mod {
					inv = cc
				}
			}
			okIter := false
			if inv != nil {
				okIter = forwardRangeOver(w, inv.Call.Value, side.field)
			}
			r.Decide("path", "(*M/fifo.Group)."+side.mod+": visits children first to last", okIter, "index from 0 upward over "+side.field, "children are not visited in listed order", mod.Pos())
			if inv == nil {
				continue
			}
			// error policy
			tests := errTests(inv)
			okStop, okAgg := false, false
			g := G(mod)
			for _, t := range tests {
				for _, in := range instrs(mod) {
					ld, isLd := in.(*ssa.UnOp)
					if !isLd || ld.Op != token.MUL {
						continue
					}
					fa, isFa := ld.X.(*ssa.FieldAddr)
					if !isFa || fieldObj(fa).Name() != "aggregateErrors" {
						continue
					}
					for _, e := range branchesOn(ld) {
						// not aggregating: the error edge returns that error without visiting another child
						vals, _, _ := returnValuesFrom(e.False, 0)
						stop := len(vals) > 0 && g.PathTo(blockStart(e.False), true, nil, func(i ssa.Instruction) bool { return i == ssa.Instruction(inv) }) == nil
						for _, v := range vals {
							if v != ssa.Value(inv) {
								stop = false
							}
						}
						if stop && edgeDominatesNonNil(t, e.If.Block()) {
							okStop = true
						}
						// aggregating: Add(err) exactly once, then continue with the next child
						addP := g.PathTo(blockStart(e.True), true, func(i ssa.Instruction) bool {
							c, y := isCall(i, "(*M.MultiError).Add")
							return y && c.Common().Args[1] == ssa.Value(inv)
						}, func(i ssa.Instruction) bool { return i == ssa.Instruction(inv) || isExit(i) })
						if addP == nil && g.PathTo(blockStart(e.True), true, isExit, func(i ssa.Instruction) bool { return i == ssa.Instruction(inv) }) != nil {
							okAgg = true
						}
					}
				}
			}
			r.Decide("path", "(*M/fifo.Group)."+side.mod+": without aggregation the first error stops the group and is returned", okStop, "return err on !aggregateErrors, no further child", "a failing child does not stop a non-aggregating group (or its error is not the one returned)", mod.Pos())
			r.Decide("path", "(*M/fifo.Group)."+side.mod+": with aggregation every error is added and the remaining children still run", okAgg, "merr.Add(err) then continue", "an aggregating group drops an error or stops early", mod.Pos())
		}
		multiErrorAddAlwaysAppends(r)
	})

	r.Guard("C12.R7", "the priority group: request and response sides insert with the same comparison and both stop at the first error", func() {
		grp := w.Named("priority", "Group")
		ops := map[string]string{}
		for _, n := range []string{"AddRequestModifier", "AddResponseModifier"} {
			f := w.method(grp, n)
			if f == nil {
				r.Undecided("M/priority.Group."+n, "UNRESOLVED")
				continue
			}
			r.Touch(f)
			for _, in := range instrs(f) {
				b, ok := in.(*ssa.BinOp)
				if !ok {
					continue
				}
				switch b.Op {
				case token.GEQ, token.GTR, token.LEQ, token.LSS:
					isPrio := func(v ssa.Value) (bool, bool) { // (is a priority load, belongs to the new element)
						ld, ok := v.(*ssa.UnOp)
						if !ok {
							return false, false
						}
						fa, ok := ld.X.(*ssa.FieldAddr)
						if !ok || fieldObj(fa).Name() != "priority" {
							return false, false
						}
						_, isNew := fa.X.(*ssa.Alloc)
						return true, isNew
					}
					px, nx := isPrio(b.X)
					py, ny := isPrio(b.Y)
					if px && py {
						ops[n] = fmt.Sprintf("new%v %s existing%v", nx, b.Op, !ny)
					}
				}
			}
		}
		// the position of a new child is found by the scan over the existing children and by nothing
		// else: every store to the list in an Add method lies inside or behind the scan loop (a
		// shortcut in front of it - "append when not above the last" - decides ties on its own terms)
		for _, side := range []struct{ add, field string }{{"AddRequestModifier", "reqmods"}, {"AddResponseModifier", "resmods"}} {
			f := w.method(grp, side.add)
			if f == nil || f.Blocks == nil {
				continue
			}
			loops := natLoops(f)
			nSt, okSt := 0, true
			var at token.Pos = f.Pos()
			for _, in := range instrs(f) {
				st, isSt := in.(*ssa.Store)
				if !isSt {
					continue
				}
				fa, isFa := st.Addr.(*ssa.FieldAddr)
				if !isFa || fieldObj(fa).Name() != side.field {
					continue
				}
				nSt++
				behind := false
				for _, l := range loops {
					if l.Head.Dominates(st.Block()) {
						behind = true
					}
				}
				if !behind && !belowLast(f, st) {
					okSt = false
					at = st.Pos()
				}
			}
			r.Decide("path", "(*M/priority.Group)."+side.add+": the list changes only inside or behind the scan over the existing children", nSt >= 2 && okSt && len(loops) >= 1, "every store to "+side.field+" is dominated by the head of the scan loop (or guarded by new < priority of the last child, which the scan would answer the same way)", "the list is changed on a path that has not compared the new child with the existing ones in the scan (a shortcut in front of the loop): children of equal priority end up in listed order instead of later-listed first, or the descending order is lost", at)
		}
		r.Decide("sibling", "M/priority.Group: request and response insertion use the same comparison", len(ops) == 2 && ops["AddRequestModifier"] == ops["AddResponseModifier"], "both: "+ops["AddRequestModifier"], fmt.Sprintf("the two sides order equal priorities differently: %v", ops), grp.Obj().Pos())
		okDesc := strings.Contains(ops["AddRequestModifier"], "newtrue >= existingtrue") || strings.Contains(ops["AddRequestModifier"], "newtrue > existingtrue")
		r.Decide("sibling", "M/priority.Group: a new child is placed before the first existing child it is not lower than", okDesc, ops["AddRequestModifier"], "insertion no longer keeps descending priority: "+ops["AddRequestModifier"], grp.Obj().Pos())
		for _, side := range []struct{ mod, field string }{{"ModifyRequest", "reqmods"}, {"ModifyResponse", "resmods"}} {
			f := w.method(grp, side.mod)
			if f == nil {
				continue
			}
			r.Touch(f)
			var inv *ssa.Call
			for _, c := range calls(f) {
				if cc, ok := c.(*ssa.Call); ok && cc.Call.IsInvoke() && cc.Call.Method.Name() == side.mod {
					inv = cc
				}
			}
			ok := inv != nil && forwardRangeOver(w, inv.Call.Value, side.field)
			if ok {
				ok = false
				for _, t := range errTests(inv) {
					vals, _, _ := returnValuesFrom(t.NonNil, 0)
					all := len(vals) > 0
					for _, v := range vals {
						if v != ssa.Value(inv) {
							all = false
						}
					}
					if all && G(f).PathTo(blockStart(t.NonNil), true, nil, func(i ssa.Instruction) bool { return i == ssa.Instruction(inv) }) == nil {
						ok = true
					}
				}
			}
			r.Decide("path", "(*M/priority.Group)."+side.mod+": children run front to back and the first error stops the group", ok, "forward loop, return err", "the priority group does not run in stored order or does not stop at the first error", f.Pos())
		}
		// the parser passes each child's priority with its modifier
		for _, e := range regs {
			if e.Name != "priority.Group" || e.Fn == nil {
				continue
			}
			ok := true
			n := 0
			for _, c := range calls(e.Fn, "(*M/priority.Group).AddRequestModifier", "(*M/priority.Group).AddResponseModifier") {
				n++
				if !anyIn(w.backSlice(c.Common().Args[2], flowOpt{}), func(v ssa.Value) bool { fa, y := v.(*ssa.FieldAddr); return y && jsonTagOf(fa) == "priority" }) {
					ok = false
				}
			}
			r.Decide("flow", "parser of priority.Group: each child is added with its JSON priority", ok && n == 2, "priority field flows into both Add calls", "a child's configured priority is not the one it is added with", e.Fn.Pos())
		}
	})

	r.Guard("C12.R8", "reconfiguration: the new configuration is parsed and validated completely before anything is replaced, then both sides are replaced under the lock", func() {
		sp := r.Use("martianhttp", "Modifier.servePOST")
		if sp == nil {
			return
		}
		g := G(sp)
		var muts []ssa.Instruction
		for _, in := range instrs(sp) {
			switch x := in.(type) {
			case *ssa.Store:
				if fa, ok := x.Addr.(*ssa.FieldAddr); ok && isParamVal(fa.X, sp.Params[0]) {
					muts = append(muts, x)
				}
			case *ssa.Call:
				switch calleeName(x) {
				case "(*M/martianhttp.Modifier).setRequestModifier", "(*M/martianhttp.Modifier).setResponseModifier", "(*M/martianhttp.Modifier).SetRequestModifier", "(*M/martianhttp.Modifier).SetResponseModifier":
					muts = append(muts, x)
				}
			}
		}
		if len(muts) < 3 {
			r.Fail("path", "(*M/martianhttp.Modifier).servePOST: replaces config, request and response modifier", fmt.Sprintf("found %d state updates, want 3", len(muts)), nil, sp.Pos())
		}
		// each fallible step's error edge never reaches a mutation, and the success edge dominates all mutations
		for _, name := range []string{"io/ioutil.ReadAll", "io.ReadAll", "M/parse.FromJSON", "encoding/json.Indent"} {
			for _, c := range plainCalls(sp, name) {
				tests := errTests(c)
				ok := len(tests) > 0
				for _, t := range tests {
					for _, m := range muts {
						if !edgeDominatesNil(t, m.Block()) {
							ok = false
						}
						if g.PathTo(blockStart(t.NonNil), true, nil, func(i ssa.Instruction) bool { return i == m }) != nil {
							ok = false
						}
					}
				}
				// and the failure is reported to the client that posted it: http.Error with a 4xx/5xx
				// status on every path of the error edge (silence reads as "accepted")
				reported := len(tests) > 0
				for _, t := range tests {
					isErrReply := func(i ssa.Instruction) bool {
						e, y := isCall(i, "net/http.Error")
						if !y {
							return false
						}
						k, isK := constInt(e.Common().Args[2])
						return isK && k >= 400
					}
					if g.PathTo(blockStart(t.NonNil), true, isErrReply, isReturn) != nil {
						reported = false
					}
				}
				r.Decide("path", "(*M/martianhttp.Modifier).servePOST: a failure of "+name+" is answered with an error status", reported, "http.Error(rw, ..., 4xx/5xx) on every path of the error edge", "a rejected configuration is answered 200: the client believes it is active while the previous one stays in force", c.Pos())
				r.Paths++
				r.Decide("path", "(*M/martianhttp.Modifier).servePOST: nothing is replaced unless "+name+" succeeded", ok, "every state update is dominated by the success edge", "the active configuration can be (partly) replaced although "+name+" failed", c.Pos())
			}
		}
		// the active configuration is read and replaced under the modifier's lock everywhere
		guardedFieldsRule(r, "martianhttp", "Modifier", "mu", nil, "an exchange can see the request side of one configuration and the response side of another, or a half-written one")
		// under the write lock
		st := lockStates(sp, nil)
		okL := len(muts) > 0
		for _, m := range muts {
			if !st[m].heldW("m.mu") {
				okL = false
			}
		}
		r.Decide("lockset", "(*M/martianhttp.Modifier).servePOST: the replacement happens under the write lock", okL, "all updates under m.mu", "the configuration is swapped without the write lock: an exchange can see the request side of one configuration and the response side of another", sp.Pos())
		// complete: from the first mutation every path to the return passes all of them
		okAll := len(muts) >= 3
		for _, m := range muts {
			if g.PathTo([]ssa.Instruction{muts[0]}, true, func(i ssa.Instruction) bool { return i == m }, isExit) != nil && m != muts[0] {
				okAll = false
			}
		}
		r.Decide("path", "(*M/martianhttp.Modifier).servePOST: an accepted configuration replaces both sides", okAll, "no exit between the first and the last update", "an accepted configuration can replace only part of the active one", sp.Pos())
		// both modifiers come from the one parsed result
		okSrc := true
		for _, m := range muts {
			c, isC := m.(*ssa.Call)
			if !isC {
				continue
			}
			want := "(*M/parse.Result).RequestModifier"
			if strings.Contains(calleeName(c), "Response") {
				want = "(*M/parse.Result).ResponseModifier"
			}
			if !isCallValue(c.Call.Args[1], want) {
				okSrc = false
			}
		}
		r.Decide("flow", "(*M/martianhttp.Modifier).servePOST: request side gets RequestModifier(), response side ResponseModifier() of the parsed result", okSrc, "sides not crossed", "the parsed request/response modifiers are installed on the wrong side", sp.Pos())
	})
}

func unwrapLoad(v ssa.Value) ssa.Value {
	if ld, ok := v.(*ssa.UnOp); ok && ld.Op == token.MUL {
		return ld.X
	}
	return v
}

func extractOfTuple(v ssa.Value, idx int) ssa.Value {
	if v.Referrers() == nil {
		return nil
	}
	for _, u := range *v.Referrers() {
		if e, ok := u.(*ssa.Extract); ok && e.Index == idx {
			return e
		}
	}
	return nil
}

func nameOrDyn(c *ssa.Call) string {
	if n := calleeName(c); n != "" {
		return n
	}
	return "dynamic call"
}

// forwardRangeOver reports whether v is the element of a forward (index 0, 1,
// 2, ...) loop over the receiver field `field`.
func forwardRangeOver(w *World, v ssa.Value, field string) bool {
	for x := range w.backSlice(v, flowOpt{}) {
		ia, ok := x.(*ssa.IndexAddr)
		if !ok {
			if ix, ok2 := x.(*ssa.Index); ok2 {
				_ = ix
			}
			continue
		}
		fromField := anyIn(w.backSlice(ia.X, flowOpt{}), func(y ssa.Value) bool { fa, z := y.(*ssa.FieldAddr); return z && fieldObj(fa).Name() == field })
		if !fromField {
			continue
		}
		// index: phi(-1, i+1) used as i+1 (range loop) or phi(0, i+1) used directly
		idx := ia.Index
		var phi *ssa.Phi
		start := int64(-99)
		if b, isB := idx.(*ssa.BinOp); isB && b.Op == token.ADD {
			if p, isP := b.X.(*ssa.Phi); isP {
				if n, isC := constInt(b.Y); isC && n == 1 {
					phi = p
					start = -1
				}
			}
		}
		if p, isP := idx.(*ssa.Phi); isP {
			phi = p
			start = 0
		}
		if phi == nil {
			continue
		}
		okStart, okInc := false, false
		for _, e := range phi.Edges {
			if n, isC := constInt(e); isC && n == start {
				okStart = true
			}
			if b, isB := e.(*ssa.BinOp); isB && b.Op == token.ADD && b.X == ssa.Value(phi) {
				if n, isC := constInt(b.Y); isC && n == 1 {
					okInc = true
				}
			}
		}
		if okStart && okInc {
			return true
		}
	}
	return false
}

// multiErrorOnlyGrows: outside its constructor the error list of a MultiError
// is only ever appended to: every store to errs is the result of an append
// whose first operand is the list itself. A re-slice (a cap on the number of
// errors kept) loses failures. Shared by C12.R6 and C13.R2.
func multiErrorOnlyGrows(r *Report) {
	w := r.W
	me := w.Named("", "MultiError")
	if me == nil {
		r.Undecided("M.MultiError", "UNRESOLVED")
		return
	}
	n := 0
	for _, f := range w.Funcs("") {
		if f.Signature.Recv() == nil || namedOf(f.Signature.Recv().Type()) != "MultiError" {
			continue
		}
		for _, in := range instrs(f) {
			st, isSt := in.(*ssa.Store)
			if !isSt {
				continue
			}
			fa, isFa := st.Addr.(*ssa.FieldAddr)
			if !isFa || fieldObj(fa).Name() != "errs" {
				continue
			}
			n++
			grows := true
			for _, l := range resolveAll(st.Val) {
				c, isC := l.(*ssa.Call)
				if !isC {
					grows = false
					continue
				}
				if bi, isB := c.Call.Value.(*ssa.Builtin); !isB || bi.Name() != "append" {
					grows = false
					continue
				}
				base := false
				for _, b := range resolveAll(c.Call.Args[0]) {
					if ld, isLd := b.(*ssa.UnOp); isLd {
						if fb, isFb := ld.X.(*ssa.FieldAddr); isFb && fieldObj(fb).Name() == "errs" {
							base = true
						}
					}
					if isCallValue(b, "append") {
						base = true
					}
				}
				if !base {
					grows = false
				}
			}
			r.Touch(f)
			r.Sites++
			r.Decide("flow", fmt.Sprintf("%s: store to errs #%d appends to the list", fnName(f), n), grows, "errs = append(errs, ...)", "the error list is replaced by something else than itself plus new errors (re-sliced, capped, rebuilt): errors already recorded, or the ones beyond a cap, are lost from the report", st.Pos())
		}
	}
	r.Decide("flow", "M.MultiError: the error list is written by its methods", n >= 2, fmt.Sprintf("%d stores", n), "no store to errs found in the methods of MultiError", token.NoPos)
}

// priorityExactRule: priorities are 64-bit integers from the configuration to
// the comparison: nothing in package priority converts a floating-point value
// to an integer (two distinct priorities above 2^53 collapse into one and run
// in listed order instead of by priority).
func priorityExactRule(r *Report) {
	w := r.W
	n := 0
	for _, f := range w.Funcs("priority") {
		for _, in := range instrs(f) {
			cv, ok := in.(*ssa.Convert)
			if !ok {
				continue
			}
			if b, isB := cv.X.Type().Underlying().(*types.Basic); isB && b.Info()&types.IsFloat != 0 {
				if t, isT := cv.Type().Underlying().(*types.Basic); isT && t.Info()&types.IsInteger != 0 {
					n++
					r.Fail("flow", fnName(f)+": a priority goes through a floating-point value", "a float64 is converted to an integer in package priority: distinct 64-bit priorities that differ below 2^-53 of their size become equal, and equal priorities run later-listed-first instead of in descending order", nil, cv.Pos())
				}
			}
		}
	}
	if n == 0 {
		r.Hold("flow", "M/priority: priorities stay integers", "no conversion from a floating-point value to an integer")
	}
}

// belowLast: the store is guarded by a strict test that the new child's
// priority is below that of the last (lowest) existing child - the one case in
// which the scan is known to end without a match, so appending at once is what
// it would do.
func belowLast(f *ssa.Function, st *ssa.Store) bool {
	isNew := func(v ssa.Value) bool {
		for _, p := range f.Params {
			if p.Name() == "priority" && isParamVal(v, p) {
				return true
			}
		}
		if ld, ok := v.(*ssa.UnOp); ok && ld.Op == token.MUL {
			if fa, isFa := ld.X.(*ssa.FieldAddr); isFa && fieldObj(fa).Name() == "priority" {
				_, isAlloc := fa.X.(*ssa.Alloc)
				return isAlloc
			}
		}
		return false
	}
	isLast := func(v ssa.Value) bool {
		ld, ok := v.(*ssa.UnOp)
		if !ok || ld.Op != token.MUL {
			return false
		}
		fa, isFa := ld.X.(*ssa.FieldAddr)
		if !isFa || fieldObj(fa).Name() != "priority" {
			return false
		}
		el, isLd := fa.X.(*ssa.UnOp)
		if !isLd {
			return false
		}
		ia, isIa := el.X.(*ssa.IndexAddr)
		if !isIa {
			return false
		}
		ev := &miniEval{leaf: func(x ssa.Value) (int64, bool) {
			if c, isC := x.(*ssa.Call); isC {
				if b, isB := c.Call.Value.(*ssa.Builtin); isB && b.Name() == "len" {
					return 5, true
				}
			}
			return 0, false
		}}
		k, okK := ev.Int(ia.Index)
		return okK && k == 4
	}
	for _, ce := range ctrlEdges(st.Block()) {
		b, ok := ce.If.Cond.(*ssa.BinOp)
		if !ok {
			continue
		}
		switch {
		case b.Op == token.LSS && isNew(b.X) && isLast(b.Y) && ce.Taken,
			b.Op == token.GTR && isLast(b.X) && isNew(b.Y) && ce.Taken,
			b.Op == token.GEQ && isNew(b.X) && isLast(b.Y) && !ce.Taken,
			b.Op == token.LEQ && isLast(b.X) && isNew(b.Y) && !ce.Taken:
			return true
		}
	}
	return false
}
